"""Driver for the multiphase flow properties (properties C15, C16; specification spec/FlowPropsMP.tla).

* runs TLC on FlowPropsMP (cases with exact expected results, the documented term lists),
* builds interpolators *exactly as FlowPropertiesTwoPhase.from_table builds them* and runs the real functions,
* generates realistic tables (shipped oil+water table, rescalings, synthetic families, rel-perm sets),
* evaluates the documented sums from the spec-exported term lists with the code's own interpolators.
Nothing here decides a property: comparisons against TLC's rationals use bbv.exact.close, realistic series
are logged as sweeps and judged by SweepC15.tla / SweepC16.tla.
"""
from __future__ import annotations

import functools
import math
import hashlib
import json
import warnings
from fractions import Fraction

import numpy as np
import pandas as pd

from .. import env, tlc

PVT_COLS = ("Bo", "Bg", "Bw", "Rs", "Rv", "mu_o", "mu_g", "mu_w")
ALL_INVARIANTS = {
    "C15": ["Admissible", "InterpAtNodes", "MobilityNonNeg", "C15_ZeroAtFirst", "C15_StrictlyIncreasing",
            "C15_IntegralBounds", "C15_Homogeneous", "C15_ScaledIncreasing", "C15_MiIsOne", "C15_FracfaceInUnit"],
    "C16": ["Admissible", "C16_ZeroForConstantTables", "C16_LinearInPhi", "C16_MatchesSlope", "C16_AlphaIsRatio",
            "C16_LambdaIsSum"],
}


# ---- TLC side ----------------------------------------------------------------------------------------------
def export_cases(ctx, prop: str, tier: str) -> list[dict]:
    """Exhaustive run of FlowPropsMP for `prop` on the tier's domain: all invariants, every case exported."""
    sdir = env.scratch("mpexp")
    try:
        cfg = tlc.write_cfg(sdir / "exp.cfg", spec="Spec",
                            constants={"Prop": f'"{prop}"', "Tier": f'"{tier}"', "Deviation": '"none"',
                                       "Export": "TRUE"},
                            invariants=[*ALL_INVARIANTS[prop], "Exported"])
        r = ctx.model_check("FlowPropsMP", cfg, workers=16, scratch=sdir, timeout=1500)
    finally:
        env.cleanup(sdir)
    cases = r.by_tag("CASE")
    if 2 * len(cases) != r.distinct:
        raise tlc.MachineryError(f"FlowPropsMP/{prop}: {r.distinct} states but {len(cases)} exported cases")
    return cases


def export_terms(ctx) -> dict:
    r = ctx.model_check("FlowPropsMP", "MC_FlowPropsMP_terms.cfg", workers=1, exhaustive=False)
    t = r.by_tag("TERMS")
    if len(t) != 1:
        raise tlc.MachineryError("FlowPropsMP did not export its term lists")
    return {"lambda": t[0]["lambda"], "storage": t[0]["storage"]}


# ---- building what the code sees ----------------------------------------------------------------------------
def fl(nd) -> float:
    return int(nd[0]) / int(nd[1])


def fls(seq) -> np.ndarray:
    return np.array([fl(x) for x in seq], dtype=float)


def interpolators(pressure, cols: dict, rho: dict, kr_so, kr_cols: dict, so=None):
    """The two dictionaries from_table hands to the multiphase functions, built the same way (from_table also
    tabulates pressure, the table's pseudopressure column and the saturation path)."""
    from scipy.interpolate import interp1d  # noqa: PLC0415

    allcols = dict(cols)
    allcols["pressure"] = np.asarray(pressure, float)
    allcols["pseudopressure"] = np.asarray(pressure, float) * 1.0
    if so is not None:
        allcols["So"] = np.asarray(so, float)
    pvt = {k: interp1d(pressure, v, fill_value="extrapolate") for k, v in allcols.items()}
    pvt.update(rho)
    kr = {k: interp1d(kr_so, kr_cols[k]) for k in ("kro", "krg", "krw")}
    return pvt, kr


def frames(pressure, cols: dict, so, kr_so, kr_cols: dict, sw: float, as_frame: bool = True):
    """Tables in the form from_table takes (pseudopressure column is required by it but not used)."""
    pa = np.asarray(pressure)
    pvt = {"pressure": pa if pa.dtype.kind == "i" else pa.astype(float),   # an integer column (0, 10, 20, ... as read_csv gives) stays one
           "pseudopressure": np.asarray(pressure, float) * 1.0,
           "So": np.array(so, dtype=float, copy=True)}
    pvt.update({k: np.asarray(v, float) for k, v in cols.items()})
    kr_so = np.asarray(kr_so, float)
    krt = {"So": kr_so, "Sw": np.full(len(kr_so), sw), "Sg": 1 - sw - kr_so}
    krt.update({k: np.asarray(kr_cols[k], float) for k in ("kro", "krg", "krw")})
    if as_frame:
        dfp, dfk = pd.DataFrame(pvt), pd.DataFrame(krt)
        if len(dfp) % 2 == 0:
            # a table that was sorted or concatenated without reset_index: rows in order of increasing pressure, labels not 0..n-1
            dfp.index = np.arange(len(dfp))[::-1].copy()
        if len(dfk) % 3 == 0:
            dfk.index = np.roll(np.arange(len(dfk)), 2)
        return dfp, dfk
    pvt["pressure"] = np.array(pvt["pressure"], copy=True)   # the caller's own buffer (it may be edited in place later)
    return pvt, krt


class CodeError(Exception):
    """The code under test raised on an admissible input (an observation, not a harness failure)."""


def reordered(rho: dict, k: int) -> dict:
    """The same reference densities in another insertion order (a dictionary is keyed by name: sorted JSON gives g, o, w)."""
    import itertools  # noqa: PLC0415

    keys = list(itertools.permutations(sorted(rho)))[k % math.factorial(len(rho))]
    return {name: rho[name] for name in keys}


def from_table(pvt_props, kr_props, rho, phi, sw, p_i, rho_dict=None):
    """rho_dict: the caller's own dictionary object, handed over as it is (a caller that keeps and re-uses it)."""
    from bluebonnet.flow.flowproperties import FlowPropertiesTwoPhase  # noqa: PLC0415

    with warnings.catch_warnings(), np.errstate(all="ignore"):
        warnings.simplefilter("ignore")
        try:
            dens = rho_dict if rho_dict is not None else reordered(rho, int(phi * 1e6 + p_i))
            return FlowPropertiesTwoPhase.from_table(pvt_props, kr_props, dens, phi, sw, p_i)
        except Exception as e:  # noqa: BLE001
            raise CodeError(f"from_table(p_i={p_i}) raised {type(e).__name__}: {e}") from e


def quiet(f, *a):
    with warnings.catch_warnings(), np.errstate(all="ignore"):
        warnings.simplefilter("ignore")
        try:
            return np.asarray(f(*a), dtype=float)
        except Exception as e:  # noqa: BLE001
            raise CodeError(f"{getattr(f, '__name__', f)} raised {type(e).__name__}: {e}") from e


def report_failures(ctx, cases, results, per_clause: int = 4) -> None:
    """Register failures of replayed TLC cases: the first few per clause as violations, all of them counted."""
    counts: dict[str, int] = {}
    for idx, fails in results:
        for f in fails:
            counts[f["clause"]] = counts.get(f["clause"], 0) + 1
            if counts[f["clause"]] <= per_clause:
                ctx.violation(f["clause"], f"TLC case {case_key(cases[idx]['c'])}: {f['what']}",
                              replay={"stage": "case", "case": cases[idx]})
    if counts:
        ctx.extra["replay_failures_per_clause"] = counts
        print("replayed TLC cases failing, per clause:", counts)


def case_key(c: dict) -> str:
    return hashlib.sha1(json.dumps(c, sort_keys=True).encode()).hexdigest()[:16]


def concrete(c: dict) -> dict:
    """A TLC case (rationals) as floats."""
    return {"P": fls(c["P"]), "cols": {k: fls(c["cols"][k]) for k in PVT_COLS}, "So": fls(c["So"]),
            "krS": fls(c["krS"]), "kr": {k: fls(v) for k, v in c["kr"].items()},
            "rho": {k: fl(v) for k, v in c["rho"].items()}, "phi": fl(c["phi"]), "Sw": fl(c["Sw"])}


# ---- the documented sums, from the spec's term lists ----------------------------------------------------------
def eval_terms(terms, pvt, kr, p, so, sw):
    """sum_t rho_t * prod(num_t) / prod(den_t) with the code's own interpolators (arrays p, so)."""
    p = np.asarray(p, float)
    so = np.asarray(so, float)

    def val(name):
        if name in PVT_COLS:
            return pvt[name](p)
        if name in ("kro", "krg", "krw"):
            return kr[name](so)
        if name == "So":
            return so
        if name == "Sg":
            return 1 - so - sw
        if name == "Sw":
            return np.full_like(p, sw)
        raise KeyError(name)

    tot = np.zeros_like(p)
    with np.errstate(all="ignore"):
        for t in terms:
            num = np.ones_like(p)
            for nm in t["num"]:
                num = num * val(nm)
            den = np.ones_like(p)
            for nm in t["den"]:
                den = den * val(nm)
            tot = tot + pvt[t["rho"]] * num / den
    return tot


# ---- realistic tables ------------------------------------------------------------------------------------------
@functools.lru_cache(maxsize=None)
def shipped_oil_water(sw: float = 0.1) -> pd.DataFrame:
    """The df_pvt fixture of tests/flow/test_properties.py."""
    d = env.REPO / "tests" / "data"
    oil = pd.read_csv(d / "pvt_oil.csv")
    water = pd.read_csv(d / "pvt_water.csv").rename(columns={"T": "temperature", "P": "pressure", "Viscosity": "mu_w"})
    ren = {"T": "temperature", "P": "pressure", "Oil_Viscosity": "mu_o", "Gas_Viscosity": "mu_g", "Rso": "Rs"}
    df = water.drop(columns=["temperature"]).merge(oil.rename(columns=ren), on="pressure").assign(Rv=0.0)
    df["So"] = (1 - sw) / ((df["Rs"].max() - df["Rs"]) * df["Bg"] / df["Bo"] / 5.61458 + 1)
    df["pressure"] = df["pressure"].astype(float)
    return df


RHO_SHIPPED = {"rho_o0": 141.5 / (45 + 131.5), "rho_g0": 1.03e-3, "rho_w0": 1.0}


def relperm_table(rng, sw: float, kind: str):
    """An admissible rel-perm set: Brooks-Corey through relative_permeabilities_twophase, or the same with a
    mobile-water column (from_table takes any table)."""
    from bluebonnet.flow.flowproperties import RelPermParams, relative_permeabilities_twophase  # noqa: PLC0415

    if kind == "test":
        prm = RelPermParams(n_o=1, n_g=1, n_w=1, S_or=0, S_gc=0, S_wc=max(0.1, sw), k_ro_max=1, k_rw_max=1, k_rg_max=1)
    else:
        prm = RelPermParams(n_o=float(rng.uniform(1, 6)), n_g=float(rng.uniform(1, 6)), n_w=float(rng.uniform(1, 6)),
                            S_or=float(rng.uniform(0, 0.2)), S_gc=float(rng.uniform(0, 0.1)),
                            S_wc=float(sw + rng.uniform(0, 0.1)), k_ro_max=float(rng.uniform(0.3, 1)),
                            k_rw_max=float(rng.uniform(0.3, 1)), k_rg_max=float(rng.uniform(0.3, 1)))
    df = relative_permeabilities_twophase(prm, sw)
    cols = {k: df[k].to_numpy(float) for k in ("kro", "krg", "krw")}
    if kind == "water":
        cols["krw"] = np.full(len(df), float(rng.uniform(0.01, 0.2)))
    so = df["So"].to_numpy(float)
    order = "So ascending"
    if rng.random() < 0.4:
        # gas-oil rel-perm tables are usually listed by increasing gas saturation, i.e. with So descending
        so = so[::-1].copy()
        cols = {k: v[::-1].copy() for k, v in cols.items()}
        order = "So descending"
    return so, cols, {"kind": kind, "params": [float(x) for x in prm], "rows": order}


def _grid(rng, uniform: bool, n: int, lo: float, hi: float, unit: bool = False):
    if unit:  # p +- 1/2 are nodes: step 1/2
        return lo + 0.5 * np.arange(n)
    if uniform:
        return np.linspace(lo, hi, n)
    steps = rng.uniform(1.0, 3.0, n - 1) * rng.choice([1.0, 1.0, 5.0], n - 1)
    x = np.concatenate([[0.0], np.cumsum(steps)])
    return lo + x * (hi - lo) / x[-1] if (hi - lo) / x[-1] >= 1.0 else lo + x


def make_table(rng, family: str, sw: float) -> dict:
    """One PVT table of a named family: dict(P, cols, So, meta).  FVFs and viscosities positive, pressure increasing."""
    meta = {"family": family}
    if family in ("shipped", "rescaled", "subsampled", "vaporised", "condensate"):
        df = shipped_oil_water(0.1)
        idx = np.arange(len(df))
        if family == "subsampled":
            keep = np.sort(rng.choice(idx[1:-1], size=int(rng.integers(40, 300)), replace=False))
            idx = np.concatenate([[0], keep, [len(df) - 1]])
        P = df["pressure"].to_numpy(float)[idx]
        cols = {k: df[k].to_numpy(float)[idx] for k in PVT_COLS}
        so = df["So"].to_numpy(float)[idx] * (1 - sw) / 0.9
        if family == "rescaled":
            f = {k: float(rng.uniform(0.5, 2.0)) for k in PVT_COLS if k != "Rv"}
            for k, v in f.items():
                cols[k] = cols[k] * v
            unit = float(rng.choice([1.0, 14.5037738, 0.5]))  # pressure in other units (rows stay >= 1 apart)
            P = P * unit
            meta.update({"factors": f, "pressure_unit": unit})
        if family == "condensate":
            # vaporised oil appears above a threshold pressure (Rv exactly 0 up to a table row, rising beyond it)
            k0 = int(rng.integers(len(P) // 4, 3 * len(P) // 4))
            cols["Rv"] = float(rng.uniform(5e-5, 3e-4)) * np.maximum(0.0, (P - P[k0]) / (P[-1] - P[k0]))
            meta.update({"Rv": "zero up to a row, rising above", "Rv_leaves_zero_at": float(P[k0])})
        if family == "vaporised":
            cols["Rv"] = float(rng.uniform(1e-5, 2e-4)) * (1 + P / P[-1])
            meta["Rv"] = "rising"
        return {"P": P, "cols": cols, "So": so, "meta": meta}
    n = int(rng.integers(30, 400))
    uniform = bool(rng.random() < 0.5)
    lo, hi = float(rng.choice([14.7, 100.0, 500.0])), float(rng.uniform(3000, 9000))
    unit = family == "invlinear"
    P = _grid(rng, uniform, n, lo, hi, unit=unit)
    meta.update({"n": n, "uniform": uniform or unit, "lo": lo, "hi": float(P[-1])})
    x = (P - P[0]) / max(P[-1] - P[0], 1.0)
    one = np.ones_like(P)
    if family == "constant":
        cols = {"Bo": 1.3 * one, "Bg": 0.004 * one, "Bw": 1.03 * one, "Rs": 650.0 * one,
                "Rv": (0.0 if rng.random() < 0.5 else 1e-4) * one,
                "mu_o": 0.6 * one, "mu_g": 0.02 * one, "mu_w": 0.4 * one}
        if rng.random() < 0.5:  # viscosities may depend on pressure: storage does not care
            cols["mu_o"] = 0.9 - 0.4 * x
            cols["mu_g"] = 0.015 + 0.02 * x
    elif family == "linear":
        cols = {"Bo": 1.1 + 0.3 * x, "Bg": 0.03 - 0.027 * x, "Bw": 1.04 - 0.02 * x, "Rs": 100 + 700 * x,
                "Rv": (0.0 if rng.random() < 0.5 else 1.0) * (2e-5 + 1e-4 * x),
                "mu_o": 1.0 - 0.5 * x, "mu_g": 0.013 + 0.02 * x, "mu_w": 0.38 + 0.02 * x}
    elif family == "kinked":
        xb = float(rng.uniform(0.25, 0.75))  # bubble point
        below = np.minimum(x, xb)
        above = np.maximum(x - xb, 0.0)
        cols = {"Bo": 1.05 + 0.5 * below - 0.08 * above, "Bg": 0.05 - 0.06 * below - 0.004 * above,
                "Bw": 1.04 - 0.02 * x, "Rs": 50 + 1000 * below, "Rv": (0.0 if rng.random() < 0.5 else 1.0) * 1e-4 * below,
                "mu_o": 1.1 - 0.8 * below + 0.1 * above, "mu_g": 0.013 + 0.02 * x, "mu_w": 0.4 * one}
        meta["bubble_point"] = float(P[0] + xb * (P[-1] - P[0]))
    elif family == "invlinear":  # 1/B linear in p with known slope, Rs and Rv constant
        sl = {"Bo": float(rng.uniform(1e-6, 2e-5)), "Bg": float(rng.uniform(1e-2, 1e-1)), "Bw": float(rng.uniform(0, 5e-6))}
        a0 = {"Bo": 0.7, "Bg": 20.0, "Bw": 0.96}
        cols = {k: 1.0 / (a0[k] + sl[k] * (P - P[0])) for k in ("Bo", "Bg", "Bw")}
        cols.update({"Rs": float(rng.choice([0.0, 500.0])) * one, "Rv": float(rng.choice([0.0, 1e-4])) * one,
                     "mu_o": 0.9 - 0.4 * x, "mu_g": 0.02 * one, "mu_w": 0.4 * one})
        meta["slopes"] = sl
    else:
        raise KeyError(family)
    mode = str(rng.choice(["const", "path", "wiggle"]))
    if mode == "const":
        so = np.full_like(P, float(rng.uniform(0.05, 0.95)) * (1 - sw))
    elif mode == "path":
        so = (1 - sw) * (0.3 + 0.7 * np.minimum(1.0, x / float(rng.uniform(0.3, 0.9))))
    else:
        so = (1 - sw) * np.clip(0.5 + 0.45 * np.sin(7 * x + float(rng.uniform(0, 3))), 0, 1)
    meta["So"] = mode
    return {"P": P, "cols": cols, "So": so, "meta": meta}


def random_rho(rng) -> dict:
    r = rng.random()
    if r < 0.4:
        return dict(RHO_SHIPPED)
    if r < 0.55:
        return {"rho_o0": 1.0, "rho_g0": 1.0, "rho_w0": 1.0}
    return {"rho_o0": float(rng.uniform(0.6, 0.95)), "rho_g0": float(rng.uniform(5e-4, 2e-3)),
            "rho_w0": float(rng.uniform(1.0, 1.1))}


def frac(x) -> Fraction:
    return Fraction(float(x))


def warm_with_other_contents(pvt: dict, kr: dict, calls) -> None:
    """History independence: before the judged calls, the *same dict objects* are used once with other contents (other
    reference densities, two rel-perm curves swapped) on the same grids, then restored.  Results must depend on what the
    dicts hold when the judged call is made, not on what an earlier call saw."""
    saved = {k: pvt[k] for k in ("rho_o0", "rho_g0", "rho_w0")}
    saved_kr = dict(kr)
    try:
        pvt.update({k: 1.7 * v + 0.013 for k, v in saved.items()})
        kr["kro"], kr["krg"] = saved_kr["krg"], saved_kr["kro"]
        for f in calls:
            try:
                quiet(f)
            except Exception:  # noqa: BLE001  (the warm-up is not what is judged)
                pass
    finally:
        pvt.update(saved)
        kr.update(saved_kr)
