"""Driver for the black-oil / water correlations (properties C11 and C12).

Nothing is judged here: the functions below run the implementation and return raw floats (C12 ladder
measurements) or comparison records (C11 array-vs-scalar cases); the rules live in spec/FluidsArray.tla and
spec/SweepC12.tla.
"""
from __future__ import annotations

import hashlib
import itertools
import math
import warnings

import numpy as np

from .. import env

# ---------------------------------------------------------------------------------------------------------
# oils
# ---------------------------------------------------------------------------------------------------------
BOX = {"T": (80.0, 350.0), "API": (12.0, 55.0), "gg": (0.56, 1.3), "R": (20.0, 2500.0)}
PB_MIN = 50.0  # quantifier of C12: bubble point > 50 psia


def _oil():
    env.import_bluebonnet()
    from bluebonnet.fluids import oil  # noqa: PLC0415

    return oil


def bubblepoint(o) -> float:
    return float(_oil().pressure_bubblepoint_Standing(*o))


def lattice_oils() -> list[tuple]:
    """The 7 x 7 x 5 x 7 lattice of the C12 quantifier box, admissible (p_b > 50 psia) oils only."""
    axes = [np.linspace(*BOX["T"], 7), np.linspace(*BOX["API"], 7), np.linspace(*BOX["gg"], 5),
            np.linspace(*BOX["R"], 7)]
    out = []
    for t, a, g, r in itertools.product(*axes):
        o = (float(t), float(a), float(g), float(r))
        if bubblepoint(o) > PB_MIN:
            out.append(o)
    return out


def random_oils(seed_seq, n: int, pb_range=(PB_MIN, math.inf)) -> list[tuple]:
    rng = np.random.default_rng(seed_seq)
    out = []
    while len(out) < n:
        o = tuple(float(rng.uniform(*BOX[k])) for k in ("T", "API", "gg", "R"))
        if pb_range[0] < bubblepoint(o) < pb_range[1]:
            out.append(o)
    return out


# ---------------------------------------------------------------------------------------------------------
# C12: pressure ladder around the bubble point, scalar (Python float) calls
# ---------------------------------------------------------------------------------------------------------
KMAX = 50
NEXT = 99  # label of the two np.nextafter neighbours of p_b


def ladder(pb: float) -> list[tuple[float, str, int]]:
    """(pressure, side, k): 15 psia ... p_b(1-2^-k) ... p_b ... p_b(1+2^-k) ... 2.5 p_b, strictly increasing.
    k = 0: far point; 1..50: p_b(1 -+ 2^-k); 99: nextafter neighbour of p_b."""
    pts: list[tuple[float, str, int]] = []
    lo, half = 15.0, pb * 0.5
    pts.extend((lo * (half / lo) ** (j / 5), "below", 0) for j in range(5))
    pts.extend((pb * (1 - 2.0**-k), "below", k) for k in range(1, KMAX + 1))
    pts.append((math.nextafter(pb, -math.inf), "below", NEXT))
    pts.append((pb, "at", 0))
    pts.append((math.nextafter(pb, math.inf), "above", NEXT))
    pts.extend((pb * (1 + 2.0**-k), "above", k) for k in range(KMAX, 0, -1))
    pts.extend((pb * m, "above", 0) for m in (1.75, 2.0, 2.25, 2.5))
    return pts


STYLES = ("float", "npfloat", "ascending", "descending", "outwards")
# further ways in which one and the same ladder reaches the library; they are measured IN ADDITION to the oil's own style (the
# oil is listed a second time with the style as a fifth entry), so the assignment of the five styles above does not move:
#   field2d : the ladder as a column-major 2-d pressure field (8 x 14 nodes of a simulation grid, Fortran order)
#   facade  : through bluebonnet.fluids.fluid.Fluid (oil_FVF, oil_viscosity) on a column in which every pressure occurs twice
#             (a production history revisits pressures); R_s, density and c_o, which the facade does not offer, from the module
EXTRA_STYLES = ("field2d", "facade")


def style_of(o) -> tuple[str, bool]:
    """How the ladder of oil o is handed to the library (deterministic in o): one Python-float call per pressure, one
    numpy-scalar call per pressure (values taken from arrays / table rows), or one array call with the pressures in ascending,
    descending (depletion) or bubble-point-outwards order; array styles of every other oil give the initial GOR as a Python int
    (a whole number of scf/bbl, as in the docstrings)."""
    h = int(round(o[0] * 977 + o[1] * 131 + o[2] * 10007 + o[3] * 17))
    st = STYLES[h % len(STYLES)]
    return st, bool(st in ("ascending", "descending", "outwards") and (h // len(STYLES)) % 2 == 0)


def measure_ladder(o) -> dict:
    """Evaluate the library along the ladder of oil o = (T, API, gg, R) in the call style style_of(o)."""
    oil = _oil()
    t, a, g, r = o[:4]
    style, int_gor = style_of(o[:4])
    if len(o) > 4:
        style, int_gor = o[4], False
    if int_gor:
        r = int(round(r))   # a Python int
    pb = float(oil.pressure_bubblepoint_Standing(t, a, g, r))
    pts = ladder(pb)
    ps = [p for p, _, _ in pts]
    names = (("rs", oil.solution_gor_Standing), ("bo", oil.b_o_Standing), ("rho", oil.density_Standing),
             ("mu", oil.viscosity_beggs_robinson), ("co", oil.oil_compressibility_undersat_Spivey))
    vals: dict[str, list[float]] = {}
    if style in ("float", "npfloat"):
        conv = float if style == "float" else np.float64
        tt = t if style == "float" else np.float64(t)
        for nm, f in names:
            vals[nm] = [float(f(tt, conv(p), a, g, r)) if (nm != "co" or side != "below") else math.nan for p, side, _ in pts]
    elif style == "facade":
        from bluebonnet.fluids.fluid import Fluid  # noqa: PLC0415

        fl = Fluid(t, a, g, r)
        twice = np.repeat(np.array(ps, dtype=float), 2)   # p0 p0 p1 p1 ...
        col = np.concatenate([twice[0::2], twice[1::2][::-1]])   # every pressure twice: ascending, then descending
        n = len(ps)

        def both(f):
            """the column through f; the two answers for one pressure must be the same number (to 1e-13: vector lanes may round differently),
            else not-a-number is judged"""
            try:
                with warnings.catch_warnings():
                    warnings.simplefilter("ignore")
                    got = np.asarray(f(col.copy()), dtype=float).reshape(-1)
                if got.shape != col.shape:
                    raise ValueError("shape")
            except Exception:  # noqa: BLE001
                return [math.nan] * n
            first, second = got[:n], got[n:][::-1]
            return [float(x) if abs(x - y) <= 1e-13 * abs(x) else math.nan for x, y in zip(first, second)]

        vals["bo"] = both(fl.oil_FVF)
        vals["mu"] = both(fl.oil_viscosity)
        vals["rs"] = both(lambda c: oil.solution_gor_Standing(t, c, a, g, r))
        vals["rho"] = both(lambda c: oil.density_Standing(t, c, a, g, r))
        vals["co"] = both(lambda c: oil.oil_compressibility_undersat_Spivey(t, c, a, g, r))
    else:
        if style == "field2d":
            order = np.arange(len(ps))
            arr = np.asfortranarray(np.array(ps, dtype=float).reshape(8, len(ps) // 8))
        else:
            order = {"ascending": np.arange(len(ps)), "descending": np.arange(len(ps))[::-1],
                     "outwards": np.argsort(np.abs(np.array(ps) - pb), kind="stable")}[style]
            arr = np.array(ps, dtype=float)[order]
        # every routine is called twice on the grid, the second round after all the others have been called with the same fluid
        # and grid (a table builder asks for Rs, Bo, density, then Bo again for another column): the later answer is judged
        for nm, f in names + names[:3]:
            try:
                with warnings.catch_warnings():
                    warnings.simplefilter("ignore")
                    if nm == "mu":   # a scalar routine (the facade vectorises it): looped over the grid, elements are numpy scalars
                        got = np.array([float(f(t, p, a, g, r)) for p in arr.reshape(-1)], dtype=float).reshape(arr.shape)
                    elif nm == "co" and arr.ndim > 1:
                        # c_o takes columns only (it raises on a 2-d field, and b_o_Standing hands it a flat selection):
                        # not part of the property, so the nodes of the field go in as one column
                        got = np.asarray(f(t, arr.reshape(-1), a, g, r), dtype=float).reshape(arr.shape)
                    else:
                        got = np.asarray(f(t, arr.copy(order="K"), a, g, r), dtype=float)
                if got.shape != arr.shape:
                    raise ValueError(f"shape {got.shape} for {arr.shape}")
                got = got.reshape(-1)   # C order of the nodes = order of the ladder
            except Exception:  # noqa: BLE001  an array call that fails has no values: judged as not finite
                got = np.full(len(ps), np.nan)
            back = np.empty(len(ps))
            back[order] = got
            vals[nm] = [float(x) for x in back]
    rows = []
    for i, (p, side, k) in enumerate(pts):
        row = {"p": p, "side": side, "k": k, "rs": vals["rs"][i], "bo": vals["bo"][i], "rho": vals["rho"][i], "mu": vals["mu"][i]}
        if side == "below":
            rs = row["rs"]
            row["pb_of_rs"] = float(oil.pressure_bubblepoint_Standing(t, a, g, rs)) if math.isfinite(rs) else math.nan
        else:
            row["co"] = vals["co"][i]
        rows.append(row)
    return {"oil": [t, a, g, float(r)], "pb": pb, "rows": rows, "style": style, "int_gor": int_gor}


# ---------------------------------------------------------------------------------------------------------
# C11: array call vs scalar call
# ---------------------------------------------------------------------------------------------------------
NP_DTYPE = {"f64": np.float64, "f32": np.float32, "i64": np.int64, "i32": np.int32}
DT_NAME = {np.dtype(v).name: k for k, v in NP_DTYPE.items()}
P_MAX = 20000.0  # realistic range: pressure**2 fits int32


def make_inst(seed_seq) -> dict:
    """One concrete fluid: oil with 150 < p_b < 7000 (so that integers exist below it and 1.03 p_b .. 2.5 p_b
    overlaps [p_b, 20000]), salinity, Sutton pseudocritical point of its gas."""
    env.import_bluebonnet()
    from bluebonnet.fluids import gas  # noqa: PLC0415

    rng = np.random.default_rng(seed_seq)
    o = random_oils(rng.integers(0, 2**31, 4).tolist(), 1, pb_range=(150.0, 7000.0))[0]
    sal = float(rng.uniform(0.0, 25.0))
    if rng.random() < 0.34:
        # whole-number Python ints, as in the repository's own fixtures (temperature=200, api=35, gor=650): with integer
        # pressure arrays every intermediate product is then integer unless the correlation makes it floating
        o = (int(round(o[0])), int(round(o[1])), o[2], int(round(o[3])))
        sal = int(round(sal))
    nh = gas.make_nonhydrocarbon_properties(float(rng.uniform(0, 0.03)), float(rng.uniform(0, 0.02)),
                                            float(rng.uniform(0, 0.04)))
    kind = "wet gas" if rng.random() < 0.5 else "dry gas"
    tpc, ppc = gas.pseudocritical_point_Sutton(o[2], nh, kind)
    return {"T": o[0], "API": o[1], "gg": o[2], "R": o[3], "sal": sal, "tpc": float(tpc), "ppc": float(ppc),
            "pb": bubblepoint(o)}


def calls(inst: dict) -> dict:
    """name -> (array_call(arr), scalar_call(float)).  The scalar call is the library's own scalar evaluation of
    the same correlation (for the Fluid methods that iterate, the correlation they delegate to)."""
    env.import_bluebonnet()
    from bluebonnet.fluids import gas, oil, water  # noqa: PLC0415
    from bluebonnet.fluids.fluid import Fluid  # noqa: PLC0415

    t, a, g, r, s = inst["T"], inst["API"], inst["gg"], inst["R"], inst["sal"]
    tpc, ppc = inst["tpc"], inst["ppc"]
    fl = Fluid(t, a, g, r, salinity=s)
    return {
        "b_o_Standing": (lambda p: oil.b_o_Standing(t, p, a, g, r),) * 2,
        "solution_gor_Standing": (lambda p: oil.solution_gor_Standing(t, p, a, g, r),) * 2,
        "oil_compressibility_undersat_Spivey": (lambda p: oil.oil_compressibility_undersat_Spivey(t, p, a, g, r),) * 2,
        "b_water_McCain": (lambda p: water.b_water_McCain(t, p),) * 2,
        "b_water_McCain_dp": (lambda p: water.b_water_McCain_dp(t, p),) * 2,
        "compressibility_water_McCain": (lambda p: water.compressibility_water_McCain(t, p, s),) * 2,
        "density_water_McCain": (lambda p: water.density_water_McCain(t, p, s),) * 2,
        "viscosity_water_McCain": (lambda p: water.viscosity_water_McCain(t, p, s),) * 2,
        "Fluid.oil_FVF": (fl.oil_FVF, fl.oil_FVF),
        "Fluid.oil_viscosity": (fl.oil_viscosity, lambda p: oil.viscosity_beggs_robinson(t, p, a, g, r)),
        "Fluid.water_FVF": (fl.water_FVF, lambda p: water.b_water_McCain(t, p)),
        "Fluid.water_viscosity": (fl.water_viscosity, fl.water_viscosity),
        "Fluid.gas_FVF": (lambda p: fl.gas_FVF(p, tpc, ppc), lambda p: gas.b_factor_DAK(t, p, tpc, ppc)),
        "Fluid.gas_viscosity": (lambda p: fl.gas_viscosity(p, tpc, ppc),
                                lambda p: gas.viscosity_Sutton(t, p, tpc, ppc, g)),
    }


def pick_pressure(rng, side: str, dtype: str, pb: float, allow_zero: bool = True) -> float:
    """A pressure on the given side of p_b that the dtype can hold, 15 <= p <= 20000.  'at' is p_b itself
    (float64 only).  float32 / integer values keep a 2 % distance from p_b, so that the side is the same
    whether the comparison is made in the array's type or in float64."""
    if side == "at":
        if dtype != "f64":
            msg = "only float64 can hold p_b itself"
            raise ValueError(msg)
        return pb
    if side == "below":
        x = float(rng.uniform(15.0, 0.98 * pb))
        r = rng.random()
        if r < 0.08 and allow_zero:
            return 0.0            # a table grid that starts at zero pressure (linspace(0, p_max, n)): every dtype holds it
        if r < 0.2 and dtype == "f64":
            # just below the bubble point: a few parts per million to a few parts per billion (still "below" in any comparison)
            return float(pb * (1.0 - 10 ** rng.uniform(-8.5, -5.2)))
        if r < 0.3 and dtype == "f64":
            # the last few floating-point numbers below the bubble point (Standing's Rs(p) inverts p_b(Rs) only up to rounding there)
            y = pb
            for _ in range(int(rng.integers(1, 7))):
                y = float(np.nextafter(y, 0.0))
            return y
    elif side == "above":
        x = float(rng.uniform(1.02 * pb, min(2.5 * pb, P_MAX)))
    elif side == "filler":  # a cell of the caller's buffer the view does not show: either side
        return pick_pressure(rng, "below" if rng.random() < 0.5 else "above", dtype, pb, allow_zero)
    else:
        raise ValueError(side)
    if dtype in ("i64", "i32"):
        x = float(math.floor(x)) if side == "below" else float(math.ceil(x))
    elif dtype == "f32":
        x = float(np.float32(x))
    return x


def build_input(case: dict, inst: dict, rng):
    """Base buffer and view for an exported case.  case['base'] lists, per base offset (1-based, as in the
    spec), the side of that cell ('filler' = a cell the view skips); case['view'] lists the base offsets the
    view shows, in order."""
    dt = case["dtype"]
    # the gas correlations divide by the pressure: zero is outside their domain (the scalar call raises as well)
    zero_ok = "gas" not in str(case.get("fn", ""))
    vals = [pick_pressure(rng, s, dt, inst["pb"], zero_ok) for s in case["base"]]
    base = np.array(vals, dtype=NP_DTYPE[dt])
    n = case["n"]
    lay = case["layout"]
    if lay == "contiguous":
        view = base[:]
    elif lay == "strided":
        view = base[::2]
    elif lay == "reversed":
        view = base[::-1]
    else:
        raise ValueError(lay)
    if view.shape != (n,):
        msg = f"layout {lay}: view shape {view.shape} for n={n}"
        raise RuntimeError(msg)
    # the view must show the cells the spec says it shows
    idx = [o - 1 for o in case["view"]]
    if not np.array_equal(view, base[idx]) or (n and lay != "contiguous" and view.base is None):
        msg = "harness built a view that does not match the spec's layout map"
        raise RuntimeError(msg)
    return base, view


def digest(a: np.ndarray) -> str:
    return hashlib.sha1(np.ascontiguousarray(a).tobytes() + str(a.dtype).encode() + str(a.shape).encode()).hexdigest()


def ulps_of(res_elem, ref: float, ulp_dtype: str) -> float:
    """|res - ref| in units in the last place of `ulp_dtype` at |ref| (inf for NaN/inf mismatch)."""
    x = float(res_elem)
    if math.isnan(x) or math.isnan(ref) or math.isinf(x) or math.isinf(ref):
        return 0.0 if (x == ref or (math.isnan(x) and math.isnan(ref))) else math.inf
    sp = float(np.spacing(NP_DTYPE[ulp_dtype](abs(ref))))
    return abs(x - ref) / sp


def run_case(case: dict, inst: dict, seed_seq) -> dict:
    """Execute one exported case on one instantiation; returns the observation record (no judgement)."""
    rng = np.random.default_rng(seed_seq)
    arr_call, sc_call = calls(inst)[case["fn"]]
    base, view = build_input(case, inst, rng)
    before = digest(base)
    pristine = base.copy()   # the scalar references use the values the caller passed, whatever the call does to its array
    obs: dict = {"pressures": [float(x) for x in view], "base": [float(x) for x in base]}
    try:
        res = arr_call(view)
    except Exception as ex:  # noqa: BLE001
        obs["outcome"] = "raises"
        obs["exc"] = f"{type(ex).__name__}: {ex}"
        obs["unmutated"] = digest(base) == before
        return obs
    obs["outcome"] = "returns"
    obs["unmutated"] = digest(base) == before
    if isinstance(res, np.ndarray) and res.dtype.kind == "f" and res.size and res.flags.writeable and not np.shares_memory(res, base):
        # the caller converts the returned table to other units in place and evaluates the same pressures again: a result
        # belongs to the caller, the later answer is the one that is judged
        res *= 1e-3
        try:
            res = arr_call(view)
        except Exception as ex:  # noqa: BLE001
            obs["outcome"] = "raises"
            obs["exc"] = f"second evaluation: {type(ex).__name__}: {ex}"
            return obs
        obs["unmutated"] = digest(base) == before
    if obs["unmutated"] and case["n"] and rng.random() < 0.5:
        # a depletion loop: the caller refills the SAME array object with the next time level's pressures (same side pattern) and
        # evaluates again; the later answer, for the contents the array holds now, is the one that is judged
        zero_ok = "gas" not in str(case.get("fn", ""))
        base[...] = np.array([pick_pressure(rng, s, case["dtype"], inst["pb"], zero_ok) for s in case["base"]], dtype=base.dtype)
        before = digest(base)
        pristine = base.copy()
        obs["pressures"] = [float(x) for x in view]
        obs["base"] = [float(x) for x in base]
        obs["refilled_in_place"] = True
        try:
            res = arr_call(view)
        except Exception as ex:  # noqa: BLE001
            obs["outcome"] = "raises"
            obs["exc"] = f"evaluation after the caller refilled its array in place: {type(ex).__name__}: {ex}"
            return obs
        obs["unmutated"] = digest(base) == before
    obs["is_array"] = isinstance(res, np.ndarray)
    res = np.asarray(res)
    obs["shape"] = list(res.shape)
    obs["dtype"] = DT_NAME.get(res.dtype.name, res.dtype.name)
    obs["aliases_input"] = bool(np.shares_memory(res, base))
    # the floating type involved: float32 when the input or the result is float32, else float64
    ulp_dt = "f32" if (case["dtype"] == "f32" or obs["dtype"] == "f32") else "f64"
    obs["ulp_dtype"] = ulp_dt
    errs, refs, got = [], [], []
    if res.shape == (case["n"],):
        for k, off in enumerate(case["view"]):
            ref = float(sc_call(float(pristine[off - 1])))
            refs.append(ref)
            try:
                got.append(float(res[k]))
                errs.append(ulps_of(res[k], ref, ulp_dt))
            except Exception:  # noqa: BLE001  (e.g. a complex or object result: not a real number at all)
                got.append(math.nan)
                errs.append(math.inf)
    obs["ulps"] = errs
    obs["ref"] = refs
    obs["got"] = got
    return obs
