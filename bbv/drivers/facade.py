"""Driver for C19: runs the Fluid facade, build_pvt_gas and the Sutton pseudocritical point, and resolves the
wiring records exported by spec/Facade.tla (`<<"field", name>>`, `<<"arg", name>>`, `<<"key", name>>`,
`<<"row", "pressure">>`, `<<"sutton", name>>`) into real calls of the stand-alone correlations.

Nothing is decided here: which primitive, which argument order, which grid, which tolerance all come from the
records TLC printed.  This module only executes and measures (ulps / relative error)."""
from __future__ import annotations

import inspect
import math
import warnings

import numpy as np

from .. import quant

FIELDS = ("temperature", "api_gravity", "gas_specific_gravity", "solution_gor_initial", "salinity")


def prims() -> dict:
    from bluebonnet.fluids import gas, oil, water  # noqa: PLC0415

    return {
        "b_water_McCain": water.b_water_McCain,
        "viscosity_water_McCain": water.viscosity_water_McCain,
        "b_factor_DAK": gas.b_factor_DAK,
        "viscosity_Sutton": gas.viscosity_Sutton,
        "b_o_Standing": oil.b_o_Standing,
        "viscosity_beggs_robinson": oil.viscosity_beggs_robinson,
        "pressure_bubblepoint_Standing": oil.pressure_bubblepoint_Standing,
        "z_factor_DAK": gas.z_factor_DAK,
        "density_DAK": gas.density_DAK,
        "compressibility_DAK": gas.compressibility_DAK,
        "pseudocritical_point_Sutton": gas.pseudocritical_point_Sutton,
        "make_nonhydrocarbon_properties": gas.make_nonhydrocarbon_properties,
    }


def required_formals(fn) -> list[str]:
    return [p.name for p in inspect.signature(fn).parameters.values()
            if p.default is inspect.Parameter.empty and p.kind in (p.POSITIONAL_ONLY, p.POSITIONAL_OR_KEYWORD)]


def leading_formals(fn, n: int) -> list[str]:
    """The first n positional parameters, whether or not they have defaults: a parameter that gains a default value is still the
    same parameter of the same primitive (the binding of the spec's wiring table must not depend on it)."""
    return [p.name for p in inspect.signature(fn).parameters.values()
            if p.kind in (p.POSITIONAL_ONLY, p.POSITIONAL_OR_KEYWORD)][:n]


SHARED_AXIS = np.array([431.0, 1507.0, 2750.5, 4203.0, 6111.0, 8019.0])


# ---- parameter sets -------------------------------------------------------------------------------------------
def param_set(rng: np.random.Generator) -> dict:
    """A Fluid parameter set and call arguments inside the correlations' ranges with pairwise different values
    (no value is 0 or 15, the values the repository's tests use)."""
    while True:
        f = {
            "temperature": float(rng.uniform(100.0, 350.0)),
            "api_gravity": float(rng.uniform(15.0, 55.0)),
            "gas_specific_gravity": float(rng.uniform(0.58, 1.15)),
            "solution_gor_initial": float(rng.uniform(150.0, 1800.0)),
            "salinity": float(rng.uniform(0.5, 25.0)),
        }
        a = {
            "temperature_pseudocritical": float(rng.uniform(-115.0, -45.0)),
            "pressure_pseudocritical": float(rng.uniform(600.0, 720.0)),
        }
        if rng.random() < 0.12:
            a["temperature_pseudocritical"] = 0.0   # a heavy gas: 0 deg F (459.67 R) is a pseudocritical temperature like any other
        n = int(rng.integers(3, 7))
        p = np.sort(rng.uniform(120.0, 9000.0, n))
        shared = bool(rng.random() < 0.3)
        if shared:
            p = SHARED_AXIS.copy()   # several fluids of one study are evaluated on the same pressure axis
        if rng.random() < 0.5:
            p = np.roll(p, 1)   # not ascending, and the sorting permutation is a cycle (not its own inverse)
        if rng.random() < 0.25:
            p = np.round(p).astype(np.int64)   # whole-number pressures in an integer array
        vals = [*f.values(), *a.values(), *p.tolist()]
        ok = all(abs(x - y) > 1e-3 * max(abs(x), abs(y)) for i, x in enumerate(vals) for y in vals[i + 1:])
        if ok and abs(f["salinity"] - 15.0) > 0.2:
            a["pressure"] = p
            # a column of a table that was sorted or filtered: a pandas Series whose index is not 0..n-1
            box = "series" if (p.dtype.kind == "f" and rng.random() < 0.25) else "array"
            return {"fields": f, "args": a, "pressure_box": box}


def new_fluid(fields: dict):
    from bluebonnet.fluids import Fluid  # noqa: PLC0415

    return Fluid(**fields)


def _boxed(ps: dict, name: str):
    v = ps["args"][name]
    if name == "pressure" and ps.get("pressure_box") == "series":
        import pandas as pd  # noqa: PLC0415

        n = len(v)
        return pd.Series(np.asarray(v).copy(), index=[(3 * i + 1) % n if n % 3 else (i + 1) % n for i in range(n)])
    return v


def call_facade(method: str, ps: dict, call_args: list[str], reuse: bool = False):
    args = [_boxed(ps, a) for a in call_args]
    if not reuse:
        return getattr(new_fluid(ps["fields"]), method)(*args)
    # the same (mutable dataclass) object was used before with other field values and the same call arguments: the
    # result must reflect the object's *current* temperature, gravities, GOR and salinity
    pert = {"temperature": lambda v: v * 0.8 + 31.0, "api_gravity": lambda v: v * 0.9 + 2.0,
            "gas_specific_gravity": lambda v: v * 0.93 + 0.02, "solution_gor_initial": lambda v: v * 0.7 + 40.0,
            "salinity": lambda v: v * 0.5 + 1.3}
    names = sorted(pert)
    # before the judged call the object differed in exactly ONE field (which one rotates from case to case), so a result
    # memoised under a key that forgets that field would come back stale
    which = names[int(abs(ps["fields"]["temperature"]) * 1000) % len(names)]
    other = dict(ps["fields"])
    other[which] = pert[which](other[which])
    fl = new_fluid(other)
    try:
        getattr(fl, method)(*args)
    except Exception:  # noqa: BLE001  (the warm-up call is not what is judged)
        pass
    for k, v in ps["fields"].items():
        setattr(fl, k, v)
    return getattr(fl, method)(*args)


def _resolve(src, ps: dict, pressure):
    where, name = src
    if where == "field":
        return ps["fields"][name]
    if where == "arg":
        return pressure if name == "pressure" else ps["args"][name]
    raise KeyError(src)


def call_primitive(w: dict, ps: dict, pressure):
    fn = prims()[w["prim"]]
    return fn(*[_resolve(s, ps, pressure) for s in w["args"]])


def facade_case(w: dict, ps: dict) -> dict:
    """Run one facade method and the exported primitive call; returns the worst ulp distance."""
    method = w["unit"][1]
    call_args = [s[1] for s in w["sources"] if s[0] == "arg"]
    with warnings.catch_warnings():
        warnings.simplefilter("ignore")
        got = call_facade(method, ps, call_args)
        got_reused = call_facade(method, ps, call_args, reuse=True)
        if np.shape(got_reused) != np.shape(got) or not np.array_equal(np.asarray(got_reused, dtype=float),
                                                                      np.asarray(got, dtype=float), equal_nan=True):
            return {"ulps": quant.CAP, "n": 1, "got": np.asarray(got_reused, dtype=float).ravel().tolist()[:6],
                    "ref": np.asarray(got, dtype=float).ravel().tolist()[:6], "reused_object_differs": True}
        has_p = "pressure" in call_args
        if not has_p:
            ref = call_primitive(w, ps, None)
            return {"ulps": quant.ulps(got, ref), "n": 1, "got": [float(got)], "ref": [float(ref)]}
        p = ps["args"]["pressure"]
        scal = np.array([float(call_primitive(w, ps, float(x))) for x in p])
        try:
            arr = np.asarray(call_primitive(w, ps, p), dtype=float)
            if arr.shape != p.shape:
                arr = None
        except Exception:  # noqa: BLE001  (scalar-only correlation: judged element by element)
            arr = None
    got = np.asarray(got, dtype=float)
    if got.shape != p.shape:
        return {"ulps": quant.CAP, "n": len(p), "got": got.tolist(), "ref": scal.tolist(), "shape": list(got.shape)}
    worst = 0
    for i in range(len(p)):
        u = quant.ulps(got[i], scal[i])
        if arr is not None:
            u = min(u, quant.ulps(got[i], arr[i]))
        worst = max(worst, u)
    return {"ulps": worst, "n": len(p), "got": got.tolist(), "ref": scal.tolist()}


# ---- gas table ------------------------------------------------------------------------------------------------
def gas_values(rng: np.random.Generator, zero: bool = False, only: str | None = None) -> dict:
    """zero: no contaminants at all; only: exactly one contaminant present (nitrogen-only, H2S-only, CO2-only gases)."""
    while True:
        n2, h2s, co2 = (0.0, 0.0, 0.0) if zero else (float(rng.uniform(0.002, 0.09)), float(rng.uniform(0.002, 0.05)),
                                                     float(rng.uniform(0.002, 0.09)))
        if only is not None:
            n2, h2s, co2 = (n2 if only == "N2" else 0.0, h2s if only == "H2S" else 0.0, co2 if only == "CO2" else 0.0)
        g = float(rng.uniform(0.6, 0.95))
        t = float(rng.uniform(150.0, 340.0))
        vals = [x for x in (n2, h2s, co2) if x != 0.0] + [g]
        if all(abs(x - y) > 2e-3 for i, x in enumerate(vals) for y in vals[i + 1:]):
            return {"N2": n2, "H2S": h2s, "CO2": co2, "Gas Specific Gravity": g, "Reservoir Temperature (deg F)": t}


def sutton_point(rules: dict, gv: dict, dryness: str):
    """The Sutton point of the supplied composition, assembled as SuttonRule of the spec says."""
    P = prims()
    sr = rules["sutton"]
    args = []
    for a in sr["args"]:
        if a[0] == "key":
            args.append(gv[a[1]])
        elif a[0] == "nonhc":
            args.append(P[sr["nonhc"]["prim"]](*[gv[k[1]] for k in a[1]]))
        elif a[0] == "arg":
            args.append(dryness)
    return P[sr["prim"]](*args)


def build_table(gv: dict, dryness: str, maximum):
    from bluebonnet.fluids.fluid import build_pvt_gas  # noqa: PLC0415

    # the composition is a *mapping*: its key order and container type are the caller's business (a dict written in another
    # order, a pandas row with alphabetically sorted columns)
    how = int(round(1e6 * float(gv["Gas Specific Gravity"]))) % 3
    if how == 1:
        gv = {k: gv[k] for k in sorted(gv, reverse=True)}
    elif how == 2:
        import pandas as pd  # noqa: PLC0415

        gv = pd.Series({k: gv[k] for k in sorted(gv)})
    with warnings.catch_warnings():
        warnings.simplefilter("ignore")
        if maximum is None:
            return build_pvt_gas(gv, dryness)
        if float(maximum).is_integer() and how != 1:
            maximum = int(maximum)   # whole-number maxima are usually written as Python ints (the default is 14_000)
        return build_pvt_gas(gv, dryness, maximum)


def pseudo_oracle(p, mu, z, factor: int = 2) -> np.ndarray:
    """factor * cumulative trapezoid of p/(mu z) over p, accumulated in extended precision."""
    p = np.asarray(p, dtype=np.longdouble)
    y = p / (np.asarray(mu, dtype=np.longdouble) * np.asarray(z, dtype=np.longdouble))
    inc = (y[1:] + y[:-1]) * np.diff(p) / 2
    return factor * np.concatenate([[np.longdouble(0)], np.cumsum(inc)])


def row_reference(row_wiring: dict, gv: dict, tpc: float, ppc: float, p: float) -> float:
    vals = []
    for s in row_wiring["args"]:
        if s[0] == "key":
            vals.append(gv[s[1]])
        elif s[0] == "row":
            vals.append(p)
        elif s[0] == "sutton":
            vals.append(tpc if s[1] == "temperature_pseudocritical" else ppc)
        else:
            raise KeyError(s)
    return float(prims()[row_wiring["prim"]](*vals))


def relerr(a: float, b) -> float:
    a = float(a)
    b = float(b)
    if math.isnan(a) or math.isnan(b) or math.isinf(a) or math.isinf(b):
        return math.inf
    if a == b:
        return 0.0
    return abs(a - b) / max(abs(a), abs(b))
