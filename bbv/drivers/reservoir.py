"""Driver for reservoir objects: concrete instantiations of the abstract alphabet of Reservoir.tla,
execution of abstract calls on real objects, projection of what a call shows (stored time, stored
pseudopressure field, returned value) to byte strings / digests."""
from __future__ import annotations

import copy
import functools
import warnings
from dataclasses import dataclass, field

import numpy as np
import pandas as pd

from .. import env

REN_GAS = {"P": "pressure", "Z-Factor": "z-factor", "Cg": "compressibility", "Viscosity": "viscosity",
           "Density": "density"}


@functools.lru_cache(maxsize=None)
def shipped_table(name: str = "pvt_gas") -> pd.DataFrame:
    if name == "pvt_gas":
        return pd.read_csv(env.REPO / "tests/data/pvt_gas.csv").rename(columns=REN_GAS)
    if name == "haynesville":
        return pd.read_csv(env.REPO / "tests/data/pvt_gas_HAYNESVILLE SHALE_20.csv").rename(columns={"Density": "density"})
    raise KeyError(name)


def flow_properties(table: pd.DataFrame, p_i: float):
    from bluebonnet.flow import FlowProperties  # noqa: PLC0415

    with warnings.catch_warnings():
        warnings.simplefilter("ignore")
        return FlowProperties(table, p_i)


@dataclass
class Inst:
    """A concrete reading of the alphabet: object kind, constructor arguments, grids A/B/C, schedule S."""
    kind: str  # "ideal" | "single"
    nx: int
    pf: float
    pi: float
    grids: dict  # "A","B","C" -> ndarray
    sched_S: np.ndarray | None
    table: str = "pvt_gas"
    o_long: bool = False    # the schedule "O" of the alphabet (a length no grid has): one element, or (True) S continued past the longest grid
    pf_box: str = "float"   # how the caller holds the frac-face pressure: Python float, numpy scalar, 0-d array (what interp1d returns), 1-element array
    _fluid: object = field(default=None, repr=False)

    def fluid(self):
        if self._fluid is None:
            self._fluid = flow_properties(shipped_table(self.table), self.pi)
        return self._fluid

    @property
    def pf_alt(self) -> float:
        """The other scalar a caller may assign to `pressure_fracface` between calls (Reservoir.tla: setpf / KA)."""
        return float(0.5 * self.pf + 0.25 * self.pi)

    def new(self, fresh_fluid: bool = False, pf: float | None = None):
        from bluebonnet.flow import IdealReservoir, SinglePhaseReservoir  # noqa: PLC0415

        fluid = flow_properties(shipped_table(self.table), self.pi) if fresh_fluid else self.fluid()
        if pf is not None:
            cls = IdealReservoir if self.kind == "ideal" else SinglePhaseReservoir
            return cls(self.nx, pf, self.pi, fluid)
        pf_arg = {"float": float(self.pf), "np": np.float64(self.pf), "0d": np.array(float(self.pf)),
                  "1d": np.array([float(self.pf)])}[self.pf_box]
        if self.kind == "twophase":
            from bluebonnet.flow import TwoPhaseReservoir  # noqa: PLC0415

            return TwoPhaseReservoir(self.nx, pf_arg, self.pi, fluid, 0.1)
        if self.kind == "multiphase":
            from bluebonnet.flow import MultiPhaseReservoir  # noqa: PLC0415

            return MultiPhaseReservoir(self.nx, pf_arg, self.pi, fluid)
        cls = IdealReservoir if self.kind == "ideal" else SinglePhaseReservoir
        return cls(self.nx, pf_arg, self.pi, fluid)

    def sched(self, s: str, g: str):
        if s == "none":
            return None
        if s == "S":
            return self.sched_S.copy()
        if s == "K":
            return np.full(len(self.sched_S), float(self.pf))
        if s == "KA":
            return np.full(len(self.sched_S), self.pf_alt)
        if s == "E":
            return np.array([], dtype=float)
        if s == "O":
            if self.o_long:
                # a pressure history that goes on after the simulated times: S followed by further readings, two more entries
                # than the longest grid of the instance (never truncated to fit: rejected like any other length mismatch)
                extra = max(len(t) for t in self.grids.values()) + 2 - len(self.sched_S)
                tail = float(self.sched_S[-1]) * (1.0 - 0.01 * np.arange(1, extra + 1))
                return np.concatenate([self.sched_S, tail])
            return np.array([float(self.sched_S[0])])
        raise KeyError(s)

    def describe(self) -> dict:
        return {"kind": self.kind, "nx": self.nx, "pf": self.pf, "pf_held_as": self.pf_box, "pi": self.pi, "table": self.table,
                "len": {g: len(t) for g, t in self.grids.items()}}


PF_BOX = {1: "np", 2: "0d", 4: "1d", 6: "np", 7: "0d", 8: "1d"}


def default_inst(kind: str, variant: int = 0, rng: np.random.Generator | None = None) -> Inst:
    inst = _default_inst(kind, variant, rng)
    inst.pf_box = PF_BOX.get(variant, "float")
    inst.o_long = variant % 4 == 2 and inst.sched_S is not None
    if inst.pf_box == "1d" and kind != "ideal":
        inst.pf_box = "0d"   # a 1-element array is not a scalar setting for the schedule of the single-phase class
    return inst


def _default_inst(kind: str, variant: int = 0, rng: np.random.Generator | None = None) -> Inst:
    if variant == 0:
        a = np.linspace(0, 1.0, 6) ** 2
        b = np.linspace(0, 1.0, 6)   # same length, same first and last time as A, different interior
        c = np.concatenate([a[:3], a[2] + np.linspace(0.1, 1.2, 6) ** 2])   # other length; shares its first 3 times with A
        return Inst(kind, 8, 1000.0, 8000.0, {"A": a, "B": b, "C": c}, np.linspace(4000.0, 1200.0, 6))
    if variant == 9:
        # A is uniform; B (same length) and C (another length) are not, but start with exactly A's first step
        a = 0.1 * np.arange(12)
        b = 0.1 * np.arange(12) ** 1.5
        c = 0.1 * np.arange(17) ** 1.5
        return Inst(kind, 9, 2500.0, 9000.0, {"A": a, "B": b, "C": c}, np.linspace(6000.0, 1500.0, 12))
    if variant == 10:
        # A is fine and long enough for the (ideal) reservoir to deplete to round-off; B (same length) and C are coarse and go far
        # beyond that time: when a profile falls below round-off belongs to the grid, not to the reservoir
        a = np.linspace(0, 10.0, 120) ** 2
        b = np.linspace(0, 1000.0, 120)
        c = np.linspace(0, 55.0, 40) ** 2
        return Inst(kind, 5, 1000.0, 8000.0, {"A": a, "B": b, "C": c}, np.linspace(4000.0, 1200.0, 120))
    if variant == 11:
        # consecutive horizons of one piecewise schedule: B starts where A ends, C after B has ended
        a = np.linspace(0, 3.0, 12) ** 2
        b = 9.0 + np.linspace(0, 4.0, 12) ** 2
        c = 30.0 + np.linspace(0, 4.0, 15) ** 2
        return Inst(kind, 9, 1500.0, 9000.0, {"A": a, "B": b, "C": c}, np.linspace(6000.0, 2000.0, 12))
    rng = rng or np.random.default_rng(variant)
    n1 = int(rng.integers(3, 14))
    n2 = n1 + int(rng.integers(1, 6))

    def grid(n):
        style = rng.integers(0, 3)
        if style == 0:
            g = np.linspace(0, rng.uniform(0.3, 3), n) ** 2
        elif style == 1:
            g = np.concatenate([[0.0], np.cumsum(rng.uniform(1e-4, 0.5, n - 1))])
        else:
            g = np.concatenate([[0.0], np.geomspace(1e-4, rng.uniform(0.5, 5), n - 1)])
        return g + (rng.uniform(0, 10) if rng.random() < 0.3 else 0.0)

    # the dtype of the caller's time arrays is part of the input space (integer day counts, float32 series)
    dt_kind = rng.random()
    if dt_kind < 0.25:
        def grid(n):  # noqa: F811
            return np.concatenate([[0], np.cumsum(rng.integers(1, 4, n - 1))]).astype(np.int64) + int(rng.integers(0, 3))
    elif dt_kind < 0.4:
        _g = grid

        def grid(n):  # noqa: F811
            return _g(n).astype(np.float32)
    pi = float(rng.choice([5000.0, 8000.0, 10000.0]))
    pf = float(rng.uniform(200, 0.9 * pi))
    hi = rng.uniform(pf, 0.95 * pi)
    s = np.sort(rng.uniform(min(300.0, pf), hi, n1))[::-1].copy()
    if rng.random() < 0.3:
        rng.shuffle(s)
    ga = grid(n1)
    gb = grid(n1)
    if rng.random() < 0.5 and ga.dtype == np.float64 and n1 >= 3:
        # B shares A's end points (and length) but not its interior: "the same grid" cannot be decided from a summary
        w = np.sort(rng.uniform(0, 1, n1 - 2))
        gb = np.concatenate([[ga[0]], ga[0] + (ga[-1] - ga[0]) * w, [ga[-1]]])
        if not np.all(np.diff(gb) > 0) or np.array_equal(ga, gb):
            gb = grid(n1)
    gc = grid(n2)
    if rng.random() < 0.5 and ga.dtype == gc.dtype and n1 >= 4:
        # C repeats A's first times and then goes its own way (a resumed / extended horizon)
        k = int(rng.integers(2, n1))
        tail = ga[k - 1] + np.cumsum(np.abs(np.diff(gc))[: n2 - k] + (1 if ga.dtype.kind == "i" else 1e-6))
        gc = np.concatenate([ga[:k], tail.astype(ga.dtype)])
    return Inst(kind, int(rng.integers(3, 25)), pf, pi, {"A": ga, "B": gb, "C": gc}, s,
                table=str(rng.choice(["pvt_gas", "haynesville"])))


def _bytes(a) -> bytes:
    if a is None:
        return b"<none>"
    a = np.asarray(a, dtype=np.float64)
    return a.shape.__repr__().encode() + np.ascontiguousarray(a).tobytes()


def interp_probe(time: np.ndarray):
    t0, t1 = float(time[0]), float(time[-1])
    mids = 0.5 * (time[:-1] + time[1:])
    return np.concatenate([[t0 - 1.0, t0 - 1e-9, -1e300], time, mids, [t1 + 1e-9, t1 + 1.0, 1e300]])


def apply(inst: Inst, obj, call: dict):
    """Execute one abstract call on a real object. Returns (outcome, (time_bytes, field_bytes, ret_bytes), raw)."""
    raw = None
    try:
        with warnings.catch_warnings():
            warnings.simplefilter("ignore")
            if call["op"] == "simulate":
                t = inst.grids[call["grid"]].copy()
                s = inst.sched(call.get("sched", "none"), call["grid"])
                if s is None:
                    obj.simulate(t)
                else:
                    obj.simulate(t, s)
                ret = None
            elif call["op"] == "rf":
                ret = obj.recovery_factor(density=(call["mode"] == "density"))
                raw = ret
                ret = np.array(ret, dtype=np.float64)
            elif call["op"] == "setpf":
                obj.pressure_fracface = inst.pf_alt
                ret = None
            elif call["op"] == "interp":
                f = obj.recovery_factor_interpolator()
                raw = f
                ret = np.asarray(f(interp_probe(np.asarray(obj.time, dtype=np.float64))), dtype=np.float64)
            else:
                raise KeyError(call["op"])
        outcome = "ok"
    except (RuntimeError, ValueError, AttributeError, IndexError, TypeError, KeyError, ZeroDivisionError,
            NotImplementedError) as ex:
        outcome = type(ex).__name__
        ret = None
    proj = (_bytes(getattr(obj, "time", None)), _bytes(getattr(obj, "pseudopressure", None)), _bytes(ret))
    return outcome, proj, raw


def fork(obj):
    """Shallow copy for prefix-tree walks: the library replaces attributes, it does not mutate arrays."""
    return copy.copy(obj)


class Digests:
    """bytes -> small integer id (identical bytes <-> identical id)."""

    def __init__(self):
        self.ids: dict[bytes, int] = {}

    def __call__(self, b: bytes) -> int:
        return self.ids.setdefault(b, len(self.ids) + 1)

    def triple(self, proj) -> list[int]:
        return [self(proj[0]), self(proj[1]), self(proj[2])]


def canonical_program(obs: dict) -> list[dict]:
    """The minimal fresh-object program whose last call shows abstract observation `obs`."""
    of = obs["of"]
    # "alt": the object is constructed with the alternative scalar (see reference), so the schedule argument is omitted too
    sim = {"op": "simulate", "grid": of["grid"], "sched": "none" if of["sched"] in ("ctor", "alt") else of["sched"]}
    if obs["kind"] == "sim":
        return [sim]
    if obs["kind"] == "rf":
        return [sim, {"op": "rf", "mode": obs["mode"]}]
    if obs["kind"] == "interp":
        if obs["mode"] == "flux":
            return [sim, {"op": "interp"}]
        return [sim, {"op": "rf", "mode": obs["mode"]}, {"op": "interp"}]
    raise KeyError(obs["kind"])


def all_observations(kind: str, setters: bool = False) -> list[dict]:
    if kind == "multiphase":
        return []   # nothing ever succeeds on a MultiPhaseReservoir
    scheds = ["ctor", "S"] if kind == "single" else ["ctor"]
    if setters and kind == "single":
        scheds.append("alt")
    out = []
    for g in "ABC":
        for s in scheds:
            if s == "S" and g == "C":
                continue
            of = {"grid": g, "sched": s}
            out.append({"kind": "sim", "of": of})
            for m in ("flux", "density"):
                out.append({"kind": "rf", "of": of, "mode": m})
                out.append({"kind": "interp", "of": of, "mode": m})
    return out


def reference(inst: Inst, obs: dict):
    # the fresh object of an "alt" simulation is one *constructed* with the alternative scalar
    o = inst.new(fresh_fluid=True, pf=inst.pf_alt if obs["of"]["sched"] == "alt" else None)
    res = None
    for c in canonical_program(obs):
        res = apply(inst, o, c)
    return res[0], res[1]


def _reference_group(args):
    """Runs in a freshly spawned interpreter: all observations rooted at ONE simulation (grid, schedule), each on a
    fresh object with a fresh FlowProperties.  A fresh process per simulation means that not even module-level state
    (memoised matrices, global caches) of another simulation can leak into the oracle."""
    kind, variant, of = args[:3]
    setters = bool(args[3]) if len(args) > 3 else False
    from .. import env as _env  # noqa: PLC0415

    _env.import_bluebonnet()
    inst = default_inst(kind, variant)
    out = {}
    import json  # noqa: PLC0415

    for obs in all_observations(kind, setters):
        if obs["of"] == of:
            out[json.dumps(obs, sort_keys=True)] = reference(inst, obs)
    return out


def reference_table(kind: str, variant: int, setters: bool = False) -> dict:
    """abstract observation (json) -> (outcome, projection), computed in fresh interpreters (one per simulation)."""
    import multiprocessing as mp  # noqa: PLC0415

    roots = []
    for obs in all_observations(kind, setters):
        if obs["of"] not in roots:
            roots.append(obs["of"])
    ctx = mp.get_context("spawn")
    table = {}
    if not roots:
        return table
    with ctx.Pool(processes=min(8, len(roots)), maxtasksperchild=1) as pool:
        for part in pool.map(_reference_group, [(kind, variant, of, setters) for of in roots], chunksize=1):
            table.update(part)
    return table
