"""Re-entrancy (Reentrant.tla / ReentrantTrace.tla): the same library calls made from several threads at once.

A *task* is (label, thunk): the thunk builds its own arguments and objects (nothing is shared between tasks except the
library's modules) and returns a value.  Every task is first run alone, twice (the two lone runs must agree bit for bit,
otherwise the task is not a function of its arguments in the first place and is left out and counted); then `nthreads`
threads walk differently rotated copies of the task list at the same time with a short interpreter switch interval, and
every value they get back is compared bit for bit with the lone value.  Events are logged under one lock with one sequence
counter (after the call returned / before it starts), and the log is judged by ReentrantTrace.tla.
"""
from __future__ import annotations

import hashlib
import sys
import threading

import numpy as np

from .. import core, env, tlc, trace


def digest(x) -> str:
    """Bit-level digest of a result (numbers, arrays, tuples/lists/dicts of them, DataFrames, exceptions by type)."""
    import pandas as pd  # noqa: PLC0415

    h = hashlib.sha1()

    def feed(o):
        if isinstance(o, pd.DataFrame):
            h.update(("DF" + repr(list(map(str, o.columns))) + repr(o.shape)).encode())
            for c in o.columns:
                feed(o[c].to_numpy())
        elif isinstance(o, pd.Series):
            h.update(b"S")
            feed(o.to_numpy())
        elif isinstance(o, np.ndarray):
            if o.dtype.names:
                h.update(repr(o.dtype.names).encode())
                for n in o.dtype.names:
                    feed(np.ascontiguousarray(o[n]))
            elif o.dtype == object:
                h.update(repr(o.tolist()).encode())
            else:
                h.update((str(o.dtype) + repr(o.shape)).encode())
                h.update(np.ascontiguousarray(o).tobytes())
        elif isinstance(o, (list, tuple)):
            h.update(f"L{len(o)}".encode())
            for v in o:
                feed(v)
        elif isinstance(o, dict):
            h.update(f"D{len(o)}".encode())
            for k in sorted(o, key=str):
                h.update(str(k).encode())
                feed(o[k])
        elif isinstance(o, (float, np.floating)):
            h.update(np.float64(o).tobytes())
        elif isinstance(o, (int, np.integer, bool, np.bool_, str)) or o is None:
            h.update(repr(o).encode())
        elif isinstance(o, BaseException):
            h.update(("EXC" + type(o).__name__).encode())
        else:
            h.update(repr(o).encode())

    feed(x)
    return h.hexdigest()


_START_ERR = env.START_ERR   # numpy's error state before any library code ran (restored before every lone run of the frame
                             # condition, so that a task is judged against the defaults and not against what an earlier call left behind)


def frame() -> dict:
    """Process-wide settings a library call has no business changing (extended behaviour, X01 only)."""
    import decimal  # noqa: PLC0415
    import os  # noqa: PLC0415
    import random  # noqa: PLC0415
    import warnings  # noqa: PLC0415

    import pandas as pd  # noqa: PLC0415

    f = {"numpy errstate": repr(sorted(np.geterr().items())), "numpy print options": repr(sorted(np.get_printoptions().items())),
         "numpy random state": hashlib.sha1(np.random.get_state()[1].tobytes()).hexdigest(), "random state": hashlib.sha1(repr(random.getstate()).encode()).hexdigest(),
         "decimal precision": decimal.getcontext().prec, "recursion limit": sys.getrecursionlimit(), "working directory": os.getcwd(),
         "switch interval": sys.getswitchinterval(), "warning filters": len(warnings.filters),
         "pandas options": repr([pd.get_option(o) for o in ("mode.copy_on_write", "display.precision", "mode.chained_assignment")])}
    if "matplotlib" in sys.modules:
        import matplotlib as mpl  # noqa: PLC0415

        f["matplotlib rcParams"] = hashlib.sha1(repr(sorted((k, repr(v)) for k, v in mpl.rcParams.items())).encode()).hexdigest()
    return f


def _call(thunk):
    try:
        return thunk(), None
    except Exception as ex:  # noqa: BLE001
        return ex, type(ex).__name__


def stress(ctx: core.Ctx, label: str, tasks: list, *, nthreads: int = 4, rounds: int = 1, tid: int = 1,
           clause_prefix: str = "Reentrant", check_frame: bool = False) -> dict:
    """Run `tasks` [(name, thunk), ...] alone and then concurrently; judge with ReentrantTrace.tla. Returns statistics."""
    ref, kept, unstable, raises_alone = {}, [], [], []
    for i, (name, thunk) in enumerate(tasks, start=1):
        if check_frame:
            np.seterr(**_START_ERR)
        f0 = frame() if check_frame else None
        a, ea = _call(thunk)
        if check_frame:
            f1 = frame()
            for k in f0:
                if f0[k] != f1.get(k):
                    ctx.violation("Frame", f"{label}: task '{name}' changed a process-wide setting: {k} was {f0[k]!r:.80}, is {f1.get(k)!r:.80}",
                                  replay={"stage": "threads", "label": label, "task": name})
        b, eb = _call(thunk)
        da, db = digest(a), digest(b)
        if da != db or ea != eb:
            unstable.append(name)      # not a function of its arguments even alone: not this clause's business
            continue
        ref[i] = (da, ea)
        if ea is not None:
            raises_alone.append(f"{name}: {ea}")
        kept.append((i, name, thunk))
    if len(kept) < 2:
        return {"label": label, "tasks": len(kept), "unstable": unstable, "raises_alone": raises_alone, "overlap": 0, "calls": 0}
    lock = threading.Lock()
    events: list[dict] = []
    seq = [0]

    def log(ev):
        with lock:
            seq[0] += 1
            ev["seq"] = seq[0]
            ev["tid"] = tid
            events.append(ev)

    def worker(th):
        k = (th - 1) * max(1, len(kept) // nthreads)
        order = kept[k:] + kept[:k]
        if th % 2 == 0:
            order = order[::-1]
        for _ in range(rounds):
            for i, _name, thunk in order:
                log({"ev": "call", "th": th, "aid": i})
                v, e = _call(thunk)
                d = digest(v)
                log({"ev": "ret", "th": th, "aid": i, "same": d == ref[i][0], "err": e is not None and e != ref[i][1]})

    old = sys.getswitchinterval()
    sys.setswitchinterval(1e-5)
    try:
        threads = [threading.Thread(target=worker, args=(th,)) for th in range(1, nthreads + 1)]
        for t in threads:
            t.start()
        for t in threads:
            t.join()
    finally:
        sys.setswitchinterval(old)
    # overlap actually achieved: calls that began while another thread was inside a call on another task
    inflight, overlap = {}, 0
    for e in events:
        if e["ev"] == "call":
            if any(a != e["aid"] for t, a in inflight.items() if t != e["th"]):
                overlap += 1
            inflight[e["th"]] = e["aid"]
        else:
            inflight.pop(e["th"], None)
    names = {i: n for i, n, _ in kept}
    verdicts = validate(ctx, events, nthreads, max(names))
    for v in verdicts:
        e = events[v["seq"] - 1]
        for c in v["clauses"]:
            if c in ("Pairing", "Unfinished"):
                raise tlc.MachineryError(f"re-entrancy log of {label} is malformed at seq {v['seq']}: {c}")
            ctx.violation(f"{clause_prefix}:{c}", f"{label}: task '{names[e['aid']]}' called from thread {e['th']} while other threads were "
                          "calling the library " + ("raised" if c == "NoRaise" else "returned a value that differs from the value the same "
                          "call returns when it runs alone"), replay={"stage": "threads", "label": label, "task": names[e["aid"]]})
    return {"label": label, "tasks": len(kept), "unstable": unstable, "raises_alone": raises_alone, "overlap": overlap,
            "calls": len(events) // 2, "threads": nthreads}


def validate(ctx: core.Ctx, events: list[dict], nthreads: int, maxaid: int) -> list[dict]:
    sdir = env.scratch("reent")
    try:
        cfg = tlc.write_cfg(sdir / "ReentrantTrace.cfg", spec="TraceSpec",
                            constants={"Threads": "{" + ", ".join(str(t) for t in range(1, nthreads + 1)) + "}",
                                       "Args": "{" + ", ".join(str(a) for a in range(1, maxaid + 1)) + "}", "MaxCalls": 1000000000, "Deviation": '"none"'},
                            postcondition="TraceAccepted")
        return trace.validate(ctx, "ReentrantTrace", events, cfg=str(cfg))
    finally:
        env.cleanup(sdir)


def model(ctx: core.Ctx) -> None:
    """Design-level runs of Reentrant.tla: the design holds for three threads, each deviation is refuted with two threads and
    passes with one (which is why a single-threaded suite cannot see it), and the exploration does interleave."""
    ctx.model_check("Reentrant", "MC_Reentrant.cfg", workers=4)
    for dev in ("SharedScratch", "SharedMemo"):
        ctx.expect_refuted("Reentrant", f"MC_Reentrant_dev_{dev}.cfg", "ReturnsOwn")
        ctx.model_check("Reentrant", f"MC_Reentrant_dev_{dev}_1thread.cfg", exhaustive=False)
    ctx.expect_refuted("Reentrant", "MC_Reentrant_dev_NoOverlap.cfg", "NeverTwoInFlight")


def replay(ctx: core.Ctx, obj: dict) -> None:
    """Re-run the task group of a reported re-entrancy violation (more rounds: the interleaving is not reproducible as such)."""
    r = obj["replay"]
    print("replaying re-entrancy group", r["label"], "reported task:", r["task"])
    clause(ctx, [r["label"]], rounds=6)


def clause(ctx: core.Ctx, groups: list[str], *, nthreads: int | None = None, rounds: int | None = None, check_frame: bool = False) -> None:
    """The re-entrancy clause of a property check: design-level runs of Reentrant.tla, then the named task groups of
    drivers/threadtasks.py run from several threads and judged by ReentrantTrace.tla."""
    from . import threadtasks  # noqa: PLC0415

    model(ctx)
    stats = []
    for k, g in enumerate(groups):
        rng = np.random.default_rng([ctx.seed, 4242, k])
        tasks = getattr(threadtasks, g)(rng)
        st = stress(ctx, g, tasks, nthreads=nthreads or (4 if ctx.quick else 8), rounds=rounds or (1 if ctx.quick else 4), tid=900 + k,
                    check_frame=check_frame)
        for name, _ in tasks:
            ctx.case(f"threads/{g}/{name}")
        # a call that raises when it runs alone is not this clause's business (every task succeeds on the pinned tree; under a
        # changed tree the property's own clauses judge it): it is compared like any other outcome and counted here
        st["raises_alone"] = len(st["raises_alone"])
        stats.append(st)
    ctx.extra.setdefault("reentrancy", []).extend(stats)
    ctx.assumptions.append("re-entrancy clause: values returned under 4 (thorough: 8) concurrent threads with a 10 us switch interval are compared bit for bit with "
                           "the same call run alone; the interleavings are whatever the interpreter scheduled (overlap counts in coverage.reentrancy), not an "
                           "exhaustive set; third-party code (numpy, scipy, pandas) is trusted to be re-entrant")
