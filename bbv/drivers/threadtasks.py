"""Task lists for the re-entrancy clause (drivers/threads.py): per area of the library, calls with *different* arguments
(different gases, isotherms, oils, tables, grids), each building everything it needs itself, so that the only thing two
concurrent tasks can share is state the library keeps at module or class level."""
from __future__ import annotations

import warnings

import numpy as np
import pandas as pd

from . import reservoir as rdrv

GASES = [  # (T F, T_pc F, p_pc psia, gravity)
    (120.0, -45.0, 640.0, 0.80), (200.0, -100.0, 650.0, 0.65), (300.0, -81.0, 657.0, 0.70), (400.0, -140.0, 665.0, 0.58),
    (95.5, -60.0, 672.0, 0.72), (260.0, -30.0, 630.0, 0.90),
]


def _q(f, *a, **k):
    def thunk():
        with warnings.catch_warnings():
            warnings.simplefilter("ignore")
            return f(*a, **k)
    return thunk


def gas_z(rng, n: int = 48) -> list:
    from bluebonnet.fluids import gas  # noqa: PLC0415

    tasks = []
    for j in range(n):
        t, tpc, ppc, _g = GASES[j % len(GASES)]
        p = float(np.round(10.0 ** rng.uniform(1.0, 4.1), 3))
        p = min(p, 29.0 * ppc)
        tasks.append((f"z_factor_DAK(T={t}, p={p}, T_pc={tpc}, p_pc={ppc})", _q(gas.z_factor_DAK, t, p, tpc, ppc)))
        if j % 3 == 0:
            tr = 1.2 + 1.8 * rng.random()
            pr = 0.2 + 20 * rng.random()
            tasks.append((f"z_factor_hallyarbrough(p_r={pr:.4f}, T_r={tr:.4f})", _q(gas.z_factor_hallyarbrough, pr, tr)))
    return tasks


def gas_props(rng, n: int = 36) -> list:
    from bluebonnet.fluids import gas  # noqa: PLC0415

    tasks = []
    fns = [("b_factor_DAK", lambda t, p, tpc, ppc, g: gas.b_factor_DAK(t, p, tpc, ppc)),
           ("density_DAK", lambda t, p, tpc, ppc, g: gas.density_DAK(t, p, tpc, ppc, g)),
           ("compressibility_DAK", lambda t, p, tpc, ppc, g: gas.compressibility_DAK(t, p, tpc, ppc)),
           ("viscosity_Sutton", lambda t, p, tpc, ppc, g: gas.viscosity_Sutton(t, p, tpc, ppc, g))]
    for j in range(n):
        t, tpc, ppc, g = GASES[(j * 5 + 1) % len(GASES)]
        p = float(np.round(10.0 ** rng.uniform(1.2, 4.0), 2))
        name, f = fns[j % len(fns)]
        tasks.append((f"{name}(T={t}, p={p}, T_pc={tpc}, p_pc={ppc}, g={g})", _q(f, t, p, tpc, ppc, g)))
    return tasks


def gas_pseudopressure(rng, n: int = 10) -> list:
    from bluebonnet.fluids import gas  # noqa: PLC0415

    tasks = []
    for j in range(n):
        t, tpc, ppc, g = GASES[(j * 7 + 2) % len(GASES)]
        p = float(np.round(rng.uniform(200.0, 6000.0), 1))
        tasks.append((f"pseudopressure_Hussainy(T={t}, p={p}, T_pc={tpc}, p_pc={ppc}, g={g})",
                      _q(gas.pseudopressure_Hussainy, t, p, tpc, ppc, g)))
    return tasks


def tables(rng, n: int = 6) -> list:
    from bluebonnet.fluids import build_pvt_gas  # noqa: PLC0415

    tasks = []
    for j in range(n):
        vals = {"N2": [0.0, 0.02, 0.0][j % 3], "H2S": [0.0, 0.0, 0.01][j % 3], "CO2": [0.0, 0.03, 0.0][j % 3],
                "Gas Specific Gravity": float(np.round(0.6 + 0.3 * rng.random(), 3)),
                "Reservoir Temperature (deg F)": float(np.round(120 + 250 * rng.random(), 1))}
        pmax = [400.0, 650.0, 900.0][j % 3]
        dry = ["wet gas", "dry gas"][j % 2]
        tasks.append((f"build_pvt_gas({vals}, '{dry}', {pmax})", _q(build_pvt_gas, dict(vals), dry, pmax)))
    return tasks


def sutton(rng, n: int = 12) -> list:
    from bluebonnet.fluids import gas  # noqa: PLC0415

    tasks = []
    for j in range(n):
        frac = (float(np.round(0.05 * rng.random(), 4)), float(np.round(0.05 * rng.random(), 4)), float(np.round(0.05 * rng.random(), 4)))
        g = float(np.round(0.6 + 0.5 * rng.random(), 3))
        kind = ["wet gas", "dry gas"][j % 2]

        def f(frac=frac, g=g, kind=kind):
            nh = gas.make_nonhydrocarbon_properties(*frac)
            return gas.pseudocritical_point_Sutton(g, nh, kind)
        tasks.append((f"pseudocritical_point_Sutton(g={g}, fractions={frac}, '{kind}')", _q(f)))
    return tasks


OILS = [(200.0, 35.0, 0.8, 650.0), (150.0, 42.0, 0.7, 1200.0), (260.0, 28.0, 0.9, 300.0), (120.0, 50.0, 0.65, 2000.0)]


def _parray(rng, pb, kind):
    lo, hi = 0.2 * pb, 2.5 * pb
    p = np.sort(rng.uniform(lo, hi, 9))
    p[4] = pb
    if kind == "int":
        return np.round(p).astype(np.int64)
    if kind == "f32":
        return p.astype(np.float32)
    if kind == "rev":
        return p[::-1].copy()
    return p


def oil_water(rng) -> list:
    from bluebonnet.fluids import oil, water  # noqa: PLC0415

    tasks = []
    for j, (t, api, g, gor) in enumerate(OILS):
        pb = float(oil.pressure_bubblepoint_Standing(t, api, g, gor))
        for kind in ("f64", "int", "rev", "scalar"):
            p = float(np.round(rng.uniform(0.3, 2.0) * pb, 1)) if kind == "scalar" else _parray(rng, pb, kind)
            tag = f"T={t}, API={api}, g={g}, GOR={gor}, p[{kind}]"
            tasks += [
                (f"b_o_Standing({tag})", _q(lambda p=p, a=(t, api, g, gor): oil.b_o_Standing(a[0], p.copy() if hasattr(p, "copy") else p, a[1], a[2], a[3]))),
                (f"solution_gor_Standing({tag})", _q(lambda p=p, a=(t, api, g, gor): oil.solution_gor_Standing(a[0], p.copy() if hasattr(p, "copy") else p, a[1], a[2], a[3]))),
                *([(f"viscosity_beggs_robinson({tag})", _q(lambda p=p, a=(t, api, g, gor): oil.viscosity_beggs_robinson(a[0], p, a[1], a[2], a[3])))]
                  if kind == "scalar" else []),   # documented for one pressure
                (f"density_Standing({tag})", _q(lambda p=p, a=(t, api, g, gor): oil.density_Standing(a[0], p.copy() if hasattr(p, "copy") else p, a[1], a[2], a[3]))),
                *([(f"oil_compressibility_Standing({tag})", _q(lambda p=p, a=(t, api, g, gor): oil.oil_compressibility_Standing(a[0], p, a[1], a[2], a[3], -70.0 + a[0] / 10.0, 640.0 + a[1])))]
                  if kind == "scalar" else []),
            ]
        sal = [0.0, 2.5, 8.0, 15.0][j]
        pw = np.round(rng.uniform(100.0, 9000.0, 7), 1)
        tasks += [
            (f"b_water_McCain(T={t}, p=array, S={sal})", _q(lambda pw=pw, t=t, sal=sal: water.b_water_McCain(t, pw.copy()))),
            (f"b_water_McCain_dp(T={t}, p=array, S={sal})", _q(lambda pw=pw, t=t, sal=sal: water.b_water_McCain_dp(t, pw.copy()))),
            (f"compressibility_water_McCain(T={t}, p=array, S={sal})", _q(lambda pw=pw, t=t, sal=sal: water.compressibility_water_McCain(t, pw.copy(), sal))),
            (f"density_water_McCain(T={t}, p=array, S={sal})", _q(lambda pw=pw, t=t, sal=sal: water.density_water_McCain(t, pw.copy(), sal))),
            (f"viscosity_water_McCain(T={t}, p=array, S={sal})", _q(lambda pw=pw, t=t, sal=sal: water.viscosity_water_McCain(t, pw.copy(), sal))),
        ]
    return tasks


def facade(rng) -> list:
    from bluebonnet.fluids import Fluid  # noqa: PLC0415

    tasks = []
    for j, (t, api, g, gor) in enumerate(OILS):
        sal = [0.0, 3.0, 10.0, 1.0][j]
        p = np.round(np.sort(rng.uniform(50.0, 6000.0, 8)), 1)
        for m in ("water_FVF", "water_viscosity", "gas_FVF", "gas_viscosity", "oil_FVF", "oil_viscosity"):
            def f(m=m, p=p, a=(t, api, g, gor, sal)):
                fl = Fluid(a[0], a[1], a[2], a[3], a[4])
                if m.startswith("gas_"):
                    return getattr(fl, m)(p.copy(), -70.0 + a[0] / 10.0, 640.0 + a[1])
                return getattr(fl, m)(p.copy())
            tasks.append((f"Fluid({t}, {api}, {g}, {gor}, {sal}).{m}(array)", _q(f)))
    return tasks


def relperm(rng, n: int = 16) -> list:
    from bluebonnet.flow import RelPermParams, relative_permeabilities, relative_permeabilities_twophase  # noqa: PLC0415

    tasks = []
    for j in range(n):
        par = dict(n_o=float(np.round(1 + 5 * rng.random(), 2)), n_g=float(np.round(1 + 5 * rng.random(), 2)), n_w=float(np.round(1 + 5 * rng.random(), 2)),
                   S_or=float(np.round(0.3 * rng.random(), 3)), S_wc=float(np.round(0.3 * rng.random(), 3)), S_gc=float(np.round(0.3 * rng.random(), 3)),
                   k_ro_max=float(np.round(rng.random(), 3)), k_rw_max=float(np.round(rng.random(), 3)), k_rg_max=float(np.round(rng.random(), 3)))
        so = np.round(rng.random(12), 4)
        sw = np.round((1 - so) * rng.random(12), 4)
        sg = 1.0 - so - sw
        so = 1.0 - sw - sg

        def f(par=par, so=so, sw=sw, sg=sg):
            sat = np.zeros(len(so), dtype=[("So", "f8"), ("Sw", "f8"), ("Sg", "f8")])
            sat["So"], sat["Sw"], sat["Sg"] = so, sw, sg
            return relative_permeabilities(sat, RelPermParams(**par))
        tasks.append((f"relative_permeabilities(12 records, {par})", _q(f)))
        if j % 2 == 0:
            swc = float(np.round(par["S_wc"] * 0.5, 4))
            tasks.append((f"relative_permeabilities_twophase({par}, Sw={swc})",
                          _q(lambda par=par, swc=swc: relative_permeabilities_twophase(RelPermParams(**par), swc))))
    return tasks


def _grid(rng, kind: int, n: int) -> np.ndarray:
    if kind == 0:
        return np.linspace(0.0, 2.0 + 3 * rng.random(), n)
    if kind == 1:
        return np.linspace(0.0, np.sqrt(1.0 + 4 * rng.random()), n) ** 2
    t = np.concatenate([[0.0], np.cumsum(10.0 ** rng.uniform(-4, -1, n - 1))])
    return t


def reservoirs(rng, n: int = 12) -> list:
    """One fresh fluid wrapper and one fresh reservoir object per call: simulate, both recovery modes, the interpolator."""
    from bluebonnet.flow import FlowProperties, IdealReservoir, SinglePhaseReservoir  # noqa: PLC0415

    names = ["pvt_gas", "haynesville"]
    tabs = {k: rdrv.shipped_table(k) for k in names}
    tasks = []
    for j in range(n):
        nx = int(rng.integers(8, 60))
        nt = int(rng.integers(20, 120))
        t = _grid(rng, j % 3, nt)
        pi = float(np.round(rng.uniform(6000.0, 11000.0), 1))
        pf = float(np.round(rng.uniform(0.05, 0.9) * pi, 1))
        sched = None
        if j % 4 == 1:
            sched = np.round(np.linspace(pi, pf, nt), 2)
        elif j % 4 == 3:
            sched = np.where(np.arange(nt) < nt // 2, 0.5 * (pi + pf), pf)
        ideal = j % 5 == 4
        tab = tabs[names[j % 2]]

        def f(nx=nx, t=t, pi=pi, pf=pf, sched=sched, ideal=ideal, tab=tab):
            if ideal:
                r = IdealReservoir(nx, pf, pi, None)
                r.simulate(t.copy())
            else:
                fp = FlowProperties(tab.copy(deep=True), pi)
                r = SinglePhaseReservoir(nx, pf, pi, fp)
                if sched is None:
                    r.simulate(t.copy())
                else:
                    r.simulate(t.copy(), sched.copy())
            rf = r.recovery_factor()
            rfd = None if ideal else r.recovery_factor(density=True)
            q = np.concatenate([[-1.0], t[::3], [t[-1] * 2]])
            return (r.time, r.pseudopressure, rf, rfd, r.recovery_factor_interpolator()(q))
        kind = "IdealReservoir" if ideal else "SinglePhaseReservoir"
        tasks.append((f"{kind}(nx={nx}, pf={pf}, pi={pi}).simulate({nt} levels, grid kind {j % 3}, schedule {'yes' if sched is not None else 'no'}) + recovery + interpolator", _q(f)))
    return tasks


def wrappers(rng, n: int = 10) -> list:
    from bluebonnet.flow import FlowProperties  # noqa: PLC0415
    from bluebonnet.flow.flowproperties import FlowPropertiesSimple, rescale_pseudopressure  # noqa: PLC0415

    tab = rdrv.shipped_table("pvt_gas")
    tasks = []
    for j in range(n):
        pi = float(np.round(rng.uniform(3000.0, 12000.0), 1))
        pf = float(np.round(rng.uniform(0.05, 0.8) * pi, 1))
        scale = [1.0, 6894.757, 0.0689][j % 3]
        q = rng.uniform(-0.5, 1.5, 9)

        def f(pi=pi, pf=pf, scale=scale, q=q, simple=j % 4 == 3):
            t = tab.copy(deep=True)
            t["pressure"] = t["pressure"] * scale
            if simple:
                fp = FlowPropertiesSimple(t, pi * scale)
            else:
                fp = FlowProperties(t, pi * scale)
            r = rescale_pseudopressure(tab.copy(deep=True), pf, pi)
            return (fp.m_i, fp.m_scaled_func(np.array([pf * scale, pi * scale])), fp.alpha(q), r["pseudopressure"].to_numpy())
        tasks.append((f"FlowProperties(pvt_gas x {scale}, p_i={pi}) + lookups + rescale_pseudopressure(p_f={pf})", _q(f)))
    return tasks


def forecasts(rng, n: int = 8) -> list:
    from bluebonnet.flow import IdealReservoir  # noqa: PLC0415
    from bluebonnet.forecast import Bounds, ForecasterOnePhase  # noqa: PLC0415

    r = IdealReservoir(40, 1000.0, 9000.0, None)
    tt = np.linspace(0, np.sqrt(20.0), 400) ** 2
    r.simulate(tt)
    rf = r.recovery_factor().copy()
    tasks = []
    for j in range(n):
        m = float(np.round(10.0 ** rng.uniform(2, 6), 2))
        tau = float(np.round(10.0 ** rng.uniform(1.5, 3.0), 2))
        days = np.linspace(1.0, 4.0 * tau, 120)

        def f(m=m, tau=tau, days=days, fixed=j % 2 == 1):
            from scipy.interpolate import interp1d  # noqa: PLC0415

            curve = interp1d(tt.copy(), rf.copy(), bounds_error=False, fill_value=(0.0, rf[-1]))
            fc = ForecasterOnePhase(curve, Bounds(M=(0.0, np.inf), tau=(1e-10, np.inf)))
            cum = m * curve(days / tau)
            if fixed:
                fc.fit(days.copy(), cum.copy(), tau=tau)
            else:
                fc.fit(days.copy(), cum.copy())
            return (fc.M_, fc.tau_, fc.forecast_cum(days[::7].copy()))
        tasks.append((f"ForecasterOnePhase.fit(M={m}, tau={tau}, {'fixed tau' if j % 2 else 'free'}) + forecast_cum", _q(f)))
    return tasks


def multiphase(rng, n: int = 6) -> list:
    from bluebonnet.flow import FlowPropertiesTwoPhase, RelPermParams, relative_permeabilities_twophase  # noqa: PLC0415
    from . import multiphase as mp  # noqa: PLC0415

    tasks = []
    for j in range(n):
        sw = [0.1, 0.15, 0.2][j % 3]
        tab = mp.shipped_oil_water(sw)
        par = RelPermParams(n_o=1 + j % 3, n_g=2.0, n_w=1.5 + j % 2, S_or=0.0, S_wc=sw, S_gc=0.0, k_ro_max=1.0, k_rw_max=0.3 + 0.1 * j, k_rg_max=0.8)
        rho = {"rho_o0": 50.0 + j, "rho_g0": 0.05 + 0.01 * j, "rho_w0": 62.0 + j}
        phi = 0.05 + 0.03 * j
        pi = float(tab["pressure"].to_numpy()[-1 - j])

        def f(tab=tab, par=par, rho=rho, phi=phi, sw=sw, pi=pi):
            kr = relative_permeabilities_twophase(par, sw)
            fp = FlowPropertiesTwoPhase.from_table(tab.copy(deep=True), kr, dict(rho), phi, sw, pi)
            return (fp.m_i, np.asarray(fp.pvt_props["pseudopressure"]), np.asarray(fp.pvt_props["alpha"]))
        tasks.append((f"FlowPropertiesTwoPhase.from_table(shipped oil table Sw={sw}, phi={phi}, p_i={pi})", _q(f)))
    return tasks
