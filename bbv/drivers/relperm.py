"""Driver for the Brooks-Corey functions: builds RelPermParams and saturation record arrays the way
tests/flow/test_properties.py does, runs the real functions, projects results to trace events."""
from __future__ import annotations

import math
import warnings
from fractions import Fraction

import numpy as np
import pandas as pd

from .. import quant

PH = ("o", "w", "g")
SATCOL = {"o": "So", "w": "Sw", "g": "Sg"}
KRCOL = {"o": "kro", "w": "krw", "g": "krg"}
EXP_SPAN = 8.0  # quantisation window of exponents (RelPermTrace!ExpSpan)


def fl(nd) -> float:
    return float(Fraction(int(nd[0]), int(nd[1])))


def make_params(n: dict, sr: dict, km: dict):
    from bluebonnet.flow.flowproperties import RelPermParams  # noqa: PLC0415

    return RelPermParams(n_o=n["o"], n_w=n["w"], n_g=n["g"], S_or=sr["o"], S_wc=sr["w"], S_gc=sr["g"],
                         k_ro_max=km["o"], k_rw_max=km["w"], k_rg_max=km["g"])


FIELD_ORDERS = (("So", "Sw", "Sg"), ("So", "Sg", "Sw"), ("Sg", "Sw", "So"))   # the records are addressed by NAME


def records(sats: list[dict]):
    """Record array with fields So, Sw, Sg (as the tests build it: DataFrame.to_records(index=False)).  The order in which
    the three named fields are laid out is the caller's choice (the function's own docstring lists So, Sg, Sw); it rotates
    with the content so that every layout is exercised."""
    cols = {"So": np.array([s["o"] for s in sats], dtype=float), "Sw": np.array([s["w"] for s in sats], dtype=float),
            "Sg": np.array([s["g"] for s in sats], dtype=float)}
    order = FIELD_ORDERS[(len(sats) + int(round(1e6 * float(cols["So"][0]))) if len(sats) else 0) % len(FIELD_ORDERS)]
    df = pd.DataFrame({k: cols[k] for k in order})
    return df.to_records(index=False)


def call(par: dict, sats: list[dict]):
    """-> ("ok", [ {o,w,g: kr} per record ]) | ("error", "ExcType: message")."""
    from bluebonnet.flow.flowproperties import relative_permeabilities  # noqa: PLC0415

    try:
        with warnings.catch_warnings():
            warnings.simplefilter("ignore")
            # the record array is the caller's: it is evaluated twice (a second rock type, or simply again) and the later answer is
            # the one that is judged
            rec = records(sats)
            relative_permeabilities(rec, make_params(par["n"], par["sr"], par["km"]))
            k = relative_permeabilities(rec, make_params(par["n"], par["sr"], par["km"]))
        rows = [{ph: float(k[KRCOL[ph]][i]) for ph in PH} for i in range(len(sats))]
        if len(k) != len(sats):
            return "error", f"returned {len(k)} records for {len(sats)}"
        return "ok", rows
    except Exception as ex:  # noqa: BLE001  any error is a rejection
        return "error", f"{type(ex).__name__}: {ex}"


def call_two(par: dict, sw: float):
    """-> ("ok", rows[{S:{o,w,g}, kr:{o,w,g}}]) | ("error", text)."""
    from bluebonnet.flow.flowproperties import relative_permeabilities_twophase  # noqa: PLC0415

    try:
        with warnings.catch_warnings():
            warnings.simplefilter("ignore")
            df = relative_permeabilities_twophase(make_params(par["n"], par["sr"], par["km"]), sw)
        rows = [{"S": {ph: float(df[SATCOL[ph]].iloc[i]) for ph in PH},
                 "kr": {ph: float(df[KRCOL[ph]].iloc[i]) for ph in PH}} for i in range(len(df))]
        return "ok", rows
    except Exception as ex:  # noqa: BLE001
        return "error", f"{type(ex).__name__}: {ex}"


def call_two_after_edit(par: dict, sw: float):
    """The helper called again after the caller edited the first table in place (per cent, reordered rows), with an equal but
    distinct parameter object: a table handed out belongs to the caller, the next one is a table of its own."""
    from bluebonnet.flow.flowproperties import relative_permeabilities_twophase  # noqa: PLC0415

    try:
        with warnings.catch_warnings():
            warnings.simplefilter("ignore")
            first = relative_permeabilities_twophase(make_params(par["n"], par["sr"], par["km"]), sw)
            for col in list(first.columns):
                first[col] = first[col] * 100.0
            first.sort_values(list(first.columns)[0], ascending=False, inplace=True)
    except Exception:  # noqa: BLE001  the first call is judged elsewhere
        pass
    return call_two(par, sw)


# ---- projection to RelPermTrace events -----------------------------------------------------------------------
def ev_par(par: dict) -> dict:
    return {"ev": "Par",
            "n": {ph: quant.q(par["n"][ph], 0.0, EXP_SPAN) for ph in PH},
            "sr": {ph: quant.q(par["sr"][ph]) for ph in PH},
            "km": {ph: quant.q(par["km"][ph]) for ph in PH},
            "ressum": quant.q(par["sr"]["o"] + par["sr"]["w"] + par["sr"]["g"])}


def ev_rec(par: dict, S: dict, outcome: str, kr: dict | None, ev: str = "Rec") -> dict:
    nan = float("nan")
    kr = kr or {ph: nan for ph in PH}
    return {"ev": ev,
            "S": {ph: quant.q(S[ph]) for ph in PH},
            "sum": quant.q(math.fsum([S["o"], S["w"], S["g"]])),
            "outcome": outcome,
            "kr": {ph: quant.q(kr[ph]) for ph in PH},
            "below": {ph: bool(S[ph] <= par["sr"][ph]) for ph in PH},
            "zero": {ph: bool(kr[ph] == 0.0) for ph in PH}}


def ev_two(par: dict, sw: float, outcome: str, nrows: int) -> dict:
    return {"ev": "Two", "sw": quant.q(sw), "above": bool(sw > par["sr"]["w"]), "outcome": outcome, "nrows": int(nrows)}


# ---- workload: the continuous admissible box --------------------------------------------------------------------
def random_params(rng: np.random.Generator) -> dict:
    def expo():
        r = rng.random()
        if r < 0.15:
            return float(rng.choice([1.0, 6.0]))
        if r < 0.3:
            return float(rng.integers(1, 7))
        if r < 0.45:
            return float(rng.choice([1.5, 2.5, 3.5, 4.5, 5.5]))
        return float(rng.uniform(1.0, 6.0))

    total = float(rng.choice([0.0, rng.uniform(0, 0.5), rng.uniform(0.5, 0.97)]))
    w = rng.dirichlet([0.7, 0.7, 0.7])
    if rng.random() < 0.25:
        w[int(rng.integers(0, 3))] = 0.0
        w = w / max(w.sum(), 1e-300)
    sr = [float(total * x) for x in w]
    while sr[0] + sr[1] + sr[2] >= 0.98:
        sr = [0.9 * x for x in sr]
    if rng.random() < 0.12 and sr[0] + sr[1] + sr[2] > 0:
        # the corner of the admissible box: residuals that sum to just under one (a mobile range of 1e-3 .. 1e-12)
        eps = 10.0 ** -float(rng.integers(3, 13))
        f = (1.0 - eps) / (sr[0] + sr[1] + sr[2])
        sr = [x * f for x in sr]
        while not (sr[0] + sr[1] + sr[2] < 1.0 and (1.0 - sr[0] - sr[1] - sr[2]) > 0.0):
            sr = [x * (1.0 - 1e-13) for x in sr]

    def km():
        r = rng.random()
        return 1.0 if r < 0.3 else 0.0 if r < 0.35 else float(rng.uniform(0, 1))

    return {"n": dict(zip(PH, (expo(), expo(), expo()))), "sr": dict(zip(PH, sr)), "km": dict(zip(PH, (km(), km(), km())))}


def sweep_sats(rng: np.random.Generator, par: dict, ph: str, npts: int) -> list[dict]:
    """Saturation records with phase `ph` rising from 0 to 1, the other two rebalanced in a fixed ratio.
    Includes the residual itself, its float neighbours, and the point where the normalised saturation is 1."""
    others = [x for x in PH if x != ph]
    f = float(rng.choice([0.0, 1.0, rng.uniform(0, 1)]))
    sr = par["sr"][ph]
    top = 1.0 - (par["sr"][others[0]] + par["sr"][others[1]])
    xs = set(np.linspace(0.0, 1.0, npts).tolist()) | set(rng.uniform(0, 1, npts // 2).tolist())
    for v in (sr, np.nextafter(sr, -1.0), np.nextafter(sr, 2.0), top, np.nextafter(top, -1.0), np.nextafter(top, 2.0),
              0.5 * sr, 0.5 * (sr + top)):
        if 0.0 <= v <= 1.0:
            xs.add(float(v))
    out = []
    for x in sorted(xs):
        rest = 1.0 - x
        a = rest * f
        b = rest - a
        S = {ph: x, others[0]: a, others[1]: b}
        if abs(math.fsum(S.values()) - 1.0) < 1e-13 and min(S.values()) >= 0.0:
            out.append(S)
    return out


def push_out(rng: np.random.Generator, par: dict) -> tuple[dict, str]:
    """One field pushed outside its individual range."""
    grp = str(rng.choice(["n", "sr", "km"]))
    ph = str(rng.choice(list(PH)))
    low = rng.random() < 0.5
    if grp == "n":
        v = 1.0 - float(rng.choice([1e-6, 0.01, 0.5, 1.0, 3.0])) if low else 6.0 + float(rng.choice([1e-6, 0.01, 0.5, 2.0, 9.0]))
    else:
        v = -float(rng.choice([1e-6, 0.01, 0.5, 1.0])) if low else 1.0 + float(rng.choice([1e-6, 0.01, 0.5, 0.99]))
    bad = {k: dict(v_) for k, v_ in par.items()}
    bad[grp][ph] = v
    return bad, f"{grp}.{ph}={v}"
