"""Driver for C20: calls the real plotting helpers (Agg backend, nothing is rendered) and projects what they drew
-- the line artists of the Axes -- to numbers a specification can judge: exact-rational distances in ulps,
indices of the stored levels an artist's data equals, agreement magnitudes.

Two kinds of reservoir objects are used and the evidence says which:
  * `Stub` (nx, time, pseudopressure, recovery_factor()) carrying the exact dyadic levels exported by Plot.tla,
    so the expected artist data are exact rationals;
  * real IdealReservoir / SinglePhaseReservoir objects after simulate() for the code -> spec direction.
"""
from __future__ import annotations

import math
import warnings
from fractions import Fraction

import numpy as np

from .. import env, exact, quant
from . import reservoir as rdrv

CAP = quant.CAP


class Stub:
    """The attributes the plotting helpers read from a simulated reservoir."""

    def __init__(self, nx=None, time=None, pseudopressure=None, recovery=None):
        self.nx = nx
        self.time = time
        self.pseudopressure = pseudopressure
        self._recovery = recovery

    def recovery_factor(self):
        return self._recovery


def fl(nd) -> float:
    return float(exact.frac(nd))


def new_axes(n: int = 1):
    from matplotlib.figure import Figure  # noqa: PLC0415

    fig = Figure()
    return fig, fig.subplots(n, 1) if n > 1 else fig.subplots()


def lines(ax) -> list[tuple[np.ndarray, np.ndarray]]:
    return [(np.asarray(ln.get_xdata(), dtype=float), np.asarray(ln.get_ydata(), dtype=float)) for ln in ax.get_lines()]


def ulps_exact(x: float, nd) -> int:
    """Distance of the float x from the rational n/d in units of the spacing at n/d, rounded up (exact)."""
    x = float(x)
    if math.isnan(x) or math.isinf(x):
        return CAP
    f = exact.frac(nd)
    if Fraction(x) == f:
        return 0
    sp = Fraction(float(np.spacing(abs(float(f))))) if f != 0 else Fraction(5e-324)
    return int(min(CAP, math.ceil(abs(Fraction(x) - f) / sp)))


def ulps_arr(a, b) -> int:
    """Worst ulp distance between two float arrays (NaN equals NaN)."""
    a = np.asarray(a, dtype=float)
    b = np.asarray(b, dtype=float)
    if a.shape != b.shape:
        return CAP
    if a.size == 0:
        return 0
    both_nan = np.isnan(a) & np.isnan(b)
    bad = (np.isnan(a) ^ np.isnan(b)) | (np.isinf(a) & (a != b)) | (np.isinf(b) & (a != b))
    if bad.any():
        return CAP
    with np.errstate(invalid="ignore", over="ignore"):
        sp = np.spacing(np.maximum(np.abs(a), np.abs(b)))
        d = np.where(both_nan | (a == b), 0.0, np.abs(a - b) / sp)
    return int(min(CAP, math.ceil(float(np.max(d)))))


def quiet():
    w = warnings.catch_warnings()
    w.__enter__()
    warnings.simplefilter("ignore")
    return w


# ---- calls of the helpers ------------------------------------------------------------------------------------------
# the plotted window (x_max, y_max) is a view setting: the curves carry the node positions and the simulated values whatever it is
XMAX = ({}, {"x_max": 0.25}, {"x_max": 2.0, "y_max": 0.5})


def call_pseudo(res, every: int, rescale: bool, own_axes: bool = False):
    from bluebonnet.plotting import plot_pseudopressure  # noqa: PLC0415

    w = quiet()
    try:
        with np.errstate(all="ignore"):
            if own_axes:
                import matplotlib.pyplot as plt  # noqa: PLC0415

                # two figures in a row without an axes argument (the first one is still open): each call draws its own figure
                plot_pseudopressure(res, every=max(1, every // 2 + 1), rescale=rescale)
                ax = plot_pseudopressure(res, every=every, rescale=rescale, **XMAX[every % 3])
                out = lines(ax)
                plt.close("all")
                return out
            _, ax = new_axes()
            ax2 = plot_pseudopressure(res, every=every, rescale=rescale, ax=ax, **XMAX[every % 3])
            return lines(ax2)
    finally:
        w.__exit__(None, None, None)


def call_curve(which: str, res, ticks: bool):
    from bluebonnet import plotting  # noqa: PLC0415

    fn = plotting.plot_recovery_factor if which == "rf" else plotting.plot_recovery_rate
    w = quiet()
    try:
        with np.errstate(all="ignore"):
            if ticks and which == "rate":
                # without an axes argument, right after another figure of the same helper that is still open
                import matplotlib.pyplot as plt  # noqa: PLC0415

                fn(res, change_ticks=ticks)
                ax2 = fn(res, change_ticks=ticks)
                out = lines(ax2), ax2.get_xscale(), ax2.get_yscale()
                plt.close("all")
                return out
            _, ax = new_axes()
            ax2 = fn(res, ax, change_ticks=ticks)
            return lines(ax2), ax2.get_xscale(), ax2.get_yscale()
    finally:
        w.__exit__(None, None, None)


def haynesville():
    import pandas as pd  # noqa: PLC0415

    return pd.read_csv(env.REPO / "tests/data/pvt_gas_HAYNESVILLE SHALE_20.csv")


def call_comparison(rows: list[dict], filter_: bool, window, M: float, tau: float, p_initial: float, extra: dict | None = None):
    """rows: dicts Days, Gas, Pressure (floats, NaN allowed). Returns the artists of both axes and the scales."""
    import matplotlib.pyplot as plt  # noqa: PLC0415
    import pandas as pd  # noqa: PLC0415
    from lmfit import Parameters  # noqa: PLC0415

    from bluebonnet.forecast import plot_production_comparison  # noqa: PLC0415

    prod = pd.DataFrame(rows, columns=["Days", "Gas", "Pressure"])
    for name, col in (extra or {}).items():   # other metered columns of the same table (with gaps of their own)
        if name != "__index__":
            prod[name] = col
    if extra and "__index__" in extra:   # row labels that are not unique (several exports concatenated, a table indexed by well id)
        prod.index = extra["__index__"]
    params = Parameters()
    params.add("M", M)
    params.add("tau", tau)
    params.add("p_initial", p_initial)
    w = quiet()
    try:
        with np.errstate(all="ignore"):
            fig, (ax1, ax2) = plot_production_comparison(prod, haynesville(), params, filter_window_size=window,
                                                         filter_zero_prod_days=filter_)
            out = {"ax1": lines(ax1), "ax2": lines(ax2), "xscale1": ax1.get_xscale(), "xscale2": ax2.get_xscale()}
            plt.close(fig)
            plt.close("all")
            return out
    finally:
        w.__exit__(None, None, None)


def library_recovery(x: np.ndarray, pf: np.ndarray, p_initial: float) -> np.ndarray:
    """The simulated recovery the comparison figure is to show, from the public classes (Plot!RFLib)."""
    from bluebonnet.flow import FlowProperties, SinglePhaseReservoir  # noqa: PLC0415

    w = quiet()
    try:
        with np.errstate(all="ignore"):
            fp = FlowProperties(haynesville(), p_initial)
            res = SinglePhaseReservoir(80, pf, p_initial, fp)
            res.simulate(np.asarray(x, dtype=float), pressure_fracface=np.asarray(pf, dtype=float))
            return np.asarray(res.recovery_factor(), dtype=float)
    finally:
        w.__exit__(None, None, None)


# ---- exact second-order gradient (the rule of PWL!Gradient) on floats ------------------------------------------------
def gradient_exact(y: np.ndarray, x: np.ndarray) -> list[Fraction]:
    n = len(x)
    X = [Fraction(float(v)) for v in x]
    Y = [Fraction(float(v)) for v in y]
    g = []
    for i in range(n):
        if i == 0:
            g.append((Y[1] - Y[0]) / (X[1] - X[0]))
        elif i == n - 1:
            g.append((Y[n - 1] - Y[n - 2]) / (X[n - 1] - X[n - 2]))
        else:
            hd, hs = X[i + 1] - X[i], X[i] - X[i - 1]
            g.append((hs * hs * Y[i + 1] + (hd * hd - hs * hs) * Y[i] - hd * hd * Y[i - 1]) / (hs * hd * (hd + hs)))
    return g


def rate_scale(y: np.ndarray, x: np.ndarray) -> list[Fraction]:
    """Per point: largest neighbouring |recovery| over the smallest neighbouring step (conditioning of the rule)."""
    n = len(x)
    out = []
    for i in range(n):
        lo, hi = max(0, i - 1), min(n - 1, i + 1)
        ym = max(abs(float(v)) for v in y[lo:hi + 1])
        hm = min(float(x[k + 1]) - float(x[k]) for k in range(lo, hi))
        out.append(Fraction(ym) / Fraction(hm))
    return out


def rate_e15(got: np.ndarray, want: list[Fraction], scale: list[Fraction]) -> int:
    worst = 0
    if len(got) != len(want):
        return CAP
    for g, w, s in zip(got, want, scale):
        g = float(g)
        if math.isnan(g) or math.isinf(g):
            return CAP
        d = abs(Fraction(g) - w)
        if d == 0:
            continue
        if s == 0:
            return CAP
        worst = max(worst, int(min(CAP, math.ceil(d / s * 10**15))))
    return worst


# ---- real reservoirs (code -> spec) ----------------------------------------------------------------------------------
def real_reservoir(cfg: dict):
    from bluebonnet.flow import IdealReservoir, SinglePhaseReservoir  # noqa: PLC0415

    nt, nx = cfg["nt"], cfg["nx"]
    if cfg["grid"] == "sqrt":
        t = np.linspace(0, math.sqrt(cfg["t_end"]), nt) ** 2
    elif cfg["grid"] == "log":
        t = np.logspace(-6, math.log10(cfg["t_end"]), nt)
    elif cfg["grid"] == "restart":
        t = 0.25 * cfg["t_end"] + np.linspace(0, math.sqrt(cfg["t_end"]), nt) ** 2
    else:
        rng = np.random.default_rng(cfg["grid_seed"])
        t = np.concatenate([[0.0], np.cumsum(rng.uniform(0.2, 1.8, nt - 1))]) * cfg["t_end"] / max(1, nt - 1)
    w = quiet()
    try:
        with np.errstate(all="ignore"):
            if cfg["kind"] == "ideal":
                res = IdealReservoir(nx, cfg["pf"], cfg["pi"], None)
                res.simulate(t)
            else:
                res = SinglePhaseReservoir(nx, cfg["pf"], cfg["pi"],
                                           rdrv.flow_properties(rdrv.shipped_table("pvt_gas"), cfg["pi"]))
                if cfg.get("schedule") == "chokeback":
                    u = np.linspace(0.0, 1.0, nt)
                    sched = cfg["pf"] + (cfg["pi"] - cfg["pf"]) * 0.9 * np.clip((u - 0.4) / 0.3, 0.0, 1.0)
                    res.simulate(t, pressure_fracface=sched)
                else:
                    res.simulate(t)
    finally:
        w.__exit__(None, None, None)
    # what the simulation produced, kept aside: every later figure of this object is judged against it, whatever earlier
    # plotting or recovery calls did to the object
    res._bbv_pristine = np.array(res.pseudopressure, dtype=float, copy=True)
    return res


def pristine_recovery(res) -> np.ndarray:
    """recovery_factor() of the simulation as it was produced (evaluated on a copy of the object holding the pristine field,
    so that the object under test keeps whatever its earlier calls left in it)."""
    import copy  # noqa: PLC0415

    ref = copy.copy(res)
    ref.pseudopressure = np.array(getattr(res, "_bbv_pristine", res.pseudopressure), dtype=float, copy=True)
    ref.__dict__.pop("recovery", None)
    w = quiet()
    try:
        return np.asarray(ref.recovery_factor(), dtype=float).copy()
    finally:
        w.__exit__(None, None, None)


def expected_rows(pp: np.ndarray, rescale: bool) -> np.ndarray:
    """Rows an artist may carry: the stored levels, rescaled as Plot!Y says when requested."""
    if not rescale:
        return pp
    with np.errstate(all="ignore"):
        pinit = pp[0, -1]
        return (pp - pp[:, :1]) / (pinit - pp[:, :1])


def _intervals(idx: np.ndarray, cap: int = 32, near: int | None = None) -> list[list[int]]:
    """Sorted indices as [lo, hi] runs of consecutive values (levels that are bitwise identical form runs).  At most `cap` runs
    are logged: the first ones and, when the profile alternates between a few bit patterns near depletion (hundreds of runs),
    the ones closest to level `near`, so that truncating the log never hides the level the artist is expected to show."""
    out: list[list[int]] = []
    for v in idx.tolist():
        if out and v == out[-1][1] + 1:
            out[-1][1] = v
        else:
            out.append([v, v])
    if len(out) <= cap or near is None:
        return out[:cap]
    by_dist = sorted(out, key=lambda r: 0 if r[0] <= near <= r[1] else min(abs(r[0] - near), abs(r[1] - near)))
    return sorted(out[:cap // 2] + [r for r in by_dist[:cap // 2] if r not in out[:cap // 2]])


def project_pseudo(res, every: int, rescale: bool, own_axes: bool = False) -> dict:
    pp = np.asarray(getattr(res, "_bbv_pristine", res.pseudopressure), dtype=float)
    nt, nx = pp.shape
    arts = call_pseudo(res, every, rescale, own_axes)
    rows = expected_rows(pp, rescale)
    want_x = np.arange(1, nx + 1) / nx
    drawn, y_ulp, x_ulp, lens_ok = [], 0, 0, True
    rows_nan = np.isnan(rows)
    for x, y in arts:
        if len(y) != nx or len(x) != nx:
            lens_ok = False
            drawn.append([])
            continue
        x_ulp = max(x_ulp, ulps_arr(x, want_x))
        with np.errstate(all="ignore"):
            d = np.abs(rows - y)
            d = np.where(rows_nan & np.isnan(y), 0.0, d)
            d = np.where(np.isnan(d), np.inf, d).max(axis=1)
        best = float(d.min())
        if not math.isfinite(best):
            drawn.append([])
            y_ulp = CAP
            continue
        cand = np.flatnonzero(d == best)
        drawn.append(_intervals(cand, near=len(drawn) * every))
        y_ulp = max(y_ulp, ulps_arr(y, rows[int(cand[0])]))
    return {"ev": "Pseudo", "nt": nt, "nx": nx, "every": every, "rescale": rescale, "drawn": drawn,
            "xlen": (len(arts[0][0]) if arts else nx), "lens_ok": lens_ok, "x_ulp": x_ulp, "y_ulp": y_ulp}


def project_curve(which: str, res, ticks: bool, grad_cache: dict) -> dict:
    t = np.asarray(res.time, dtype=float)
    rf = pristine_recovery(res)
    arts, xscale, _ = call_curve(which, res, ticks)
    x_same = len(arts) >= 1 and arts[0][0].shape == t.shape and bool(np.array_equal(arts[0][0], t))
    if which == "rf":
        y_same = len(arts) >= 1 and arts[0][1].shape == rf.shape and bool(np.array_equal(arts[0][1], rf, equal_nan=True))
        return {"ev": "RF", "n": len(t), "nlines": len(arts), "x_same": x_same, "y_same": y_same, "xscale": xscale,
                "ticks": ticks}
    if "g" not in grad_cache:
        grad_cache["g"] = gradient_exact(rf, t)
        grad_cache["s"] = rate_scale(rf, t)
    e = rate_e15(arts[0][1], grad_cache["g"], grad_cache["s"]) if arts else CAP
    return {"ev": "Rate", "n": len(t), "nlines": len(arts), "x_same": x_same, "rate_e15": e, "ticks": ticks}


def project_comparison(cfg: dict) -> dict:
    """Realistic data set (as tests/forecast/test_forecast.py builds it), expectations recomputed with numpy
    following the pipeline of Plot.tla (Kept rows, day index / Days, cumulative sum, /tau, /M)."""
    rng = np.random.default_rng(cfg["seed"])
    n = cfg["n"]
    days = (np.linspace(0, math.sqrt(6.0), n) ** 2) * 180.0
    gas = rng.uniform(0.5, 3.0, n)
    pf = np.full(n, 500.0)
    pf[n // 4: n // 2] /= 2.0
    pf[n // 2:] /= 4.0
    pf = pf * rng.uniform(0.97, 1.0, n)
    press = pf.copy()
    if cfg["filter"]:
        gas[rng.choice(n, max(1, n // 10), replace=False)] = 0.0
        press[rng.choice(n, max(1, n // 12), replace=False)] = np.nan
    rows = [{"Days": float(d), "Gas": float(g), "Pressure": float(p)} for d, g, p in zip(days, gas, press)]
    extra = None
    if cfg.get("extra_columns"):
        water = rng.uniform(0.0, 5.0, n)
        water[rng.choice(n, max(2, n // 6), replace=False)] = np.nan
        extra = {"Water": water, "Comment": ["" if i % 7 else None for i in range(n)]}
    if cfg.get("dup_index"):
        extra = dict(extra or {})
        extra["__index__"] = [i % max(2, n // 3) for i in range(n)]
    out = call_comparison(rows, cfg["filter"], cfg["window"], cfg["M"], cfg["tau"], cfg["p_initial"], extra)
    keep = (gas > 0) & ~np.isnan(press) if cfg["filter"] else np.ones(n, dtype=bool)
    time = np.arange(int(keep.sum()), dtype=float) if cfg["filter"] else days
    want_x = time / cfg["tau"]
    want_cum = np.cumsum(gas[keep]) / cfg["M"]
    want_pf = press[keep]
    if cfg["window"] is not None:
        # the frac-face pressure of the figure is the one handed to the simulation: the boxcar-smoothed series
        from scipy.ndimage import uniform_filter1d  # noqa: PLC0415

        want_pf = uniform_filter1d(want_pf, size=cfg["window"])
    a1, a2 = out["ax1"], out["ax2"]
    len_ok = len(a1) == 2 and len(a2) == 1 and all(len(x) == len(want_x) == len(y) for x, y in a1 + a2)
    ev = {"ev": "Cmp", "n": int(keep.sum()), "lines1": len(a1), "lines2": len(a2), "len_ok": bool(len_ok),
          "xscale1": out["xscale1"], "xscale2": out["xscale2"], "x_ulp": CAP, "cum_ulp": CAP, "pf_same": False,
          "rf_e15": CAP}
    if len_ok:
        ev["x_ulp"] = max(ulps_arr(x, want_x) for x, _ in a1 + a2)
        ev["cum_ulp"] = ulps_arr(a1[1][1], want_cum)
        ev["pf_same"] = bool(np.array_equal(a2[0][1], want_pf))
        rf = library_recovery(want_x, want_pf, cfg["p_initial"])
        with np.errstate(all="ignore"):
            d = np.abs(a1[0][1] - rf)
        ev["rf_e15"] = CAP if not np.all(np.isfinite(d)) else int(min(CAP, math.ceil(float(d.max()) * 1e15)))
    return ev


def project_transform(cfg: dict) -> dict:
    rng = np.random.default_rng(cfg["seed"])
    n = cfg["n"]
    a = np.concatenate([[0.0, 1.0, 4.0, 2.25], 10.0 ** rng.uniform(-12, 12, n), rng.uniform(0, 100, n),
                        rng.integers(0, 3000, n).astype(float) ** 2])
    fig, ax = new_axes()
    ax.set_xscale("squareroot")
    t = ax.xaxis.get_transform()
    inv = t.inverted()
    classes = [type(t).__name__, type(inv).__name__, type(inv.inverted()).__name__]
    fwd = np.asarray(t.transform(a), dtype=float)
    ev = {"ev": "Transform", "classes": classes, "scale": ax.get_xscale(), "n": len(a)}
    ev["fwd_ulp"] = ulps_arr(fwd, np.sqrt(a))
    # whole numbers in narrow integer columns (day counts, step counters): the transform is the square root in double precision
    # whatever integer type holds the values
    for small in (np.arange(0, 256, dtype=np.uint8), (np.arange(0, 3000, 7)).astype(np.int16), np.array([0, 1, 4, 1059, 2050], dtype=np.uint16),
                  np.arange(0, 120, dtype=np.int8)):
        try:
            got = np.asarray(t.transform_non_affine(small), dtype=float)
            back = np.asarray(inv.transform_non_affine(t.transform_non_affine(small)), dtype=float)
            ev["fwd_ulp"] = max(ev["fwd_ulp"], ulps_arr(got, np.sqrt(small.astype(float))))
            ev["back_ulp_int"] = max(ev.get("back_ulp_int", 0), ulps_arr(back, small.astype(float)))
        except Exception:  # noqa: BLE001
            ev["fwd_ulp"] = CAP
    ev["back_ulp"] = max(ulps_arr(np.asarray(inv.transform(t.transform(a)), dtype=float), a), ev.pop("back_ulp_int", 0))
    ev["back2_ulp"] = ulps_arr(np.asarray(t.transform(inv.transform(a)), dtype=float), a)
    # the path matplotlib itself takes: non-affine parts, and the blended scale transform of the Axes
    p1 = ulps_arr(np.asarray(inv.transform_non_affine(t.transform_non_affine(a)), dtype=float), a)
    p2 = ulps_arr(np.asarray(t.transform_non_affine(inv.transform_non_affine(a)), dtype=float), a)
    pts = np.column_stack([a, np.full(len(a), 0.5)])
    sc = ax.transScale
    p3 = ulps_arr(np.asarray(sc.inverted().transform(sc.transform(pts)), dtype=float)[:, 0], a)
    ev["pipe_ulp"] = max(p1, p2, p3)
    # data -> display -> data through the Axes' own transform pair, relative to the axis range
    xmax = float(a.max())
    ax.set_xlim(0, xmax)
    ax.set_ylim(0, 1)
    back = np.asarray(ax.transData.inverted().transform(ax.transData.transform(pts)), dtype=float)[:, 0]
    with np.errstate(all="ignore"):
        d = np.abs(back - a) / xmax
    ev["axes_e15"] = CAP if not np.all(np.isfinite(d)) else int(min(CAP, math.ceil(float(d.max()) * 1e15)))
    return ev
