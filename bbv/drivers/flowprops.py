"""Driver for the flow-property wrapper: builds caller tables (DataFrame / dict of arrays), snapshots them for
the ownership projection, runs FlowProperties / FlowPropertiesSimple / rescale_pseudopressure and projects what
they show to values the specifications judge."""
from __future__ import annotations

import functools
import hashlib
import math
import warnings
from fractions import Fraction

import numpy as np
import pandas as pd

from .. import env, quant

COL = {"p": "pressure", "m": "pseudopressure", "c": "compressibility", "mu": "viscosity", "z": "z-factor", "al": "alpha"}
Long = {"pseudopressure", "compressibility", "pressure", "viscosity", "z-factor"}   # column sets the workload uses;
Short = {"pressure", "pseudopressure", "alpha"}                                       # the rules are FlowProps!Missing
SimpleNeed = {"compressibility", "pressure", "viscosity"}
REN_GAS = {"P": "pressure", "Z-Factor": "z-factor", "Cg": "compressibility", "Viscosity": "viscosity", "Density": "density"}


def fl(nd) -> float:
    return float(Fraction(int(nd[0]), int(nd[1])))


# ---- caller tables ---------------------------------------------------------------------------------------------
def make_table(columns: dict[str, np.ndarray], cols, box: str, int_cols=()):
    """The caller's table holding exactly `cols` (other names get a positive filler column).  int_cols: columns whose (whole-
    number) values are stored in an integer array, as a csv reader does."""
    n = len(next(iter(columns.values())))
    data = {}
    for k in sorted(cols):
        data[k] = np.array(columns[k], dtype=np.float64) if k in columns else np.linspace(1.0, 2.0, n)
        if k in int_cols and k in columns:
            data[k] = data[k].astype(np.int64)
    if box == "df":
        df = pd.DataFrame(data)
        if n % 2 == 1:
            # an ascending table that was sorted into that order (sort_values on a table listed from high to low pressure): the row
            # labels are a permutation of 0..n-1, not the row positions
            df.index = np.arange(n)[::-1].copy()
        return df
    return data


def snapshot(table) -> dict:
    """Key set plus identity and digest of every array the caller can reach."""
    keys = [str(k) for k in (table.columns if isinstance(table, pd.DataFrame) else table.keys())]
    arrs = {}
    for k in keys:
        a = table[k]
        v = a.to_numpy() if isinstance(a, pd.Series) else np.asarray(a)
        arrs[k] = (None if isinstance(table, pd.DataFrame) else id(a), str(v.dtype), v.shape,
                   hashlib.sha1(np.ascontiguousarray(v).tobytes()).hexdigest())
    extra = hashlib.sha1(np.asarray(table.index).tobytes()).hexdigest() if isinstance(table, pd.DataFrame) else ""
    return {"keys": keys, "arrs": arrs, "extra": extra}


def ownership(before: dict, after: dict) -> dict:
    changed = sorted(k for k in before["keys"] if k not in after["arrs"] or after["arrs"][k] != before["arrs"][k])
    if before["extra"] != after["extra"]:
        changed.append("<index>")
    return {"keys_before": sorted(before["keys"]), "keys_after": sorted(after["keys"]), "changed": changed}


# ---- the calls ----------------------------------------------------------------------------------------------------
def construct(cls: str, table, p_i: float):
    from bluebonnet.flow.flowproperties import FlowProperties, FlowPropertiesSimple  # noqa: PLC0415

    k = FlowPropertiesSimple if cls == "simple" else FlowProperties
    try:
        with warnings.catch_warnings(), np.errstate(all="ignore"):
            warnings.simplefilter("ignore")
            return "ok", k(table, p_i)
    except Exception as ex:  # noqa: BLE001  "raise an error": any exception class
        return "error", f"{type(ex).__name__}: {ex}"


def rescale(table, p_f: float, p_i: float):
    from bluebonnet.flow.flowproperties import rescale_pseudopressure  # noqa: PLC0415

    try:
        with warnings.catch_warnings(), np.errstate(all="ignore"):
            warnings.simplefilter("ignore")
            return "ok", rescale_pseudopressure(table, p_f, p_i)
    except Exception as ex:  # noqa: BLE001
        return "error", f"{type(ex).__name__}: {ex}"


def col(table, name) -> np.ndarray:
    a = table[name]
    return np.asarray(a.to_numpy() if isinstance(a, pd.Series) else a, dtype=np.float64)


def lookup(obj, q: float) -> float:
    with warnings.catch_warnings(), np.errstate(all="ignore"):
        warnings.simplefilter("ignore")
        return float(obj.alpha(q))


# ---- projection to FlowPropsTrace events -----------------------------------------------------------------------------
def _count_noninc(a: np.ndarray) -> int:
    return int(np.sum(~(np.diff(a) > 0)))


def _qcolumn(a: np.ndarray, cap: int = 300) -> list:
    fin = a[np.isfinite(a)]
    lo, hi = (float(fin.min()), float(fin.max())) if fin.size and fin.max() > fin.min() else (0.0, 1.0)
    idx = np.unique(np.linspace(0, len(a) - 1, min(cap, len(a))).astype(int))
    return [quant.q(float(a[i]), lo, hi) for i in idx]


def ev_construct(cls: str, cols, box: str, table, caller_cols: dict, p_i: float, outcome: str, obj, own: dict) -> dict:
    p = np.asarray(caller_cols["pressure"], dtype=float) if "pressure" in caller_cols else np.array([0.0, 1.0])
    e = {"ev": "Construct", "cls": cls, "cols": sorted(cols), "box": box,
         "pi_below": bool(p_i < p[0]), "pi_above": bool(p_i > p[-1]), "outcome": outcome, **own,
         "own_table": bool(outcome != "ok" or obj.pvt_props is not table),
         "n_noninc": 0, "n_nan": 0, "ms": [], "mi_at": 0, "mi_self": 0, "mi_kept": 0, "node": False, "mi_one": 0, "mi_low": 0,
         "mi_high": 0, "alpha_nodes": 0, "alpha_bad": 0}
    if outcome != "ok":
        return e
    ms = col(obj.pvt_props, "m-scaled")
    al = col(obj.pvt_props, "alpha")
    po = col(obj.pvt_props, "pressure")
    mi = float(obj.m_i)
    scale = float(np.nanmax(np.abs(ms))) if np.isfinite(ms).any() else 1.0
    scale = scale if scale > 0 else 1.0
    with np.errstate(all="ignore"):
        ref = float(np.interp(p_i, po, ms))
        e.update({"n_noninc": _count_noninc(ms), "n_nan": int(np.sum(~np.isfinite(ms))), "ms": _qcolumn(ms),
                  "mi_at": quant.e15(mi, ref, scale), "mi_self": quant.e15(float(obj.m_scaled_func(p_i)), mi, scale),
                  "node": bool(np.any(p == p_i)), "alpha_bad": int(np.sum(~(np.isfinite(al) & (al > 0))))})
        if isinstance(table, dict) and isinstance(table.get("pressure"), np.ndarray) and len(po) > 1:
            # the caller goes on using its own pressure buffer (shifts it in place); evaluated last, after the columns were read
            keep = np.array(table["pressure"], copy=True)
            table["pressure"] += 0.37 * float(po[1] - po[0])
            try:
                e["mi_kept"] = quant.e15(float(obj.m_scaled_func(p_i)), mi, scale)
            except Exception:  # noqa: BLE001  the lookup raising at its own initial pressure is the same failure
                e["mi_kept"] = quant.CAP
            table["pressure"][:] = keep
        if "alpha" in cols and cls != "simple":
            m = np.asarray(caller_cols["pseudopressure"], dtype=float)
            i = int(np.clip(np.searchsorted(p, p_i, side="right") - 1, 0, len(p) - 2))
            a, b = float(m[i]), float(m[i + 1])
            err = (b - a) ** 2 / (4 * a * b)
            e.update({"mi_one": quant.e15(mi, 1.0), "mi_low": quant.e15(max(0.0, 1.0 - mi), 0.0) if mi == mi else quant.CAP,
                      # excess over the bound 1 + err, relative to the bound (err can be large when b >> a)
                      "mi_high": quant.e15(max(0.0, mi - 1.0 - err), 0.0, 1.0 + err) if mi == mi else quant.CAP})
        else:
            c = np.asarray(caller_cols["compressibility"], dtype=float)
            mu = np.asarray(caller_cols["viscosity"], dtype=float)
            e["alpha_nodes"] = max(quant.e15(float(x), 1.0) for x in al * c * mu)
    return e


def ev_lookup(obj, q: float) -> tuple[dict, float]:
    al = col(obj.pvt_props, "alpha")
    v = lookup(obj, q)
    return {"ev": "Lookup", "lo": quant.q(v, 0.0, float(al.min())), "hi": quant.q(v, 0.0, float(al.max()))}, v


def ev_rescale(box: str, table, caller_cols: dict, p_f: float, p_i: float, outcome: str, res, own: dict) -> dict:
    e = {"ev": "Rescale", "box": box, "outcome": outcome, **own, "own_table": bool(outcome != "ok" or res is not table),
         "at_pf": 0, "at_pi": 0, "n_noninc": 0}
    if outcome == "ok":
        p = col(res, "pressure")
        m = col(res, "pseudopressure")
        with np.errstate(all="ignore"):
            # conditioning of (m - m(p_f)) / (m(p_i) - m(p_f)): rounding of m is amplified by max|m| / |m(p_i) - m(p_f)|
            m0 = np.asarray(caller_cols["pseudopressure"], dtype=float)
            p0 = np.asarray(caller_cols["pressure"], dtype=float)
            gap = abs(float(np.interp(p_i, p0, m0)) - float(np.interp(p_f, p0, m0)))
            cond = min(1e300, max(1.0, float(np.max(np.abs(m0))) / gap)) if gap > 0 else 1e300
            e.update({"at_pf": quant.e15(float(np.interp(p_f, p, m)), 0.0, cond), "at_pi": quant.e15(float(np.interp(p_i, p, m)), 1.0, cond),
                      "n_noninc": _count_noninc(m) if p_f < p_i else 0})
    return e


# ---- real tables -----------------------------------------------------------------------------------------------------------
@functools.lru_cache(maxsize=None)
def shipped(name: str) -> dict[str, np.ndarray]:
    """Shipped tables as column dicts (renamed as tests/flow/test_reservoir.py does)."""
    if name == "pvt_gas":
        df = pd.read_csv(env.REPO / "tests/data/pvt_gas.csv").rename(columns=REN_GAS)
    elif name == "haynesville":
        df = pd.read_csv(env.REPO / "tests/data/pvt_gas_HAYNESVILLE SHALE_20.csv").rename(columns={"Density": "density"})
        df = df.drop(columns=[c for c in df.columns if c.startswith("Unnamed")])
    else:
        raise KeyError(name)
    return {c: df[c].to_numpy(dtype=float) for c in df.columns}


def generated(gravity: float, temperature: float, pmax: float) -> dict[str, np.ndarray]:
    from bluebonnet.fluids.fluid import build_pvt_gas  # noqa: PLC0415

    with warnings.catch_warnings(), np.errstate(all="ignore"):
        warnings.simplefilter("ignore")
        df = build_pvt_gas({"N2": 0.01, "H2S": 0.0, "CO2": 0.02, "Gas Specific Gravity": gravity,
                            "Reservoir Temperature (deg F)": temperature}, "dry gas", pmax)
    return {c: df[c].to_numpy(dtype=float) for c in df.columns}


def synthetic(rng: np.random.Generator) -> dict[str, np.ndarray]:
    n = int(rng.choice([3, 4, 7, 30, 200]))
    style = int(rng.integers(0, 4))
    if style == 3:
        # a grid refined locally (rows 0.01 psi apart) around the pressure that sits at the middle row - the initial pressure of
        # one of the wrappers built on it: neighbouring rows are then within 1e-5 of each other in scaled pseudopressure
        k = max(1, (n - 9) // 2) if n >= 11 else 2
        c = float(rng.uniform(2000.0, 6000.0))
        p = np.concatenate([np.sort(rng.uniform(50.0, c - 50.0, k)), c + 0.01 * np.arange(-4, 5), np.sort(rng.uniform(c + 50.0, 1.2e4, k))])
        n = len(p)
    elif style == 0:
        p = np.cumsum(rng.uniform(0.5, 50.0, n)) + rng.uniform(0.01, 100.0)
    elif style == 1:
        p = np.geomspace(rng.uniform(1e-3, 10.0), rng.uniform(1e3, 2e4), n)
    else:
        p = np.sort(rng.uniform(1.0, 1e4, n)) + np.arange(n) * 1e-3
    mu = rng.uniform(0.01, 0.05) * (1 + rng.uniform(0, 2) * p / p[-1]) * rng.uniform(0.9, 1.1, n)
    z = 1 - rng.uniform(0, 0.3) * np.sin(np.pi * p / p[-1]) * rng.uniform(0.9, 1.1, n)
    c = rng.uniform(0.5, 2.0, n) / p
    integrand = 2 * p / (mu * z)
    m = np.concatenate([[0.0], np.cumsum(0.5 * (integrand[1:] + integrand[:-1]) * np.diff(p))])
    if rng.random() < 0.5:
        m = m + rng.uniform(1.0, 1e4)  # positive everywhere (needed by the user-alpha branch)
    return {"pressure": p, "pseudopressure": m, "compressibility": c, "viscosity": mu, "z-factor": z,
            "density": rng.uniform(0.01, 1.0, n)}


def pi_candidates(rng: np.random.Generator, p: np.ndarray, lo_idx: int = 0) -> tuple[list[float], list[float]]:
    """(inside, outside) initial pressures: nodes, between nodes, the float neighbours of the table ends."""
    a, b = float(p[lo_idx]), float(p[-1])
    inside = [a, b, float(np.nextafter(a, np.inf)), float(np.nextafter(b, -np.inf)), float(p[len(p) // 2]),
              float(p[min(lo_idx + 1, len(p) - 1)])]
    inside += [float(x) for x in rng.uniform(a, b, 4)]
    inside += [float(0.5 * (p[i] + p[i + 1])) for i in rng.integers(lo_idx, len(p) - 1, 2)]
    # whole-number pressures that are not table pressures but happen to be row numbers of the table (505 psi on a 10-psi table with
    # more than 505 rows): a value is looked up among the pressures, never among the row labels
    nodes = {float(x) for x in p}
    whole = [q for q in range(int(np.ceil(a)) + 1, min(int(b), len(p) - 1)) if float(q) not in nodes]
    if whole:
        inside += [float(whole[int(i)]) for i in rng.integers(0, len(whole), 2)]
    outside = [float(np.nextafter(p[0], -np.inf)), float(np.nextafter(b, np.inf)), 2.0 * b + 1.0, -1.0, 1e300, -1e300]
    return inside, outside


def queries(rng: np.random.Generator, ms: np.ndarray) -> list[float]:
    fin = ms[np.isfinite(ms)]
    lo, hi = (float(fin.min()), float(fin.max())) if fin.size else (0.0, 1.0)
    qs = [-1e300, 1e300, -1.0, 0.0, 5e-324, -5e-324, 1e-300, lo, hi, float(np.nextafter(lo, -np.inf)),
          float(np.nextafter(hi, np.inf)), 2.0 * hi + 1.0, 1.0]
    qs += [float(x) for x in rng.uniform(lo, hi, 6)]
    qs += [float(ms[i]) for i in rng.integers(0, len(ms), 4)]
    return [x for x in qs if not math.isnan(x)]
