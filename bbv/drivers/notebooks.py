"""Run the code cells of the documentation notebooks under the recording wrappers of repotests.py.

  python -m bbv.drivers.notebooks <out.pkl> <notebook.ipynb> ...
Each notebook is executed cell by cell in its own namespace with cwd = docs/ (Agg backend, IPython magics dropped); a cell
that raises stops that notebook (recorded as such) without affecting the others.  Every simulation performed on the way is
recorded exactly as for the repository's tests."""
from __future__ import annotations

import json
import os
import pickle
import sys
import warnings

import numpy as np


def main(argv) -> int:
    out, books = argv[0], argv[1:]
    from bbv import env  # noqa: PLC0415

    env.import_bluebonnet()
    from bluebonnet.flow import reservoir as R  # noqa: PLC0415

    records: list[dict] = []
    current = {"nb": ""}

    def wrap(cls, kind):
        orig_sim = cls.__dict__["simulate"]
        orig_rf = cls.__dict__.get("recovery_factor")

        def simulate(self, time, *a, **kw):
            r = orig_sim(self, time, *a, **kw)
            sched = a[0] if a else kw.get("pressure_fracface")
            pf = None
            if kind == "single":
                pf = np.full(len(time), float(np.asarray(self.pressure_fracface).ravel()[0])) if sched is None \
                    else np.asarray(sched, dtype=float).copy()
            records.append({"kind": kind, "nx": int(self.nx), "time": np.asarray(time).copy(),
                            "u": np.asarray(self.pseudopressure, dtype=float).copy(), "pf": pf,
                            "fluid": self.fluid if kind == "single" else None, "cls": type(self).__name__ + "@" + current["nb"],
                            "pf_attr": np.asarray(self.pressure_fracface, dtype=float).copy(),
                            "pi": float(self.pressure_initial), "rf": {}})
            self._bbv_rec = len(records) - 1
            return r

        cls.simulate = simulate
        if orig_rf is not None:
            def recovery_factor(self, time=None, density=False):
                r = orig_rf(self, time, density)
                i = getattr(self, "_bbv_rec", None)
                if i is not None:
                    records[i]["rf"]["density" if density else "flux"] = np.asarray(r, dtype=float).copy()
                return r

            cls.recovery_factor = recovery_factor

    wrap(R.IdealReservoir, "ideal")
    wrap(R.SinglePhaseReservoir, "single")
    import matplotlib  # noqa: PLC0415

    matplotlib.use("Agg")
    import matplotlib.pyplot as plt  # noqa: PLC0415

    status = {}
    os.chdir(env.REPO / "docs")
    for nb_path in books:
        current["nb"] = os.path.basename(nb_path)
        nb = json.loads(open(env.REPO / nb_path).read())
        ns: dict = {"__name__": "__main__"}
        done, err = 0, None
        for cell in nb["cells"]:
            if cell["cell_type"] != "code":
                continue
            src = "".join(cell["source"])
            lines = []
            for l in src.splitlines():
                t = l.lstrip()
                if t.startswith(("%time ", "%timeit ")):     # line magics that only time a statement: keep the statement
                    lines.append(l[: len(l) - len(t)] + t.split(" ", 1)[1])
                elif not t.startswith(("%", "!")):
                    lines.append(l)
            src = "\n".join(lines)
            try:
                with warnings.catch_warnings():
                    warnings.simplefilter("ignore")
                    exec(compile(src, f"{nb_path}:cell{done}", "exec"), ns)  # noqa: S102
                done += 1
            except Exception as ex:  # noqa: BLE001
                err = f"cell {done}: {type(ex).__name__}: {ex}"
                break
            finally:
                plt.close("all")
        status[current["nb"]] = {"cells_run": done, "stopped": err}
    slim = []
    for r in records:
        fl = r.pop("fluid")
        if fl is not None:
            r["fp"] = {"m_i": float(fl.m_i), "ms": np.asarray(fl.pvt_props["m-scaled"], dtype=float),
                       "alpha": np.asarray(fl.pvt_props["alpha"], dtype=float),
                       "pressure": np.asarray(fl.pvt_props["pressure"], dtype=float),
                       "density": np.asarray(fl.pvt_props["density"], dtype=float) if "density" in fl.pvt_props else None}
        slim.append(r)
    with open(out, "wb") as f:
        pickle.dump({"pytest_rc": 0, "records": slim, "status": status}, f)
    return 0


if __name__ == "__main__":
    sys.exit(main(sys.argv[1:]))
