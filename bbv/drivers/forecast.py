"""Driver for bluebonnet.forecast.forecast (property C05): recovery curves, concrete readings of the abstract
alphabet of Forecast.tla, execution of fit / forecast_cum on real ForecasterOnePhase objects and projection of
what they show to the fields of ForecastTrace.tla (quantised positions, agreement magnitudes)."""
from __future__ import annotations

import functools
import math
import warnings
from dataclasses import dataclass, field
from fractions import Fraction

import numpy as np

from .. import quant
from .reservoir import flow_properties, shipped_table

CURVES = ("ideal", "gas", "analytic", "cubic")
M_DECADES = (-9.0, 9.0)  # claimed range of M (18 decades); tau: 1e-4 .. 1e8
TAU_DECADES = (-4.0, 8.0)
CAP = quant.CAP


# ---- recovery curves --------------------------------------------------------------------------------------
def _analytic(x):
    return 1.0 - np.exp(-np.asarray(x, dtype=float))


@functools.lru_cache(maxsize=None)
def curve(name: str):
    """rf(scaled time) callables: the interpolator of a real IdealReservoir / SinglePhaseReservoir run
    (shipped gas table tests/data/pvt_gas.csv) and the analytic 1 - exp(-t)."""
    from bluebonnet.flow import IdealReservoir, SinglePhaseReservoir  # noqa: PLC0415

    if name == "analytic":
        return _analytic
    if name == "cubic":
        # a user's own interpolator: cubic, on a coarse table of the ideal curve, flat beyond its ends (the forecast is M times
        # THIS callable of t / tau, whatever kind of interpolator it is)
        from scipy.interpolate import interp1d  # noqa: PLC0415

        xs = np.linspace(0.0, np.sqrt(8.0), 45) ** 2
        ys = np.asarray(curve("ideal")(xs), dtype=float)
        return interp1d(xs, ys, kind="cubic", bounds_error=False, fill_value=(0.0, float(ys[-1])))
    ts = np.linspace(0, np.sqrt(8.0), 1500) ** 2
    with warnings.catch_warnings():
        warnings.simplefilter("ignore")
        if name == "ideal":
            r = IdealReservoir(40, 500.0, 5000.0, None)
        elif name == "gas":
            r = SinglePhaseReservoir(40, 1000.0, 8000.0, flow_properties(shipped_table("pvt_gas"), 8000.0))
        else:
            raise KeyError(name)
        r.simulate(ts)
        r.recovery_factor()
        return r.recovery_factor_interpolator()


# ---- numbers ------------------------------------------------------------------------------------------------
def ext(nd) -> float:
    """Extended rational of Forecast.tla ([n, d]; d = 0: +-inf / NaN) -> float."""
    n, d = int(nd[0]), int(nd[1])
    if d == 0:
        return math.inf if n > 0 else (-math.inf if n < 0 else math.nan)
    return n / d


def e9(a: float, ref: float) -> int:
    """ceil(|a - ref| / |ref| * 1e9), capped: relative error in units of 1e-9."""
    a, ref = float(a), float(ref)
    if not (math.isfinite(a) and math.isfinite(ref)) or ref == 0:
        return CAP
    return int(min(CAP, math.ceil(abs(Fraction(a) - Fraction(ref)) / abs(Fraction(ref)) * 10**9)))


def arr_e15(a, b) -> int:
    """max |a - b| relative to max |b|, in units of 1e-15, capped."""
    a, b = np.asarray(a, dtype=float), np.asarray(b, dtype=float)
    if a.shape != b.shape or not (np.all(np.isfinite(a)) and np.all(np.isfinite(b))):
        return CAP
    sc = float(np.max(np.abs(b)))
    if sc == 0:
        return 0 if float(np.max(np.abs(a))) == 0 else CAP
    i = int(np.argmax(np.abs(a - b)))
    return quant.e15(float(a[i]), float(b[i]), sc)


def qpos(x: float, lo: float, hi: float, scale: float) -> list[int]:
    """Position of x relative to a bound interval: finite -> window [lo, hi]; (lo, inf) -> window [lo, lo + scale]."""
    if math.isinf(hi):
        return quant.q(x, lo, lo + scale)
    return quant.q(x, lo, hi)


# ---- concrete instantiations -----------------------------------------------------------------------------------
@dataclass
class Conc:
    """A concrete reading of the abstract machine: curve, generating parameters, data window, bounds."""
    curve: str
    M0: float
    tau0: float
    t: np.ndarray
    mstyle: str  # "finite" | "lower"
    tstyle: str
    mb: tuple  # concrete (lo, hi)
    tb: tuple
    default: bool = False  # use the library's default Bounds object
    y: np.ndarray = field(default=None, repr=False)

    def __post_init__(self):
        if self.y is None:
            self.y = self.M0 * curve(self.curve)(self.t / self.tau0)

    def gen_inside(self) -> bool:
        return self.mb[0] <= self.M0 <= self.mb[1] and self.tb[0] <= self.tau0 <= self.tb[1]

    def new(self, scale: float = 1.0):
        from bluebonnet.forecast import Bounds, ForecasterOnePhase  # noqa: PLC0415

        if self.default:
            return ForecasterOnePhase(curve(self.curve))
        return ForecasterOnePhase(curve(self.curve), Bounds(M=(self.mb[0] * scale, self.mb[1] * scale), tau=self.tb))

    def supplied(self, a: float) -> float:
        """Abstract supplied tau (0 below the bound, 2 inside, 4 above the finite bound) -> concrete value."""
        lo, hi = self.tb
        if a == 0:
            return lo * 0.5 if lo > 1e-9 else self.tau0 * 0.03
        if a == 2:
            return min(max(self.tau0 * 1.3, lo * 1.01), hi * 0.99) if math.isfinite(hi) else max(self.tau0 * 1.3, lo * 1.01)
        return hi * 2.0 if math.isfinite(hi) else max(self.tau0, lo) * 10.0

    def describe(self) -> dict:
        return {"curve": self.curve, "M0": self.M0, "tau0": self.tau0, "n": len(self.t), "t_end": float(self.t[-1]),
                "M_bounds": list(self.mb), "tau_bounds": list(self.tb), "default_bounds": self.default}


def window(rng: np.random.Generator, tau0: float) -> np.ndarray:
    """A production window that reaches boundary-dominated flow: ends in [0.6, 3] tau0, >= 50 samples."""
    end = rng.uniform(0.6, 3.0) * tau0
    n = int(rng.integers(50, 400))
    kind = int(rng.integers(3))
    if kind == 0:
        return np.linspace(0.0, end, n)
    if kind == 1:
        return np.linspace(0.0, np.sqrt(end), n) ** 2
    return np.sort(np.concatenate([[0.0, end], rng.uniform(0.0, end, n - 2)]))


BOUND_KINDS = ("default", "finite-in", "finite-out", "lower-in", "lower-out", "mixed", "tau-above")


def random_conc(rng: np.random.Generator, cname: str, kind: str, small_m: bool = False) -> Conc:
    conc = _random_conc(rng, cname, kind, small_m)
    if not small_m and conc.M0 >= 1e5 and conc.t[-1] >= 300 and rng.random() < 0.5:
        # records kept as whole numbers (day counts, volumes in integer units): integer arrays
        t = np.unique(np.round(conc.t)).astype(np.int64)
        conc.t = t
        conc.y = np.round(conc.M0 * curve(conc.curve)(t / conc.tau0)).astype(np.int64)
    return conc


def _random_conc(rng: np.random.Generator, cname: str, kind: str, small_m: bool = False) -> Conc:
    m0 = 10 ** (rng.uniform(-7, -5) if small_m else rng.uniform(*M_DECADES))
    tau0 = 10 ** rng.uniform(*TAU_DECADES)
    t = window(rng, tau0)
    u = rng.uniform
    if kind == "default":
        return Conc(cname, m0, tau0, t, "lower", "lower", (0.0, math.inf), (1e-10, math.inf), default=True)
    if kind == "finite-in":
        return Conc(cname, m0, tau0, t, "finite", "finite", (m0 * 10 ** -u(0.1, 2), m0 * 10 ** u(0.1, 2)),
                    (tau0 * 10 ** -u(0.1, 2), tau0 * 10 ** u(0.1, 2)))
    if kind == "finite-out":
        if rng.random() < 0.5:
            return Conc(cname, m0, tau0, t, "finite", "finite", (m0 * 10 ** u(0.1, 1), m0 * 10 ** u(1.1, 2)),
                        (tau0 * 10 ** -u(1.1, 2), tau0 * 10 ** -u(0.1, 1)))
        return Conc(cname, m0, tau0, t, "finite", "finite", (m0 * 10 ** -u(1.1, 2), m0 * 10 ** -u(0.1, 1)),
                    (tau0 * 10 ** -u(0.1, 1), tau0 * 10 ** u(0.1, 2)))
    if kind == "lower-in":
        return Conc(cname, m0, tau0, t, "lower", "lower", (m0 * 10 ** -u(0.1, 2), math.inf), (tau0 * 10 ** -u(0.1, 2), math.inf))
    if kind == "lower-out":
        return Conc(cname, m0, tau0, t, "lower", "lower", (m0 * 10 ** u(0.1, 1), math.inf), (tau0 * 10 ** -u(0.1, 2), math.inf))
    if kind == "mixed":
        return Conc(cname, m0, tau0, t, "finite", "lower", (m0 * 10 ** -u(0.1, 2), m0 * 10 ** u(0.1, 2)),
                    (tau0 * 10 ** -u(0.1, 2), math.inf))
    if kind == "tau-above":
        # the lower tau limit lies above the data-driven initial guess (5 x the last time): half-infinite or finite
        lo = tau0 * 10 ** u(1.3, 2)
        half = bool(rng.random() < 0.5)
        return Conc(cname, m0, tau0, t, "lower", "lower" if half else "finite", (m0 * 10 ** -u(0.1, 2), math.inf),
                    (lo, math.inf) if half else (lo, lo * 10 ** u(0.5, 1.5)))
    raise KeyError(kind)


def machine_conc(cname: str, mstyle: str, tstyle: str, variant: int) -> Conc:
    """Deterministic concretisation of an abstract bounds pair for the history replay."""
    rng = np.random.default_rng([variant, CURVES.index(cname), 5])
    m0 = 10 ** rng.uniform(*M_DECADES)
    tau0 = 10 ** rng.uniform(*TAU_DECADES)
    t = window(rng, tau0)
    mb = (m0 / 4.0, m0 * 3.0) if mstyle == "finite" else (m0 / 4.0, math.inf)
    tb = (tau0 / 5.0, tau0 * 2.5) if tstyle == "finite" else (tau0 / 5.0, math.inf)
    return Conc(cname, m0, tau0, t, mstyle, tstyle, mb, tb)


# ---- execution of calls ----------------------------------------------------------------------------------------------
def do_fit(fc, conc: Conc, sup: float | None, y=None):
    """fit(t, y[, tau]) -> (outcome, M_, tau_) (attributes read after the call; NaN if absent)."""
    y = conc.y if y is None else y
    try:
        with warnings.catch_warnings():
            warnings.simplefilter("ignore")
            if sup is None:
                fc.fit(conc.t, y)
            else:
                fc.fit(conc.t, y, tau=sup)
        outcome = "ok"
    except Exception as ex:  # noqa: BLE001
        outcome = type(ex).__name__
    return outcome, float(getattr(fc, "M_", math.nan)), float(getattr(fc, "tau_", math.nan))


def bounded_optimum(conc: Conc, sup: float) -> float:
    """Closed-form bounded least-squares optimum of M at a fixed tau: clip(sum(y rf) / sum(rf^2), lo, hi)."""
    rfv = np.asarray(curve(conc.curve)(conc.t / sup), dtype=float)
    den = float(np.sum(rfv * rfv))
    if den == 0:
        return math.nan
    return float(min(max(float(np.sum(conc.y * rfv)) / den, conc.mb[0]), conc.mb[1]))


def fit_event(fc, conc: Conc, sup: float | None, rng: np.random.Generator | None = None) -> dict:
    outcome, m_, tau_ = do_fit(fc, conc, sup)
    ev = {"ev": "Fit", "given": sup is not None, "outcome": outcome,
          "mq": qpos(m_, conc.mb[0], conc.mb[1], conc.M0), "tq": qpos(tau_, conc.tb[0], conc.tb[1], conc.tau0),
          "sq": qpos(sup, conc.tb[0], conc.tb[1], conc.tau0) if sup is not None else list(quant.NANQ),
          "tau_same": quant.e15(tau_, sup, abs(sup)) if sup is not None else 0,
          # (the cubic user curve wiggles between its coarse nodes: a least-squares fit on it may have several local minima, so
          #  round trip, unit equivariance and the closed-form optimum are demanded on the three physical curves; the scaling law,
          #  the limits and the supplied tau are demanded for any curve)
          "gen_inside": bool(conc.gen_inside() and conc.curve != "cubic"), "rt_m": e9(m_, conc.M0), "rt_tau": e9(tau_, conc.tau0),
          "opt_e15": 0, "opt_e9": 0, "opt_active": False, "eq_e15": -1,
          "raw": {"M_": m_, "tau_": tau_, "supplied": sup}}
    if sup is not None and outcome == "ok" and conc.curve != "cubic":
        opt = bounded_optimum(conc, sup)
        ev["opt_e15"] = quant.e15(m_, opt, abs(opt)) if math.isfinite(opt) and opt != 0 else CAP
        ev["opt_e9"] = e9(m_, opt) if math.isfinite(opt) and opt != 0 else CAP
        ev["opt_active"] = bool(opt in (conc.mb[0], conc.mb[1]))   # the closed-form optimum was clipped to a bound
        ev["raw"]["optimum"] = opt
    if sup is None and outcome == "ok" and conc.gen_inside() and rng is not None and np.asarray(conc.y).dtype.kind == "f" \
            and conc.curve != "cubic":
        # (whole-number records carry rounding noise: the optimum is then only located to the optimiser's tolerance on a flat
        #  minimum, and two runs in different units need not agree to 1e-6; the clause is demanded on exact data)
        # scale equivariance: the same data in other units (bounds on M scaled along)
        a = float(10 ** rng.uniform(M_DECADES[0], M_DECADES[1]) / conc.M0)  # a M0 stays inside the claimed range
        o2, m2, t2 = do_fit(conc.new(scale=a), conc, None, y=conc.y * a)
        ev["eq_e15"] = CAP if o2 != "ok" else max(quant.e15(m2 / a, m_, abs(m_)), quant.e15(t2, tau_, abs(tau_)))
        ev["raw"]["equivariance"] = {"a": a, "M_": m2, "tau_": t2}
    return ev


def rebound_event(fc, conc: Conc, rng: np.random.Generator) -> dict:
    """The caller assigns other limits to the object's public `bounds` field (a tightened study, a relaxed one): later fits are
    judged against them.  The concrete reading `conc` is updated along."""
    from bluebonnet.forecast import Bounds  # noqa: PLC0415

    u = rng.uniform
    mstyle = "finite" if rng.random() < 0.6 else "lower"
    tstyle = "finite" if rng.random() < 0.6 else "lower"
    how = int(rng.integers(3))
    mlo = conc.M0 * (10 ** -u(0.1, 1.5) if how != 1 else 10 ** u(0.05, 0.5))        # how = 1: the generating M is excluded
    tlo = conc.tau0 * (10 ** -u(0.1, 1.5) if how != 2 else 10 ** u(0.05, 0.5))      # how = 2: the generating tau is excluded
    mb = (mlo, mlo * 10 ** u(0.3, 2.0)) if mstyle == "finite" else (mlo, math.inf)
    tb = (tlo, tlo * 10 ** u(0.3, 2.0)) if tstyle == "finite" else (tlo, math.inf)
    try:
        fc.bounds = Bounds(M=mb, tau=tb)
        outcome = "ok"
    except Exception as ex:  # noqa: BLE001
        outcome = type(ex).__name__
    conc.mb, conc.tb, conc.mstyle, conc.tstyle, conc.default = mb, tb, mstyle, tstyle, False
    return {"ev": "Rebound", "mstyle": mstyle, "tstyle": tstyle, "outcome": outcome, "raw": {"M_bounds": list(mb), "tau_bounds": list(tb)}}


def cum_event(fc, conc: Conc, m_arg: float | None, tau_arg: float | None, rng: np.random.Generator) -> dict:
    rf = curve(conc.curve)
    t = conc.t[1:: max(1, len(conc.t) // 25)]
    kw = {}
    if m_arg is not None:
        kw["M"] = m_arg
    if tau_arg is not None:
        kw["tau"] = tau_arg
    ev = {"ev": "Cum", "M": "arg" if m_arg is not None else "none", "tau": "arg" if tau_arg is not None else "none",
          "agree_e15": 0, "lin_e15": 0, "resc_e15": 0}
    # the documented parameter order is (time_on_production, M, tau): half of the calls pass what they pass by position
    positional = bool(rng.random() < 0.5) and (m_arg is not None or tau_arg is None)

    def call(tt, kws):
        if positional and "M" in kws:
            return fc.forecast_cum(tt, kws["M"], kws["tau"]) if "tau" in kws else fc.forecast_cum(tt, kws["M"])
        return fc.forecast_cum(tt, **kws)

    try:
        out = np.asarray(call(t, kw), dtype=float)
        ev["outcome"] = "ok"
    except Exception as ex:  # noqa: BLE001
        ev["outcome"] = type(ex).__name__
        return ev
    mu = m_arg if m_arg is not None else float(getattr(fc, "M_", math.nan))
    tu = tau_arg if tau_arg is not None else float(getattr(fc, "tau_", math.nan))
    ev["agree_e15"] = arr_e15(out, mu * np.asarray(rf(t / tu), dtype=float))
    # the caller refills its own time buffer in place (same array object, new contents) and forecasts again with the same
    # tau: the forecast is M * rf(t / tau) of the contents it is given, whatever an earlier call saw
    buf = np.array(t, dtype=float)
    try:
        call(buf, kw)
        buf *= 0.5
        again = np.asarray(call(buf, kw), dtype=float)
        ev["agree_e15"] = max(ev["agree_e15"], arr_e15(again, mu * np.asarray(rf(buf / tu), dtype=float)))
    except Exception:  # noqa: BLE001
        ev["agree_e15"] = CAP
    a = float(10 ** rng.uniform(-3, 3))
    k = float(10 ** rng.uniform(-3, 3))
    try:
        ev["lin_e15"] = arr_e15(call(t, {"M": a * mu, "tau": tu}), a * out)
        ev["resc_e15"] = arr_e15(call(k * t, {"M": mu, "tau": k * tu}), out)
    except Exception:  # noqa: BLE001
        ev["lin_e15"] = ev["resc_e15"] = CAP
    ev["raw"] = {"M_used": mu, "tau_used": tu, "a": a, "k": k, "called_positionally": positional}
    return ev


def d16_events() -> tuple[list[dict], dict]:
    """The well on which defect D16 was found (round trip of a noise-free ideal-gas well, default bounds), kept as a fixed object of
    every run: New, fit()."""
    import json as _json  # noqa: PLC0415
    from pathlib import Path  # noqa: PLC0415

    w = _json.loads((Path(__file__).resolve().parent.parent / "data" / "d16_well.json").read_text())
    conc = Conc(w["curve"], float(w["M0"]), float(w["tau0"]), np.asarray(w["t"], dtype=float), "lower", "lower", (0.0, math.inf),
                (1e-10, math.inf), default=True)
    fc = conc.new()
    evs = [{"ev": "New", "mstyle": conc.mstyle, "tstyle": conc.tstyle}, fit_event(fc, conc, None, None)]
    return evs, {"conc": conc.describe(), "calls": [("fit", None)], "regression_well": "D16"}


def object_events(cname: str, kind: str, seed, small_m: bool, ncalls: int) -> tuple[list[dict], dict]:
    """One forecaster object driven through a random history; events for ForecastTrace.tla (without tid / seq)."""
    rng = np.random.default_rng(seed)
    conc = random_conc(rng, cname, kind, small_m)
    fc = conc.new()
    evs = [{"ev": "New", "mstyle": conc.mstyle, "tstyle": conc.tstyle}]
    calls = []
    for i in range(ncalls):
        r = rng.random()
        if i == 0 and r < 0.5:
            r = 0.9  # often a forecast before any fit
        if r < 0.07:
            calls.append(("rebound",))
            evs.append(rebound_event(fc, conc, rng))
        elif kind == "default" and conc.default and r < 0.16 and i > 0:
            # the same forecaster object is pointed at ANOTHER well (production and time scale decades away): a fit depends on the
            # data it is given, not on what the object fitted before
            conc = _random_conc(rng, cname, "default", small_m)
            calls.append(("fit on another well", None))
            evs.append(fit_event(fc, conc, None, rng))
        elif r < 0.35:
            calls.append(("fit", None))
            evs.append(fit_event(fc, conc, None, rng))
        elif r < 0.6:
            a = int(rng.choice([0, 2, 2, 4, -1]))
            sup = conc.tau0 if a == -1 else conc.supplied(a)
            calls.append(("fit", sup))
            evs.append(fit_event(fc, conc, sup, rng))
        else:
            m_arg = float(conc.M0 * 10 ** rng.uniform(-1, 1)) if rng.random() < 0.4 else None
            if m_arg is not None and rng.random() < 0.15:
                m_arg = 0.0   # an explicit resource of zero is an argument like any other: the forecast is zero
            t_arg = float(conc.tau0 * 10 ** rng.uniform(-1, 1)) if rng.random() < 0.4 else None
            calls.append(("forecast", m_arg, t_arg))
            evs.append(cum_event(fc, conc, m_arg, t_arg, rng))
    return evs, {"conc": conc.describe(), "calls": calls}
