"""Shared driver pieces of C06 / C07 (gas equation of state, PVT identities).

- model(ctx): exhaustive TLC run of spec/MC_GasEOS.tla (lattice, observation classes, exact mass-content cases),
  refutation of the deviation the calling property names, and the exported cases / constants (the harness takes
  every domain limit and every constant of the identities from this export, never from a Python literal).
- classify(ctx, log): code -> spec pass through spec/GasEOSTrace.tla: which failed clause of which recorded point
  is explained by open finding D6 (decided by TLC, point by point).
- Watchdog: runs gas.z_factor_hallyarbrough in a child process that can be killed (finite surrogate of "terminates").
"""
from __future__ import annotations

import multiprocessing as mp
from dataclasses import dataclass, field
from fractions import Fraction

from .. import core, env, sweep, tlc, trace


def frac(nd) -> Fraction:
    return Fraction(int(nd[0]), int(nd[1]))


@dataclass
class Model:
    consts: dict[str, Fraction]
    lattice: list[dict] = field(default_factory=list)  # tr, pr (Fraction), toone, hy, corner, ladder
    water: list[dict] = field(default_factory=list)  # s (int), expect (Fraction)
    oil: list[dict] = field(default_factory=list)  # api, gg, rs (Fraction), expect (Fraction)

    def f(self, name: str) -> float:
        return float(self.consts[name])

    # domain decisions for points that are not lattice points (dense / random): the same comparisons GasEOS.tla
    # makes, on the nominal float inputs, against the exported limits
    def in_validity(self, tr: float, pr: float) -> bool:
        return self.f("trmin") <= tr <= self.f("trmax") and 0.0 < pr <= self.f("prmax")

    def toone_applies(self, pr: float) -> bool:
        return 0.0 < pr <= self.f("tooneprmax")

    def in_hy_common(self, tr: float, pr: float) -> bool:
        return self.f("hytrmin") <= tr <= self.f("hytrmax") and self.f("hyprmin") <= pr <= self.f("hyprmax")

    def side(self, pr: float) -> str:
        m = self.f("tooneprmax")
        return "below" if pr < m else ("at" if pr == m else "above")

    def gas_std_mass(self, gravity: float) -> Fraction:
        """p_sc M / (R T_sc) / 5.615 : lb of gas per reservoir-barrel-per-scf unit the library's Bg is in."""
        c = self.consts
        return (c["pstd"] * c["mair"] * Fraction(gravity) / (c["rgas"] * (c["tstd"] + c["rankine"]))) / c["ft3bbl"]

    def oil_mass(self, api: float, gg: float, rs: float) -> Fraction:
        c = self.consts
        return (c["oilwater"] * c["apinum"] / (c["apiden"] + Fraction(api))
                + c["oilgas"] * Fraction(gg) * Fraction(rs))

    def brine_std(self, s: float) -> Fraction:
        c = self.consts
        return c["w0"] + c["w1"] * Fraction(s) + c["w2"] * Fraction(s) ** 2


DEVIATIONS = {
    "C06": ("MC_GasEOS_dev_ExplainAnyRootFailure.cfg", "RootOfNeitherIsViolation"),
    "C07": ("MC_GasEOS_dev_ExplainCgByFormulaOnly.cfg", "CgExplainedOnlyStructurally"),
}


def model(ctx: core.Ctx, refute: bool = True) -> Model:
    if refute and ctx.prop in DEVIATIONS:
        cfg, inv = DEVIATIONS[ctx.prop]
        ctx.expect_refuted("MC_GasEOS", cfg, inv, workers=2)
    r = ctx.model_check("MC_GasEOS", "MC_GasEOS_export.cfg", workers=4)
    cases = r.by_tag("CASE")
    cs = [c for c in cases if c["kind"] == "consts"]
    if len(cs) != 1:
        raise tlc.MachineryError(f"MC_GasEOS exported {len(cs)} constant records")
    m = Model({k: frac(v) for k, v in cs[0].items() if k not in ("tag", "kind")})
    for c in cases:
        if c["kind"] == "lattice":
            m.lattice.append({"tr": frac(c["tr"]), "pr": frac(c["pr"]), "toone": c["toone"], "hy": c["hy"],
                              "corner": c["corner"], "ladder": c["ladder"]})
        elif c["kind"] == "water":
            m.water.append({"s": int(c["s"]), "expect": sum((frac(t) for t in c["terms"]), Fraction(0))})
        elif c["kind"] == "oil":
            m.oil.append({"api": frac(c["api"]), "gg": frac(c["gg"]), "rs": frac(c["rs"]),
                          "expect": sum((frac(t) for t in c["terms"]), Fraction(0))})
    if len(m.lattice) < 135 or len(m.water) != 26 or len(m.oil) < 36:
        raise tlc.MachineryError(f"MC_GasEOS export incomplete: {len(m.lattice)} lattice, {len(m.water)} water, "
                                 f"{len(m.oil)} oil cases")
    # the float decisions used for non-lattice points must coincide with TLC's exact ones on the lattice
    for p in m.lattice:
        tr, pr = float(p["tr"]), float(p["pr"])
        if m.toone_applies(pr) != p["toone"] or m.in_hy_common(tr, pr) != p["hy"] or not m.in_validity(tr, pr):
            raise tlc.MachineryError(f"float domain decision differs from the spec's at T_r={tr}, p_r={pr}")
    m.lattice.sort(key=lambda p: (p["tr"], p["pr"]))
    m.water.sort(key=lambda w: w["s"])
    m.oil.sort(key=lambda o: (o["api"], o["gg"], o["rs"]))
    return m


def classify(ctx: core.Ctx, log: sweep.SweepLog) -> dict:
    """(tid, seq) -> {clause: finding key} as printed by TLC running GasEOSTrace.tla over every recorded point
    whose raw dict carries an observation record (`kind`, `o`)."""
    events = []
    for e in log.events:
        if e["ev"] != "Point":
            continue
        raw = log.meta[e["tid"]]["points"][e["seq"] - 1]
        if "o" in raw:
            events.append({"tid": e["tid"], "seq": e["seq"], "kind": raw["kind"], "o": raw["o"]})
    if not events:
        return {}
    n0 = ctx.events
    verdicts = trace.validate(ctx, "GasEOSTrace", events, count_traces=False)
    ctx.events = n0  # the same points are counted once, when the sweep spec judges them
    ctx.extra["points_classified_by_GasEOSTrace"] = ctx.extra.get("points_classified_by_GasEOSTrace", 0) + len(events)
    return {(v["tid"], v["seq"]): dict(v["keys"]) for v in verdicts}


def explainer(keys: dict):
    def explain(tid, seq, clause, meta, raw):  # noqa: ARG001
        return keys.get((tid, seq), {}).get(clause)

    return explain


def split_log(log: sweep.SweepLog, max_events: int) -> list[sweep.SweepLog]:
    """Cut a log into pieces of whole sweeps so that one TLC run stays small."""
    out, cur = [], sweep.SweepLog()
    by_tid: dict[int, list] = {}
    for e in log.events:
        by_tid.setdefault(e["tid"], []).append(e)
    for tid in sorted(by_tid):
        evs = by_tid[tid]
        if cur.events and len(cur.events) + len(evs) > max_events:
            out.append(cur)
            cur = sweep.SweepLog()
        cur._tid += 1  # noqa: SLF001
        new = cur._tid  # noqa: SLF001
        cur.meta[new] = log.meta[tid]
        for e in evs:
            e2 = dict(e)
            e2["tid"] = new
            cur.events.append(e2)
    if cur.events:
        out.append(cur)
    return out


# ---- Hall-Yarbrough under a watchdog ---------------------------------------------------------------------------
def _hy_child(conn, repo_src: str) -> None:
    import sys  # noqa: PLC0415
    import warnings  # noqa: PLC0415

    import numpy as np  # noqa: PLC0415

    if repo_src not in sys.path:
        sys.path.insert(0, repo_src)
    from bluebonnet.fluids import gas  # noqa: PLC0415

    warnings.simplefilter("ignore")
    np.seterr(all="ignore")
    while True:
        msg = conn.recv()
        if msg is None:
            return
        pr, tr = msg[:2]
        if len(msg) > 2 and msg[2]:
            tr = int(tr)   # a whole-number reduced temperature written as an integer
        try:
            conn.send(("ok", float(gas.z_factor_hallyarbrough(pr, tr))))
        except Exception as ex:  # noqa: BLE001
            conn.send(("exc", repr(ex)[:200]))


class Watchdog:
    """z_factor_hallyarbrough(p_r, T_r) in a killable child; a call that does not return within `timeout` seconds
    is reported as ("timeout", None) and the child is replaced."""

    def __init__(self, timeout: float = 2.0):
        self.timeout = timeout
        self.mp = mp.get_context("fork")
        self.proc = None
        self.conn = None
        self.timeouts = 0
        self._start()

    def _start(self) -> None:
        parent, child = self.mp.Pipe()
        self.proc = self.mp.Process(target=_hy_child, args=(child, str(env.REPO / "src")), daemon=True)
        self.proc.start()
        child.close()
        self.conn = parent

    def call(self, pr: float, tr: float):
        self.conn.send((float(pr), float(tr), bool(float(tr).is_integer() and int(round(float(pr) * 1000)) % 2 == 0)))
        if self.conn.poll(self.timeout):
            try:
                return self.conn.recv()
            except EOFError:
                self._kill()
                self._start()
                return ("died", None)
        self.timeouts += 1
        self._kill()
        self._start()
        return ("timeout", None)

    def _kill(self) -> None:
        try:
            self.proc.kill()
            self.proc.join(5)
        finally:
            self.conn.close()

    def close(self) -> None:
        try:
            self.conn.send(None)
            self.proc.join(2)
        except Exception:  # noqa: BLE001
            pass
        if self.proc.is_alive():
            self._kill()
