"""Driver for the finite-difference solver: run configurations, level-by-level traces (SchemeTrace.tla),
exact residual oracle, fluid-table families."""
from __future__ import annotations

import functools
import math
import warnings
from fractions import Fraction

import numpy as np
import pandas as pd

from .. import env, quant
from . import reservoir as rdrv

EPS = float(np.finfo(float).eps)
FLOOR = Fraction(1, 10**250)


# ---- fluid tables -----------------------------------------------------------------------------------------
def synth_consistent(a: float, mu0: float = 0.02, pmax: float = 10000.0, n: int = 501) -> pd.DataFrame:
    """Exactly consistent single-phase table: z = 1 + a p, mu = mu0 => density = p/z, c = 1/(p z),
    m = (2/mu0) (p/a - ln(1 + a p)/a^2).  (a = 0: ideal gas.)  Node values are exact up to float rounding."""
    p = np.linspace(10.0, pmax, n)
    z = 1 + a * p
    dens = p / z
    c = 1 / (p * z)
    if a == 0:
        m = p**2 / mu0
    else:
        m = (2 / mu0) * (p / a - np.log1p(a * p) / a**2)
    return pd.DataFrame({"pressure": p, "z-factor": z, "viscosity": np.full(n, mu0), "compressibility": c,
                         "density": dens, "pseudopressure": m})


def synth_alpha(shape: str, n: int = 41) -> pd.DataFrame:
    """User-diffusivity table (the 'alpha' branch): pseudopressure == pressure, alpha rising/falling/kinked/constant."""
    p = np.linspace(100.0, 10000.0, n)
    x = (p - p[0]) / (p[-1] - p[0])
    alpha = {"rising": 1 + 2 * x, "falling": 3 - 2 * x, "kinked": 1 + 2 * np.abs(x - 0.5), "constant": np.ones(n),
             "steep": 0.05 + 10 * x**3, "stepped": np.where(x < 0.45, 0.02, 1.0)}[shape]
    return pd.DataFrame({"pressure": p, "pseudopressure": p.copy(), "alpha": alpha, "density": p.copy()})


@functools.lru_cache(maxsize=None)
def built_table(gravity: float, temp: float, n2: float = 0.0, h2s: float = 0.0, co2: float = 0.0) -> pd.DataFrame:
    from bluebonnet.fluids import build_pvt_gas  # noqa: PLC0415

    t = build_pvt_gas({"N2": n2, "H2S": h2s, "CO2": co2, "Gas Specific Gravity": gravity,
                       "Reservoir Temperature (deg F)": temp}, "wet gas", maximum_pressure=12000)
    return t.rename(columns={"Density": "density"})


def table(spec: str) -> pd.DataFrame:
    kind, _, arg = spec.partition(":")
    if kind == "shifted":   # pseudopressure with another zero (the library's own rescale_pseudopressure): negative below 2000 psi
        from bluebonnet.flow import rescale_pseudopressure  # noqa: PLC0415

        t = table(arg)
        hi = float(np.sort(np.asarray(t["pressure"], dtype=float))[-1])
        return rescale_pseudopressure(t, 2000.0, min(8000.0, hi))
    if kind == "desc":   # the same table listed from high to low pressure (FlowProperties accepts any row order)
        return table(arg).iloc[::-1].reset_index(drop=True)
    if kind == "pvt_gas":
        return rdrv.shipped_table("pvt_gas")
    if kind == "haynesville":
        return rdrv.shipped_table("haynesville")
    if kind == "ideal_csv":
        return pd.read_csv(env.REPO / "tests/data/pvt_ideal_gas.csv").rename(columns=rdrv.REN_GAS)
    if kind == "built":
        g, t = arg.split(",")
        return built_table(float(g), float(t))
    if kind == "synth_z":
        a, _, rows = arg.partition(":")   # "synth_z:0.0:21" = the same family tabulated with 21 rows (500 psi apart)
        return synth_consistent(float(a), n=int(rows)) if rows else synth_consistent(float(a))
    if kind == "synth_alpha":
        shape, _, rows = arg.partition(":")   # "synth_alpha:constant:11" = the same table with 11 rows (990 psi apart)
        return synth_alpha(shape, n=int(rows)) if rows else synth_alpha(shape)
    raise KeyError(spec)


def is_consistent_family(spec: str) -> bool:
    if spec.startswith("desc:"):
        spec = spec[5:]
    return spec.split(":")[0] in ("synth_z",)


# ---- time grids and schedules -----------------------------------------------------------------------------------
def make_grid(style: str, nt: int, tend: float, rng) -> np.ndarray:
    if style == "uniform":
        return np.linspace(0, tend, nt)
    if style == "quadratic":
        return np.linspace(0, math.sqrt(tend), nt) ** 2
    if style == "geometric":
        return np.concatenate([[0.0], np.geomspace(tend * 1e-6, tend, nt - 1)])
    if style == "random":
        d = rng.uniform(0.0, 1.0, nt - 1) ** 3 + 1e-9
        return np.concatenate([[0.0], np.cumsum(d) * tend / d.sum()])
    if style == "jumpy":  # increments going up and down by orders of magnitude
        d = 10.0 ** rng.uniform(-4, 0, nt - 1)
        return np.concatenate([[0.0], np.cumsum(d) * tend / d.sum()])
    if style == "drift":  # every increment a few parts per million longer than the last
        d = (tend / nt) * (1 + 4e-6) ** np.arange(nt - 1)
        return np.concatenate([[0.0], np.cumsum(d)])
    if style == "dupes":  # non-decreasing with repeated time stamps (two series glued at a shared end point, a tripled point)
        g = np.linspace(0, math.sqrt(tend), max(3, nt - 3)) ** 2
        k = len(g) // 3
        return np.concatenate([g[: k + 1], [g[k]], g[k + 1: 2 * k + 1], [g[2 * k], g[2 * k]], g[2 * k + 1:]])
    if style == "nearuniform":  # increments that differ by a few parts per billion (second differences ~1e-11)
        d = (tend / nt) * (1 + 3e-9 * np.arange(nt - 1))
        return np.concatenate([[0.0], np.cumsum(d)])
    if style == "tiny":  # tiny increments that double
        d = 1e-13 * 2.0 ** np.arange(nt - 1)
        return np.concatenate([[0.0], np.cumsum(np.minimum(d, tend))])
    if style == "intdays":  # integer day counts (int64 array)
        return np.concatenate([[0], np.cumsum(rng.integers(1, 4, nt - 1))]).astype(np.int64)
    if style == "intdays16":  # day counts in a narrow integer column (int16), monthly to bi-monthly reporting
        steps = rng.integers(20, 61, nt - 1)
        steps = steps[np.cumsum(steps) < 32000]
        return np.concatenate([[0], np.cumsum(steps)]).astype(np.int16)
    if style == "f32":
        return (np.linspace(0, math.sqrt(tend), nt) ** 2).astype(np.float32)
    if style == "epoch":  # a time axis counted from a distant origin (serial day numbers) with sub-day steps: t / dt of 1e6 and more
        d = rng.uniform(0.2, 1.0, nt - 1) * (tend / nt) * 1e-2
        return 45000.0 + np.concatenate([[0.0], np.cumsum(d)])
    if style == "huge":  # very large steps
        d = 10.0 ** rng.uniform(0, 8, nt - 1)
        return np.concatenate([[0.0], np.cumsum(d)])
    raise KeyError(style)


def make_schedule(style: str, nt: int, pf: float, pi: float, pmin: float, rng):
    if style == "none":
        return None
    if style == "const":
        return np.full(nt, pf)
    if style == "stepdown":
        k = int(rng.integers(2, 6))
        levels = np.sort(rng.uniform(pmin, pf, k))[::-1]
        levels[0] = pf
        return levels[np.minimum((np.arange(nt) * k) // nt, k - 1)]
    if style == "arbitrary":
        return rng.uniform(pmin, 0.98 * pi, nt)
    if style == "updown":
        x = np.linspace(0, 1, nt)
        return pf + (0.9 * pi - pf) * 0.5 * (1 - np.cos(2 * np.pi * x * rng.integers(1, 4)))
    raise KeyError(style)


# ---- exact residual oracle (the stencil of Scheme.tla: d_j = 2, last row 1, off-diagonals -k_j) ------------------
def residual_rows(k: list[Fraction], b: list[Fraction], v: list[Fraction]) -> list[Fraction]:
    n = len(v)
    out = []
    for j in range(n):
        d = 1 + (k[j] if j == n - 1 else 2 * k[j])
        r = d * v[j] - b[j]
        if j > 0:
            r -= k[j] * v[j - 1]
        if j < n - 1:
            r -= k[j] * v[j + 1]
        out.append(r)
    return out


def step_backward_error(fp, kind: str, m_i: float, dt: float, prev: np.ndarray, new: np.ndarray,
                        skip_face_row: bool = True) -> float:
    """Componentwise backward error of the stored step: max_j |A(k) u' - b|_j / (|b_j| + (|A||u'|)_j), over the rows
    the property names (interior nodes and the outer node), with k from the *stored* previous level through the
    supplied fluid's diffusivity lookup and the run's mesh constant.  Exact rational arithmetic on the float values."""
    nx = len(prev)
    h2 = Fraction(1, (nx - 1) ** 2) if kind == "ideal" else Fraction(1, nx**2)
    r = Fraction(float(dt)) / h2   # the increment as the caller's array defines it (its own dtype's subtraction)
    bf = np.array(prev, dtype=float) if kind == "ideal" else np.minimum(prev, m_i)
    if kind == "ideal":
        a = np.ones(nx)
    else:
        # scaled diffusivity of the *fluid table the caller supplied* at the previous profile: the clipped piecewise-linear
        # lookup of Scheme.tla (AlphaAt = InterpFill(nodes, alpha, m, min alpha, max alpha)) evaluated by the harness itself
        # on the wrapper's columns -- never the object's method, never the wrapper's own interpolator
        ms = np.asarray(fp.pvt_props["m-scaled"], dtype=float)
        al = np.asarray(fp.pvt_props["alpha"], dtype=float)
        ok = np.isfinite(ms) & np.isfinite(al)
        o = np.argsort(ms[ok])
        xs, ys = ms[ok][o], al[ok][o]
        lo, hi = float(np.nanmin(al)), float(np.nanmax(al))
        a = np.interp(bf, xs, ys, left=lo, right=hi) / float(np.interp(m_i, xs, ys, left=lo, right=hi))
    k = [r * Fraction(float(x)) for x in a]
    b = [Fraction(float(x)) for x in bf]
    v = [Fraction(float(x)) for x in new]
    res = residual_rows(k, b, v)
    worst = Fraction(0)
    for j in range(1 if skip_face_row else 0, nx):
        d = 1 + (k[j] if j == nx - 1 else 2 * k[j])
        scale = abs(b[j]) + d * abs(v[j]) + (k[j] * abs(v[j - 1]) if j > 0 else 0) \
            + (k[j] * abs(v[j + 1]) if j < nx - 1 else 0)
        scale += FLOOR  # underflow: values below 1e-250 of the initial state carry no information
        worst = max(worst, abs(res[j]) / scale)
    return float(worst)


# ---- solver flag capture (harness side, no repo change) --------------------------------------------------------------
class SolverFlags:
    NAMES = ("bicgstab", "bicg", "cg", "cgs", "gmres", "lgmres", "minres", "qmr", "gcrotmk", "tfqmr")

    def __init__(self):
        self.bad = 0
        self.calls = 0
        self._orig = {}

    def __enter__(self):
        import scipy.sparse.linalg as sl  # noqa: PLC0415

        for n in self.NAMES:
            f = getattr(sl, n, None)
            if f is None:
                continue
            self._orig[n] = f

            def wrap(*a, __f=f, **kw):
                out = __f(*a, **kw)
                self.calls += 1
                if isinstance(out, tuple) and len(out) >= 2 and out[1] != 0:
                    self.bad += 1
                return out

            setattr(sl, n, wrap)
        return self

    def __exit__(self, *exc):
        import scipy.sparse.linalg as sl  # noqa: PLC0415

        for n, f in self._orig.items():
            setattr(sl, n, f)


# ---- one run ------------------------------------------------------------------------------------------------------------
def build_object(cfg: dict):
    from bluebonnet.flow import IdealReservoir, SinglePhaseReservoir  # noqa: PLC0415

    tab = table(cfg["table"])
    pi = cfg["pi"]
    if cfg.get("f32table"):
        # a table read into single precision (a memory-saving down-cast of a large frame) and the initial pressure taken from its
        # pressure column: the solver still works and stores in double precision
        tab = tab.astype(np.float32)
        pi = np.float32(pi)
    fp = rdrv.flow_properties(tab, pi)
    cls = IdealReservoir if cfg["kind"] == "ideal" else SinglePhaseReservoir
    nx = np.dtype(cfg["nx_dtype"]).type(cfg["nx"]) if cfg.get("nx_dtype") else cfg["nx"]
    return cls(nx, cfg["pf"], pi, fp), fp, tab


def level_events(kind: str, fp, time, u: np.ndarray, pf_series, tid: int, flagged: int = 0, max_levels: int = 400,
                 want_residual: bool = True) -> tuple[list[dict], dict]:
    """SchemeTrace Run/Level events of one finished simulation (stored field u, the time grid it was run on, the frac-face
    pressure series it was given; fp: the FlowProperties of the run, None for the ideal class)."""
    time = np.asarray(time)
    nt, nx = u.shape
    if kind == "ideal":
        lo, hi, m_i = 0.0, 1.0, 1.0
        mf_series = np.zeros(nt)
        rho_min = 1.0
        constdd = True
    else:
        m_i = float(fp.m_i)
        pf_series = np.asarray(pf_series, dtype=float)
        mf_series = np.asarray(fp.m_scaled_func(pf_series), dtype=float)
        lo, hi = float(mf_series.min()), m_i
        al = np.asarray(fp.pvt_props["alpha"], dtype=float)
        al = al[np.isfinite(al)]
        rho_min = float(al.min() / float(fp.alpha(m_i)))
        constdd = bool(np.all(pf_series == pf_series[0]))
    events = [{"tid": tid, "seq": 0, "ev": "Run", "kind": kind, "nx": nx, "constdd": constdd}]
    # which levels to log
    if nt <= max_levels:
        levels = list(range(nt))
    else:
        head = list(range(50))
        tail = list(range(nt - 50, nt))
        mid = np.linspace(50, nt - 51, max_levels - 100).astype(int).tolist()
        levels = sorted(set(head + mid + tail))
    worst_resid = 0.0
    seq = 0
    for i in levels:
        seq += 1
        resid = -1
        if i > 0 and want_residual and time.dtype != np.float32:   # float32 grids: the step is only float32-accurate
            be = step_backward_error(fp, kind, m_i, time[i] - time[i - 1], u[i - 1], u[i])
            worst_resid = max(worst_resid, be)
            resid = quant.e15_of(be)
        relax = min(2 * 10**9, int(math.floor(1000.0 * rho_min * max(0.0, float(time[i] - time[0])))))
        events.append({"tid": tid, "seq": seq, "ev": "Level", "i": i, "mf": quant.q(mf_series[i], lo, hi),
                       "u": quant.qs(u[i], lo, hi), "resid": resid,
                       "loose": bool(i == levels[-1] and flagged > 0), "relaxE": relax})
    raw = {"levels_logged": len(levels), "nt": nt, "worst_backward_error": worst_resid,
           "min_rel": float((u.min() - lo) / (hi - lo)), "max_rel": float((u.max() - lo) / (hi - lo)),
           "solver_calls_flagged": flagged}
    return events, raw


def run_config(cfg: dict, tid: int, max_levels: int = 400, want_residual: bool = True) -> tuple[list[dict], dict]:
    """Simulate one configuration on the real code and return SchemeTrace events + raw summary."""
    rng = np.random.default_rng(cfg["seed"])
    obj, fp, tab = build_object(cfg)
    kind = cfg["kind"]
    time = make_grid(cfg["grid"], cfg["nt"], cfg["tend"], rng)
    if cfg.get("shift"):
        time = time + cfg["shift"]   # (an integer or float32 grid keeps its dtype when there is no shift)
    pmin = float(np.sort(np.asarray(tab["pressure"], dtype=float))[1])
    sched = make_schedule(cfg.get("sched", "none"), len(time), cfg["pf"], cfg["pi"], max(pmin, 0.05 * cfg["pf"]), rng) \
        if kind == "single" else None
    if cfg.get("repress"):
        # the object was built and used with another pressure pair; the caller then assigns the public dataclass fields
        obj = type(obj)(cfg["nx"], cfg["repress"][0], cfg["repress"][1], fp)
        with warnings.catch_warnings():
            warnings.simplefilter("ignore")
            obj.simulate(np.linspace(0, 1.0, 6) ** 2)
            obj.recovery_factor()
        obj.pressure_fracface, obj.pressure_initial = cfg["pf"], cfg["pi"]
    if cfg.get("renx"):
        # a refinement study walked on ONE object: it was built and run with another node count, then the caller assigns nx
        obj = type(obj)(int(cfg["renx"]), cfg["pf"], cfg["pi"], fp)
        with warnings.catch_warnings():
            warnings.simplefilter("ignore")
            obj.simulate(np.linspace(0, 1.0, 5) ** 2)
            obj.recovery_factor()
        obj.nx = cfg["nx"]
    if cfg.get("prelude"):
        # the same object first runs another simulation with another fluid table and grid; then the caller assigns the
        # fluid of this configuration (a public dataclass field) and simulates again
        fp2 = rdrv.flow_properties(table(cfg["prelude"]), cfg["pi"])
        obj.fluid = fp2
        with warnings.catch_warnings():
            warnings.simplefilter("ignore")
            obj.simulate(np.linspace(0, 1.0, 7) ** 2)
            obj.recovery_factor()
        obj.fluid = fp
    # how the caller holds the two arrays: whole-number frac-face pressures as an integer array or a list of ints (a csv column),
    # the time axis as a pandas Series (a column of the production table)
    sched_arg, time_arg = sched, time
    if sched is not None and cfg.get("sched_int"):
        sched = np.round(sched)
        sched_arg = sched.astype(np.int64) if cfg["sched_int"] == "array" else [int(v) for v in sched]
    if sched is not None and cfg.get("sched_box") == "series":
        import pandas as pd  # noqa: PLC0415

        # a column of a table that was put in time order with sort_values: right values in the right order, permuted labels
        n_ = len(sched)
        sched_arg = pd.Series(np.asarray(sched, dtype=float), index=np.arange(n_)[::-1].copy())
    if cfg.get("time_box") == "series":
        import pandas as pd  # noqa: PLC0415

        time_arg = pd.Series(time)
    with SolverFlags() as flags, warnings.catch_warnings():
        warnings.simplefilter("ignore")
        if sched is None:
            obj.simulate(time_arg)
        else:
            obj.simulate(time_arg, sched_arg)
    pf_series = None if kind == "ideal" else (np.full(len(time), cfg["pf"]) if sched is None else np.asarray(sched, dtype=float))
    events, raw = level_events(kind, fp, time, np.asarray(obj.pseudopressure, dtype=float), pf_series, tid, flags.bad,
                               max_levels, want_residual)
    if cfg.get("f32table"):
        events[0]["f32table"] = True
    raw["cfg"] = cfg
    return events, raw, obj, fp, tab, time, sched


def rf_events(cfg, tid, seq0, obj, fp, tab, time, sched, ladder_nx: int | None = None):
    """Recovery-factor events (C03) for a finished run."""
    kind = cfg["kind"]
    out = []
    raw = {}
    with warnings.catch_warnings():
        warnings.simplefilter("ignore")
        rf_flux = np.array(obj.recovery_factor(), dtype=float)
        has_density = kind == "single" and "density" in fp.pvt_props
        if has_density:
            # the in-place clauses presuppose a table whose density increases with scaled pseudopressure over the
            # range the run can visit (the shipped Haynesville table holds Z = 5.0 rows above 12290 psi)
            pp = np.asarray(tab["pressure"], dtype=float)
            dd = np.asarray(tab["density"], dtype=float)
            _o = np.argsort(pp)
            pp, dd = pp[_o], dd[_o]
            lo_p = float(np.min(sched)) if sched is not None else float(cfg["pf"])
            a = max(0, int(np.searchsorted(pp, lo_p, side="right")) - 1)
            b = min(len(pp) - 1, int(np.searchsorted(pp, cfg["pi"], side="left")))
            if not np.all(np.diff(dd[a:b + 1]) > 0):
                has_density = False
                raw["density_skipped"] = "table density not increasing on the visited range"
        rf_dens = np.array(obj.recovery_factor(density=True), dtype=float) if has_density else None
    nt = len(time)
    upto = nt
    if sched is not None:
        rises = np.nonzero(np.diff(np.asarray(sched, dtype=float)) > 0)[0]
        if len(rises):
            upto = int(rises[0]) + 1
    ceil_q, hasceil, ceiling = quant.q(0.0), False, None
    if kind == "single" and has_density:
        p = np.asarray(tab["pressure"], dtype=float)
        d = np.asarray(tab["density"], dtype=float)
        _o = np.argsort(p)
        p, d = p[_o], d[_o]
        pf_min = float(np.min(sched)) if sched is not None else float(cfg["pf"])
        rho_f = float(np.interp(pf_min, p, d))
        rho_i = float(np.interp(cfg["pi"], p, d))
        ceiling = 1 - rho_f / rho_i
        # the table's own inconsistency between the two lookups of density (in m-scaled vs in pressure)
        ms = np.asarray(fp.pvt_props["m-scaled"], dtype=float)[_o]
        ok = np.isfinite(ms)
        # (the frac-face pseudopressure is read off the table rows by the harness's own linear interpolation, not through the
        # wrapper's interpolator: an oracle must not read what it judges)
        rho_f_m = float(np.interp(float(np.interp(pf_min, p[ok], ms[ok])), ms[ok], d[ok]))
        eps_table = abs(rho_f_m - rho_f) / rho_i
        ceil_q, hasceil = quant.q(ceiling + eps_table), True
        raw["ceiling"] = ceiling
        raw["eps_table"] = eps_table
    elif kind == "ideal":
        ceiling = 1 - cfg["pf"] / cfg["pi"]
    plateau_e = -1
    gap_e = -1
    if ladder_nx:
        if kind == "ideal":
            plateau = abs(rf_flux[-1] / (1 - cfg["pf"] / cfg["pi"]) - 1)
            plateau_e = int(min(2e9, math.ceil(1000 * plateau * ladder_nx)))
            raw["plateau_err_nx"] = plateau * ladder_nx
        if rf_dens is not None and ceiling:
            scale = ceiling if kind == "single" else 1.0
            rd = rf_dens
            gap = float(np.max(np.abs(rf_flux - rd))) / scale
            incons = cfg.get("table_inconsistency", 0.0)
            gap_e = int(min(2e9, math.ceil(1000 * max(0.0, gap - incons) * ladder_nx)))
            raw["gap_nx"] = gap * ladder_nx
    seq = seq0
    for mode, rf in (("flux", rf_flux), ("density", rf_dens)):
        if rf is None:
            continue
        seq += 1
        idx = np.arange(nt) if nt <= 400 else np.unique(np.concatenate([np.arange(50), np.linspace(50, nt - 1, 350).astype(int)]))
        up = int(np.searchsorted(idx, upto - 1, side="right"))
        # rounding floor of each logged step: 1e-9 + 1e-12 x (length of the step) x (largest rate of the run)  [SchemeTrace!SlackOf]
        tt = np.asarray(time, dtype=float)[idx]
        with np.errstate(all="ignore"):
            rate = np.abs(np.diff(rf[idx])) / np.maximum(np.diff(tt), 1e-300)
            rmax = float(np.nanmax(rate[np.isfinite(rate)])) if np.any(np.isfinite(rate)) else 0.0
        slack = [quant.qtol(min(1e-4, 1e-9 + 1e-12 * float(d) * rmax)) for d in np.diff(tt)] + [quant.qtol(1e-9)]
        out.append({"tid": tid, "seq": seq, "ev": "RF", "mode": mode, "rf": quant.qs(rf[idx]), "upto": max(1, up), "slack": slack,
                    "ceil": ceil_q, "hasceil": bool(hasceil and mode == "density"),
                    "plateauE": plateau_e if mode == "flux" else -1, "gapE": gap_e if mode == "flux" else -1})
        raw[f"rf_{mode}_last"] = float(rf[-1])
        raw[f"rf_{mode}_min_step"] = float(np.min(np.diff(rf[:upto]))) if upto > 1 else 0.0
    return out, raw
