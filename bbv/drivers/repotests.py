"""Re-run the repository's own tests under recording wrappers and hand every simulation they perform to SchemeTrace.tla.

Run as a subprocess (fresh interpreter):  python -m bbv.drivers.repotests <out.pkl> <test paths...>
The reservoir classes are wrapped from the harness side (no change to the repository): after each simulate() the stored
field, the time grid, the frac-face series and the fluid wrapper are kept; recovery_factor() results are kept too.
The tests' own assertions still run (their pass/fail is reported, not judged here)."""
from __future__ import annotations

import os
import pickle
import sys

import numpy as np


def main(argv) -> int:
    out, tests = argv[0], argv[1:]
    from bbv import env  # noqa: PLC0415

    env.import_bluebonnet()
    from bluebonnet.flow import reservoir as R  # noqa: PLC0415

    records: list[dict] = []

    def wrap(cls, kind):
        orig_sim = cls.__dict__["simulate"]
        orig_rf = cls.__dict__.get("recovery_factor")

        def simulate(self, time, *a, **kw):
            r = orig_sim(self, time, *a, **kw)
            sched = a[0] if a else kw.get("pressure_fracface")
            pf = None
            if kind == "single":
                pf = np.full(len(time), float(np.asarray(self.pressure_fracface).ravel()[0])) if sched is None \
                    else np.asarray(sched, dtype=float).copy()
            records.append({"kind": kind, "nx": int(self.nx), "time": np.asarray(time).copy(),
                            "u": np.asarray(self.pseudopressure, dtype=float).copy(), "pf": pf,
                            "fluid": self.fluid if kind == "single" else None, "cls": type(self).__name__,
                            "pf_attr": np.asarray(self.pressure_fracface, dtype=float).copy(),
                            "pi": float(self.pressure_initial), "rf": {}})
            self._bbv_rec = len(records) - 1
            return r

        cls.simulate = simulate
        if orig_rf is not None:
            def recovery_factor(self, time=None, density=False):
                r = orig_rf(self, time, density)
                i = getattr(self, "_bbv_rec", None)
                if i is not None:
                    records[i]["rf"]["density" if density else "flux"] = np.asarray(r, dtype=float).copy()
                return r

            cls.recovery_factor = recovery_factor

    wrap(R.IdealReservoir, "ideal")
    wrap(R.SinglePhaseReservoir, "single")
    import pytest  # noqa: PLC0415

    os.chdir(env.REPO)
    rc = pytest.main(["-q", "-p", "no:cacheprovider", "--no-header", "-W", "ignore", "--no-cov", *tests])
    slim = []
    for r in records:
        fl = r.pop("fluid")
        if fl is not None:
            r["fp"] = {"m_i": float(fl.m_i), "ms": np.asarray(fl.pvt_props["m-scaled"], dtype=float),
                       "alpha": np.asarray(fl.pvt_props["alpha"], dtype=float),
                       "pressure": np.asarray(fl.pvt_props["pressure"], dtype=float),
                       "density": np.asarray(fl.pvt_props["density"], dtype=float) if "density" in fl.pvt_props else None}
        slim.append(r)
    with open(out, "wb") as f:
        pickle.dump({"pytest_rc": int(rc), "records": slim}, f)
    return 0


if __name__ == "__main__":
    sys.exit(main(sys.argv[1:]))
