"""C11 -- array evaluation equals elementwise scalar evaluation for every dtype.

TLC:   FluidsArray.tla: for every function x dtype x layout x side pattern (length 0..3) the array code path,
       modelled as the masked two-pass assignment / fill + mask / row loop / ufunc / list comprehension /
       np.vectorize it is, equals the elementwise scalar definition, is floating, keeps the shape and leaves the
       caller's buffer alone.  Deviations ArrayAlloc_InputDType (as-shipped D7), Mask_StrictGT, InPlace and
       Vectorize_NoOtypes (as-shipped D15) must be refuted.
S->C:  every exported case is instantiated for several fluids (oil, salinity, gas pseudocritical point) with
       concrete pressures on the sides the case names ('at' = p_b itself) and run on the real function; each
       element is compared with the library's scalar call on float(p_k) named by the spec's `src` map, within
       the spec's tolerance (ulps of the floating type involved); dtype, shape and the input's digest are checked.
"""
from __future__ import annotations

import numpy as np

import math
from concurrent.futures import ProcessPoolExecutor

from .. import core, env, tlc
from ..drivers import oilwater as drv

EXPECTED_CASES = {3: 3396, 2: 1485}
DEVIATIONS = [("MC_FluidsArray_dev_ArrayAlloc_InputDType.cfg", "C11_Elementwise"),
              ("MC_FluidsArray_dev_ArrayAlloc_InputDType_dtype.cfg", "C11_Floating"),
              ("MC_FluidsArray_dev_Mask_StrictGT.cfg", "C11_Elementwise"),
              ("MC_FluidsArray_dev_InPlace.cfg", "C11_InputUnchanged"),
              ("MC_FluidsArray_dev_Vectorize_NoOtypes.cfg", "C11_Returns")]


def judge(case: dict, obs: dict) -> list[tuple[str, str]]:
    """Compare one observation with the expectation TLC exported for the case."""
    bad = []
    if not obs["unmutated"]:
        bad.append(("InputUnchanged", "the caller's pressure array was modified"))
    if obs["outcome"] == "raises":
        bad.append(("Returns", f"array call raised {obs['exc']}"))
        return bad
    if not obs["is_array"] or obs["shape"] != [case["n"]]:
        bad.append(("Shape", f"result shape {obs['shape']} (ndarray={obs['is_array']}) for input shape [{case['n']}]"))
        return bad
    if obs["dtype"] not in case["outdtypes"]:
        bad.append(("Floating", f"result dtype {obs['dtype']} for {case['dtype']} input (allowed {case['outdtypes']})"))
    for k, u in enumerate(obs["ulps"]):
        if not u <= case["tol"]:
            bad.append(("Elementwise",
                        f"element {k} (p={obs['pressures'][k]!r}, {case['sides'][k]}, scalar branch {case['branch'][k]}): "
                        f"array gives {obs['got'][k]!r}, scalar call gives {obs['ref'][k]!r} "
                        f"({u:.3g} ulp of {obs['ulp_dtype']} > {case['tol']})"))
            break
    return bad


def _work(args):
    seed, inst_no, cases = args
    env.import_bluebonnet()
    inst = drv.make_inst([seed, 11, inst_no])
    fails, worst = [], {}
    for idx, case in cases:
        seq = [seed, 11, inst_no, idx]
        obs = drv.run_case(case, inst, seq)
        for clause, what in judge(case, obs):
            fails.append({"clause": clause, "what": what, "case": case, "inst": inst, "seed_seq": seq})
        if obs.get("ulps"):
            key = f"{case['fn']}|{case['dtype']}->{obs['dtype']}"
            worst[key] = max(worst.get(key, 0.0), *[u if math.isfinite(u) else 1e300 for u in obs["ulps"]])
    return inst, fails, worst


def _brief(case: dict) -> str:
    return f"{case['fn']}({case['dtype']} {case['layout']} [{','.join(case['sides'])}])"


def replay_cases(ctx: core.Ctx, cases: list[dict], n_inst: int) -> None:
    indexed = list(enumerate(cases))
    nchunk = 4
    tasks = [(ctx.seed, i, indexed[j::nchunk]) for i in range(n_inst) for j in range(nchunk)]
    worst: dict[str, float] = {}
    with ProcessPoolExecutor(max_workers=16) as ex:
        for (_s, i, chunk), (inst, fails, w) in zip(tasks, ex.map(_work, tasks)):
            for k, v in w.items():
                worst[k] = max(worst.get(k, 0.0), v)
            for _idx, case in chunk:
                ctx.case(f"{_brief(case)}#{i}")
            for f in fails:
                ctx.violation(f["clause"], f"{_brief(f['case'])} on fluid T={inst['T']:.6g} API={inst['API']:.6g} "
                              f"gg={inst['gg']:.6g} GOR={inst['R']:.6g} sal={inst['sal']:.4g} "
                              f"(p_b={inst['pb']!r}): {f['what']}",
                              replay={"stage": "case", "case": f["case"], "inst": f["inst"], "seed_seq": f["seed_seq"]})
    ctx.extra["max_ulps_observed"] = {k: round(v, 2) for k, v in sorted(worst.items())}
    # a few actual cases for the evidence file
    inst0 = drv.make_inst([ctx.seed, 11, 0])
    for idx in (len(cases) // 7, len(cases) // 2, len(cases) - 5):
        case = cases[idx]
        obs = drv.run_case(case, inst0, [ctx.seed, 11, 0, idx])
        ctx.sample({"case": {k: case[k] for k in ("fn", "dtype", "layout", "sides", "src", "branch", "outdtypes", "tol")},
                    "pressures": obs["pressures"], "array_result": obs.get("got"), "scalar_calls": obs.get("ref"),
                    "result_dtype": obs.get("dtype"), "ulps": obs.get("ulps")})


def shuffled_stage(ctx: core.Ctx, cases: list[dict], n_inst: int) -> None:
    """Longer arrays in an order that is neither ascending nor descending (the sorting permutation is a 6-cycle, not its own
    inverse), straddling p_b: the same elementwise rule of FluidsArray.tla, outside the TLC lattice of length <= 3."""
    tol = {}
    for c in cases:
        tol[(c["fn"], c["dtype"])] = max(tol.get((c["fn"], c["dtype"]), 0), c["tol"])
    for i in range(n_inst):
        inst = drv.make_inst([ctx.seed, 11, i])
        rng = np.random.default_rng([ctx.seed, 11, i, 77])
        pb = inst["pb"]
        for fn, (arr_call, sc_call) in drv.calls(inst).items():
            below = sorted(rng.uniform(15.0, 0.98 * pb, 3))
            above = sorted(rng.uniform(1.02 * pb, min(2.5 * pb, drv.P_MAX), 3))
            vals = above + above[:0] if fn == "oil_compressibility_undersat_Spivey" else below + above
            if fn == "oil_compressibility_undersat_Spivey":
                vals = sorted(rng.uniform(1.02 * pb, min(2.5 * pb, drv.P_MAX), 6))
            for dt, two_d in (("f64", False), ("i64", False), ("f64", True), ("f64", "F"), ("f64", "T")):
                arr = np.roll(np.array(vals, dtype=drv.NP_DTYPE[dt]), 2)
                if two_d:
                    arr = arr.reshape(2, 3)   # a field p[time, block]: judged only if the function accepts it (returns)
                if two_d == "F":
                    arr = np.asfortranarray(arr)          # the same field stored column-major (DataFrame.to_numpy() of several columns)
                elif two_d == "T":
                    arr = np.ascontiguousarray(arr.T).T   # the same field as the transpose of a p[block, time] array
                before = drv.digest(arr)
                key = f"shuffled/{fn}/{dt}{'/2d' + (two_d if isinstance(two_d, str) else '') if two_d else ''}#{i}"
                ctx.case(key)
                try:
                    res = np.asarray(arr_call(arr))
                except Exception as ex:  # noqa: BLE001
                    if two_d:
                        continue   # this correlation does not accept 2-d arrays: outside the property
                    ctx.violation("Returns", f"{fn} on a shuffled {dt} array {arr.tolist()} raised {type(ex).__name__}: {ex}",
                                  replay={"stage": "shuffled", "fn": fn, "dtype": dt, "inst": inst, "arr": arr.tolist()})
                    continue
                what = None
                if drv.digest(arr) != before:
                    what = ("InputUnchanged", "the input array was modified")
                elif res.shape != arr.shape:
                    what = ("Shape", f"result shape {res.shape} for input shape {arr.shape}")
                else:
                    t = tol.get((fn, dt), 64)
                    flat_in, flat_out = arr.ravel(), res.ravel()
                    for k in range(flat_in.size):
                        ref = float(sc_call(float(flat_in[k])))
                        u = drv.ulps_of(flat_out[k], ref, "f64")
                        if not u <= t:
                            what = ("Elementwise", f"element {k} (p={float(flat_in[k])!r}): array {float(flat_out[k])!r}, scalar {ref!r} "
                                                   f"({u:.3g} ulp > {t})")
                            break
                if what:
                    ctx.violation(what[0], f"{fn} on shuffled {dt} array {arr.tolist()} (fluid T={inst['T']} API={inst['API']} "
                                  f"gg={inst['gg']:.6g} GOR={inst['R']} p_b={pb!r}): {what[1]}",
                                  replay={"stage": "shuffled", "fn": fn, "dtype": dt, "inst": inst, "arr": arr.tolist(),
                                          "order": "F" if (arr.ndim == 2 and arr.flags.f_contiguous) else "C"})


def replay(ctx: core.Ctx, obj: dict) -> None:
    r = obj["replay"]
    if r.get("stage") == "shuffled":
        arr_call, sc_call = drv.calls(r["inst"])[r["fn"]]
        arr = np.array(r["arr"], dtype=drv.NP_DTYPE[r["dtype"]])
        if r.get("order") == "F":
            arr = np.asfortranarray(arr)
        print("array :", np.asarray(arr_call(arr)).tolist())
        print("scalar:", [float(sc_call(float(x))) for x in arr.ravel()])
        ctx.case("replay-1"); ctx.case("replay-2")
        return
    case, inst = r["case"], r["inst"]
    obs = drv.run_case(case, inst, r["seed_seq"])
    print("case:", _brief(case), "| fluid:", {k: inst[k] for k in ("T", "API", "gg", "R", "sal", "pb")})
    print("pressures:", obs["pressures"], "| outcome:", obs["outcome"], "| dtype:", obs.get("dtype"),
          "| shape:", obs.get("shape"))
    print("array :", obs.get("got"))
    print("scalar:", obs.get("ref"))
    print("ulps  :", obs.get("ulps"), "tolerance", case["tol"])
    ctx.rule = "replay of one exported case"
    ctx.case(_brief(case))
    for clause, what in judge(case, obs):
        ctx.violation(clause, f"{_brief(case)}: {what}", replay=r)


def run(ctx: core.Ctx) -> None:
    ctx.rule = ("cases = every (function, dtype, layout, side pattern of length 0..3) of FluidsArray.tla (14 functions x "
                "{f64,f32,i64,i32} x {contiguous, strided, reversed} x patterns over {below, at, above}; 'at' only in "
                "float64; Spivey at/above only), each replayed on several random fluids with random pressures <= 20000 "
                "psia on the named sides; distinct = (case, fluid)")
    ctx.assumptions += [
        "the scalar call is the library's own scalar evaluation on float(p_k) (for Fluid.water_FVF / gas_FVF / "
        "gas_viscosity / oil_viscosity: the correlation the method delegates to)",
        "agreement tolerance per function in ulps of the floating type involved (float32 when the input or the "
        "result is float32), table TolUlps of FluidsArray.tla = 4 ulp x a conditioning factor of the correlation "
        "(water x2, solution GOR x4, oil FVF x8, oil viscosity x8, gas FVF x4, gas viscosity x8, Spivey c_o x64): the "
        "array and the scalar path round differently (dot-product order, SIMD vs scalar libm, float32 arithmetic); "
        "observed maxima on the unchanged tree are recorded in coverage.max_ulps_observed (Spivey 54, oil FVF 7, "
        "gas viscosity 10.7 float32 ulp); every defect class of C11 is > 1e8 of these units",
        "float32 and integer pressures keep 2 % distance from p_b (their side is the same in every comparison type); "
        "the bubble point itself appears only in float64 arrays",
        "length 0: shape (0,) and a floating dtype are demanded of all 14 functions",
        "pressures <= 20000 psia (pressure**2 fits int32)",
    ]
    ctx.trusted += ["TLC 2026.09", "numpy spacing / byte digests", "driver bbv/drivers/oilwater.py"]
    for cfg, inv in DEVIATIONS:
        ctx.expect_refuted("FluidsArray", cfg, inv, workers=2, timeout=300)
    r = ctx.model_check("FluidsArray", "MC_FluidsArray.cfg", workers=8, timeout=900)
    cases = r.by_tag("CASE")
    if len(cases) != EXPECTED_CASES[3]:
        raise tlc.MachineryError(f"expected {EXPECTED_CASES[3]} exported cases, got {len(cases)}")
    cases.sort(key=lambda c: (c["fn"], c["dtype"], c["layout"], c["n"], c["sides"]))
    replay_cases(ctx, cases, n_inst=6 if ctx.quick else 256)
    shuffled_stage(ctx, cases, n_inst=6 if ctx.quick else 256)

    # per-call statement of the property under concurrent use (Reentrant.tla): the same calls from several threads at once
    from ..drivers import threads  # noqa: PLC0415

    threads.clause(ctx, ['oil_water', 'facade'])


