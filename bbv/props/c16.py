"""C16 -- multiphase storage is a pressure derivative; diffusivity is mobility over it.

TLC:   FlowPropsMP.tla (Prop = "C16"): every table of the tier's finite domain x porosity x water saturation over
       exact rationals, queried at every node, at half-points between nodes and at the extreme saturations;
       Compressibility = Storage(p+1/2) - Storage(p-1/2) at fixed saturation on linearly extrapolated tables;
       invariants ZeroForConstantTables, LinearInPhi, MatchesSlope (1/B linear in p => analytic slope),
       AlphaIsRatio, LambdaIsSum.  Deviation "SumNotDiff" (as-shipped D10) must be refuted.
S->C:  every exported case through compressibility_combined_func, lambda_combined_func, alpha_multiphase and
       from_table(...).pvt_props["alpha"]; results must reproduce TLC's rationals (1e-12 of the storage scale for
       the difference, 1e-12 relative for mobility, conditioning-aware for the ratio).
C->S:  realistic tables (shipped oil+water table, rescalings, vaporised oil, constant / linear / kinked /
       inverse-linear families, rel-perm sets, densities, porosities, water saturations): agreement magnitudes
       along the pressure axis judged by SweepC16.tla; the storage oracle evaluates the *spec-exported* term list
       with the code's own interpolators.
"""
from __future__ import annotations

from concurrent.futures import ProcessPoolExecutor
from fractions import Fraction

import numpy as np

from .. import core, env, exact, quant, sweep, tlc
from ..drivers import multiphase as mp

REL = 1e-12
FAMILIES = ("shipped", "rescaled", "vaporised", "constant", "linear", "kinked", "invlinear", "subsampled", "condensate")


# ---- spec -> code ------------------------------------------------------------------------------------------------
def check_case(case: dict, as_frame: bool = True) -> list[dict]:
    from bluebonnet.flow.flowproperties import (  # noqa: PLC0415
        alpha_multiphase,
        compressibility_combined_func,
        lambda_combined_func,
    )

    c, r = case["c"], case["r"]
    k = mp.concrete(c)
    fails = []

    def bad(clause, what):
        fails.append({"clause": clause, "what": what})

    pvt, kr = mp.interpolators(k["P"], k["cols"], k["rho"], k["krS"], k["kr"], k["So"])
    qs = r["q"]
    p = np.array([mp.fl(q["p"]) for q in qs])
    so = np.array([mp.fl(q["So"]) for q in qs])
    phi, sw = k["phi"], k["Sw"]
    lam = mp.quiet(lambda_combined_func, p, so, pvt, kr)
    cp = mp.quiet(compressibility_combined_func, p, so, phi, sw, pvt)
    cp2 = mp.quiet(compressibility_combined_func, p, so, 2 * phi, sw, pvt)
    al = mp.quiet(alpha_multiphase, p, so, phi, sw, pvt, kr)
    if not (lam.shape == cp.shape == cp2.shape == al.shape == p.shape):
        bad("StorageDerivative", f"result shapes {lam.shape}, {cp.shape}, {al.shape} for {p.shape} queries")
        return fails
    for j, q in enumerate(qs):
        at = f"p={p[j]}, So={so[j]}, Sw={sw}, phi={phi}"
        scale = mp.fl(q["scale"])
        if not exact.close(lam[j], q["lam"], rel=REL):
            bad("LambdaIsSum", f"{at}: lambda_combined_func {lam[j]!r}, documented sum {q['lam'][0]}/{q['lam'][1]}")
        if not exact.close(cp[j], q["c"], rel=0.0, abs_=REL * scale):
            clause = ("ZeroForConstantTables" if c["fvfConst"] else
                      "MatchesSlope" if (c["hasSlope"] and q["onNodes"]) else "StorageDerivative")
            bad(clause, f"{at}: compressibility_combined_func {cp[j]!r}, Storage(p+1/2)-Storage(p-1/2) = "
                        f"{q['c'][0]}/{q['c'][1]} (storage scale {scale:.3g})")
        if not abs(cp2[j] - 2 * cp[j]) <= 4 * REL * scale:
            bad("LinearInPhi", f"{at}: c(2 phi) = {cp2[j]!r}, c(phi) = {cp[j]!r}")
        elif not exact.close(cp2[j], q["c2"], rel=0.0, abs_=2 * REL * scale):
            bad("StorageDerivative", f"{at}, porosity doubled: {cp2[j]!r}, expected {q['c2'][0]}/{q['c2'][1]}")
        if q["alpha"][1] != 0:
            cond = float(1 + Fraction(*q["scale"]) / abs(Fraction(*q["c"])))  # cancellation in the difference
            if not exact.close(al[j], q["alpha"], rel=REL * cond):
                bad("AlphaIsRatio", f"{at}: alpha_multiphase {al[j]!r}, lambda/c = {q['alpha'][0]}/{q['alpha'][1]}")
            if not abs(al[j] * cp[j] - lam[j]) <= 8 * REL * abs(lam[j]):
                bad("AlphaIsRatio", f"{at}: alpha {al[j]!r} is not lambda {lam[j]!r} over c {cp[j]!r}")
    # the tabulated diffusivity of the wrapper: rows = the first len(P) queries
    n = len(k["P"])
    pvt_t, kr_t = mp.frames(k["P"], k["cols"], k["So"], k["krS"], k["kr"], sw, as_frame=as_frame)
    try:
        fp = mp.from_table(pvt_t, kr_t, k["rho"], phi, sw, float(k["P"][-1]))
        tab = np.asarray(fp.pvt_props["alpha"], float)
    except mp.CodeError as e:
        bad("TabulatedAlpha", str(e))
        return fails
    for j in range(n):
        q = qs[j]
        if q["alpha"][1] != 0:
            cond = float(1 + Fraction(*q["scale"]) / abs(Fraction(*q["c"])))
            if tab.shape != (n,) or not exact.close(tab[j], q["alpha"], rel=REL * cond):
                bad("TabulatedAlpha", f"row {j} (p={p[j]}): pvt_props['alpha'] = {tab[j] if tab.shape == (n,) else tab!r}, "
                                      f"lambda/c = {q['alpha'][0]}/{q['alpha'][1]}")
    return fails


def _chunk(args):
    cases, start = args
    env.import_bluebonnet()
    out = []
    for j, case in enumerate(cases):
        try:
            fails = check_case(case, as_frame=(start + j) % 2 == 0)
        except mp.CodeError as e:
            fails = [{"clause": "Raises", "what": str(e)}]
        if fails:
            out.append((start + j, fails))
    return out


def replay_cases(ctx: core.Ctx, cases: list[dict]) -> None:
    n = len(cases)
    step = max(1, -(-n // 64))
    tasks = [(cases[i:i + step], i) for i in range(0, n, step)]
    results = []
    with ProcessPoolExecutor(max_workers=16) as ex:
        for res in ex.map(_chunk, tasks):
            results.extend(res)
    mp.report_failures(ctx, cases, results)
    for case in cases:
        ctx.case(mp.case_key(case["c"]))
    mid = next(c for c in cases[n // 3:] if c["c"]["hasSlope"] and not c["c"]["fvfConst"])
    ctx.sample({"tlc_case": {"P": mid["c"]["P"], "Bo": mid["c"]["cols"]["Bo"], "Bg": mid["c"]["cols"]["Bg"],
                             "Rs": mid["c"]["cols"]["Rs"], "phi": mid["c"]["phi"], "Sw": mid["c"]["Sw"],
                             "rho": mid["c"]["rho"]},
                "expected_at_queries": [{kk: q[kk] for kk in ("p", "So", "lam", "c", "alpha")} for q in mid["r"]["q"][:5]]})


# ---- code -> spec --------------------------------------------------------------------------------------------------
def config(seed: int, i: int) -> dict:
    rng = np.random.default_rng([seed, 16, i])
    fam = FAMILIES[i % len(FAMILIES)]
    first = i < len(FAMILIES)
    return {"i": i, "family": fam, "Sw": 0.1 if first else float(rng.choice([0.0, 0.1, 0.2])),
            "kr": "test" if first else str(rng.choice(["corey", "corey", "water"])), "shipped_rho": first}


def record(cfg: dict, seed: int, terms: dict) -> sweep.SweepLog:
    from bluebonnet.flow.flowproperties import (  # noqa: PLC0415
        alpha_multiphase,
        compressibility_combined_func,
        lambda_combined_func,
    )

    i = cfg["i"]
    rng = np.random.default_rng([seed, 16, i, 1])
    sw = cfg["Sw"]
    # rel-perm curves (functions of So with immobile water) measured at another water saturation than the reservoir's: a reservoir
    # without connate water (Sw exactly 0.0) is described with curves built for Sw = 0.1
    sw_kr = 0.1 if (sw == 0.0 and i % 2 == 0) else sw
    tab = mp.make_table(rng, cfg["family"], sw_kr)
    kr_so, kr_cols, kr_meta = mp.relperm_table(rng, sw_kr, cfg["kr"])
    rho = dict(mp.RHO_SHIPPED) if cfg["shipped_rho"] else mp.random_rho(rng)
    phi = 0.1 if cfg["shipped_rho"] else float(rng.uniform(0.03, 0.3))
    a = float(rng.choice([0.5, 2.0, 3.0]))
    if i % 5 == 4:
        phi, a = 1.0, 0.5   # the closed upper end of the porosity range (per-unit-porosity normalisation)
    P, so_t = tab["P"], tab["So"]
    n = len(P)
    pvt, kr = mp.interpolators(P, tab["cols"], rho, kr_so, kr_cols, so_t)
    # queries: all table rows with the table's saturation + off-node pressures with arbitrary saturations
    n_off = min(200, n)
    p_off = rng.uniform(P[0], P[-1], n_off)
    so_off = rng.uniform(0, 1 - sw_kr, n_off)
    p = np.concatenate([P, p_off])
    so = np.concatenate([so_t, so_off])
    node = np.concatenate([np.arange(n), np.full(n_off, -1)])
    order = np.argsort(p, kind="stable")
    p, so, node = p[order], so[order], node[order]
    keep = np.concatenate([[True], np.diff(p) > 0])
    p, so, node = p[keep], so[keep], node[keep]
    if i % 2 == 1:
        mp.warm_with_other_contents(pvt, kr, [lambda: lambda_combined_func(p, so, pvt, kr),
                                              lambda: compressibility_combined_func(p, so, phi, sw, pvt),
                                              lambda: alpha_multiphase(p, so, phi, sw, pvt, kr)])
    lam = mp.quiet(lambda_combined_func, p, so, pvt, kr)
    cp = mp.quiet(compressibility_combined_func, p, so, phi, sw, pvt)
    cpa = mp.quiet(compressibility_combined_func, p, so, a * phi, sw, pvt)
    al = mp.quiet(alpha_multiphase, p, so, phi, sw, pvt, kr)
    # the same cells in other calls: alone, and as the last cell of the call holding the cells up to it (a reservoir whose cells
    # all lie below some pressure); rows at which a column of the table has a kink are always among the sampled cells
    pick = sorted(set(np.linspace(0, len(p) - 1, 10).astype(int).tolist())
                  | {int(np.searchsorted(p, tab["meta"][k])) for k in ("Rv_leaves_zero_at", "bubble_point") if k in tab["meta"]
                     and np.searchsorted(p, tab["meta"][k]) < len(p)})
    batch = np.zeros(len(p))
    for j in pick:
        vals = []
        for pj, sj in ((p[j:j + 1], so[j:j + 1]), (p[:j + 1], so[:j + 1])):
            try:
                vals.append((float(np.asarray(mp.quiet(lambda_combined_func, pj, sj, pvt, kr), float).reshape(-1)[-1]),
                             float(np.asarray(mp.quiet(compressibility_combined_func, pj, sj, phi, sw, pvt), float).reshape(-1)[-1])))
            except Exception:  # noqa: BLE001
                vals.append((np.nan, np.nan))
        batch[j] = max(max(quant.e15(v[0], lam[j], abs(lam[j])), quant.e15(v[1], cp[j], abs(cp[j]) if cp[j] != 0 else 1e-300)) for v in vals)
    # end-point saturations written as integers (So = 0 or 1 as Python ints / an integer array)
    try:
        c_int0 = mp.quiet(compressibility_combined_func, p, np.zeros(len(p), dtype=np.int64), phi, sw, pvt)
        c_flt0 = mp.quiet(compressibility_combined_func, p, np.zeros(len(p)), phi, sw, pvt)
        c_int0 = np.asarray(c_int0, dtype=float)
    except Exception:  # noqa: BLE001
        c_int0 = np.full(len(p), np.nan)
        c_flt0 = np.zeros(len(p))
    as_int = bool(np.all(P == np.round(P)) and (i // len(FAMILIES)) % 2 == 0)   # integer pressure column, as read from a csv file
    pvt_t, kr_t = mp.frames(P.astype(np.int64) if as_int else P, tab["cols"], so_t, kr_so, kr_cols, sw_kr, as_frame=bool(i % 2 == 0))
    dens = mp.reordered(rho, i)          # the caller's dictionary: kept, updated and used again below (a parameter study)
    # every fifth table is listed in depletion order (rows from high to low pressure; from_table takes rows in any order and
    # answers row for row)
    depletion = i % 5 == 3
    if depletion:
        pvt_t = pvt_t.iloc[::-1] if hasattr(pvt_t, "iloc") else {k: np.asarray(v)[::-1].copy() for k, v in pvt_t.items()}
    fp = mp.from_table(pvt_t, kr_t, rho, phi, sw, float(P[-1]), rho_dict=dens)
    tab_alpha = np.asarray(fp.pvt_props["alpha"], float)
    if depletion and tab_alpha.ndim == 1:
        tab_alpha = tab_alpha[::-1]
    # the same functions through the accessors the object carries (how a simulator uses the object)
    have_acc = isinstance(getattr(fp, "pvt", None), dict) and isinstance(getattr(fp, "kr", None), dict)
    if have_acc:
        lam_obj = mp.quiet(lambda_combined_func, p, so, fp.pvt, fp.kr)
        c_obj = mp.quiet(compressibility_combined_func, p, so, phi, sw, fp.pvt)
        # next case of the study: other densities in the same dictionary, another table; the first object is still in use
        for name in ("rho_o0", "rho_g0", "rho_w0"):
            dens[name] = rho[name] * 1.7
        cols2 = {k: np.asarray(v, float) * (1.3 if k != "Rv" else 1.0) for k, v in tab["cols"].items()}
        pvt_t2, kr_t2 = mp.frames(P, cols2, so_t, kr_so, kr_cols, sw_kr, as_frame=bool(i % 2 == 1))
        mp.from_table(pvt_t2, kr_t2, rho, phi, sw, float(P[-1]), rho_dict=dens)
        lam_kept = mp.quiet(lambda_combined_func, p, so, fp.pvt, fp.kr)
    else:
        lam_obj = c_obj = lam_kept = np.full(len(p), np.nan)
    # oracle: documented sums from the spec's term lists, with the code's own interpolators, fixed saturation
    s_up = phi * mp.eval_terms(terms["storage"], pvt, kr, p + 0.5, so, sw)
    s_dn = phi * mp.eval_terms(terms["storage"], pvt, kr, p - 0.5, so, sw)
    doc = mp.eval_terms(terms["lambda"], pvt, kr, p, so, sw)
    if not (np.all(s_up > 0) and np.all(s_dn > 0) and np.all(doc > 0)):
        raise tlc.MachineryError(f"generated configuration {cfg} has non-positive documented storage or mobility")
    slopes = tab["meta"].get("slopes")
    meta = {"what": f"{cfg['family']} table #{i}", "cfg": cfg, "table": tab["meta"], "kr": kr_meta, "rho": rho,
            "phi": phi, "a": a, "rows": n, "Sw_of_relperm_table": sw_kr}
    log = sweep.SweepLog()
    log.begin("storage", meta)
    for j in range(len(p)):
        scale = s_up[j] + s_dn[j]
        ref = s_up[j] - s_dn[j]
        agree = {"cdiff": quant.e15(cp[j], ref, scale), "phi": quant.e15(cpa[j], a * cp[j], a * scale),
                 "lam": quant.e15(lam[j], doc[j], doc[j]), "intso": quant.e15(c_int0[j], c_flt0[j], scale),
                 "objlam": quant.e15(lam_obj[j], doc[j], doc[j]), "objc": quant.e15(c_obj[j], ref, scale),
                 "kept": quant.e15(lam_kept[j], doc[j], doc[j]), "batch": int(batch[j])}
        raw = {"p": float(p[j]), "So": float(so[j]), "c": float(cp[j]), "storage_difference": float(ref),
               "storage_scale": float(scale), "lambda": float(lam[j]), "documented_lambda": float(doc[j]),
               "alpha": float(al[j]), "lambda_through_object": float(lam_obj[j]), "c_through_object": float(c_obj[j]),
               "lambda_through_object_after_next_case": float(lam_kept[j])}
        if cfg["family"] == "constant":
            agree["zero"] = quant.e15(cp[j], 0.0, scale)
        if cp[j] != 0.0 and np.isfinite(cp[j]):
            ratio = lam[j] / cp[j]
            agree["alpha"] = quant.e15(al[j], ratio, abs(ratio))
            if node[j] >= 0:
                agree["tab"] = quant.e15(tab_alpha[node[j]], ratio, abs(ratio)) if tab_alpha.shape == (n,) else quant.CAP
                raw["tabulated_alpha"] = float(tab_alpha[node[j]]) if tab_alpha.shape == (n,) else None
        if slopes is not None and 0 < node[j] < n - 1:  # p +- 1/2 are nodes of the half-unit grid
            sg = 1 - so[j] - sw
            rs, rv = float(tab["cols"]["Rs"][0]), float(tab["cols"]["Rv"][0])
            an = phi * (rho["rho_o0"] * (rv * sg * slopes["Bg"] + so[j] * slopes["Bo"])
                        + rho["rho_g0"] * (rs * so[j] * slopes["Bo"] + sg * slopes["Bg"])
                        + rho["rho_w0"] * sw * slopes["Bw"])
            agree["slope"] = quant.e15(cp[j], an, scale)
            raw["analytic_slope"] = float(an)
        log.point(quant.q(p[j], P[0], P[-1]), "none", {}, agree, raw=raw)
    log.end()
    return log


def _record_task(args):
    cfg, seed, terms = args
    env.import_bluebonnet()
    try:
        return record(cfg, seed, terms)
    except mp.CodeError as e:
        return str(e)


def realistic(ctx: core.Ctx, terms: dict, n_cfg: int) -> None:
    tasks = [(config(ctx.seed, i), ctx.seed, terms) for i in range(n_cfg)]
    log = sweep.SweepLog()
    with ProcessPoolExecutor(max_workers=16) as ex:
        for (cfg, _, _), lg in zip(tasks, ex.map(_record_task, tasks)):
            if isinstance(lg, str):
                ctx.violation("Raises", f"realistic configuration {cfg}: {lg}",
                              replay={"stage": "sweep", "meta": {"cfg": cfg}})
                continue
            log.extend(lg)
            ctx.case(f"realistic/{cfg['i']}/{cfg['family']}/{cfg['kr']}/Sw={cfg['Sw']}")
    if not log.meta:
        return
    first = log.meta[1]
    ctx.sample({"realistic_sweep": {k: v for k, v in first.items() if k != "points"},
                "a_point": first["points"][len(first["points"]) // 2]})
    sweep.judge(ctx, "SweepC16", log)


# ---- entry points ---------------------------------------------------------------------------------------------------
def replay(ctx: core.Ctx, obj: dict) -> None:
    r = obj["replay"]
    ctx.rule = "replay of one reported case"
    if r.get("stage") == "case":
        ctx.case(mp.case_key(r["case"]["c"]))
        fails = check_case(r["case"])
        print("case:", r["case"]["c"])
        for f in fails:
            print("  fails", f["clause"], "::", f["what"])
            ctx.violation(f["clause"], f["what"], replay=r)
    else:
        terms = mp.export_terms(ctx)
        cfg = r["meta"]["cfg"]
        ctx.case(f"realistic/{cfg['i']}")
        print("configuration:", r["meta"])
        try:
            lg = record(cfg, obj.get("seed", ctx.seed), terms)
        except mp.CodeError as e:
            ctx.violation("Raises", str(e), replay=r)
            return
        sweep.judge(ctx, "SweepC16", lg)


def run(ctx: core.Ctx) -> None:
    tier = "quick" if ctx.quick else "thorough"
    ctx.rule = ("spec->code: every table of FlowPropsMP.tla's finite domain (Prop=C16, Tier=" + tier + ": grids x one "
                "pressure-dependent FVF column at a time (constant/linear/kinked/inverse-linear) x Rs x Rv x viscosities x "
                "densities x saturation paths x porosity x water saturation), each queried at all nodes, half-points "
                "and extreme saturations; distinct = distinct table+scalars; code->spec: realistic configurations, "
                "every table row plus up to 200 off-node (p, So) points each a sweep point judged by SweepC16.tla")
    ctx.assumptions += [
        "documented storage uses S_g/b_g in the gas term (the three-phase section of docs/background.md and the code); "
        "the two-phase section prints S_g/b_o, taken to be a typo",
        "'pressure derivative' is the documented central difference over +-0.5 pressure units at fixed saturation on "
        "linearly extrapolated tables (interp1d(..., fill_value='extrapolate'), as from_table builds them)",
        "agreement of the difference is measured against the storage magnitude it is formed from "
        "(Storage(p+1/2)+Storage(p-1/2)): 1e-12 of that; the ratio lambda/c is compared with the resulting conditioning",
        "where the compressibility vanishes (pressure-independent tables) no finite diffusivity is demanded",
        "exact models vary one FVF column per table (32-bit rationals between nodes); combinations are covered at "
        "realistic magnitude only",
    ]
    ctx.trusted += ["TLC 1.8 / spec/Rat.tla, spec/PWL.tla exact rationals", "scipy.interpolate.interp1d",
                    "harness evaluation of the spec-exported term lists (bbv/drivers/multiphase.py: eval_terms)",
                    "bbv/quant.py E15 magnitudes"]
    ctx.expect_refuted("FlowPropsMP", "MC_FlowPropsMP_dev_SumNotDiff.cfg", "C16_ZeroForConstantTables", workers=4)
    terms = mp.export_terms(ctx)
    cases = mp.export_cases(ctx, "C16", tier)
    n_const = sum(1 for c in cases if c["c"]["fvfConst"])
    n_slope = sum(1 for c in cases if c["c"]["hasSlope"] and any(q["onNodes"] and q["c"][0] != 0 for q in c["r"]["q"]))
    n_rv = sum(1 for c in cases if c["c"]["cols"]["Rv"][0][0] != 0)
    if not (n_const and n_slope and n_rv):
        raise tlc.MachineryError("C16 domain lost its constant / inverse-linear / vaporised-oil cases")
    ctx.extra["tlc_cases"] = {"tables": len(cases), "pressure_independent": n_const, "with_analytic_slope": n_slope,
                              "with_vaporised_oil": n_rv, "queries": sum(len(c["r"]["q"]) for c in cases)}
    replay_cases(ctx, cases)
    realistic(ctx, terms, 40 if ctx.quick else 400)

    # per-call statement of the property under concurrent use (Reentrant.tla): the same calls from several threads at once
    from ..drivers import threads  # noqa: PLC0415

    threads.clause(ctx, ['multiphase'])


