"""C13 -- hand-coded derivative functions equal the true derivatives of their parents; oil compressibility assembly.

TLC (exact, design level):  Derivs.tla -- the water FVF polynomial and its dp-polynomial as coefficient lists (scaled
        integers), checked coefficient by coefficient against the formal derivative; the two Standing power laws
        against the power rule in exact rationals; the branch table at the bubble point.  Named deviations
        (forgotten factor 2, kept constant term, other T factor, exponent not decremented, inner slope
        forgotten, `>` for `>=`) must be refuted.
S->C:   the coefficient lists TLC exports are compared with the coefficients *read off the real functions*
        (evaluated on an exact polynomial object) at every lattice temperature.
C->S:   (a) the coefficient lists read off the real functions are judged by DerivsTrace.tla with the rule of
        Derivs.tla (so a consistent re-fit of parent and derivative does not alarm, a one-sided edit does);
        (b) SweepC13.tla judges, at every point of pressure sweeps across the bubble point of a lattice of oils,
        GOR sweeps and water pressure sweeps, the hand-coded derivative against forward-mode AD of its own
        parent (bbv/oracle/dual.py) and oil_compressibility_Standing against the undersaturated correlation
        (bitwise, at and above p_b) / its defining combination of public functions (below p_b).
"""
from __future__ import annotations

import itertools
import math
from concurrent.futures import ProcessPoolExecutor
from fractions import Fraction

import numpy as np

from .. import forms, core, env, quant, sweep, tlc, trace

P_MAX = 15000.0          # highest pressure used (psia); DAK stays inside its range for every lattice gas
PB_MIN, PB_MAX = 50.0, 12000.0
XWIN = (0.0, 20000.0)    # quantisation window of the pressure axis
GWIN = (0.0, 4000.0)     # ... of the GOR axis


def rel15(a: float, b: float) -> int:
    """E15 relative to max(|a|,|b|); 0 iff the two floats are the same number."""
    a, b = float(a), float(b)
    if a == b:
        return 0
    return quant.e15(a, b, max(abs(a), abs(b)))


# ---- workers (run in sub-processes) ---------------------------------------------------------------------------
STD_CONDITIONS = [None, (60.0, 14.7), (59.0, 14.65), (68.0, 14.73), (60.0, 15.025)]


def _pressures(pb: float) -> list[tuple[float, str]]:
    lo = 14.7
    below = [lo + f * (pb - lo) for f in (0.0, 0.1, 0.3, 0.5, 0.7, 0.9, 0.99)] + [pb * (1.0 - 1e-12)]
    above = [pb * (1.0 + 1e-12), 1.01 * pb, 1.25 * pb, min(2.0 * pb, P_MAX)]
    pts = [(p, "below") for p in below if p < pb] + [(pb, "at")] + [(p, "above") for p in above if pb < p <= P_MAX]
    out, last = [], -1.0
    for p, s in sorted(set(pts)):
        if quant.q(p, *XWIN) != quant.q(last, *XWIN) and p > last:
            out.append((p, s))
            last = p
    return out


def oil_sweep(args):
    T, api, gg, gor = args
    env.import_bluebonnet()
    from bluebonnet.fluids import gas, oil  # noqa: PLC0415

    from ..oracle.dual import derivative  # noqa: PLC0415

    pb = float(oil.pressure_bubblepoint_Standing(T, api, gg, gor))
    tpc, ppc = gas.pseudocritical_point_Sutton(gg, gas.make_nonhydrocarbon_properties(0.0, 0.0, 0.0), "wet gas")
    tpc, ppc = float(tpc), float(ppc)
    meta = {"what": f"oil T={T} API={api} gas_gravity={gg} GOR_i={gor}", "T": T, "api": api, "gg": gg, "gor": gor,
            "pb": pb, "tpc": tpc, "ppc": ppc}
    points = []
    plist = list(_pressures(pb))
    # the derivative routine is scalar; should it accept a whole table (here in depletion order, starting above the bubble point),
    # every element is the derivative at that element
    table = np.array([p for p, _s in plist], dtype=float)[::-1].copy()
    try:
        arr = np.asarray(oil.dgor_dpressure_Standing(T, table, api, gg, gor), dtype=float)[::-1]
        if arr.shape != table.shape:
            arr = None
    except Exception:  # noqa: BLE001  (not array-capable: nothing to judge)
        arr = None
    for j, (p, side) in enumerate(plist):
        # hand-coded derivative of R_s and AD of the parent
        dgor = float(oil.dgor_dpressure_Standing(T, p, api, gg, gor))
        if arr is not None and not (arr[j] == dgor or rel15(float(arr[j]), dgor) == 0):
            dgor = float(arr[j])   # the table's answer is judged instead
        rs, drs_ad = derivative(lambda x: oil.solution_gor_Standing(T, x, api, gg, gor), p)
        # hand-coded dBo_b/dR at R = R_s(p) and AD of the parent
        rs_pub = float(oil.solution_gor_Standing(T, p, api, gg, gor))
        dbo = float(oil.db_o_dgor_Standing(T, api, gg, rs_pub))
        _bo, dbo_ad = derivative(lambda r: oil.b_o_bubblepoint_Standing(T, api, gg, r), rs_pub)
        # all-pressure compressibility
        # standard conditions are arguments of the all-pressure compressibility: they must reach its B_g (default and
        # non-default values alternate from oil to oil)
        std = STD_CONDITIONS[int(round(T * 7 + api * 3 + gor)) % len(STD_CONDITIONS)]
        if std is None:
            co = float(oil.oil_compressibility_Standing(T, p, api, gg, gor, tpc, ppc))
        else:
            co = float(oil.oil_compressibility_Standing(T, p, api, gg, gor, tpc, ppc, std[0], std[1]))
        agree = {"dgor_ad": rel15(dgor, drs_ad), "dgor_zero": rel15(dgor, 0.0), "dgor_ad_zero": rel15(drs_ad, 0.0),
                 "dbo_ad": rel15(dbo, dbo_ad)}
        raw = {"p": p, "side": side, "dgor_dpressure": dgor, "dRs_dp_AD": drs_ad, "db_o_dgor": dbo,
               "dBo_dRs_AD": dbo_ad, "c_o": co}
        if side == "below":
            bg = float(gas.b_factor_DAK(T, p, tpc, ppc)) if std is None else float(gas.b_factor_DAK(T, p, tpc, ppc, std[0], std[1]))
            bob_i = float(oil.b_o_bubblepoint_Standing(T, api, gg, gor))
            ref = (bg - dbo) * dgor / bob_i
            agree["co_assembly"] = rel15(co, ref)
            raw["c_o_assembly"] = ref
        else:
            ref = float(oil.oil_compressibility_undersat_Spivey(T, p, api, gg, gor))
            agree["co_undersat"] = rel15(co, ref)
            raw["c_o_undersat_Spivey"] = ref
        finite = all(math.isfinite(v) for v in (dgor, dbo, co))
        points.append({"x": quant.q(p, *XWIN), "side": side, "agree": agree, "flags": {"finite": finite}, "raw": raw})
    return {"profile": "oil", "meta": meta, "points": points}


def bob_sweep(args):
    T, api, gg, gors = args
    env.import_bluebonnet()
    from bluebonnet.fluids import oil  # noqa: PLC0415

    from ..oracle.dual import derivative  # noqa: PLC0415

    meta = {"what": f"b_o_bubblepoint T={T} API={api} gas_gravity={gg}", "T": T, "api": api, "gg": gg,
            "gors": list(gors)}
    points = []
    # the derivative function also takes a GOR *array* (e.g. the R_s history of a draw-down followed by a build-up, which ends
    # where it started): every element must be the derivative at that element
    gl = [float(x) for x in gors]
    hist = np.array(gl[::-1] + gl[1:], dtype=float)
    # ... held as the caller holds it: an array, a strided view, a column of a frame that was sorted without reset_index
    hist_in, hform, unbox = forms.array(hist, int(round(T * 10 + api)), forms=("ndarray", "series_permuted", "strided_view", "series_default"))
    meta["gor_history_handed_over_as"] = hform
    try:
        arr = np.asarray(unbox(oil.db_o_dgor_Standing(T, api, gg, hist_in)), dtype=float)
        if arr.shape != hist.shape:
            arr = np.full(hist.shape, np.nan)
    except Exception:  # noqa: BLE001
        arr = np.full(hist.shape, np.nan)
    n = len(gl)
    # a work buffer: the same array object is refilled in place with the next time step's GOR values and handed over again
    buf = np.array(gl, dtype=float)
    try:
        oil.db_o_dgor_Standing(T, api, gg, buf)
        buf[:] = np.array(gl, dtype=float) * 1.07 + 3.0
        arr2 = np.asarray(oil.db_o_dgor_Standing(T, api, gg, buf), dtype=float)
        if arr2.shape != buf.shape:
            arr2 = np.full(buf.shape, np.nan)
    except Exception:  # noqa: BLE001
        arr2 = np.full(n, np.nan)
    for j, r in enumerate(gl):
        d = float(oil.db_o_dgor_Standing(T, api, gg, r))
        _v, d_ad = derivative(lambda x: oil.b_o_bubblepoint_Standing(T, api, gg, x), r)
        in_hist = [float(arr[n - 1 - j])] + ([float(arr[n - 1 + j])] if j > 0 else [])
        r2 = float(r * 1.07 + 3.0)
        _v2, d2_ad = derivative(lambda x: oil.b_o_bubblepoint_Standing(T, api, gg, x), r2)
        worst = max([rel15(d, d_ad)] + [rel15(v, d_ad) for v in in_hist] + [rel15(float(arr2[j]), d2_ad)])
        points.append({"x": quant.q(r, *GWIN), "side": "none", "agree": {"dbo_ad": worst},
                       "flags": {"finite": math.isfinite(d)},
                       "raw": {"gor": r, "db_o_dgor": d, "dBo_dRs_AD": d_ad, "in_array_history": in_hist,
                               "refilled_buffer": {"gor": r2, "db_o_dgor": float(arr2[j]), "dBo_dRs_AD": d2_ad}}})
    return {"profile": "bob", "meta": meta, "points": points}


def water_sweep(args):
    T, ps = args
    env.import_bluebonnet()
    from bluebonnet.fluids import water  # noqa: PLC0415

    from ..oracle.dual import derivative  # noqa: PLC0415

    meta = {"what": f"b_water_McCain T={T}", "T": T, "ps": list(ps)}
    points = []
    for p in ps:
        d = float(water.b_water_McCain_dp(T, p))
        _v, d_ad = derivative(lambda x: water.b_water_McCain(T, x), p)
        points.append({"x": quant.q(p, *XWIN), "side": "none", "agree": {"bw_ad": rel15(d, d_ad)},
                       "flags": {"finite": math.isfinite(d)},
                       "raw": {"p": p, "b_water_McCain_dp": d, "dBw_dp_AD": d_ad}})
    return {"profile": "water", "meta": meta, "points": points}


WORKERS = {"oil": oil_sweep, "bob": bob_sweep, "water": water_sweep}


def _run_task(task):
    return WORKERS[task[0]](task[1])


# ---- lattices ---------------------------------------------------------------------------------------------------
def _pb(T, api, gg, gor) -> float:
    from bluebonnet.fluids import oil  # noqa: PLC0415

    return float(oil.pressure_bubblepoint_Standing(T, api, gg, gor))


def lattices(ctx: core.Ctx):
    rng = np.random.default_rng([ctx.seed, 13])
    if ctx.quick:
        Ts, apis = [80.0, 170.0, 260.0, 350.0], [12.0, 30.0, 45.0, 55.0]
        ggs, gors = [0.56, 0.8, 1.3], [20.0, 200.0, 900.0, 2500.0]
        n_rand, wTs = 40, [60.0, 100.0, 200.0, 300.0, 400.0]
    else:
        Ts, apis = [80.0, 125.0, 170.0, 215.0, 260.0, 305.0, 350.0], [12.0, 20.0, 28.0, 35.0, 42.0, 50.0, 55.0]
        ggs = [0.56, 0.65, 0.8, 0.95, 1.1, 1.3]
        gors = [20.0, 60.0, 150.0, 350.0, 650.0, 1100.0, 1800.0, 2500.0]
        n_rand, wTs = 30000, [float(t) for t in range(60, 401, 2)]
    oils = [o for o in itertools.product(Ts, apis, ggs, gors)]
    for _ in range(n_rand):
        oils.append((float(rng.uniform(80, 350)), float(rng.uniform(12, 55)), float(rng.uniform(0.56, 1.3)),
                     float(np.exp(rng.uniform(np.log(20), np.log(2500))))))
    oils = [o for o in oils if PB_MIN < _pb(*o) <= PB_MAX]
    gor_axis = [20.0, 35.0, 60.0, 100.0, 170.0, 300.0, 500.0, 800.0, 1200.0, 1800.0, 2500.0]
    if not ctx.quick:
        gor_axis = sorted(set(gor_axis + [float(x) for x in np.round(rng.uniform(20, 2500, 14), 3)]))
    bobs = [(T, a, g, gor_axis) for T in Ts for a in apis for g in ggs]
    p_axis = [15.0, 100.0, 500.0, 1000.0, 2000.0, 3000.0, 4000.0, 6000.0, 8000.0, 10000.0, 12000.0, 15000.0]
    if not ctx.quick:
        p_axis = sorted(set(p_axis + [float(x) for x in np.round(rng.uniform(15, 15000, 28), 3)]))
    waters = [(T, p_axis) for T in wTs]
    return oils, bobs, waters, wTs


# ---- the exact part: coefficient lists ---------------------------------------------------------------------------
def _model_poly(model_P, model_F, T: float):
    """Expand the exported coefficient lists at temperature T: [p^i] of P(p,T)*F(T) as exact rationals."""
    Tq = Fraction(T)
    F = sum(Fraction(t["m"]) * Fraction(10) ** t["e"] * Tq ** t["mono"][0] for t in model_F)
    deg = max(t["mono"][0] for t in model_P)
    return [F * sum(Fraction(t["m"]) * Fraction(10) ** t["e"] * Tq ** t["mono"][1]
                    for t in model_P if t["mono"][0] == i) for i in range(deg + 1)]


def _grid(a: Fraction, b: Fraction) -> int:
    """k such that max(|a|,|b|) * 10^k lies in [10^7, 10^8) (both are rounded on that grid)."""
    m = max(abs(a), abs(b))
    if m == 0:
        return 0
    k = 7 - math.floor(math.log10(float(m)))
    while m * Fraction(10) ** k >= 10**8:
        k -= 1
    while m * Fraction(10) ** k < 10**7:
        k += 1
    return k


def read_water_polys(T: float):
    from bluebonnet.fluids import water  # noqa: PLC0415

    from ..oracle.dual import as_poly  # noqa: PLC0415

    return as_poly(lambda x: water.b_water_McCain(T, x)), as_poly(lambda x: water.b_water_McCain_dp(T, x))


def coef_events(T: float, tid: int):
    P, D = read_water_polys(T)
    top = max(P.degree, D.degree + 1, 1)
    evs, raws = [], []
    for i in range(1, top + 1):
        a, b = i * P.coef(i), D.coef(i - 1)
        k = _grid(a, b)
        cp, cd = round(P.coef(i) * Fraction(10) ** k), round(b * Fraction(10) ** k)
        evs.append({"tid": tid, "seq": i - 1, "ev": "Coef", "fn": "b_water_McCain", "i": i, "cp": cp, "cd": cd})
        raws.append({"T": T, "i": i, "parent_coef": float(P.coef(i)), "derivative_coef": float(b), "grid": k})
    evs.append({"tid": tid, "seq": top, "ev": "End", "degp": P.degree, "degd": D.degree})
    return evs, raws, P, D


def exact_part(ctx: core.Ctx, wTs) -> None:
    r = ctx.model_check("Derivs", "MC_Derivs.cfg")
    devs = [("WaterForgetsFactor2", "WaterDerivativeIsFormal"), ("PowerKeepsExponent", "PowerRuleHolds"),
            ("GtInsteadOfGe", "BranchTable")]
    if not ctx.quick:
        devs += [("WaterKeepsConstantTerm", "WaterDerivativeIsFormal"), ("WaterOtherTFactor", "WaterSameTFactor"),
                 ("PowerForgetsInnerSlope", "PowerRuleHolds")]
    for dev, inv in devs:
        ctx.expect_refuted("Derivs", f"MC_Derivs_dev_{dev}.cfg", inv)
    model = r.by_tag("WATER")
    if len(model) != 1:
        raise tlc.MachineryError("Derivs.tla did not export exactly one WATER record")
    model = model[0]
    try:
        read_water_polys(200.0)
    except TypeError as ex:
        # the functions are no longer built from + - * ** alone: the coefficient reading does not apply;
        # the AD sweep below still judges every value
        ctx.extra["coefficient_reading"] = f"not applicable: {ex}"
        return
    events, raws, drift = [], {}, []
    for tid, T in enumerate(wTs, start=1):
        evs, rw, P, D = coef_events(T, tid)
        events += evs
        raws[tid] = rw
        # spec -> code: the exported lists expanded at T against the coefficients the code denotes
        for name, got, want in (("b_water_McCain", P, _model_poly(model["P"], model["F"], T)),
                                ("b_water_McCain_dp", D, _model_poly(model["DP"], model["DF"], T))):
            n = max(got.degree + 1, len(want))
            for i in range(n):
                w = want[i] if i < len(want) else Fraction(0)
                g = got.coef(i)
                ctx.case(f"coef/{name}/T={T}/p^{i}")
                if abs(g - w) > Fraction(1, 10**12) * max(abs(g), abs(w)):
                    drift.append({"fn": name, "T": T, "power": i, "code": float(g), "model": float(w)})
    ctx.extra["derivs_model_matches_code"] = not drift
    if drift:
        # not a verdict by itself: a consistent re-fit of parent *and* derivative keeps C13; DerivsTrace decides
        ctx.extra["derivs_model_drift_examples"] = drift[:6]
        print(f"NOTE property=C13: the coefficient lists pinned in Derivs.tla differ from the code at "
              f"{len(drift)} coefficients (e.g. {drift[0]}); the lists read off the code are judged below")
    verdicts = trace.validate(ctx, "DerivsTrace", events)
    for v in verdicts:
        for cl in v["clauses"]:
            if cl.startswith("Machinery:"):
                raise tlc.MachineryError(f"DerivsTrace: T index {v['tid']} fails {cl}")
            rw = raws[v["tid"]][v["seq"]]
            ctx.violation(cl, f"b_water_McCain_dp is not the formal p-derivative of b_water_McCain at T={rw['T']}: "
                              f"[p^{rw['i']}] parent = {rw['parent_coef']!r}, [p^{rw['i'] - 1}] derivative = "
                              f"{rw['derivative_coef']!r}", replay={"stage": "coef", "T": rw["T"]})
    ctx.sample({"coefficients_read_off_code": raws[1]})


# ---- the sweeps ----------------------------------------------------------------------------------------------------
def run_sweeps(ctx: core.Ctx, tasks) -> None:
    log = sweep.SweepLog()
    with ProcessPoolExecutor(max_workers=16) as ex:
        for res in ex.map(_run_task, tasks, chunksize=max(1, len(tasks) // 256)):
            log.begin(res["profile"], res["meta"])
            for pt in res["points"]:
                log.point(pt["x"], pt["side"], {}, pt["agree"], pt["flags"], pt["raw"])
                ctx.case(f"{res['profile']}/{res['meta']['what']}/{pt['raw'].get('p', pt['raw'].get('gor'))}")
            log.end()
            if res["profile"] == "oil" and len(ctx.samples) < 4:
                ctx.sample({"sweep": res["meta"]["what"], "point": res["points"][len(res["points"]) // 3]["raw"],
                            "agree_e15": res["points"][len(res["points"]) // 3]["agree"]})
    sweep.judge(ctx, "SweepC13", log)


def run(ctx: core.Ctx) -> None:
    env.import_bluebonnet()
    oils, bobs, waters, wTs = lattices(ctx)
    ctx.rule = ("case = one (function, input point): oils = lattice of (T 80..350 F, API 12..55, gas gravity 0.56..1.3, "
                "GOR_i 20..2500) with 50 < p_b <= 12000 psia plus seeded random oils, each swept over 12-13 pressures "
                "(14.7 psia .. min(2 p_b, 15000), incl. p_b itself and p_b(1 +- 1e-12)); GOR sweeps 20..2500 "
                "per (T, API, gravity); water T 60..400 F x p 15..15000 psia; plus one case per coefficient of the "
                "water polynomials per temperature")
    ctx.assumptions += [
        "derivative of the parent = forward-mode AD of the parent's own code evaluated with a dual number as the "
        "pressure / GOR argument (scalar branch of the parent); comparisons inside the parent act on the real part",
        "rounding level = 1e-12 relative (SweepC13.tla Rounding); 'exactly 0' and 'equals the undersaturated "
        "correlation' are float identity",
        "below p_b the defining combination of oil_compressibility_Standing is (Bg - dBo/dRs(R_s(p))) * dRs/dp(p) / "
        "Bo_b(GOR_i) of the library's own public functions, gas pseudocritical point from "
        "pseudocritical_point_Sutton(gravity, no non-hydrocarbons, 'wet gas'), standard conditions 60 F / 14.7 psia",
        "oils restricted to 50 < p_b <= 12000 psia and pressures <= 15000 psia (range of the DAK gas correlation)",
    ]
    ctx.trusted += ["TLC 2026.09", "bbv/oracle/dual.py (dual numbers, exact polynomial object)",
                    "fractions.Fraction", "math.pow / libm used by both the code and the AD pass"]
    exact_part(ctx, wTs)
    tasks = [("oil", o) for o in oils] + [("bob", b) for b in bobs] + [("water", w) for w in waters]
    ctx.extra["sweeps"] = {"oil": len(oils), "bob": len(bobs), "water": len(waters)}
    run_sweeps(ctx, tasks)


def replay(ctx: core.Ctx, obj: dict) -> None:
    env.import_bluebonnet()
    r = obj["replay"]
    ctx.rule = "replay of one recorded case"
    if r.get("stage") == "coef":
        evs, raws, P, D = coef_events(r["T"], 1)
        print("parent    ", P)
        print("derivative", D)
        for v in trace.validate(ctx, "DerivsTrace", evs):
            for cl in v["clauses"]:
                ctx.violation(cl, f"T={r['T']}: {raws[v['seq']]}", replay=r)
        for e in evs:
            ctx.case(f"coef/{e}")
        return
    m = r["meta"]
    if m["profile"] == "oil":
        task = ("oil", (m["T"], m["api"], m["gg"], m["gor"]))
    elif m["profile"] == "bob":
        task = ("bob", (m["T"], m["api"], m["gg"], m["gors"]))
    else:
        task = ("water", (m["T"], m["ps"]))
    res = _run_task(task)
    log = sweep.SweepLog()
    log.begin(res["profile"], res["meta"])
    for pt in res["points"]:
        print(pt["raw"], pt["agree"])
        log.point(pt["x"], pt["side"], {}, pt["agree"], pt["flags"], pt["raw"])
        ctx.case(str(pt["raw"]))
    log.end()
    sweep.judge(ctx, "SweepC13", log)
