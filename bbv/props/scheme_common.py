"""Shared pipeline of the solver properties C01 / C03 / C04 (and the shift clause of C17).

design_models : TLC on Scheme.tla (exact one-step model; every invariant on every case) + deviations refuted
replay_exact  : spec -> code: every exported case that the public API can start (initial profile) is run as a
                2-point simulate on the real classes and must reproduce TLC's rational profile
trace_runs    : code -> spec: real simulations at realistic scale, level-by-level traces judged by SchemeTrace.tla
Each property reports only the clauses it owns (prefix "C01." ...).
"""
from __future__ import annotations

import warnings
from concurrent.futures import ProcessPoolExecutor

import numpy as np
import pandas as pd

from .. import core, env, exact, tlc, trace
from ..drivers import scheme as sdrv

INVS = ["C01_Bounds", "C01_FaceValue", "C01_MonoX", "C01_MonoT_First", "C01_Relaxes", "C01_MMatrix", "C01_ProofForm",
        "C04_Residual", "C03_Conserve", "C03_ConserveIdeal", "C17_ShiftInvariant"]


def design_models(ctx: core.Ctx, full: bool = True) -> None:
    cfgs = ["MC_Scheme_ideal3.cfg", "MC_Scheme_relax_single.cfg", "MC_Scheme_relax_ideal.cfg", "MC_Scheme_ideal4.cfg"]
    if full:
        cfgs += ["MC_Scheme_single3.cfg"]
        if not ctx.quick:
            cfgs += ["MC_Scheme_single4.cfg", "MC_Scheme_single5.cfg", "MC_Scheme_ideal5.cfg"]
    for c in cfgs:
        ctx.model_check("Scheme", c, workers=16)
    ctx.expect_refuted("Scheme", "MC_Scheme_dev_asShipped.cfg", "C01_Bounds", workers=8)
    ctx.expect_refuted("Scheme", "MC_Scheme_dev_sameK.cfg", "C01_FaceValue", workers=8)


def proof_check(ctx: core.Ctx) -> None:
    """Re-check MaxPrincipleProof.tla (the maximum principle of the stencil for every N) with tlapm.

    The proof is a statement about the specification only (Scheme.tla's C01_ProofForm ties it to the TLC model), so its
    outcome is recorded in the evidence and never decides the property: a prover that is missing or times out under
    load is reported as "not rechecked".
    """
    import re  # noqa: PLC0415
    import shutil  # noqa: PLC0415
    import subprocess  # noqa: PLC0415

    info = {"module": "MaxPrincipleProof.tla", "theorems": ["RowUpper", "RowLower", "ArgMax", "ArgMin", "MaxPrinciple",
                                                             "MinPrinciple", "MaxPrincipleIdeal", "MinPrincipleIdeal", "DiffInterior", "DiffLast", "MonoX"]}
    ctx.extra["tlaps"] = info
    if shutil.which("tlapm") is None:
        info["status"] = "not rechecked: tlapm not on PATH"
        return
    sdir = env.scratch("tlaps")
    try:
        shutil.copy(env.SPEC / "tlaps" / "MaxPrincipleProof.tla", sdir / "MaxPrincipleProof.tla")
        for stretch in (3, 10):
            try:
                r = subprocess.run(["tlapm", "--cleanfp", "--stretch", str(stretch), "--threads", "8", "MaxPrincipleProof.tla"],
                                   cwd=sdir, capture_output=True, text=True, timeout=1500, check=False)
            except subprocess.TimeoutExpired:
                info["status"] = "not rechecked: tlapm timed out"
                continue
            out = r.stdout + r.stderr
            m = re.search(r"All (\d+) obligations? proved", out)
            if m and r.returncode == 0:
                info["status"] = "proved"
                info["obligations"] = int(m.group(1))
                return
            m = re.search(r"(\d+)/(\d+) obligations failed", out)
            info["status"] = f"not rechecked: {m.group(0) if m else 'tlapm rc=' + str(r.returncode)} (stretch {stretch})"
    finally:
        env.cleanup(sdir)


def export_cases(ctx: core.Ctx) -> list[dict]:
    cases = []
    sdir = env.scratch("schemeexp")
    try:
        for closure, n, rv in (("dirichlet", 3, "D_R"), ("dirichlet", 4, "D_RSmall"), ("ghost0", 3, "D_R"),
                               ("ghost0", 4, "D_RSmall")):
            cfg = tlc.write_cfg(sdir / f"exp_{closure}_{n}.cfg", spec="Spec",
                                constants={"N": n, "Closure": f'"{closure}"', "InitialOnly": "TRUE",
                                           "PrevVals": "<- D_Prev4", "MfVals": "<- D_Mf", "RVals": f"<- {rv}",
                                           "AlphaTabs": "<- D_ATabs" if closure == "dirichlet" else "<- D_AConst",
                                           "Export": "TRUE"},
                                invariants=[*INVS, "ExportCase"])
            r = ctx.model_check("Scheme", cfg, workers=4, scratch=sdir)
            cs = r.by_tag("CASE")
            if len(cs) * 2 != r.distinct:
                raise tlc.MachineryError(f"export {closure}/{n}: {len(cs)} cases for {r.distinct} states")
            cases += cs
    finally:
        env.cleanup(sdir)
    return cases


PF_OF_MF = {(1, 4): 1.0, (1, 2): 2.0, (9, 10): 3.6}


def _run_case(c: dict):
    from bluebonnet.flow import FlowProperties, IdealReservoir, SinglePhaseReservoir  # noqa: PLC0415

    n = c["n"]
    r = exact.frac(c["r"])
    if c["closure"] == "ghost0":
        obj = IdealReservoir(n, 100.0, 8000.0, None)
        dt = float(r / (n - 1) ** 2)
    else:
        tab = pd.DataFrame({"pressure": [1.0, 2.0, 4.0], "pseudopressure": [2.0, 4.0, 8.0],
                            "alpha": [float(exact.frac(a)) for a in c["atab"]]})
        with warnings.catch_warnings():
            warnings.simplefilter("ignore")
            fp = FlowProperties(tab, 4.0)
        obj = SinglePhaseReservoir(n, PF_OF_MF[tuple(c["mf"])], 4.0, fp)
        dt = float(r / n**2)
    with warnings.catch_warnings():
        warnings.simplefilter("ignore")
        obj.simulate(np.array([0.0, dt]))
    return np.asarray(obj.pseudopressure, dtype=float)


def replay_exact(ctx: core.Ctx, prefix_filter=None) -> None:
    cases = export_cases(ctx)
    from fractions import Fraction  # noqa: PLC0415

    for c in cases:
        key = f"{c['closure']}/{c['n']}/r={c['r']}/mf={c['mf']}/a={c['atab']}"
        ctx.case(key)
        # oracle self-test: the residual oracle and the spec agree on the stencil (exact zero on TLC's own solution)
        k = [exact.frac(x) for x in c["k"]]
        b = [exact.frac(x) for x in c["b"]]
        v = [exact.frac(x) for x in c["u"]]
        if any(x != 0 for x in sdrv.residual_rows(k, b, v)):
            raise tlc.MachineryError(f"residual oracle disagrees with Scheme.tla on case {key}")
        try:
            u = _run_case(c)
        except Exception as ex:  # noqa: BLE001
            ctx.violation("C04.ExactStep", f"case {key}: simulate raised {type(ex).__name__}: {ex}",
                          replay={"stage": "exact", "case": c})
            continue
        init_ok = all(abs(Fraction(float(a)) - exact.frac(p)) <= Fraction(1, 10**12) for a, p in zip(u[0], c["prev"]))
        if not init_ok:
            ctx.violation("C01.InitialProfile", f"case {key}: stored initial profile {u[0].tolist()} is not {c['prev']}",
                          replay={"stage": "exact", "case": c})
        bad = [j for j in range(c["n"]) if not exact.close(u[1][j], c["u"][j], rel=1e-11, abs_=1e-13)]
        if bad:
            clause = "C04.ExactStep"
            if c["closure"] == "dirichlet" and bad == [0]:
                clause = "C01.FaceValue"
            ctx.violation(clause, f"case {key}: code level 1 = {u[1].tolist()} but the backward-Euler step of "
                          f"Scheme.tla is {[float(exact.frac(x)) for x in c['u']]} (nodes {bad})",
                          replay={"stage": "exact", "case": c})
    ctx.sample({"exact_case": cases[len(cases) // 2]})


# ---- code -> spec ---------------------------------------------------------------------------------------------------
def gen_configs(seed: int, n: int, nx_max: int, families: str = "all", f32_tables: bool = False) -> list[dict]:
    rng = np.random.default_rng([seed, 101])
    tables_single = ["pvt_gas", "haynesville", "ideal_csv", "synth_z:0.0002", "synth_z:0.0", "synth_alpha:rising",
                     "synth_alpha:falling", "synth_alpha:kinked", "synth_alpha:steep", "synth_alpha:stepped", "shifted:pvt_gas", "built:0.7,200",
                     "built:1.1,120"]
    cfgs = []
    for i in range(n):
        kind = "single" if rng.random() < 0.7 else "ideal"
        tab = str(rng.choice(tables_single))
        if rng.random() < 0.12:
            tab = "desc:" + tab
        t = sdrv.table(tab)
        p = np.sort(np.asarray(t["pressure"], dtype=float))
        lo_p, hi_p = float(p[2]), float(p[-1])
        pi = float(rng.uniform(max(lo_p * 2, 0.3 * hi_p), hi_p))
        ratio_kind = rng.random()
        if ratio_kind < 0.15:
            ratio = float(rng.choice([0.99, 0.995, 0.999]))
        elif ratio_kind < 0.3:
            ratio = float(rng.uniform(0.002, 0.05))
        else:
            ratio = float(rng.uniform(0.05, 0.95))
        pf = max(lo_p, ratio * pi)
        if pf >= pi:
            pf = 0.5 * (lo_p + pi)
        nx = int(rng.choice([3, 4, 5, 8, 13, 20, 30, 50, 80, 150, 400])) if nx_max >= 400 else \
            int(rng.choice([3, 4, 5, 8, 13, 20, 30, 50, 80]))
        nx = min(nx, nx_max)
        # rounding of the solve grows like cond(A) ~ nx^2 and is measured relative to the window m_i - m_f, which shrinks
        # with p_f/p_i -> 1: the two extremes are explored separately so that the 1e-9 tolerance stays a rounding level
        if ratio >= 0.99:
            nx = min(nx, 50)
        elif nx > 100 and ratio > 0.9:
            ratio = float(rng.uniform(0.05, 0.9))
            pf = max(lo_p, ratio * pi)
        grid = str(rng.choice(["uniform", "quadratic", "geometric", "random", "jumpy", "huge", "drift", "nearuniform", "tiny", "intdays", "f32", "dupes", "epoch"]))
        nt = int(rng.integers(3, 120)) if nx > 100 else int(rng.integers(3, 400))
        if ratio >= 0.99:
            nt = min(nt, 150)
        tend = float(10 ** rng.uniform(-2, 1.5))
        sched = "none"
        if kind == "single":
            sched = str(rng.choice(["none", "none", "const", "stepdown", "arbitrary", "updown"]))
        if i % 17 == 11 and kind == "single" and "ideal_csv" not in tab and nx <= 100:
            # drawdown to exactly the first pressure of the table, carried on until the profile has relaxed onto it (the profile
            # then sits within rounding of the end of the table: lookups just outside it are part of every such run)
            pf, grid, tend = float(p[0]), str(rng.choice(["geometric", "quadratic", "huge"])), float(10 ** rng.uniform(1.0, 2.5))
            sched = "none"
        c = {"kind": kind, "table": tab, "nx": nx, "pf": pf, "pi": pi, "grid": grid, "nt": nt, "tend": tend,
             "sched": sched, "seed": int(rng.integers(0, 2**31 - 1))}
        if rng.random() < 0.12:
            c["repress"] = (float(rng.uniform(lo_p, 0.9 * pi)), pi if kind == "single" else float(rng.uniform(0.5, 1.5)) * pi)
        if kind == "single" and rng.random() < 0.15:
            others = [t2 for t2 in ("pvt_gas", "ideal_csv", "synth_z:0.0002", "synth_alpha:rising") if t2 != tab]
            t2 = str(rng.choice(others))
            p2 = np.sort(np.asarray(sdrv.table(t2)["pressure"], dtype=float))
            if float(p2[-1]) >= pi and float(p2[1]) <= pf:
                c["prelude"] = t2
        cfgs.append(c)
    # fine meshes with few steps are always present (node counts up to 400 are in the property's quantifier)
    for j, nxf in enumerate((193, 256, 400)):
        if nx_max >= 100 and len(cfgs) > 3 + j:
            base = dict(cfgs[j])
            base.update({"nx": nxf, "nt": 12, "grid": "random", "tend": 0.5})
            cfgs[-1 - j] = base
    # the node count is an integer, of whatever integer type the caller has at hand (a Python int, or a numpy scalar taken from an
    # array / a down-cast pandas column): int16 holds 3..400, uint8 the counts up to 255
    for i, c in enumerate(cfgs):
        t = {1: "int16", 3: "int32", 4: "uint16", 6: "uint8"}.get(i % 8)
        if t and (t != "uint8" or c["nx"] <= 255) and not c.get("repress"):
            c["nx_dtype"] = t
        # whole-number schedules given as integers, the time axis given as a pandas Series, time axes that do not start at zero
        if c["kind"] == "single" and c.get("sched", "none") in ("const", "stepdown", "updown") and i % 3 == 1:
            c["sched_int"] = "array" if i % 2 else "list"
        if i % 9 == 5 and c["grid"] not in ("f32",):
            c["time_box"] = "series"
        if i % 7 == 3 and c["grid"] in ("uniform", "quadratic", "geometric", "random", "nearuniform"):
            c["shift"] = (0.015625, 0.5, 64.0)[(i // 7) % 3]
        if i % 11 == 6 and not c.get("time_box") and not c.get("shift"):
            c["grid"] = "intdays16"
        if i % 10 == 7 and not c.get("repress") and not c.get("nx_dtype"):
            c["renx"] = 7 if c["nx"] != 7 else 11
        if c["kind"] == "single" and c.get("sched", "none") != "none" and not c.get("sched_int") and i % 4 == 2:
            c["sched_box"] = "series"
        # (single-precision tables only for the residual clause of C04: the reference values of C01 / C03 are computed by the
        # harness in double precision from the same table and would differ from the wrapper's at the 1e-8 level)
        if f32_tables and c["kind"] == "single" and i % 6 == 4 and c["table"] in ("pvt_gas", "haynesville", "built:0.7,200", "built:1.1,120", "synth_z:0.0002") \
                and not c.get("prelude") and not c.get("repress") and c["pf"] < 0.9 * c["pi"]:
            pr = np.sort(np.asarray(sdrv.table(c["table"])["pressure"], dtype=float))
            row = float(pr[int(np.argmin(np.abs(pr - c["pi"])))])
            if float(np.float32(row)) == row and row > c["pf"] * 1.1:
                c["pi"] = row
                c["f32table"] = True
    return cfgs


def ladder_configs(quick: bool) -> list[dict]:
    rungs = [(20, 200), (40, 800), (80, 3200)] if quick else [(20, 200), (40, 800), (80, 3200), (160, 12800)]
    fams = [("ideal", "pvt_gas", 100.0, 8000.0, "none"), ("ideal", "pvt_gas", 6000.0, 8000.0, "none"),
            ("single", "synth_z:0.0002", 1000.0, 8000.0, "none"), ("single", "synth_z:0.0", 4000.0, 8000.0, "none"),
            ("single", "synth_z:0.0002", 3000.0, 8000.0, "stepdown"), ("single", "synth_z:0.0002", 7992.0, 8000.0, "none"),
            # a schedule that also rises (choke-back), and an initial pressure well between two rows of a 10-psi table
            ("single", "synth_z:0.0002", 2000.0, 9000.0, "updown"), ("single", "synth_z:0.0002", 400.0, 999.0, "none")]
    if not quick:
        fams += [("single", "synth_z:0.0005", 7000.0, 8000.0, "none"), ("single", "pvt_gas", 1200.0, 2449.0, "updown"),
                 ("ideal", "pvt_gas", 7900.0, 8000.0, "none"), ("single", "pvt_gas", 1000.0, 8000.0, "none"),
                 ("single", "built:0.7,200", 1000.0, 8000.0, "none")]
    out = []
    for fi, (kind, tab, pf, pi, sched) in enumerate(fams):
        for nx, nt in rungs:
            out.append({"kind": kind, "table": tab, "nx": nx, "pf": pf, "pi": pi, "grid": "quadratic", "nt": nt,
                        "tend": 4.0, "sched": sched, "seed": 7 + fi, "ladder": fi, "ladder_nx": nx})
    # an ideal reservoir object that was built and used with another pressure pair before the pair was assigned
    for nx, nt in rungs[:3]:
        out.append({"kind": "ideal", "table": "pvt_gas", "nx": nx, "pf": 2000.0, "pi": 8000.0, "grid": "quadratic", "nt": nt,
                    "tend": 4.0, "sched": "none", "seed": 99, "ladder": 200, "ladder_nx": nx, "repress": (6000.0, 9000.0)})
    # space-only refinement on a fixed fine time grid with a schedule that changes: a one-sample error at every change of
    # the schedule is not hidden by refining time as nx^2
    for fj, (tab, pf, pi, sched) in enumerate([("synth_z:0.0002", 6000.0, 8000.0, "stepdown"),
                                               ("synth_z:0.0", 5000.0, 9000.0, "stepdown")]):
        for nx in (20, 40, 80):
            out.append({"kind": "single", "table": tab, "nx": nx, "pf": pf, "pi": pi, "grid": "quadratic", "nt": 3200,
                        "tend": 4.0, "sched": sched, "seed": 77 + fj, "ladder": 100 + fj, "ladder_nx": nx})
    return out


def _do_run(args):
    cfg, tid, want_resid, want_rf = args
    env.import_bluebonnet()
    try:
        with env.time_limit(600, "the simulation"):
            ev, raw, obj, fp, tab, time, sched = sdrv.run_config(cfg, tid, want_residual=want_resid)
        if want_rf:
            rfe, rraw = sdrv.rf_events(cfg, tid, ev[-1]["seq"], obj, fp, tab, time, sched, cfg.get("ladder_nx"))
            ev += rfe
            raw.update(rraw)
        return ev, raw, None
    except Exception as ex:  # noqa: BLE001
        import traceback  # noqa: PLC0415

        return [], {"cfg": cfg}, f"{type(ex).__name__}: {ex}\n{traceback.format_exc()[-800:]}"


def trace_runs(ctx: core.Ctx, cfgs: list[dict], owner: str, want_resid: bool, want_rf: bool) -> list[dict]:
    """Run configs on the real code, validate with SchemeTrace, report clauses owned by `owner` ("C01" ...)."""
    tasks = [(c, i + 1, want_resid, want_rf) for i, c in enumerate(cfgs)]
    events, raws = [], {}
    with ProcessPoolExecutor(max_workers=16) as ex:
        for (c, tid, _, _), (ev, raw, err) in zip(tasks, ex.map(_do_run, tasks, chunksize=1)):
            if err:
                ctx.violation(f"{owner}.RunFailed", f"simulation raised on {c}: {err[:300]}", replay={"stage": "run", "cfg": c})
                continue
            events += ev
            raws[tid] = raw
            ctx.case(f"{c['kind']}/{c['table']}/nx{c['nx']}/{c['grid']}{c['nt']}/{c.get('sched')}/{c['pf']:.6g}/{c['pi']:.6g}")
    verdicts = trace.validate(ctx, "SchemeTrace", events, timeout=1500)
    by = {(e["tid"], e["seq"]): e for e in events}
    first: dict = {}
    for v in verdicts:
        for cl in v["clauses"]:
            if cl.startswith("Machinery:"):
                raise tlc.MachineryError(f"SchemeTrace: {cl} on {raws[v['tid']]['cfg']}")
            if cl.startswith(owner + "."):
                ent = first.setdefault((v["tid"], cl), {"seq": v["seq"], "count": 0})
                ent["count"] += 1
    for (tid, cl), ent in sorted(first.items()):
        e = by[(tid, ent["seq"])]
        raw = raws[tid]
        where = f"level {e['i']}" if e["ev"] == "Level" else e["ev"] + " " + str(e.get("mode", ""))
        ctx.violation(cl, f"{where} (first of {ent['count']} events) of run {raw['cfg']} violates {cl} (summary: "
                      f"{ {k: raw[k] for k in raw if k not in ('cfg',)} })",
                      replay={"stage": "run", "cfg": raw["cfg"], "clause": cl, "event_seq": ent["seq"]})
    return list(raws.values())


def replay_run(ctx: core.Ctx, obj: dict, owner: str) -> None:
    r = obj["replay"]
    if r.get("stage") == "run":
        raws = trace_runs(ctx, [r["cfg"]], owner, True, True)
        print("re-ran", r["cfg"], "->", raws)
    elif r.get("stage") == "exact":
        u = _run_case(r["case"])
        print("case", r["case"], "\ncode profile:", u.tolist())
        ctx.case("replay")
    ctx.case("replay-1")
    ctx.case("replay-2")


# ---- the repository's own tests, re-run under recording wrappers (code -> spec) -------------------------------------------
class _FpLike:
    """The fluid wrapper of a recorded run, rebuilt from its columns with the harness's own piecewise-linear lookups."""

    def __init__(self, d: dict):
        o = np.argsort(d["pressure"])
        self._p, self._ms = d["pressure"][o], d["ms"][o]
        self.m_i = d["m_i"]
        self.pvt_props = {"m-scaled": d["ms"], "alpha": d["alpha"], "pressure": d["pressure"]}
        if d.get("density") is not None:
            self.pvt_props["density"] = d["density"]
        ok = np.isfinite(d["ms"]) & np.isfinite(d["alpha"])
        oo = np.argsort(d["ms"][ok])
        self._xs, self._ys = d["ms"][ok][oo], d["alpha"][ok][oo]

    def m_scaled_func(self, p):
        return np.interp(np.asarray(p, dtype=float), self._p, self._ms)

    def alpha(self, m):
        return np.interp(np.asarray(m, dtype=float), self._xs, self._ys, left=float(np.nanmin(self._ys)), right=float(np.nanmax(self._ys)))


NOTEBOOKS = ["docs/getting_started.ipynb", "docs/flow.ipynb", "docs/forecast.ipynb", "docs/oil_flow.ipynb"]


def repo_test_traces(ctx: core.Ctx, owner: str, tests: list[str], want_resid: bool, module: str = "bbv.drivers.repotests") -> dict:
    """Run the named repository tests in a fresh interpreter with the reservoir classes wrapped, and validate every
    simulation they perform (levels, recovery series) with SchemeTrace.tla.  Returns a summary."""
    import pickle  # noqa: PLC0415
    import subprocess  # noqa: PLC0415
    import sys  # noqa: PLC0415

    from .. import quant  # noqa: PLC0415

    sdir = env.scratch("repotests")
    try:
        out = sdir / "records.pkl"
        p = subprocess.run([sys.executable, "-m", module, str(out), *tests], cwd=env.VERIF,
                           capture_output=True, text=True, timeout=1500, check=False)
        if not out.exists():
            raise tlc.MachineryError(f"recording the repository's tests failed:\n{p.stdout[-1500:]}\n{p.stderr[-1500:]}")
        data = pickle.loads(out.read_bytes())
    finally:
        env.cleanup(sdir)
    events, raws = [], {}
    for tid, r in enumerate(data["records"], start=1):
        fp = _FpLike(r["fp"]) if r["kind"] == "single" else None
        ev, raw = sdrv.level_events(r["kind"], fp, r["time"], r["u"], r["pf"], tid, 0, 300, want_resid)
        raw["cfg"] = {"repo_test_simulation": tid, "class": r["cls"], "nx": r["nx"], "nt": int(len(r["time"]))}
        seq = ev[-1]["seq"]
        nt = len(r["time"])
        upto = nt
        if r["pf"] is not None:
            rises = np.nonzero(np.diff(r["pf"]) > 0)[0]
            if len(rises):
                upto = int(rises[0]) + 1
        for mode, rf in sorted(r["rf"].items()):
            if mode == "density" and r["kind"] == "ideal":
                continue
            ceil_q, hasceil = quant.q(0.0), False
            if mode == "density" and fp is not None and "density" in fp.pvt_props:
                o = np.argsort(fp.pvt_props["pressure"])
                pp, dd = fp.pvt_props["pressure"][o], fp.pvt_props["density"][o]
                lo_p, pi = float(np.min(r["pf"])), r["pi"]
                a = max(0, int(np.searchsorted(pp, lo_p, side="right")) - 1)
                b = min(len(pp) - 1, int(np.searchsorted(pp, pi, side="left")))
                if not np.all(np.diff(dd[a:b + 1]) > 0):
                    continue
                rho_f, rho_i = float(np.interp(lo_p, pp, dd)), float(np.interp(pi, pp, dd))
                ms = fp.pvt_props["m-scaled"][o]
                okk = np.isfinite(ms)
                eps_table = abs(float(np.interp(float(fp.m_scaled_func(lo_p)), ms[okk], dd[okk])) - rho_f) / rho_i
                ceil_q, hasceil = quant.q(1 - rho_f / rho_i + eps_table), True
            idx = np.arange(nt) if nt <= 400 else np.unique(np.concatenate([np.arange(50), np.linspace(50, nt - 1, 350).astype(int)]))
            up = int(np.searchsorted(idx, upto - 1, side="right"))
            seq += 1
            ev.append({"tid": tid, "seq": seq, "ev": "RF", "mode": mode, "rf": quant.qs(rf[idx]), "upto": max(1, up),
                       "ceil": ceil_q, "hasceil": hasceil, "plateauE": -1, "gapE": -1})
        events += ev
        raws[tid] = raw
        ctx.case(f"repo-test-simulation/{tid}/{r['cls']}/nx{r['nx']}/nt{nt}")
    verdicts = trace.validate(ctx, "SchemeTrace", events, timeout=1500) if events else []
    by = {(e["tid"], e["seq"]): e for e in events}
    first: dict = {}
    for v in verdicts:
        for cl in v["clauses"]:
            if cl.startswith(owner + "."):
                ent = first.setdefault((v["tid"], cl), {"seq": v["seq"], "count": 0})
                ent["count"] += 1
    for (tid, cl), ent in sorted(first.items()):
        e = by[(tid, ent["seq"])]
        where = f"level {e['i']}" if e["ev"] == "Level" else e["ev"] + " " + str(e.get("mode", ""))
        ctx.violation(cl, f"{where} (first of {ent['count']} events) of simulation {raws[tid]['cfg']} performed by the repository's own "
                      f"tests {tests} violates {cl}", replay={"stage": "repotests", "tests": tests, "clause": cl})
    return {"tests": tests, "pytest_rc": data["pytest_rc"], "simulations": len(data["records"]), "status": data.get("status"),
            "worst_backward_error": max((r["worst_backward_error"] for r in raws.values()), default=0.0)}
