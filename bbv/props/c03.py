"""C03 -- recovery factor conserves mass and respects its physical ceiling."""
from __future__ import annotations

import numpy as np

from .. import core, trace
from ..drivers import reservoir as rdrv
from ..drivers import scheme as sdrv
from . import scheme_common as sc


def table_inconsistency(tab_spec: str, pf: float, pi: float) -> float:
    """How far the table itself is from mass-consistent on [pf, pi]:
    kappa(p) = d(rho/rho_i)/d(m~) * alpha(p)/alpha_i must be 1 (then d/dt int rho/rho_i dx = -dm~/dx at the face).
    Returned: max |kappa - 1| by central differences over table nodes (includes O(h^2) differencing error)."""
    if sdrv.is_consistent_family(tab_spec):
        return 0.0
    tab = sdrv.table(tab_spec)
    fp = rdrv.flow_properties(tab, pi)
    p = np.asarray(fp.pvt_props["pressure"], dtype=float)
    ms = np.asarray(fp.pvt_props["m-scaled"], dtype=float)
    al = np.asarray(fp.pvt_props["alpha"], dtype=float)
    rho = np.asarray(fp.pvt_props["density"], dtype=float)
    _o = np.argsort(p)
    p, ms, al, rho = p[_o], ms[_o], al[_o], rho[_o]
    ok = (p >= pf) & (p <= pi) & np.isfinite(ms) & np.isfinite(al)
    idx = np.nonzero(ok)[0]
    idx = idx[(idx > 0) & (idx < len(p) - 1)]
    rho_i = float(np.interp(pi, p, rho))
    al_i = float(np.interp(pi, p, al))
    drho_dm = (rho[idx + 1] - rho[idx - 1]) / (ms[idx + 1] - ms[idx - 1])
    kappa = drho_dm / rho_i * al[idx] / al_i
    return float(np.max(np.abs(kappa - 1)))


def run(ctx: core.Ctx) -> None:
    ctx.rule = ("design level: discrete conservation identities of Scheme.tla on every lattice case; code->spec: recovery series of "
                "random runs (both modes) and of refinement ladders (nx, nt) = (20,200),(40,800),(80,3200)[,(160,12800)] judged by "
                "SchemeTrace.tla: StartsAtZero, MonotoneRF on the prefix where the schedule has not risen, Ceiling, IdealPlateau, "
                "Gap <= 3/nx of the ceiling, LadderShrinks; distinct = run key")
    ctx.assumptions += [
        "consistent tables: synthetic family z = 1 + a p, mu const (density p/z, c = 1/(p z), m analytic) exactly; shipped/built tables "
        "widen the gap by their own measured inconsistency max|kappa - 1| (central differences of the table) and no more",
        "ceiling uses density interpolated in pressure; the table's own difference to the interpolation in scaled pseudopressure is added",
        "first-order clauses (plateau, gap) are only demanded on ladders with quadratic time grids, nt proportional to nx^2, t_end = 4",
        "monotone recovery is demanded only while the frac-face schedule has never risen",
    ]
    ctx.trusted += ["TLC", "numpy interpolation for the ceiling", "bbv/drivers/scheme.py"]
    sc.design_models(ctx, full=not ctx.quick)
    # ladders
    lcfgs = sc.ladder_configs(ctx.quick)
    for c in lcfgs:
        if c["kind"] == "single":
            c["table_inconsistency"] = table_inconsistency(c["table"], c["pf"], c["pi"])
    raws = sc.trace_runs(ctx, lcfgs, "C03", want_resid=False, want_rf=True)
    lad: dict[int, list] = {}
    for r in raws:
        lad.setdefault(r["cfg"]["ladder"], []).append(r)
    events, tid = [], 0
    summary = []
    for fi, rs in sorted(lad.items()):
        rs.sort(key=lambda r: r["cfg"]["nx"])
        for what, key in (("gap", "gap_nx"), ("plateau", "plateau_err_nx")):
            if all(key in r for r in rs):
                errs = [r[key] / r["cfg"]["nx"] for r in rs]
                # errors already at the level of the table's own inconsistency cannot be asked to shrink
                floor = max(r["cfg"].get("table_inconsistency", 0.0) for r in rs)
                errs_adj = [max(0.0, e - floor) for e in errs]
                tid += 1
                events.append({"tid": tid, "seq": 0, "ev": "Ladder", "owner": "C03", "what": what,
                               "errs": [int(min(1e8, round(e * 1e8))) for e in errs_adj]})
                summary.append({"family": rs[0]["cfg"]["table"] + "/" + rs[0]["cfg"]["kind"] + "/" + rs[0]["cfg"]["sched"],
                                "pf": rs[0]["cfg"]["pf"], "what": what, "err_times_nx": [round(r[key], 4) for r in rs]})
    if events:
        for v in trace.validate(ctx, "SchemeTrace", events, count_traces=False):
            e = events[v["tid"] - 1]
            for cl in v["clauses"]:
                ctx.violation(cl, f"ladder {summary[v['tid'] - 1]} does not shrink (each rung smaller than the previous, finest pair <= 0.7): errs*1e8 = {e['errs']}",
                              replay={"stage": "ladder", "summary": summary[v["tid"] - 1]})
    ctx.extra["ladders"] = summary
    # random runs: StartsAtZero / Monotone / Ceiling on every family and schedule
    n = 100 if ctx.quick else 1200
    cfgs2 = sc.gen_configs(ctx.seed + 2, n, 80 if ctx.quick else 400)
    # long histories (more than 4096 and more than 8192 time levels): nothing in the recovery post-processing may depend on the length
    cfgs2 += [{"kind": "single", "table": "synth_z:0.0002", "nx": 12, "pf": 1500.0, "pi": 8000.0, "grid": "quadratic", "nt": 4500,
               "tend": 2.0, "sched": "stepdown", "seed": 4500},
              {"kind": "ideal", "table": "pvt_gas", "nx": 10, "pf": 2000.0, "pi": 8000.0, "grid": "quadratic", "nt": 8300,
               "tend": 3.0, "sched": "none", "seed": 8300}]
    # coarse tables (rows 200 and 500 psi apart), a frac-face pressure between two rows, runs carried to depletion: between rows the
    # pressure -> pseudopressure map and the pseudopressure -> density map of the in-place recovery have to be the same interpolation
    for j, (rows, pf, sched) in enumerate([(21, 750.0, "none"), (21, 1250.0, "stepdown"), (51, 300.0, "none"), (51, 250.0, "stepdown"),
                                           (21, 1730.0, "const"), (51, 1111.0, "none")]):
        cfgs2.append({"kind": "single", "table": f"synth_z:0.0:{rows}", "nx": 20, "pf": pf, "pi": 8000.0, "grid": "geometric", "nt": 200,
                      "tend": 60.0, "sched": sched, "seed": 9100 + j})
    # stepwise-decreasing schedules held as a column of a frame that was put in time order without reset_index (Series, permuted labels)
    for j, (tab_, nx_, grid_) in enumerate([("synth_z:0.0002", 12, "quadratic"), ("pvt_gas", 20, "uniform"), ("synth_z:0.0", 8, "random")]):
        cfgs2.append({"kind": "single", "table": tab_, "nx": nx_, "pf": 1500.0 + 400 * j, "pi": 8000.0, "grid": grid_, "nt": 60 + 20 * j,
                      "tend": 2.0, "sched": "stepdown", "sched_box": "series", "seed": 9200 + j})
    raws2 = sc.trace_runs(ctx, cfgs2, "C03", want_resid=False, want_rf=True)
    ctx.extra["repo_tests"] = sc.repo_test_traces(ctx, "C03", ["tests/flow/test_reservoir.py", "tests/forecast/test_forecast.py", "tests/test_plots.py"], False)
    if not ctx.quick:   # the documentation notebooks, cell by cell (those that need the network stop at that cell)
        ctx.extra["notebooks"] = sc.repo_test_traces(ctx, "C03", sc.NOTEBOOKS, False, module="bbv.drivers.notebooks")
    withc = [r for r in raws2 if "ceiling" in r]
    if withc:
        ctx.extra["closest_to_ceiling"] = min(r["ceiling"] + r["eps_table"] - r["rf_density_last"] for r in withc)
    ctx.extra["most_negative_relative_rf_step"] = min(min(r.get("rf_flux_min_step", 0) / max(1.0, abs(r.get("rf_flux_last", 1.0))), r.get("rf_density_min_step", 0)) for r in raws2)
    ctx.sample({"ladder": summary[0] if summary else None})
    ctx.sample({"run": raws2[0]["cfg"], "rf_flux_last": raws2[0].get("rf_flux_last"), "ceiling": raws2[0].get("ceiling")})


def replay(ctx: core.Ctx, obj: dict) -> None:
    sc.replay_run(ctx, obj, "C03")
