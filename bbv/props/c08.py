"""C08 -- all pseudopressure routes agree, are zero at their reference, strictly increasing and additive.

TLC (exact):  Pseudopressure.tla -- every 4-row table over pressure grids {1,2,4,8} (quick) + {1,2,3,4}, {2,3,5,10}
        (thorough) and viscosity / z columns over {1, 2, 1/2}: 2*CumTrap(p/(mu z), p) evaluated in exact rationals,
        invariants ZeroAtFirst, Increasing, Additive (re-based tables), ExactOnLinear, RoutesAgree; deviations
        NoFactor2, Transposed, MuZInverted, InitialOffset must be refuted.
S->C:   every exported table is given to the real fluids.pseudopressure (whole table and the sub-tables starting at
        rows 2 and 3); every value must equal TLC's rational to 1e-13.
C->S:   SweepC08.tla judges (a) every row of tables built by build_pvt_gas for a lattice of gas compositions
        (column vs stand-alone transform, re-basing, zero at the first row, strictly increasing), (b) ~50 rows per
        table against pseudopressure_Hussainy: every pair of sampled pressures within 4 x (trapezoid bound +
        QUADPACK tolerance), additivity through pressure_standard, zero at the reference, strictly increasing,
        (c) the stand-alone transform on random positive tables against the exact rational trapezoid sum.
"""
from __future__ import annotations

import math
from concurrent.futures import ProcessPoolExecutor
from fractions import Fraction

import numpy as np

from .. import core, env, exact, quant, sweep, tlc

PWIN = (0.0, 20000.0)       # pressure axis
MWIN = (-1.0e9, 1.0e10)     # pseudopressure values, psi^2/cp
QUADPACK_EPSREL = 1.49e-8   # scipy.integrate.quad default epsrel (and epsabs)
REBASE_EVERY = 37


def rel15(a: float, b: float, scale: float | None = None) -> int:
    a, b = float(a), float(b)
    if a == b:
        return 0
    s = max(abs(a), abs(b)) if scale is None else abs(float(scale))
    return quant.e15(a, b, s) if s > 0 else quant.CAP


# ---- spec -> code -------------------------------------------------------------------------------------------------
def _table_of(rec):
    p = np.array([float(x) for x in rec["p"]])
    mu = np.array([x[0] / x[1] for x in rec["mu"]])
    z = np.array([x[0] / x[1] for x in rec["z"]])
    return p, mu, z


def check_exact_case(rec) -> list[str]:
    """Run the real stand-alone transform on one exported table; returns descriptions of mismatches."""
    from bluebonnet.fluids import pseudopressure  # noqa: PLC0415

    p, mu, z = _table_of(rec)
    bad = []
    for name, a in (("m", 0), ("from2", 1), ("from3", 2)):
        try:
            got = np.asarray(pseudopressure(p[a:], mu[a:], z[a:]), dtype=float)
        except Exception as ex:  # noqa: BLE001  the transform raising on a positive table is an observation
            bad.append(f"{name}: raised {type(ex).__name__}: {ex}")
            continue
        want = rec[name]
        if got.shape != (len(want),):
            bad.append(f"{name}: shape {got.shape}, expected {len(want)} rows")
            continue
        for k, (g, w) in enumerate(zip(got, want)):
            ok = (g == 0.0) if w[0] == 0 else exact.close(g, w, rel=1e-13)
            if not ok:
                bad.append(f"{name}[{k}] = {g!r}, TLC says {w[0]}/{w[1]}")
    return bad


def replay_exported(ctx: core.Ctx, recs) -> None:
    nbad = 0
    for rec in recs:
        ctx.case(f"pp/{rec['p']}/{rec['mu']}/{rec['z']}")
        bad = check_exact_case(rec)
        if bad:
            nbad += 1
            if nbad <= 8:
                p, mu, z = _table_of(rec)
                ctx.violation("ExactTable", f"fluids.pseudopressure(p={p.tolist()}, mu={mu.tolist()}, z={z.tolist()}): "
                              + "; ".join(bad[:3]),
                              replay={"stage": "exact", "p": rec["p"], "mu": rec["mu"], "z": rec["z"]})
    if nbad > 8:
        ctx.violation("ExactTable", f"{nbad} of {len(recs)} exported tables are not reproduced by fluids.pseudopressure",
                      replay={"stage": "exact-all"})
    ctx.sample({"exact_table": {k: recs[len(recs) // 2][k] for k in ("p", "mu", "z", "m")}})


def exact_part(ctx: core.Ctx) -> None:
    devs = [("NoFactor2", "ExactOnLinear"), ("Transposed", "Increasing")]
    if not ctx.quick:
        devs += [("MuZInverted", "ExactOnLinear"), ("InitialOffset", "ZeroAtFirst")]
    for dev, inv in devs:
        ctx.expect_refuted("Pseudopressure", f"MC_Pseudopressure_dev_{dev}.cfg", inv, workers=2)
    cfg = "MC_Pseudopressure.cfg" if ctx.quick else "MC_Pseudopressure_thorough.cfg"
    r = ctx.model_check("Pseudopressure", cfg, workers=16, timeout=900)
    recs = r.by_tag("PP")
    want = 6561 * (1 if ctx.quick else 3)
    if len(recs) != want:
        raise tlc.MachineryError(f"Pseudopressure.tla exported {len(recs)} tables, expected {want}")
    replay_exported(ctx, recs)


# ---- code -> spec: gas tables ------------------------------------------------------------------------------------------
def _sample_rows(n: int, k: int) -> list[int]:
    idx = {0, 1, 2, 3, n - 2, n - 1}
    idx.update(int(i) for i in np.linspace(0, n - 1, k).astype(int))
    for f in (0.2, 0.5, 0.8):      # neighbouring rows in the interior
        i = int(f * (n - 1))
        idx.update({i, i + 1})
    return sorted(i for i in idx if 0 <= i < n)


def gas_sweeps(comp):
    g, T, n2, h2s, co2, dry, pmax, nquad = comp
    env.import_bluebonnet()
    from bluebonnet.fluids import build_pvt_gas, gas, pseudopressure  # noqa: PLC0415

    gv = {"N2": n2, "H2S": h2s, "CO2": co2, "Gas Specific Gravity": g, "Reservoir Temperature (deg F)": T}
    what = f"gas gravity={g} T={T} N2={n2} H2S={h2s} CO2={co2} {dry} maximum_pressure={pmax}"
    meta = {"what": what, "comp": list(comp)}
    if int(round(T * 100)) % 2 == 0:
        # a caller that built this table before and rescaled / overwrote its columns in place (docs/oil_flow.ipynb does that with
        # the pseudopressure column) asks for it again with equal arguments
        first = build_pvt_gas(dict(gv), dry, pmax)
        first["pseudopressure"] = (first["pseudopressure"] - first["pseudopressure"].iloc[3]) / 7.0
        first["z-factor"] *= 0.5
        first["viscosity"] = first["viscosity"].to_numpy()[::-1].copy()
        meta["what"] = what = what + " (built before, edited in place by the caller, built again)"
    df = build_pvt_gas(dict(gv), dry, pmax)
    p = df["pressure"].to_numpy(dtype=float)
    mu = df["viscosity"].to_numpy(dtype=float)
    z = df["z-factor"].to_numpy(dtype=float)
    m = df["pseudopressure"].to_numpy(dtype=float)
    n = len(p)
    # the table's own pressure column goes into the stand-alone transform as it is stored; whole-number pressures are also handed
    # over as an integer column (what a csv reader returns for 10, 20, 30, ...)
    p_in = p.astype(np.int64) if (np.all(p == np.round(p)) and int(round(g * 1000)) % 2 == 0) else df["pressure"].to_numpy()
    ma = np.asarray(pseudopressure(p_in, mu, z), dtype=float)
    # ---- every row of the table
    tpoints = []
    subs: dict[int, np.ndarray] = {}
    for k in range(n):
        b = REBASE_EVERY * ((k - 1) // REBASE_EVERY) if k > 0 else 0
        if b not in subs:
            subs[b] = np.asarray(pseudopressure(p_in[b:], mu[b:], z[b:]), dtype=float)
        sub = float(subs[b][k - b])
        agree = {"alone": rel15(m[k], ma[k]),
                 "rebase": rel15(sub, m[k] - m[b], scale=max(abs(m[k]), abs(sub)))}
        flags = {"zero_first_table": m[0] == 0.0, "zero_first_alone": ma[0] == 0.0,
                 "finite": bool(math.isfinite(m[k]) and math.isfinite(ma[k]))}
        tpoints.append({"x": quant.q(p[k], *PWIN), "side": "none",
                        "vals": {"m_table": quant.q(m[k], *MWIN), "m_alone": quant.q(ma[k], *MWIN)},
                        "agree": agree, "flags": flags,
                        "raw": {"row": k, "p": float(p[k]), "m_table": float(m[k]), "m_alone": float(ma[k]),
                                "rebased_at_row": b, "m_from_that_row": sub}})
    # ---- sampled rows against the quadrature route
    tpc, ppc = gas.pseudocritical_point_Sutton(g, gas.make_nonhydrocarbon_properties(n2, h2s, co2), dry)
    tpc, ppc = float(tpc), float(ppc)

    def hussainy(pp, ref=None):
        if ref is None:
            return float(gas.pseudopressure_Hussainy(T, pp, tpc, ppc, g))
        return float(gas.pseudopressure_Hussainy(T, pp, tpc, ppc, g, ref))

    zero_ref = hussainy(14.7) == 0.0
    zero_zero = hussainy(0.0, 0.0) == 0.0          # the textbook base of Al-Hussainy's integral is 0 psia
    m_std_from_zero = hussainy(14.7, 0.0)
    idx = _sample_rows(n, nquad)
    mq = [hussainy(float(p[i])) for i in idx]
    f = 2.0 * p / (mu * z)
    hstep = float(np.max(np.diff(p)))
    d2 = np.zeros(n)
    d2[1:-1] = (f[2:] - 2.0 * f[1:-1] + f[:-2]) / (np.diff(p)[1:] * np.diff(p)[:-1])
    d2[0], d2[-1] = d2[1], d2[-2]
    ad2 = np.abs(d2)
    seg = [None] + [hussainy(float(p[idx[k]]), float(p[idx[k - 1]])) for k in range(1, len(idx))]
    qpoints = []
    for k, i in enumerate(idx):
        agree, raw = {}, {"row": i, "p": float(p[i]), "m_quad": mq[k], "m_table": float(m[i])}
        worst, wj = 0, None
        for j in range(k):
            ij = idx[j]
            err = abs((mq[k] - mq[j]) - (m[i] - m[ij]))
            budget = hstep * hstep / 12.0 * (p[i] - p[ij]) * float(np.max(ad2[max(ij - 1, 0): i + 2])) \
                + QUADPACK_EPSREL * (abs(mq[k]) + abs(mq[j]))
            r = quant.e15(err, 0.0, budget * 1e9) if budget > 0 and math.isfinite(err) else quant.CAP
            if r >= worst:
                worst, wj = r, (float(p[ij]), float(err), float(budget))
        if k > 0:
            agree["quad_pairs"] = worst
            raw["worst_pair"] = {"p_other": wj[0], "abs_error": wj[1], "budget": wj[2]}
        if k > 1:
            ac = hussainy(float(p[i]), float(p[idx[k - 2]]))
            agree["additive"] = rel15(ac, seg[k - 1] + seg[k])
            raw["additive"] = {"a": float(p[idx[k - 2]]), "b": float(p[idx[k - 1]]), "m_ac": ac, "m_ab": seg[k - 1],
                               "m_bc": seg[k]}
        own = hussainy(float(p[i]), float(p[i]))
        if k % 4 == 0:
            from_zero = hussainy(float(p[i]), 0.0)
            agree["additive_zero"] = rel15(from_zero, m_std_from_zero + mq[k])
            raw["additive_zero"] = {"m_from_0": from_zero, "m_0_to_14.7": m_std_from_zero, "m_from_14.7": mq[k]}
        flags = {"zero_at_reference": zero_ref, "zero_at_own_reference": own == 0.0, "zero_at_zero_reference": zero_zero,
                 "finite": bool(math.isfinite(mq[k]))}
        qpoints.append({"x": quant.q(p[i], *PWIN), "side": "none", "vals": {"m_quad": quant.q(mq[k], *MWIN)},
                        "agree": agree, "flags": flags, "raw": raw})
    return [{"profile": "table", "meta": meta, "points": tpoints}, {"profile": "quad", "meta": meta, "points": qpoints}]


# ---- code -> spec: random tables for the stand-alone transform -------------------------------------------------------------
def random_table(seed: int, i: int):
    rng = np.random.default_rng([seed, 8, i])
    n = int(rng.integers(2, 65))
    p = float(rng.uniform(1, 100)) + np.cumsum(np.exp(rng.uniform(np.log(0.1), np.log(500), n)))
    mu = np.exp(rng.uniform(np.log(0.005), np.log(5), n))
    z = rng.uniform(0.2, 3.0, n)
    if i % 5 == 2 and n >= 3:
        p = np.geomspace(float(rng.uniform(5, 50)), float(rng.uniform(2000, 15000)), n)   # log-spaced pressure nodes
    if i % 7 == 3:
        p = np.cumsum(rng.integers(1, 400, n)).astype(np.int64 if i % 2 else np.int32)   # whole-number pressures in an integer column
    return p, mu, z, bool(i % 3 == 1), ("series_permuted" if i % 4 == 1 else "series_default" if i % 8 == 6 else "ndarray")


def alone_sweep(tab):
    env.import_bluebonnet()
    from bluebonnet.fluids import pseudopressure  # noqa: PLC0415

    p_as_given = np.asarray(tab[0])
    if p_as_given.dtype.kind != "i":
        p_as_given = p_as_given.astype(float)
    p, mu, z = (np.asarray(a, dtype=float) for a in tab[:3])
    descending = len(tab) > 3 and bool(tab[3])
    if descending:   # a table listed from high to low pressure is a table with positive entries too
        p, mu, z, p_as_given = p[::-1].copy(), mu[::-1].copy(), z[::-1].copy(), p_as_given[::-1].copy()
    n = len(p)
    form = tab[4] if len(tab) > 4 else "ndarray"

    def box(a, lo=0):
        """The columns as the caller holds them: arrays, or columns of a frame whose row labels are not 0..n-1 in order (a table
        that was sorted or filtered without reset_index): position, not label, is what orders a table."""
        if form == "ndarray":
            return a
        import pandas as pd  # noqa: PLC0415

        labels = np.arange(n) if form == "series_default" else np.random.default_rng(n).permutation(n)
        return pd.Series(a, index=labels[lo:])

    m = np.asarray(pseudopressure(box(p_as_given.copy()), box(mu), box(z)), dtype=float)
    fp = [Fraction(float(x)) for x in p]
    fr = [2 * fp[k] / (Fraction(float(mu[k])) * Fraction(float(z[k]))) for k in range(n)]
    ref = [Fraction(0)]
    for k in range(1, n):
        ref.append(ref[-1] + (fp[k] - fp[k - 1]) * (fr[k] + fr[k - 1]) / 2)
    b = n // 3
    sub = np.asarray(pseudopressure(box(p_as_given[b:].copy(), b), box(mu[b:], b), box(z[b:], b)), dtype=float)
    pts = []
    for k in range(n):
        agree = {"exact": 0 if Fraction(float(m[k])) == ref[k] else quant.e15_of(float(abs(Fraction(float(m[k])) - ref[k])
                                                                                  / max(abs(ref[k]), Fraction(1, 10**300))))}
        raw = {"row": k, "p": float(p[k]), "m": float(m[k]), "exact": float(ref[k])}
        if k >= b:
            agree["rebase"] = rel15(float(sub[k - b]), m[k] - m[b], scale=max(abs(m[k]), abs(float(sub[k - b]))))
            raw["rebased_at_row"] = b
        pts.append({"x": quant.q(p[k], 0.0, 1.0e5), "side": "none",
                    "vals": {"m_norm": quant.q(m[k] / abs(m[-1]) if m[-1] != 0 else float("nan"), 0.0, 1.0)},
                    "agree": agree, "flags": {"zero_first_alone": m[0] == 0.0, "finite": bool(np.isfinite(m[k]))},
                    "raw": raw})
    if descending:   # points are judged in order of increasing pressure: m must increase with pressure either way
        pts.reverse()
    meta = {"what": f"random {'descending ' if descending else ''}table with {n} rows, p {p[0]:.4g}..{p[-1]:.6g} "
                    f"({p_as_given.dtype} pressures, columns handed over as {form})",
            "table": [p_as_given.tolist(), mu.tolist(), z.tolist(), False, form], "pressure_dtype": str(p_as_given.dtype)}
    return [{"profile": "alone", "meta": meta, "points": pts}]


def _run_task(task):
    # a route that raises on an admissible table / gas is an observation about the code, not a failure of the harness
    try:
        return gas_sweeps(task[1]) if task[0] == "gas" else alone_sweep(task[1])
    except tlc.MachineryError:
        raise
    except Exception as ex:  # noqa: BLE001
        import traceback  # noqa: PLC0415

        return f"{type(ex).__name__}: {ex} [{traceback.format_exc().strip().splitlines()[-3].strip()[:160]}]"


def compositions(ctx: core.Ctx):
    rng = np.random.default_rng([ctx.seed, 8])
    if ctx.quick:
        return [(0.65, 200.0, 0.03, 0.012, 0.018, "dry gas", 3000, 40),
                (0.8, 120.75, 0.0, 0.0, 0.0, "wet gas", 2555, 40),     # maximum pressures that are not multiples of the step
                (1.0, 299.9, 0.05, 0.01, 0.04, "wet gas", 995.5, 40),  # reservoir temperatures are real numbers
                (0.7, 250.0, 0.0, 0.0, 0.0, "dry gas", 15300, 30),      # a maximum above the default table range
                (0.9, 181.4, 0.02, 0.0, 0.0, "wet gas", 6000, 30)]
    comps = [(0.65, 200.0, 0.03, 0.012, 0.018, "dry gas", 14000, 80)]     # default table size
    for g in (0.56, 0.7, 0.9, 1.2):
        for T in (80.0, 180.0, 400.0):
            for (n2, h2s, co2) in ((0.0, 0.0, 0.0), (0.1, 0.0, 0.05), (0.0, 0.1, 0.1)):
                dry = "dry gas" if g < 0.75 else "wet gas"
                comps.append((g, T, n2, h2s, co2, dry, 6000, 50))
    for _ in range(12):
        comps.append((round(float(rng.uniform(0.56, 1.2)), 4), round(float(rng.uniform(80, 400)), 2),
                      round(float(rng.uniform(0, 0.1)), 4), round(float(rng.uniform(0, 0.1)), 4),
                      round(float(rng.uniform(0, 0.1)), 4), str(rng.choice(["dry gas", "wet gas"])),
                      float(rng.choice([2000, 5000, 9000, 3127.5, 6127])), 50))
    return comps


def run_sweeps(ctx: core.Ctx, tasks) -> None:
    log = sweep.SweepLog()
    with ProcessPoolExecutor(max_workers=16) as ex:
        for task, results in zip(tasks, ex.map(_run_task, tasks)):
            if isinstance(results, str):
                what = f"gas {task[1]}" if task[0] == "gas" else f"table with {len(task[1][0])} rows"
                ctx.violation("Raises", f"{what}: a pseudopressure route raised {results}",
                              replay={"stage": "sweep", "meta": {"profile": "table" if task[0] == "gas" else "alone",
                                                                  "comp": list(task[1]) if task[0] == "gas" else None,
                                                                  "table": [np.asarray(a).tolist() for a in task[1][:3]] if task[0] != "gas" else None}})
                continue
            for res in results:
                log.begin(res["profile"], res["meta"])
                for pt in res["points"]:
                    log.point(pt["x"], pt["side"], pt["vals"], pt["agree"], pt["flags"], pt["raw"])
                    ctx.case(f"{res['profile']}/{res['meta']['what']}/{pt['raw']['row']}")
                log.end()
                if res["profile"] == "quad" and len(ctx.samples) < 4:
                    k = len(res["points"]) // 2
                    ctx.sample({"sweep": res["meta"]["what"], "point": res["points"][k]["raw"],
                                "agree": res["points"][k]["agree"]})
    sweep.judge(ctx, "SweepC08", log)


def run(ctx: core.Ctx) -> None:
    env.import_bluebonnet()
    comps = compositions(ctx)
    n_rand = 150 if ctx.quick else 1500
    ctx.rule = ("case = one table row / sampled pressure / exported table: all 4-row tables over the grids of "
                "Pseudopressure.tla with mu, z in {1, 2, 1/2}; every row of build_pvt_gas tables for a lattice of "
                "(gravity 0.56..1.2, T 80..400 F, N2/H2S/CO2 0..0.1, dry/wet) compositions; ~50 sampled rows per table "
                "against pseudopressure_Hussainy with all pairs among them; rows of random positive tables "
                "(2..64 rows) for the stand-alone transform")
    ctx.assumptions += [
        "'to quadrature accuracy' for a pair of table pressures = 4 x (composite-trapezoid error bound of the 10-psi table "
        "on that interval, f'' from second differences of the tabulated integrand, + QUADPACK's default epsrel 1.49e-8 "
        "on each of the two integrals)",
        "the table routes are zero at the table's own first pressure (10 psia), the quadrature route at 14.7 psia "
        "(its default pressure_standard); only differences are compared across routes",
        "additivity of the quadrature route to 1e-7 relative (a few QUADPACK default tolerances); of the table routes "
        "to 1e-12 of the larger endpoint value (re-based stand-alone transform)",
        "strictly increasing is judged on values quantised to 1.1e-7 psi^2/cp (table, quadrature) / 1e-17 of the last "
        "value (random tables); random tables keep increments above 1e-10 of the total",
        "pseudocritical point for the quadrature route = pseudocritical_point_Sutton of the same composition, as "
        "build_pvt_gas does",
    ]
    ctx.trusted += ["TLC 2026.09", "fractions.Fraction", "bbv/quant.py quantisation", "spec/PWL.tla CumTrap"]
    exact_part(ctx)
    tasks = [("gas", c) for c in comps] + [("alone", random_table(ctx.seed, i)) for i in range(n_rand)]
    ctx.extra["compositions"] = len(comps)
    ctx.extra["random_tables"] = n_rand
    run_sweeps(ctx, tasks)

    # per-call statement of the property under concurrent use (Reentrant.tla): the same calls from several threads at once
    from ..drivers import threads  # noqa: PLC0415

    threads.clause(ctx, ['gas_pseudopressure', 'tables'])


def replay(ctx: core.Ctx, obj: dict) -> None:
    env.import_bluebonnet()
    r = obj["replay"]
    ctx.rule = "replay of one recorded case"
    if r.get("stage", "").startswith("exact"):
        res = ctx.model_check("Pseudopressure", "MC_Pseudopressure_thorough.cfg", workers=16, timeout=900)
        recs = [x for x in res.by_tag("PP") if r.get("stage") == "exact-all"
                or (x["p"] == r["p"] and x["mu"] == r["mu"] and x["z"] == r["z"])]
        replay_exported(ctx, recs)
        return
    m = r["meta"]
    task = ("gas", tuple(m["comp"])) if m["profile"] in ("table", "quad") else ("alone", m["table"])
    log = sweep.SweepLog()
    for res in _run_task(task):
        if res["profile"] != m["profile"]:
            continue
        log.begin(res["profile"], res["meta"])
        for pt in res["points"]:
            log.point(pt["x"], pt["side"], pt["vals"], pt["agree"], pt["flags"], pt["raw"])
            ctx.case(f"{pt['raw']['row']}")
        log.end()
        k = r.get("point_index", 0)
        if 0 <= k < len(res["points"]):
            print(res["points"][k]["raw"], res["points"][k]["agree"], res["points"][k]["flags"])
    sweep.judge(ctx, "SweepC08", log)
