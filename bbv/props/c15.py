"""C15 -- multiphase pseudopressure is the pressure integral of total mobility.

TLC:   FlowPropsMP.tla (Prop = "C15"): every table of the tier's finite domain (grids x FVF / viscosity / Rs / Rv
       shapes x rel-perm tables x reference densities x saturation paths) over exact rationals; invariants
       ZeroAtFirst, StrictlyIncreasing (where mobility is positive), IntegralBounds, Homogeneous and, through the
       from_table substitution, ScaledIncreasing, MiIsOne, FracfaceInUnit.  Deviation "Transposed" (as-shipped D9)
       must be refuted.
S->C:  every exported case is run through pseudopressure_threephase and FlowPropertiesTwoPhase.from_table with
       interpolators built as from_table builds them; results must reproduce TLC's rationals to 1e-12.
C->S:  realistic tables (shipped oil+water table, rescalings, subsamplings, vaporised oil, synthetic constant /
       linear / kinked families, admissible rel-perm sets, several reference densities): quantised series along
       the pressure axis judged by SweepC15.tla (an instantiation of SweepCore).
"""
from __future__ import annotations

from concurrent.futures import ProcessPoolExecutor

import numpy as np

from .. import core, env, exact, quant, sweep, tlc
from ..drivers import multiphase as mp

REL = 1e-12
FAMILIES = ("shipped", "rescaled", "subsampled", "vaporised", "constant", "linear", "kinked")


# ---- spec -> code ------------------------------------------------------------------------------------------------
def _close_all(xs, nds, scale) -> int | None:
    """index of the first element that does not reproduce its rational (abs tolerance REL*scale), else None"""
    if len(xs) != len(nds):
        return 0
    for i, (x, nd) in enumerate(zip(xs, nds)):
        if not exact.close(x, nd, rel=REL, abs_=REL * scale):
            return i
    return None


def check_case(case: dict, as_frame: bool = True) -> list[dict]:
    """Run the real functions on one TLC case; list of failed clauses."""
    from bluebonnet.flow.flowproperties import pseudopressure_threephase  # noqa: PLC0415

    c, r = case["c"], case["r"]
    k = mp.concrete(c)
    fails = []

    def bad(clause, what):
        fails.append({"clause": clause, "what": what})

    pvt, kr = mp.interpolators(k["P"], k["cols"], k["rho"], k["krS"], k["kr"], k["So"])
    m = mp.quiet(pseudopressure_threephase, k["P"], k["So"], pvt, kr)
    scale = max(abs(mp.fl(x)) for x in r["m"]) or 1.0
    if m.shape != k["P"].shape:
        bad("IntegralOfMobility", f"result has shape {m.shape}")
        return fails
    if not abs(m[0]) <= REL * scale:
        bad("ZeroAtFirst", f"pseudopressure at the first table pressure is {m[0]!r}")
    i = _close_all(m, r["m"], scale)
    if i is not None:
        bad("IntegralOfMobility", f"row {i}: code {m[i]!r}, cumulative trapezoid of the documented mobility "
                                  f"{r['m'][i][0]}/{r['m'][i][1]}")
    lam = [mp.fl(x) for x in r["lam"]]
    for i in range(len(m) - 1):
        if (lam[i] > 0 or lam[i + 1] > 0) and not m[i + 1] > m[i]:
            bad("StrictlyIncreasing", f"rows {i},{i + 1}: {m[i]!r} -> {m[i + 1]!r} with positive mobility")
            break
    for hg in r["homog"]:
        a = mp.fl(hg["a"])
        pvt_a, _ = mp.interpolators(k["P"], k["cols"], {n: a * v for n, v in k["rho"].items()}, k["krS"], k["kr"], k["So"])
        ma = mp.quiet(pseudopressure_threephase, k["P"], k["So"], pvt_a, kr)
        i = _close_all(ma, hg["m"], a * scale)
        if i is None and not np.all(np.abs(ma - a * m) <= 4 * REL * a * scale):
            i = int(np.argmax(np.abs(ma - a * m)))
        if i is not None:
            bad("Homogeneous", f"mobility times {a}: row {i} gives {ma[i]!r}, expected {a}*{m[i]!r}")
    # substitution into the wrapper
    scaled = r["scaled"] if isinstance(r["scaled"], dict) else {}
    positive = all(x > 0 for x in lam)
    pvt_t, kr_t = mp.frames(k["P"], k["cols"], k["So"], k["krS"], k["kr"], k["Sw"], as_frame=as_frame)
    for kk, ex in scaled.items():
        p_i = float(k["P"][int(kk) - 1])
        try:
            fp = mp.from_table(pvt_t, kr_t, k["rho"], k["phi"], k["Sw"], p_i)
        except mp.CodeError as e:
            bad("Substitution", str(e))
            continue
        mm = np.asarray(fp.pvt_props["pseudopressure"], float)
        if _close_all(mm, r["m"], scale) is not None:
            bad("Substitution", f"from_table(p_i={p_i}) stores pseudopressure {mm.tolist()}, not the integral of mobility")
        ms = np.asarray(fp.pvt_props["m-scaled"], float)
        i = _close_all(ms, ex["ms"], 1.0)
        if i is not None:
            bad("ScaledIncreasing", f"p_i={p_i}: m-scaled row {i} is {ms[i]!r}, expected {ex['ms'][i][0]}/{ex['ms'][i][1]}")
        if positive and not np.all(np.diff(ms) > 0):
            bad("ScaledIncreasing", f"p_i={p_i}: m-scaled column {ms.tolist()} is not strictly increasing")
        if not exact.close(float(fp.m_i), ex["mi"], rel=REL):
            bad("MiIsOne", f"p_i={p_i} (a table node): m_i = {float(fp.m_i)!r}")
        for pf, want in ex["pf"]:
            try:
                got = float(fp.m_scaled_func(mp.fl(pf)))
            except Exception as ex_:  # noqa: BLE001  a lookup that raises inside the table is an observation
                bad("FracfaceInUnit", f"p_i={p_i}, p_f={mp.fl(pf)}: m_scaled_func raised {type(ex_).__name__}: {ex_}")
                continue
            if not exact.close(got, want, rel=REL, abs_=REL) or (positive and not 0.0 <= got < 1.0):
                bad("FracfaceInUnit", f"p_i={p_i}, p_f={mp.fl(pf)}: m_scaled_func gives {got!r}, expected "
                                      f"{want[0]}/{want[1]} in [0,1)")
    return fails


def _chunk(args):
    cases, start = args
    env.import_bluebonnet()
    out = []
    for j, case in enumerate(cases):
        try:
            fails = check_case(case, as_frame=(start + j) % 2 == 0)
        except mp.CodeError as e:
            fails = [{"clause": "Raises", "what": str(e)}]
        if fails:
            out.append((start + j, fails))
    return out


def replay_cases(ctx: core.Ctx, cases: list[dict]) -> None:
    n = len(cases)
    step = max(1, -(-n // 64))
    tasks = [(cases[i:i + step], i) for i in range(0, n, step)]
    results = []
    with ProcessPoolExecutor(max_workers=16) as ex:
        for res in ex.map(_chunk, tasks):
            results.extend(res)
    mp.report_failures(ctx, cases, results)
    for case in cases:
        ctx.case(mp.case_key(case["c"]))
    mid = cases[n // 3]
    ctx.sample({"tlc_case": {"P": mid["c"]["P"], "Bo": mid["c"]["cols"]["Bo"], "Rs": mid["c"]["cols"]["Rs"],
                             "So": mid["c"]["So"], "rho": mid["c"]["rho"]},
                "expected": {"lambda": mid["r"]["lam"], "pseudopressure": mid["r"]["m"]}})


# ---- code -> spec --------------------------------------------------------------------------------------------------
def config(seed: int, i: int) -> dict:
    """Deterministic description of the i-th realistic configuration."""
    rng = np.random.default_rng([seed, 15, i])
    fam = FAMILIES[i % len(FAMILIES)]
    sw = float(rng.choice([0.0, 0.1, 0.2])) if i >= len(FAMILIES) else 0.1
    return {"i": i, "family": fam, "Sw": sw,
            "kr": "test" if i < len(FAMILIES) else str(rng.choice(["corey", "corey", "water"])),
            "shipped_rho": i < len(FAMILIES)}


def record(cfg: dict, seed: int, terms: dict) -> sweep.SweepLog:
    """Run the code on one realistic configuration and log its sweeps."""
    from bluebonnet.flow.flowproperties import lambda_combined_func, pseudopressure_threephase  # noqa: PLC0415
    from scipy.integrate import cumulative_trapezoid  # noqa: PLC0415

    i = cfg["i"]
    rng = np.random.default_rng([seed, 15, i, 1])
    sw = cfg["Sw"]
    # rel-perm curves (functions of So, immobile water) that were built for a somewhat larger water saturation than the reservoir's
    sw_kr = sw + 0.05 if (i % 3 == 0 and i >= len(FAMILIES)) else sw
    tab = mp.make_table(rng, cfg["family"], sw_kr)
    kr_so, kr_cols, kr_meta = mp.relperm_table(rng, sw_kr, cfg["kr"])
    rho = dict(mp.RHO_SHIPPED) if cfg["shipped_rho"] else mp.random_rho(rng)
    phi = float(rng.uniform(0.03, 0.3))
    P, so = tab["P"], tab["So"]
    n = len(P)
    pvt, kr = mp.interpolators(P, tab["cols"], rho, kr_so, kr_cols, so)
    # whole-number pressures (0, 10, 20, ... psi) arrive as an integer column when the table is read from a csv file
    as_int = bool(np.all(P == np.round(P)) and (i // len(FAMILIES)) % 2 == 0)
    P_code = P.astype(np.int64) if as_int else P
    if i % 2 == 1:
        mp.warm_with_other_contents(pvt, kr, [lambda: pseudopressure_threephase(P_code, so, pvt, kr),
                                              lambda: lambda_combined_func(P_code, so, pvt, kr)])
    m = mp.quiet(pseudopressure_threephase, P_code, so, pvt, kr)
    lam = mp.quiet(lambda_combined_func, P_code, so, pvt, kr)
    doc = mp.eval_terms(terms["lambda"], pvt, kr, P, so, sw)
    if not np.all(doc > 0):
        raise tlc.MachineryError(f"generated configuration {cfg} has non-positive documented mobility")
    ref = cumulative_trapezoid(lam, P, initial=0)
    top = float(cumulative_trapezoid(doc, P, initial=0)[-1])
    a = float(rng.choice([0.5, 3.0, 1e-3, 40.0]))
    pvt_a, _ = mp.interpolators(P, tab["cols"], {k: a * v for k, v in rho.items()}, kr_so, kr_cols, so)
    ma = mp.quiet(pseudopressure_threephase, P_code, so, pvt_a, kr)
    k_i = int(rng.integers(max(2, n // 3), n))  # initial pressure = a table node
    p_i = float(P[k_i])
    pvt_t, kr_t = mp.frames(P_code, tab["cols"], so, kr_so, kr_cols, sw_kr, as_frame=bool(i % 2 == 0))
    fp = mp.from_table(pvt_t, kr_t, rho, phi, sw, p_i)
    sub = np.asarray(fp.pvt_props["pseudopressure"], float)
    col = np.asarray(fp.pvt_props["m-scaled"], float)
    if isinstance(pvt_t, dict):
        # the caller goes on with its own buffers (a grid study re-using one pressure array, a shift to absolute pressure): the
        # fluid that was built keeps answering for the table it was built from
        pvt_t["pressure"] += 15 if pvt_t["pressure"].dtype.kind == "i" else 14.7
        pvt_t["So"] *= 0.5
    meta = {"what": f"{cfg['family']} table #{i}", "cfg": cfg, "table": tab["meta"], "kr": kr_meta, "rho": rho,
            "phi": phi, "a": a, "p_i": p_i, "rows": n, "integer_pressure_column": as_int}
    log = sweep.SweepLog()
    if m.shape != P.shape or sub.shape != P.shape:
        m = np.full_like(P, np.nan)
        sub = np.full_like(P, np.nan)
    log.begin("integral", meta)
    for j in range(n):
        agree = {"trap": quant.e15(m[j], ref[j], top), "doc": quant.e15(lam[j], doc[j], abs(doc[j])),
                 "homog": quant.e15(ma[j], a * m[j], a * top), "sub": quant.e15(sub[j], m[j], top)}
        if j == 0:
            agree["zero"] = quant.e15(m[0], 0.0, top)
        log.point(quant.q(P[j], P[0], P[-1]), "none", {"m": quant.q(m[j], 0.0, top)}, agree,
                  raw={"row": j, "p": float(P[j]), "m": float(m[j]), "trapezoid_of_lambda": float(ref[j]),
                       "lambda": float(lam[j]), "documented_lambda": float(doc[j]), "m_scaled_mobility": float(ma[j])})
    log.end()
    # scaled pseudopressure: nodes up to p_i
    log.begin("scaled", {**meta, "points": [], "what": meta["what"] + f" scaled at p_i={p_i}"})
    msf = np.array([float(mp.quiet(fp.m_scaled_func, x)) for x in P[:k_i + 1]])
    for j in range(k_i + 1):
        agree = {"colfunc": quant.e15(msf[j], col[j], 1.0)}
        if j == 0:
            agree["zero"] = quant.e15(msf[0], 0.0, 1.0)
        if j == k_i:
            agree["one"] = quant.e15(msf[j], 1.0, 1.0)
            agree["mi"] = quant.e15(float(fp.m_i), 1.0, 1.0)
        log.point(quant.q(P[j], P[0], P[-1]), "at" if j == k_i else "below",
                  {"ms": quant.q(msf[j]), "col": quant.q(col[j])}, agree,
                  raw={"row": j, "p": float(P[j]), "m_scaled_func": float(msf[j]), "m_scaled_column": float(col[j]),
                       "m_i": float(fp.m_i)})
    log.end()
    # frac-face pressures between nodes: a window of nodes and midpoints below p_i
    j0 = max(0, k_i - int(rng.integers(5, 80)))
    xs = np.sort(np.unique(np.concatenate([P[j0:k_i + 1], 0.5 * (P[j0:k_i] + P[j0 + 1:k_i + 1]),
                                           rng.uniform(P[0], p_i, 10)])))
    xs = xs[xs <= p_i]
    log.begin("scaled", {**meta, "points": [], "what": meta["what"] + f" frac-face pressures below p_i={p_i}"})
    if xs[0] > P[0]:
        xs = np.concatenate([[P[0]], xs])
    for j, x in enumerate(xs):
        v = float(mp.quiet(fp.m_scaled_func, x))
        agree = {}
        if j == 0:
            agree["zero"] = quant.e15(v, 0.0, 1.0)
        if j == len(xs) - 1:
            agree["one"] = quant.e15(v, 1.0, 1.0)
        log.point(quant.q(x, P[0], P[-1]), "at" if j == len(xs) - 1 else "below", {"ms": quant.q(v)}, agree,
                  raw={"p_f": float(x), "m_scaled_func": v, "p_i": p_i})
    log.end()
    return log


def _record_task(args):
    cfg, seed, terms = args
    env.import_bluebonnet()
    try:
        return record(cfg, seed, terms)
    except mp.CodeError as e:
        return str(e)


def realistic(ctx: core.Ctx, terms: dict, n_cfg: int) -> None:
    tasks = [(config(ctx.seed, i), ctx.seed, terms) for i in range(n_cfg)]
    log = sweep.SweepLog()
    with ProcessPoolExecutor(max_workers=16) as ex:
        for (cfg, _, _), lg in zip(tasks, ex.map(_record_task, tasks)):
            if isinstance(lg, str):
                ctx.violation("Raises", f"realistic configuration {cfg}: {lg}",
                              replay={"stage": "sweep", "meta": {"cfg": cfg}})
                continue
            log.extend(lg)
            ctx.case(f"realistic/{cfg['i']}/{cfg['family']}/{cfg['kr']}/Sw={cfg['Sw']}")
    if not log.meta:
        return
    first = log.meta[1]
    ctx.sample({"realistic_sweep": {k: v for k, v in first.items() if k != "points"},
                "last_point": first["points"][-1]})
    sweep.judge(ctx, "SweepC15", log)


# ---- entry points ---------------------------------------------------------------------------------------------------
def replay(ctx: core.Ctx, obj: dict) -> None:
    r = obj["replay"]
    ctx.rule = "replay of one reported case"
    if r.get("stage") == "case":
        ctx.case(mp.case_key(r["case"]["c"]))
        fails = check_case(r["case"])
        print("case:", r["case"]["c"])
        for f in fails:
            print("  fails", f["clause"], "::", f["what"])
            ctx.violation(f["clause"], f["what"], replay=r)
    else:
        terms = mp.export_terms(ctx)
        cfg = r["meta"]["cfg"]
        ctx.case(f"realistic/{cfg['i']}")
        print("configuration:", r["meta"])
        try:
            lg = record(cfg, obj.get("seed", ctx.seed), terms)
        except mp.CodeError as e:
            ctx.violation("Raises", str(e), replay=r)
            return
        sweep.judge(ctx, "SweepC15", lg)


def run(ctx: core.Ctx) -> None:
    tier = "quick" if ctx.quick else "thorough"
    ctx.rule = ("spec->code: every table of FlowPropsMP.tla's finite domain (Prop=C15, Tier=" + tier + ": pressure grids "
                "uniform/non-uniform x Bo,Bg,Bw shapes constant/linear/kinked/inverse-linear x viscosities x Rs x Rv x "
                "reference densities x saturation paths x rel-perm tables), one case = one table, distinct = distinct "
                "table; code->spec: realistic configurations (table family x rel-perm set x densities x Sw), "
                "distinct = configuration; every row of every table is a sweep point judged by SweepC15.tla")
    ctx.assumptions += [
        "interpolators are built as FlowPropertiesTwoPhase.from_table builds them (interp1d, fill_value='extrapolate' "
        "for PVT columns; interp1d on the rel-perm table's So column)",
        "'scaling mobility by a constant' is realised by multiplying all three reference densities by it",
        "initial pressure p_i is a table node other than the first (pseudopressure 0 there cannot be scaled to 1; "
        "between nodes the wrapper interpolates 1/m and m_i = 1 only up to interpolation error: property C09)",
        "'strictly increasing wherever mobility is positive' = a table step rises iff mobility is positive at one of "
        "its two ends and is flat otherwise; realistic families all have positive mobility",
        "tolerances: 1e-12 relative to the largest tabulated value against TLC's rationals; at realistic magnitude "
        "1e-12 pointwise and 1e-11 for cumulative sums (up to 901 rows)",
    ]
    ctx.trusted += ["TLC 1.8 / spec/Rat.tla, spec/PWL.tla exact rationals", "scipy.interpolate.interp1d (harness builds "
                    "the same interpolators as from_table)", "scipy cumulative_trapezoid for the harness's own trapezoid "
                    "of the code's lambda_combined_func", "bbv/quant.py quantisation"]
    ctx.expect_refuted("FlowPropsMP", "MC_FlowPropsMP_dev_Transposed.cfg", "C15_StrictlyIncreasing", workers=4)
    terms = mp.export_terms(ctx)
    cases = mp.export_cases(ctx, "C15", tier)
    n_sub = sum(1 for c in cases if isinstance(c["r"]["scaled"], dict) and c["r"]["scaled"])
    n_dead = sum(1 for c in cases if c["c"]["dead"])
    if not n_sub or not n_dead:
        raise tlc.MachineryError("C15 domain lost its substitution cases or its zero-mobility cases")
    ctx.extra["tlc_cases"] = {"tables": len(cases), "with_from_table_substitution": n_sub, "with_immobile_rows": n_dead}
    replay_cases(ctx, cases)
    realistic(ctx, terms, 42 if ctx.quick else 420)

    # per-call statement of the property under concurrent use (Reentrant.tla): the same calls from several threads at once
    from ..drivers import threads  # noqa: PLC0415

    threads.clause(ctx, ['multiphase'])


