"""C18 -- the pressure-history fit uses the library's forward model and honours its limits
(bluebonnet.forecast.forecast_pressure: fit_production_pressure, _obj_function).

TLC:   FitPressure.tla defines the exact discrete pipeline (row filter, day re-indexing, window-1 smoothing,
       cumulative sum, default parameter limits) on small integer production tables and checks C18_FilterExcludes,
       C18_Window1Identity, C18_TimeReindexed, C18_Limits on every table of the domain (patterns of 2..MaxRows rows,
       gas in 0..2, pressure missing or 1..3, repeated so that the default limits apply, both filter settings,
       window none / 1); seven named deviations must be refuted.
S->C:  every exported table is scaled to realistic magnitudes and passed to fit_production_pressure with
       lmfit.Minimizer replaced (in the driver process) by a recorder: the arguments that reach the minimiser
       (time, cumulative production, pressures) and the parameter limits must equal the specification's.
C->S:  FitPressureTrace.tla judges (a) _obj_function against M * RF_lib - production with RF_lib obtained by calling the
       public classes as FitPressure!RefModel says, at random and at the generating parameters, directly and through
       the pipeline; (b) real fits (n_iter in {1, 4, 20}) on tables with zero-rate days and missing pressures: fitted
       tau, M, p_initial inside their limits.
"""
from __future__ import annotations

import itertools
import math
import warnings
from concurrent.futures import ProcessPoolExecutor, ThreadPoolExecutor

import numpy as np
import pandas as pd

from .. import core, env, quant, tlc, trace
from ..drivers.reservoir import shipped_table

DEVIATIONS = [("Unfiltered", "C18_FilterExcludes"), ("KeepsMissingPressure", "C18_FilterExcludes"),
              ("CumOfAllRows", "C18_FilterExcludes"), ("Window1Smooths", "C18_Window1Identity"),
              ("MminIsLast", "C18_Limits"), ("PLimitsSwapped", "C18_Limits"), ("TauMaxIsN", "C18_Limits")]
G_UNIT, P_UNIT = 25.0, 1000.0  # one gas unit / pressure unit of the abstract tables in realistic magnitudes

EXPLAIN = {
    "Outcome": "the call raised",
    "ObjectiveIsLibraryModel": "_obj_function differs from M * RF - production with RF from the library's own "
                               "SinglePhaseReservoir run (arguments as FitPressure!RefModel)",
    "ZeroAtGenerating": "the objective is not zero at the parameters that generated the production",
    "TauLimits": "fitted tau outside [30, 2(n-1)]",
    "MLimits": "fitted M outside [second-to-last cumulative production, inplace_max]",
    "PLimits": "fitted p_initial outside [highest frac-face pressure, pressure_imax]",
    "Window1Identity": "with no smoothing / a window of one sample the pressures reaching the objective differ from the table's",
    "RowsUsed": "the number of rows handed to the minimiser differs from the number of rows of the table that have production and a pressure (filtering requested) / from all rows (no filtering)",
    "ExcludedRowsIgnored": "readings carried by excluded rows (pressure on a zero-rate day, rate on a day without pressure) change what the minimiser is given",
    "NotMeaningful": "harness produced a table whose default limits are empty (machinery)",
}


class _Captured(Exception):
    pass


def shipped_gas_table() -> pd.DataFrame:
    """tests/data/pvt_gas.csv under the column names the flow module wants; its first row is 0 psi."""
    from ..drivers import reservoir as rdrv  # noqa: PLC0415

    return rdrv.shipped_table("pvt_gas").copy()


def pvt_table() -> pd.DataFrame:
    return pd.read_csv(env.REPO / "tests/data/pvt_gas_HAYNESVILLE SHALE_20.csv")


_SECOND = {}


def second_pvt_table() -> pd.DataFrame:
    """Another gas (library-built, 0.8 gravity, 250 F, 10..13990 psia): wells with different fluids in one process."""
    if "t" not in _SECOND:
        from bluebonnet.fluids import build_pvt_gas  # noqa: PLC0415

        _SECOND["t"] = build_pvt_gas({"N2": 0.0, "H2S": 0.0, "CO2": 0.0, "Gas Specific Gravity": 0.8,
                                      "Reservoir Temperature (deg F)": 250.0}, "dry gas")
    return _SECOND["t"]


def relabel(df: pd.DataFrame, how: int) -> pd.DataFrame:
    """Row labels are not row positions: 0 default RangeIndex, 1 labels n-1..0 (a newest-first table after sort_values),
    2 labels 500.. (a slice of a multi-well table)."""
    df = df.copy()
    if how % 3 == 1:
        df.index = np.arange(len(df))[::-1]
    elif how % 3 == 2:
        df.index = np.arange(500, 500 + len(df))
    return df


def call_fit(prod, pvt, *, spy: bool, positional: bool = False, **kw):
    """fit_production_pressure observed from the harness side, without assuming how the library hands its data to lmfit:
    every lmfit Minimizer that is constructed (directly, through lmfit.minimize, under whatever name the module imports it) is
    recorded with its objective, its Parameters (the declared limits) and the way the objective is called.
    spy=False: recorder only (minimize() is not run).  Returns (outcome, captured, result); see observe()."""
    import lmfit.minimizer as lmm  # noqa: PLC0415
    from bluebonnet.forecast import forecast_pressure as fpm  # noqa: PLC0415

    cap: dict = {}
    cls = lmm.Minimizer
    orig_init, orig_min = cls.__init__, cls.minimize

    def init(self, userfcn, params, *a, **k):
        orig_init(self, userfcn, params, *a, **k)
        if "minim" not in cap:
            cap.update(minim=self, fcn=self.userfcn, params=params.copy(), call_args=tuple(self.userargs or ()),
                       call_kws=dict(self.userkws or {}))

    def minimize(self, *a, **k):
        cap["minimize"] = (a, k)
        if not spy:
            raise _Captured
        return orig_min(self, *a, **k)

    cls.__init__, cls.minimize = init, minimize
    result = None
    try:
        with warnings.catch_warnings():
            warnings.simplefilter("ignore")
            if positional:
                # the documented parameter order, as a positional caller relies on it
                result = fpm.fit_production_pressure(prod, pvt, kw["pressure_initial"], kw["filter_window_size"], kw["pressure_imax"],
                                                     kw["inplace_max"], kw["filter_zero_prod_days"], kw["n_iter"])
            else:
                result = fpm.fit_production_pressure(prod, pvt, **kw)
        outcome = "ok"
    except _Captured:
        outcome = "ok"
    except Exception as ex:  # noqa: BLE001
        outcome = f"{type(ex).__name__}: {ex}"
    finally:
        cls.__init__, cls.minimize = orig_init, orig_min
    return outcome, cap, result


def evaluate(cap: dict, params):
    """The objective the library handed to lmfit, evaluated at `params` exactly as lmfit would call it."""
    with warnings.catch_warnings():
        warnings.simplefilter("ignore")
        return np.asarray(cap["fcn"](params, *cap["call_args"], **cap["call_kws"]), dtype=float)


_FRESH_TAU = itertools.count(1)   # every retry of observe() uses a tau this process has never used before


def observe(cap: dict) -> dict | None:
    """What the fit is run on, read off the library's own forward simulation: the objective is evaluated at the initial parameter
    values (twice, with M and 2 M) while SinglePhaseReservoir.simulate is watched.  Returns days (re-indexed time axis = simulated
    time x tau), pf (the frac-face history handed to simulate), cum (cumulative production = M rf - objective, with rf from the
    difference of the two evaluations), n, or None when no Minimizer was constructed."""
    if "fcn" not in cap:
        return None
    from bluebonnet.flow import reservoir as rmod  # noqa: PLC0415

    seen: list = []
    klass = rmod.SinglePhaseReservoir
    orig = klass.simulate

    def simulate(self, time, pressure_fracface=None):
        seen.append((np.array(time, dtype=float, copy=True), None if pressure_fracface is None else np.array(pressure_fracface, dtype=float, copy=True)))
        return orig(self, time, pressure_fracface)

    klass.simulate = simulate
    try:
        # the objective is a function of its parameters: whether an evaluation runs the simulation itself or answers from a (correct)
        # store of finished simulations is the library's business.  If the evaluation at the initial values ran no simulation, the
        # same reading is taken at a slightly different tau, which no store can have seen.
        for attempt in range(4):
            del seen[:]
            p1 = cap["params"].copy()
            m1, tau = float(p1["M"].value), float(p1["tau"].value) * (1.0 + (next(_FRESH_TAU) * 7.3e-9 if attempt else 0.0))
            p1["tau"].set(value=tau, min=-np.inf, max=np.inf)
            o1 = evaluate(cap, p1)
            nsim = len(seen)
            if nsim == 1:
                break
        p2 = p1.copy()
        p2["M"].set(value=2.0 * m1, min=-np.inf, max=np.inf)
        o2 = evaluate(cap, p2)
    finally:
        klass.simulate = orig
    if nsim != 1 or seen[0][1] is None:
        return {"error": f"one objective evaluation ran {nsim} variable-pressure simulations"}
    t, pf = seen[0]
    with np.errstate(all="ignore"):
        rf = (o2 - o1) / m1
        cum = m1 * rf - o1
    if not np.all(np.isfinite(cum)):
        # missing pressures that were not filtered out make the simulation (and the objective) NaN: the cumulative production cannot
        # be read back through it; if the objective is still called the classic way (days, production, table, history) the second
        # argument is used, otherwise the production is simply not observable for this table
        a = cap["call_args"]
        cum = np.asarray(a[1], dtype=float) if len(a) == 4 and np.shape(a[1]) == np.shape(t) else None
    return {"days": t * tau, "pf": pf, "cum": cum, "n": int(len(t)), "rf": rf}


# ---- spec -> code -----------------------------------------------------------------------------------------------------
def table_of(pattern, k) -> pd.DataFrame:
    rows = list(pattern) * k
    return pd.DataFrame({"Days": [10.0 * i + 3.0 for i in range(len(rows))],
                         "Gas": [G_UNIT * r["gas"] for r in rows],
                         "Pressure": [P_UNIT * r["pres"] if r["pres"] else math.nan for r in rows]},
                        columns=["Days", "Gas", "Pressure"]).astype(float)


def check_case(cs: dict, const: dict, pvt) -> list[tuple[str, str]]:
    from lmfit import Parameters  # noqa: PLC0415

    out = cs["out"]
    prod = relabel(table_of(cs["pattern"], cs["k"]), len(cs["pattern"]) + cs["k"] + int(cs["filter"]))
    kw = dict(pressure_initial=3.5 * P_UNIT, filter_window_size=None if cs["window"] == 0 else cs["window"],
              pressure_imax=const["pimax"] * P_UNIT, inplace_max=const["inplace_max"] * G_UNIT,
              filter_zero_prod_days=cs["filter"], n_iter=1)
    if not out["defaults"]:
        p = Parameters()
        p.add("tau", value=40.0, min=30.0, max=60.0)
        p.add("M", value=500.0, min=1.0, max=1e5)
        p.add("p_initial", value=3.6 * P_UNIT, min=3.5 * P_UNIT, max=4.0 * P_UNIT)
        kw["params"] = p
    outcome, cap, _ = call_fit(prod, pvt, spy=False, **kw)
    desc = (f"pattern {[(r['gas'], r['pres'] or None) for r in cs['pattern']]} x{cs['k']} (Gas x{G_UNIT}, Pressure x{P_UNIT}), "
            f"filter_zero_prod_days={cs['filter']}, filter_window_size={kw['filter_window_size']}")
    if outcome != "ok":
        if out["n"] < 2:
            return []  # fewer than two rows reach the fit: outside the property
        return [("Outcome", f"{desc}: fit_production_pressure raised {outcome}")]
    if out["n"] < 2:
        return []  # fewer than two rows reach the fit: no history to simulate, outside the property
    try:
        ob = observe(cap)
    except Exception as ex:  # noqa: BLE001  the library's objective raising at its own initial parameter values is an observation
        return [("Outcome", f"{desc}: the objective handed to lmfit raised {type(ex).__name__}: {ex}")]
    if ob is None:
        return [("Outcome", f"{desc}: fit_production_pressure returned without setting up an lmfit minimisation")]
    if "error" in ob:
        return [("ObjectiveIsLibraryModel", f"{desc}: {ob['error']}")]
    time, cum, pf = ob["days"], ob["cum"], ob["pf"]
    bad = []
    want_t = np.asarray(out["time"], dtype=float)
    want_c = G_UNIT * np.asarray(out["cum"], dtype=float)
    want_p = np.asarray([P_UNIT * x if x else math.nan for x in out["pf"]], dtype=float)

    def same(a, b):   # time and cumulative production are read back through the simulation (x tau, M rf - objective): rounding level
        return a.shape == b.shape and bool(np.all(np.abs(a - b) <= 1e-10 * max(1.0, float(np.max(np.abs(b))) if b.size else 1.0)))

    if not same(time, want_t):
        bad.append(("TimeReindexed", f"{desc}: the simulation runs on times {time.tolist()}, specification {want_t.tolist()}"))
    if cum is not None and not same(cum, want_c):
        bad.append(("FilterExcludes", f"{desc}: cumulative production in the objective is {cum.tolist()}, "
                    f"specification {want_c.tolist()}"))
    if out["pfDefined"] and not (pf.shape == want_p.shape and np.array_equal(pf, want_p, equal_nan=True)):
        clause = "Window1Identity" if pf.shape == want_p.shape and cs["window"] == 1 else "FilterExcludes"
        bad.append((clause, f"{desc}: pressures passed to the objective are {pf.tolist()}, specification {want_p.tolist()}"))
    if out["defaults"]:
        lim = out["limits"]
        want = {"tau": (float(lim["tau"]["min"]), float(lim["tau"]["max"])),
                "M": (G_UNIT * lim["M"]["min"], G_UNIT * lim["M"]["max"]),
                "p_initial": (P_UNIT * lim["p"]["min"], P_UNIT * lim["p"]["max"])}
        pr = cap["params"]
        for name, (lo, hi) in want.items():
            if name not in pr:
                bad.append(("Limits", f"{desc}: no parameter {name}"))
                continue
            got = (float(pr[name].min), float(pr[name].max))
            if got != (lo, hi):
                bad.append(("Limits", f"{desc}: limits of {name} are {got}, specification {(lo, hi)}"))
    return bad


def _case_chunk(args):
    cases, const = args
    env.import_bluebonnet()
    pvt = pvt_table()
    return [check_case(cs, const, pvt) for cs in cases]


def replay_cases(ctx: core.Ctx, r: tlc.TLCResult) -> dict:
    cases = [x["case"] for x in r.by_tag("CASE")]
    const = r.by_tag("CONST")
    if len(cases) != r.distinct or not cases or len(const) != 1:
        raise tlc.MachineryError(f"FitPressure: {len(cases)} exported cases for {r.distinct} states, {len(const)} CONST records")
    const = const[0]
    nchunk = 64
    chunks = [cases[i::nchunk] for i in range(nchunk)]
    with ProcessPoolExecutor(max_workers=16) as ex:
        for chunk, outs in zip(chunks, ex.map(_case_chunk, [(ch, const) for ch in chunks])):
            for cs, bad in zip(chunk, outs):
                key = f"tab/{[(x['gas'], x['pres']) for x in cs['pattern']]}/{cs['k']}/{cs['filter']}/{cs['window']}"
                ctx.case(key, nontrivial=cs["out"]["n"] >= 2)
                for clause, what in bad:
                    ctx.violation(clause, what, replay={"stage": "table", "case": cs, "const": const})
    ndef = sum(c["out"]["defaults"] for c in cases)
    ctx.extra["tables"] = {"cases": len(cases), "with_default_limits": ndef}
    if ndef == 0:
        raise tlc.MachineryError("no exported table exercises the default limits")
    ctx.sample({"table_case": next(c for c in cases if c["out"]["defaults"] and c["filter"] and c["out"]["n"] < len(c["pattern"]) * c["k"])})
    return const


# ---- code -> spec -------------------------------------------------------------------------------------------------------
def rf_lib(ref: dict, pvt, days, tau, p_i, pf):
    """The library's forward model, called through the public classes as FitPressure!RefModel says."""
    from bluebonnet.flow import FlowProperties, SinglePhaseReservoir  # noqa: PLC0415

    if (ref["ctor_fracface"], ref["ctor_initial"], ref["fluid_at"], ref["time"], ref["schedule"], ref["recovery"]) != \
            ("schedule[0]", "p_initial", "p_initial", "days/tau", "pressure_fracface", "flux"):
        raise tlc.MachineryError(f"RefModel {ref} is not understood by the harness")
    with warnings.catch_warnings():
        warnings.simplefilter("ignore")
        res = SinglePhaseReservoir(int(ref["nx"]), float(np.asarray(pf, dtype=float)[0]), p_i, FlowProperties(pvt, p_i))
        res.simulate(np.asarray(days, dtype=float) / tau, pressure_fracface=np.asarray(pf, dtype=float))
        return np.asarray(res.recovery_factor(), dtype=float)


def schedule(rng, n, p_i):
    """A frac-face pressure history below p_initial and inside the table's range."""
    kind = int(rng.integers(5))
    top = min(0.8 * p_i, 6000.0)
    if kind == 0:
        pf = np.full(n, rng.uniform(300.0, top))
    elif kind == 1:
        pf = np.full(n, rng.uniform(1500.0, top))
        for cut in sorted(rng.integers(1, n, size=2)):
            pf[cut:] *= rng.uniform(0.4, 0.9)
    elif kind == 2:
        pf = np.linspace(rng.uniform(2000.0, top), rng.uniform(300.0, 1500.0), n) + rng.uniform(-50, 50, n)
    elif kind == 3:
        # a well that is choked back / shut in for a while: the pressure at the fracture face rises again (still below p_initial)
        pf = np.full(n, rng.uniform(300.0, 0.5 * top))
        a, b = sorted(rng.integers(1, n, size=2))
        pf[a:max(b, a + 1)] = rng.uniform(0.6 * top, top)
    else:
        # a gauge with spikes
        pf = np.linspace(rng.uniform(2000.0, top), rng.uniform(300.0, 1500.0), n)
        k = rng.permutation(n)[: max(1, n // 6)]
        pf[k] = pf[k] + rng.uniform(-900.0, 900.0, len(k))
    return np.clip(pf, 100.0, top)


def arr_e15(a, b, scale) -> int:
    a, b = np.asarray(a, dtype=float), np.asarray(b, dtype=float)
    if a.shape != b.shape or not (np.all(np.isfinite(a)) and np.all(np.isfinite(b))):
        return quant.CAP
    i = int(np.argmax(np.abs(a - b)))
    return quant.e15(float(a[i]), float(b[i]), scale)


def objective_events(ref: dict, seed, count: int) -> list[dict]:
    from bluebonnet.forecast.forecast_pressure import _obj_function  # noqa: PLC0415
    from lmfit import Parameters  # noqa: PLC0415

    rng = np.random.default_rng(seed)
    tables = [pvt_table(), second_pvt_table()]
    evs = []
    p_prev = None
    for i in range(count):
        # consecutive evaluations alternate between two fluids at a bit-identical initial pressure (two wells of one field)
        pvt = tables[i % 2]
        n = int(rng.integers(8, 60))
        gi_obj = i + (int(seed[2]) if isinstance(seed, (list, tuple)) and len(seed) > 2 else 0)
        if gi_obj % 48 == 5:
            n = 3300   # a long daily history (about nine years): the objective is still the library's own simulation of it
        days = np.arange(n, dtype=float) if rng.random() < 0.6 else np.concatenate([[0.0], np.cumsum(rng.uniform(0.3, 3.0, n - 1))])
        tau_g, m_g, p_g = rng.uniform(20.0, 400.0), 10 ** rng.uniform(2, 5), rng.uniform(4000.0, 12000.0)
        if i % 2 == 1 and p_prev is not None:
            p_g = p_prev
        p_prev = p_g
        pf = schedule(rng, n, p_g)
        raw = {"n": n, "tau": tau_g, "M": m_g, "p_initial": p_g, "pvt": ["haynesville csv", "built 0.8/250F"][i % 2],
               "pf_first_last": [float(pf[0]), float(pf[-1])],
               "integer_days": bool(np.all(days == np.arange(n)))}

        order = (("tau", "M", "p_initial"), ("M", "tau", "p_initial"), ("p_initial", "M", "tau"), ("M", "p_initial", "tau"),
                 ("tau", "p_initial", "M"), ("p_initial", "tau", "M"))[gi_obj % 6]
        raw["parameter_order"] = list(order)

        def pars(tau, m, p, order=order):
            # a Parameters object is keyed by name: callers build it in any order (the repository's plotting test uses M, tau, p_initial)
            vals = {"tau": tau, "M": m, "p_initial": p}
            q = Parameters()
            for name in order:
                q.add(name, value=vals[name])
            return q

        ev = {"ev": "Objective", "kind": "direct", "atgen": False, "zero_e15": 0, "agree_e15": 0, "outcome": "ok", "raw": raw}
        try:
            with warnings.catch_warnings():
                warnings.simplefilter("ignore")
                rf_g = rf_lib(ref, pvt, days, tau_g, p_g, pf)
                production = m_g * rf_g
                mode = i % 3
                if mode == 0:  # at the generating parameters
                    obj = np.asarray(_obj_function(pars(tau_g, m_g, p_g), days, production, pvt, pf), dtype=float)
                    ev["atgen"] = True
                    ev["zero_e15"] = arr_e15(obj, np.zeros_like(obj), m_g)
                    ev["agree_e15"] = arr_e15(obj, m_g * rf_g - production, m_g)
                else:  # anywhere else: other parameters, and (mode 2) production that no model generated
                    tau, m = tau_g * 10 ** rng.uniform(-0.7, 0.7), m_g * 10 ** rng.uniform(-1, 1)
                    p = p_g if rng.random() < 0.5 else rng.uniform(float(pf.max()) + 1.0, 13000.0)
                    if mode == 2:
                        production = np.cumsum(rng.uniform(0.0, 2.0, n) * m_g / n)
                    obj = np.asarray(_obj_function(pars(tau, m, p), days, production, pvt, pf), dtype=float)
                    want = m * rf_lib(ref, pvt, days, tau, p, pf) - production
                    ev["agree_e15"] = arr_e15(obj, want, max(m, float(np.max(np.abs(production)))))
                    raw.update(eval_tau=tau, eval_M=m, eval_p_initial=p)
        except Exception as ex:  # noqa: BLE001
            ev["outcome"] = f"{type(ex).__name__}: {ex}"
        evs.append(ev)
    return evs


def make_table(rng, ref, pvt, wellformed_rows: int = 18):
    """A production table generated by the library's forward model, with zero-rate days and missing pressures."""
    n = int(rng.integers(wellformed_rows + 6, 50))  # at most 5 rows are removed below: more than 16 reach the fit
    tau_g, m_g, p_g = rng.uniform(35.0, 150.0), 10 ** rng.uniform(3, 4.5), rng.uniform(5000.0, 11000.0)
    days = np.arange(n, dtype=float)
    while True:
        pf = schedule(rng, n, p_g)
        cum = m_g * rf_lib(ref, pvt, days, tau_g, p_g, pf)
        gas = np.diff(cum, prepend=0.0)
        gas[0] = abs(gas[1]) * rng.uniform(0.5, 1.5) + 1e-9 * m_g  # a first productive day
        # while the pressure at the fracture face rises the model flows back: the meter shows a shut-in day (no production)
        gas = np.maximum(gas, 0.0)
        if int((gas > 0).sum()) - 5 >= wellformed_rows - 1:
            break
    if rng.random() < 0.5:
        gas *= rng.uniform(0.9, 1.1, n)  # measurement noise
    return {"tau": tau_g, "M": m_g, "p_initial": p_g}, days, gas, pf


def gi_row(seed, i: int) -> int:
    return i + (int(seed[2]) if isinstance(seed, (list, tuple)) and len(seed) > 2 else 0)


def fit_events(ref: dict, seed, count: int) -> list[dict]:
    rng = np.random.default_rng(seed)
    pvt_h, pvt_s = pvt_table(), shipped_gas_table()
    evs = []
    for i in range(count):
        zero_day = gi_row(seed, i) % 4 == 2     # the shipped gas table starts at 0 psi: a producing day at exactly 0.0 psig (blow-down)
        pvt = pvt_s if zero_day else pvt_h
        gen, days, gas, pf = make_table(rng, ref, pvt)
        if zero_day:
            pf[int(rng.integers(len(pf) // 2, len(pf) - 2))] = 0.0
        n0 = len(days)
        filt = bool(i % 3 != 2)
        gas, pres = gas.copy(), pf.copy()
        nz = int(rng.integers(0, 4))
        nm = int(rng.integers(0, 3)) if filt else 0  # missing pressures only make sense when they are filtered out
        idx = rng.permutation(np.arange(1, n0 - 1))
        gas[idx[:nz]] = 0.0
        pres[idx[nz:nz + nm]] = np.nan
        window = [None, 1, 3, 9][int(rng.integers(4))]
        extra = np.ones(n0)
        if gi_row(seed, i) % 3 == 1:
            extra[rng.permutation(n0)[: max(2, n0 // 5)]] = np.nan   # another metered column with gaps of its own
        if gi_row(seed, i) % 5 == 2 and window in (None, 1):
            pres = pres.astype(np.float32)                           # a pressure gauge logged in single precision
        prod = relabel(pd.DataFrame({"Days": days * 1.0 + 100.0, "Gas": gas, "Pressure": pres, "Water": extra}),
                       i + (int(seed[2]) // 3 if isinstance(seed, (list, tuple)) and len(seed) > 2 else 0))
        n_iter = [1, 4, 20][i % 3] if (i // 3) % 2 == 0 else [20, 1, 4][i % 3]
        pimax = float(rng.choice([12000.0, 13000.0, 13900.0]))
        if zero_day:
            pimax = float(rng.choice([11000.0, 11900.0]))   # the shipped gas table ends at 12 000 psi
        inplace = float(rng.choice([1e5, 3e5]))
        gi = i + (int(seed[2]) if isinstance(seed, (list, tuple)) and len(seed) > 2 else 0)   # index across batches
        if gi % 4 == 3:
            # a declared resource-in-place limit close to the data (between the last cumulative value and twice it), the data
            # generated with a larger M, and a budget that lets the simplex wander: the limit must still hold
            keep = (gas > 0) & ~np.isnan(pres) if filt else np.ones(n0, dtype=bool)
            clast = float(np.cumsum(gas[keep])[-1])
            inplace = clast * float(rng.uniform(1.05, 1.6))
            n_iter = 40
        guess = rng.uniform(float(np.nanmax(pres)) * 0.5, pimax * 1.05)  # the guess may lie outside the limits
        kw = dict(pressure_initial=guess, filter_window_size=window, pressure_imax=pimax, inplace_max=inplace,
                  filter_zero_prod_days=filt, n_iter=n_iter)
        positional = bool(gi % 5 == 1)
        outcome, cap, result = call_fit(prod, pvt, spy=True, positional=positional, **kw)
        raw = {"generated_with": gen, "called_positionally": positional, "rows": n0, "zero_rate_days": nz, "missing_pressures": nm,
               "kwargs": {k: (None if v is None else float(v) if not isinstance(v, bool) else v) for k, v in kw.items()}}
        # what the table itself says must reach the fit (independent of what the code did with it)
        kept = (gas > 0) & ~np.isnan(pres) if filt else np.ones(n0, dtype=bool)
        ev = {"ev": "FitResult", "n": 0, "n_exp": int(kept.sum()), "n_iter": n_iter, "outcome": outcome,
              "cexp_q": quant.q(float(np.cumsum(gas[kept])[-2]), 0.0, inplace),
              "pexp_q": quant.q(float(np.nanmax(pres[kept].astype(float))), 0.0, pimax),
              "tq": list(quant.NANQ), "mq": list(quant.NANQ),
              "cprev_q": list(quant.NANQ), "pq": list(quant.NANQ), "pfmax_q": list(quant.NANQ), "plo_q": list(quant.NANQ),
              "w1_e15": -1, "excl_e15": -1, "raw": raw}
        ob = None
        try:
            ob = observe(cap)
        except Exception:  # noqa: BLE001  (judged through the outcome of the fit itself)
            ob = None
        if ob is not None and "error" in ob:
            ob = None
        if ob is not None and filt and not kept.all():
            # "excluded" means without influence: other readings on the excluded rows (a pressure on a shut-in day, a rate on a day
            # without a pressure) must leave everything the minimiser is given bit-identical
            gas2, pres2 = gas.copy(), np.asarray(pres, dtype=float).copy()
            shut, blind = (gas <= 0), np.isnan(pres2)
            pres2[shut & ~blind] = pres2[shut & ~blind] * 0.35 + 50.0
            gas2[blind] = gas2[blind] * 3.0 + 7.0
            prod2 = prod.copy()
            prod2["Gas"] = gas2
            prod2["Pressure"] = pres2.astype(pres.dtype)
            _o2, cap2, _r2 = call_fit(prod2, pvt, spy=False, **kw)
            try:
                ob2 = observe(cap2)
            except Exception:  # noqa: BLE001
                ob2 = None
            if ob2 is not None and "error" not in ob2 and ob["cum"] is not None and ob2["cum"] is not None:
                t1, c1, f1 = ob["days"], ob["cum"], ob["pf"]
                t2, c2, f2 = ob2["days"], ob2["cum"], ob2["pf"]
                ev["excl_e15"] = max(arr_e15(t1, t2, max(1.0, float(len(t1)))), arr_e15(c1, c2, float(np.max(np.abs(c1)))),
                                     arr_e15(f1, f2, float(np.max(np.abs(f1)))))
            else:
                ev["excl_e15"] = quant.CAP
        if ob is not None:
            time, cum, pfa = ob["days"], ob["cum"], ob["pf"]
            ev["n"] = int(len(time))
            # the declared lower limit of M (the cumulative production is read back through the simulation, to rounding only)
            mmin = float(cap["params"]["M"].min) if "M" in cap["params"] else math.nan
            ev["cprev_q"] = quant.q(mmin, 0.0, inplace)
            raw["declared_limits"] = {k: [float(cap["params"][k].min), float(cap["params"][k].max)] for k in cap["params"]}
            if cum is not None and abs(mmin - float(cum[-2])) > 1e-9 * max(1.0, abs(float(cum[-2]))):
                ev["outcome"] = f"declared lower limit of M is {mmin!r}, the second-to-last cumulative production is {float(cum[-2])!r}"
            ev["pfmax_q"] = quant.q(float(np.max(np.asarray(pfa, dtype=float))), 0.0, pimax)
            ev["plo_q"] = quant.q(float(cap["params"]["p_initial"].min) if "p_initial" in cap["params"] else math.nan, 0.0, pimax)
            if window in (None, 1):
                through = pres[(gas > 0) & ~np.isnan(pres)] if filt else pres
                ev["w1_e15"] = arr_e15(pfa, through, float(np.max(np.abs(through))))
        if outcome == "ok" and result is not None:
            try:
                vals = {k: float(result.params[k].value) for k in ("tau", "M", "p_initial")}
            except Exception as ex:  # noqa: BLE001
                ev["outcome"] = f"result without parameters: {type(ex).__name__}"
                vals = None
            if vals:
                ev["tq"] = quant.q(vals["tau"], 0.0, 1000.0)
                ev["mq"] = quant.q(vals["M"], 0.0, inplace)
                ev["pq"] = quant.q(vals["p_initial"], 0.0, pimax)
                raw["fitted"] = vals
                raw["nfev"] = int(getattr(result, "nfev", -1))
        evs.append(ev)
    return evs


def pipeline_zero_events(ref: dict, seed, count: int) -> list[dict]:
    """Through the pipeline (no filtering, so day 0 with zero production is kept): the objective handed to the
    minimiser vanishes at the parameters that generated the table."""
    from lmfit import Parameters  # noqa: PLC0415

    rng = np.random.default_rng(seed)
    pvt = pvt_table()
    evs = []
    for _ in range(count):
        n = int(rng.integers(10, 50))
        tau_g, m_g, p_g = rng.uniform(35.0, 150.0), 10 ** rng.uniform(3, 4.5), rng.uniform(5000.0, 11000.0)
        pf = schedule(rng, n, p_g)
        days = np.arange(n, dtype=float)
        ev = {"ev": "Objective", "kind": "pipeline", "atgen": True, "zero_e15": 0, "agree_e15": 0, "outcome": "ok",
              "raw": {"n": n, "tau": tau_g, "M": m_g, "p_initial": p_g}}
        try:
            cum = m_g * rf_lib(ref, pvt, days, tau_g, p_g, pf)
            prod = pd.DataFrame({"Days": days, "Gas": np.diff(cum, prepend=0.0), "Pressure": pf})
            p = Parameters()
            p.add("tau", value=tau_g, min=1.0, max=1e4)
            p.add("M", value=m_g, min=1.0, max=1e7)
            p.add("p_initial", value=p_g, min=float(pf.max()), max=13900.0)
            window = None if rng.random() < 0.5 else 1
            outcome, cap, _ = call_fit(prod, pvt, spy=False, pressure_initial=p_g, filter_window_size=window,
                                       filter_zero_prod_days=False, n_iter=1, params=p)
            if outcome != "ok" or "fcn" not in cap:
                ev["outcome"] = outcome if outcome != "ok" else "no Minimizer constructed"
            else:
                with warnings.catch_warnings():
                    warnings.simplefilter("ignore")
                    obj = evaluate(cap, p)
                ev["zero_e15"] = arr_e15(obj, np.zeros_like(obj), m_g)
        except Exception as ex:  # noqa: BLE001
            ev["outcome"] = f"{type(ex).__name__}: {ex}"
        evs.append(ev)
    return evs


def _record(args):
    what, ref, seed, count = args
    env.import_bluebonnet()
    fn = {"objective": objective_events, "fit": fit_events, "pipeline": pipeline_zero_events}[what]
    return fn(ref, seed, count)


def strip(e: dict) -> dict:
    return {k: v for k, v in e.items() if k != "raw"}


def trace_validation(ctx: core.Ctx, ref: dict, n_obj: int, n_fit: int, n_pipe: int) -> None:
    tasks = []
    for what, total, per in (("fit", n_fit, 3), ("objective", n_obj, 6), ("pipeline", n_pipe, 6)):
        for b in range(0, total, per):
            tasks.append((what, ref, [ctx.seed, ("fit", "objective", "pipeline").index(what), b], min(per, total - b)))
    events, src = [], {}
    with ProcessPoolExecutor(max_workers=16) as ex:
        for tid, (t, evs) in enumerate(zip(tasks, ex.map(_record, tasks)), start=1):
            for s, e in enumerate(evs):
                events.append({"tid": tid, "seq": s, **strip(e)})
                src[(tid, s)] = (t, e)
                ctx.case(f"{t[0]}/{t[2]}/{s}")
    verdicts = trace.validate(ctx, "FitPressureTrace", events)
    for v in verdicts:
        t, e = src[(v["tid"], v["seq"])]
        for cl in v["clauses"]:
            if cl == "NotMeaningful":   # judged on the harness's own reading of the table, never on what the code made of it
                raise tlc.MachineryError(f"harness generated a table with empty default limits: {e['raw']}")
            ctx.violation(cl, f"[{t[0]} seed {t[2]} #{v['seq']}] {EXPLAIN.get(cl, cl)}: {e['ev']} event ({e.get('kind', '')}) {e['raw']} -> "
                          f"{ {k: x for k, x in strip(e).items() if k not in ('ev',)} }",
                          replay={"stage": "trace", "what": t[0], "seed": t[2], "count": t[3], "index": v["seq"], "ref": ref})
    fits = [e for (_t, e) in src.values() if e["ev"] == "FitResult"]
    objs = [e for (_t, e) in src.values() if e["ev"] == "Objective"]
    ctx.extra["fits"] = {"total": len(fits), "by_n_iter": {str(k): sum(e["n_iter"] == k for e in fits) for k in (1, 4, 20, 40)},
                         "with_excluded_rows_perturbed": sum(e["excl_e15"] >= 0 for e in fits),
                         "objective_events": len(objs), "at_generating_parameters": sum(e["atgen"] for e in objs),
                         "worst_objective_agreement_e15": max([e["agree_e15"] for e in objs], default=0),
                         "worst_zero_at_generating_e15": max([e["zero_e15"] for e in objs], default=0)}
    ctx.sample({"fit_event": strip(fits[0]), "raw": fits[0]["raw"]})
    ctx.sample({"objective_event": strip(objs[0]), "raw": objs[0]["raw"]})


# ---- replay ---------------------------------------------------------------------------------------------------------------
def replay(ctx: core.Ctx, obj: dict) -> None:
    r = obj["replay"]
    ctx.rule = "replay of one reported case"
    if r["stage"] == "table":
        print("case:", r["case"]["pattern"], "x", r["case"]["k"], "filter", r["case"]["filter"], "window", r["case"]["window"])
        ctx.case("replay/table")
        for clause, what in check_case(r["case"], r["const"], pvt_table()):
            ctx.violation(clause, what, replay=r)
    elif r["stage"] == "trace":
        evs = _record((r["what"], r["ref"], r["seed"], r["count"]))
        e = evs[r["index"]]
        print("event:", e)
        ctx.case("replay/trace")
        for v in trace.validate(ctx, "FitPressureTrace", [{"tid": 1, "seq": 0, **strip(e)}]):
            for cl in v["clauses"]:
                ctx.violation(cl, f"{EXPLAIN.get(cl, cl)}: {e['raw']}", replay=r)
    else:
        raise tlc.MachineryError(f"unknown replay stage {r['stage']}")


def _account(ctx: core.Ctx, r: tlc.TLCResult, exhaustive: bool) -> None:
    ctx.states += r.distinct
    ctx.transitions += r.generated
    ctx.tlc_runs.append({"module": "FitPressure", "cfg": r.cfg, "distinct": r.distinct, "generated": r.generated,
                         "depth": r.depth, "wall_s": round(r.wall_s, 2), "ok": r.ok, "violated": r.violated})
    if exhaustive:
        ctx.exhaustive_models.append(f"FitPressure/{r.cfg}")


def run(ctx: core.Ctx) -> None:
    ctx.rule = ("cases = every table of FitPressure.tla's domain (pattern x repetition x filter setting x window), each passed "
                "through the real fit_production_pressure with a recording Minimizer; plus objective evaluations and real "
                "fits on generated tables (distinct = generator seed x index) judged by FitPressureTrace.tla")
    ctx.assumptions += [
        "tables reach the code as float columns Days/Gas/Pressure; a missing pressure is NaN",
        "the default limits are demanded only where every interval has an interior (more than 16 rows reach the fit, "
        "cum[n-1] < inplace_max, highest frac-face pressure < pressure_imax) and no pressure is missing; shorter tables are "
        "replayed with explicit params (lmfit would swap an empty interval's ends: recorded, outside the property)",
        "without filtering, tables with missing pressures are outside the property (NaN reaches the simulator)",
        "fewer than two rows reaching the fit: no demand",
        "objective agreement and zero-at-generating tolerance 1e-12 (relative to M); frac-face pressures inside the PVT table's "
        "range and below p_initial; pressure_imax <= 13900 psi (table ends at 13990)",
        "lmfit.Minimizer is observed by replacing the name bluebonnet.forecast.forecast_pressure.Minimizer in the driver process",
    ]
    ctx.trusted += ["TLC 2026.09", "bbv/quant.py quantisation", "pandas/numpy float equality for integer-valued data",
                    "the recorder / pass-through subclass of lmfit.Minimizer"]
    sdir = env.scratch("c18")
    try:
        cfg = tlc.write_cfg(sdir / "MC_FitPressure_gen.cfg", spec="Spec",
                            constants={"MaxRows": 3 if ctx.quick else 4, "Reps": 18, "Deviation": '"none"', "Export": "TRUE"},
                            invariants=["C18_FilterExcludes", "C18_Window1Identity", "C18_TimeReindexed", "C18_Limits", "ExportCase"])
        jobs = [(None, dict(cfg=cfg, workers=6, timeout=1500))]
        jobs += [(inv, dict(cfg=f"MC_FitPressure_dev_{dev}.cfg", workers=1, timeout=600, expect_violation=True))
                 for dev, inv in DEVIATIONS]
        with ThreadPoolExecutor(max_workers=4) as ex:
            futs = [(inv, ex.submit(tlc.run, "FitPressure", **kw)) for inv, kw in jobs]
            res = [(inv, f.result()) for inv, f in futs]
    finally:
        env.cleanup(sdir)
    main = None
    for inv, r in res:
        _account(ctx, r, exhaustive=inv is None)
        if inv is None:
            if not r.ok:
                raise tlc.MachineryError(f"design-level model FitPressure/{r.cfg} violates {r.violated}:\n{r.output[-2500:]}")
            main = r
        elif r.ok or inv not in r.violated:
            raise tlc.MachineryError(f"deviation config FitPressure/{r.cfg} was not refuted (violated={r.violated})")
    const = replay_cases(ctx, main)
    if ctx.quick:
        trace_validation(ctx, const["ref"], n_obj=96, n_fit=96, n_pipe=24)
    else:
        trace_validation(ctx, const["ref"], n_obj=1200, n_fit=1440, n_pipe=240)
