"""C14 -- Brooks-Corey relative permeabilities are finite, within [0, k_max], zero at/below residual, monotone;
out-of-range parameters and saturations not summing to one are rejected; the two-phase helper returns rows on
the simplex with immobile water.

TLC:   RelPerm.tla.  Every parameter set of the lattice (residuals {0,1/10,3/10} with sum < 1, exponents
       {1,3/2,2,6}, end-points {0,1/2,1}) x every record of the tenth-simplex, reached by a walk that moves 1/10
       of saturation between phases (action property Monotone); every individual out-of-range value; the
       two-phase helper at/below/above the water residual.  Invariants Finite, InRange, ZeroAtResidual,
       FullAtOne, AdmissibleAccepted, InvalidRejected, Two*.  Deviation Corey_Unclamped (= D8) must be refuted
       on Finite, InRange and ZeroAtResidual.
S->C:  every case TLC exports is run through the real functions: exact value for integer exponents, bracket
       s^ceil(n) <= . <= s^floor(n) plus the discrete facts for fractional ones, error / no error, table shape.
C->S:  the continuous admissible box (random fractional exponents, residuals, end-points; sweeps of each
       phase's saturation through its residual with the others rebalanced; out-of-range pushes; two-phase
       tables) logged as quantised values and judged by RelPermTrace.tla.
"""
from __future__ import annotations

import json
import math
from concurrent.futures import ProcessPoolExecutor
from fractions import Fraction

import numpy as np

from .. import core, env, exact, tlc, trace
from ..drivers import relperm as drv

INVARIANTS = ["TypeOK", "AdmissibleAccepted", "InvalidRejected", "Finite", "InRange", "ZeroAtResidual", "FullAtOne",
              "ExactForIntegers", "TwoAcceptance", "TwoRowsOnSimplex", "TwoEndsAtPureGasAndOil", "TwoWaterImmobile"]
REL = 1e-12  # float vs exact rational (conditioning of (S - S_r)/(1 - sum S_r) on the tenth lattice is < 100)
PH = drv.PH
PER_CLAUSE = 3  # violations reported per clause and direction (the rest are the same defect again)


# ---- TLC: exhaustive lattice + export ------------------------------------------------------------------------------
def export_cases(ctx: core.Ctx, lattice: str) -> list[dict]:
    sdir = env.scratch("c14exp")
    try:
        cfg = tlc.write_cfg(sdir / "exp.cfg", spec="Spec",
                            constants={"Lattice": f'"{lattice}"', "Deviation": '"none"', "Export": "TRUE"},
                            invariants=[*INVARIANTS, "ExportCase"], properties=["Monotone"])
        r = ctx.model_check("RelPerm", cfg, workers=16, scratch=sdir, timeout=1500)
    finally:
        env.cleanup(sdir)
    cases = r.by_tag("CASE")
    if len(cases) != r.distinct:
        raise tlc.MachineryError(f"RelPerm export: {len(cases)} cases for {r.distinct} distinct states")
    kinds = {k: sum(1 for x in cases if x["c"]["kind"] == k) for k in ("kr", "rej", "two")}
    if min(kinds.values()) == 0 or kinds["kr"] % 66:
        raise tlc.MachineryError(f"RelPerm export: unexpected case mix {kinds}")
    ctx.extra.setdefault("exported", {})[lattice] = kinds
    return cases


def _par_f(p: dict) -> dict:
    return {g: {ph: drv.fl(p[g][ph]) for ph in PH} for g in ("n", "sr", "km")}


def _sat_f(s: dict) -> dict:
    return {ph: drv.fl(s[ph]) for ph in PH}


def judge_value(got: float, want: dict, zero: bool, km: float) -> tuple[str, str] | None:
    """Compare one returned kr with the spec's value [lo, hi] (lo = hi for integer exponents)."""
    if math.isnan(got) or math.isinf(got):
        return "Finite", f"returned {got}"
    if zero and got != 0.0:
        return "ZeroAtResidual", f"returned {got!r} at or below the residual saturation"
    g = Fraction(got)
    lo, hi = exact.frac(want["lo"]), exact.frac(want["hi"])
    if g < 0 or g > Fraction(km) * (1 + Fraction(REL)):
        return "InRange", f"returned {got!r} outside [0, {km}]"
    if g < lo * (1 - Fraction(REL)) or g > hi * (1 + Fraction(REL)):
        if lo == hi:
            return "Value", f"returned {got!r}, Brooks-Corey value is {float(lo)!r} ({lo})"
        return "Value", f"returned {got!r} outside the bracket [{float(lo)!r}, {float(hi)!r}] of the fractional power"
    return None


def _replay_chunk(chunk):
    """chunk: list of groups; a group is ('kr', par, [(sat, out)...]) | ('rej', par, sat, out) | ('two', par, sw, out).
    Returns (n_cases, failures)."""
    env.import_bluebonnet()
    fails = []
    n = 0
    for grp in chunk:
        kind, par = grp[0], grp[1]
        pf = _par_f(par)
        if kind == "kr":
            items = grp[2]
            sats = [_sat_f(s) for s, _ in items]
            outcome, res = drv.call(pf, sats)
            n += len(items)
            if outcome != "ok":
                fails.append({"clause": "Accepts", "what": f"admissible parameters rejected: {res}", "stage": "kr",
                              "par": par, "sat": items[0][0], "out": items[0][1]})
                continue
            for (s, out), sf, row in zip(items, sats, res):
                for ph in PH:
                    bad = judge_value(row[ph], out["kr"][ph], out["zero"][ph], pf["km"][ph])
                    if bad:
                        fails.append({"clause": bad[0], "stage": "kr", "par": par, "sat": s, "phase": ph, "out": out,
                                      "what": f"phase {ph}: {bad[1]}; params {pf}, saturations {sf}"})
        elif kind == "rej":
            _, _, s, out = grp
            sf = _sat_f(s)
            outcome, res = drv.call(pf, [sf])
            n += 1
            if outcome != "error":
                fails.append({"clause": "Rejects", "stage": "rej", "par": par, "sat": s, "out": out,
                              "what": f"rule {out['rule']} must reject params {pf}, saturations {sf}; returned {res}"})
        else:
            _, _, sw, out = grp
            swf = drv.fl(sw)
            outcome, res = drv.call_two(pf, swf)
            n += 1
            base = {"stage": "two", "par": par, "sw": sw, "out": out}
            if out["kind"] == "error":
                if outcome != "error":
                    fails.append({**base, "clause": "TwoRejects",
                                  "what": f"Sw={swf} above S_wc={pf['sr']['w']} accepted by the two-phase helper"})
                continue
            if outcome != "ok":
                fails.append({**base, "clause": "TwoAccepts", "what": f"Sw={swf} <= S_wc={pf['sr']['w']} rejected: {res}"})
                continue
            if len(res) != out["nrows"]:
                fails.append({**base, "clause": "TwoRows", "what": f"{len(res)} rows, expected {out['nrows']}"})
            for i, row in enumerate(res):
                tot = math.fsum(row["S"].values())
                if not abs(tot - 1.0) <= 1e-12:
                    fails.append({**base, "clause": "TwoSumToOne", "what": f"row {i}: saturations {row['S']} sum to {tot!r}"})
                    break
                if row["kr"]["w"] != 0.0:
                    fails.append({**base, "clause": "TwoWaterImmobile", "what": f"row {i}: krw = {row['kr']['w']!r}"})
                    break
                if row["S"]["w"] != swf:
                    fails.append({**base, "clause": "TwoSw", "what": f"row {i}: Sw = {row['S']['w']!r}, asked {swf!r}"})
                    break
    return n, fails


def replay_cases(ctx: core.Ctx, cases: list[dict]) -> None:
    groups: dict[str, list] = {}
    singles = []
    for x in cases:
        c, out = x["c"], x["out"]
        if c["kind"] == "kr":
            k = json.dumps(c["par"], sort_keys=True)
            groups.setdefault(k, ["kr", c["par"], []])[2].append((c["sat"], out))
        elif c["kind"] == "rej":
            singles.append(("rej", c["par"], c["sat"], out))
        else:
            singles.append(("two", c["par"], c["sw"], out))
    allg = [tuple(g) for g in groups.values()] + singles
    nchunk = 64
    chunks = [allg[i::nchunk] for i in range(nchunk) if allg[i::nchunk]]
    total = 0
    seen: dict[str, int] = {}
    with ProcessPoolExecutor(max_workers=16) as ex:
        for n, fails in ex.map(_replay_chunk, chunks):
            total += n
            for f in fails:
                seen[f["clause"]] = seen.get(f["clause"], 0) + 1
                if seen[f["clause"]] > PER_CLAUSE:
                    continue
                ctx.violation(f["clause"], "spec->code: " + f["what"], replay={k: v for k, v in f.items() if k != "what"})
    if total != len(cases):
        raise tlc.MachineryError(f"replayed {total} of {len(cases)} exported cases")
    for x in cases:
        c = x["c"]
        ctx.case(json.dumps([c["kind"], c["par"], c.get("sat", c.get("sw"))], sort_keys=True))
    picks = [next((x for x in cases if x["c"]["kind"] == "kr" and x["c"]["par"]["n"]["o"][1] == 2
                   and x["c"]["sat"]["o"] == [3, 10] and x["out"]["kr"]["o"]["lo"][0] > 0), None),
             next((x for x in cases if x["c"]["kind"] == "rej"), None),
             next((x for x in cases if x["c"]["kind"] == "two"), None)]
    for x in picks:
        if x is not None:
            ctx.sample({"stage": "spec->code", **x})


# ---- code -> spec ------------------------------------------------------------------------------------------------------
def _record(args):
    seed, tids, npts = args
    env.import_bluebonnet()
    events, raw = [], {}
    for tid in tids:
        rng = np.random.default_rng([seed, 14, tid])
        par = drv.random_params(rng)
        seq = 0

        def put(e, info, tid=tid):
            nonlocal seq
            e.update({"tid": tid, "seq": seq})
            events.append(e)
            raw[(tid, seq)] = {"tid": tid, "npts": npts, "seed": seed, **info}
            seq += 1

        put(drv.ev_par(par), {"par": par})
        mode = tid % 4
        if mode in (0, 1, 2):
            # sweeps of each phase's saturation (one batched call per sweep, as the library is used)
            for ph in PH:
                sats = drv.sweep_sats(rng, par, ph, npts)
                outcome, res = drv.call(par, sats)
                for i, S in enumerate(sats):
                    kr = res[i] if outcome == "ok" else None
                    put(drv.ev_rec(par, S, outcome, kr), {"par": par, "sat": S, "got": kr or res})
            # records that do not sum to one (same, valid, parameters)
            for off in (-0.1, 0.0021, float(rng.uniform(0.01, 1.0)), -float(rng.uniform(0.002, 0.5))):
                S = sats[len(sats) // 2].copy()
                S["g"] = S["g"] + off
                outcome, res = drv.call(par, [S])
                put(drv.ev_rec(par, S, outcome, res[0] if outcome == "ok" else None), {"par": par, "sat": S, "got": res})
        if mode == 3:
            # the two-phase helper: at / below / above the water residual
            swc = par["sr"]["w"]
            for sw in (swc, 0.0, float(rng.uniform(0, swc)), float(np.nextafter(swc, 2.0)), swc + float(rng.uniform(1e-9, 1 - swc))):
                outcome, res = drv.call_two(par, sw)
                nrows = len(res) if outcome == "ok" else 0
                put(drv.ev_two(par, sw, outcome, nrows), {"par": par, "sw": sw, "got": outcome if outcome == "ok" else res})
                if outcome == "ok":
                    for row in res:
                        put(drv.ev_rec(par, row["S"], "ok", row["kr"], ev="Row"), {"par": par, "sw": sw, "sat": row["S"], "got": row["kr"]})
                    put({"ev": "TwoEnd"}, {"par": par, "sw": sw})
                    # the caller edits that table in place and asks again: the second table is judged like the first
                    outcome2, res2 = drv.call_two_after_edit(par, sw)
                    put(drv.ev_two(par, sw, outcome2, len(res2) if outcome2 == "ok" else 0),
                        {"par": par, "sw": sw, "second_call_after_editing_the_first_table": True, "got": outcome2 if outcome2 == "ok" else res2})
                    if outcome2 == "ok":
                        for row in res2:
                            put(drv.ev_rec(par, row["S"], "ok", row["kr"], ev="Row"),
                                {"par": par, "sw": sw, "sat": row["S"], "got": row["kr"], "second_call_after_editing_the_first_table": True})
                        put({"ev": "TwoEnd"}, {"par": par, "sw": sw})
        if mode == 2:
            # one field pushed outside its individual range: every record must be rejected
            for _ in range(3):
                bad, what = drv.push_out(rng, par)
                put(drv.ev_par(bad), {"par": bad, "pushed": what})
                S = drv.sweep_sats(rng, par, "o", 5)[2]
                outcome, res = drv.call(bad, [S])
                put(drv.ev_rec(bad, S, outcome, res[0] if outcome == "ok" else None), {"par": bad, "sat": S, "got": res, "pushed": what})
                # the same inadmissible parameters through the two-phase helper
                outcome, res = drv.call_two(bad, 0.0)
                put(drv.ev_two(bad, 0.0, outcome, len(res) if outcome == "ok" else 0),
                    {"par": bad, "sw": 0.0, "pushed": what, "got": "a table" if outcome == "ok" else res})
    return events, raw


def trace_validation(ctx: core.Ctx, ntid: int, npts: int) -> None:
    tids = list(range(1, ntid + 1))
    tasks = [(ctx.seed, tids[i::16], npts) for i in range(16) if tids[i::16]]
    events, raw = [], {}
    with ProcessPoolExecutor(max_workers=16) as ex:
        for evs, rw in ex.map(_record, tasks):
            events.extend(evs)
            raw.update(rw)
    events.sort(key=lambda e: (e["tid"], e["seq"]))
    cfg = _trace_cfg()
    verdicts = trace.validate(ctx, "RelPermTrace", events, cfg=str(cfg), timeout=1500)
    nrec = sum(1 for e in events if e["ev"] in ("Rec", "Row", "Two"))
    ctx.evaluations += nrec
    ctx.extra["trace_records"] = ctx.extra.get("trace_records", 0) + nrec
    for e in events:
        if e["ev"] == "Par":
            ctx.nontrivial.add(f"trace-par-{e['tid']}-{e['seq']}")
    seen: dict[str, int] = {}
    for v in verdicts:
        info = raw[(v["tid"], v["seq"])]
        for cl in v["clauses"]:
            if cl.startswith("Machinery:"):
                raise tlc.MachineryError(f"RelPermTrace: event {v['tid']}/{v['seq']} fails {cl}: {info}")
            seen[cl] = seen.get(cl, 0) + 1
            if seen[cl] > PER_CLAUSE:
                continue
            ctx.violation(cl, f"code->spec: RelPermTrace rejects clause {cl} for {info}",
                          replay={"stage": "trace", "clause": cl, **info})
    ok = next(e for e in events if e["ev"] == "Rec" and e["outcome"] == "ok")
    ctx.sample({"stage": "code->spec", "event": ok, "raw": raw[(ok["tid"], ok["seq"])]})


def _trace_cfg():
    p = env.SPEC / "RelPermTrace.cfg"
    return p


# ---- replay of one stored violation ---------------------------------------------------------------------------------------
def replay(ctx: core.Ctx, obj: dict) -> None:
    r = obj["replay"]
    ctx.rule = "replay of one stored case"
    if r["stage"] == "trace":
        # a recorded event: regenerate the trace of its parameter set (same seed) and re-judge it
        events, raw = _record((r.get("seed", ctx.seed), [r["tid"]], r["npts"]))
        verdicts = trace.validate(ctx, "RelPermTrace", events, cfg=str(_trace_cfg()))
        print(f"re-recorded {len(events)} events of trace {r['tid']} (params {r['par']})")
        for v in verdicts:
            info = raw[(v["tid"], v["seq"])]
            for cl in v["clauses"]:
                print("  ", cl, {k: info[k] for k in ("sat", "sw", "got", "pushed") if k in info})
                ctx.violation(cl, f"replayed: RelPermTrace rejects clause {cl} for {info}", replay=r)
        ctx.case("replay")
        return
    # a lattice case: re-run it against the expectation TLC exported for it
    c = {"kind": r["stage"], "par": r["par"]}
    c.update({"sat": r["sat"]} if "sat" in r else {"sw": r["sw"]})
    print(f"lattice case {r['stage']}: params {_par_f(r['par'])}, "
          f"{'saturations ' + str(_sat_f(r['sat'])) if 'sat' in r else 'Sw ' + str(drv.fl(r['sw']))}")
    print("expected by RelPerm.tla:", json.dumps(r["out"]))
    replay_cases(ctx, [{"tag": "CASE", "c": c, "out": r["out"]}])


# ---- the check -----------------------------------------------------------------------------------------------------------------
def run(ctx: core.Ctx) -> None:
    lattice = "small" if ctx.quick else "full"
    ctx.rule = ("spec->code cases = states of RelPerm.tla: (parameter set, saturation record on the tenth-simplex) for "
                "residuals {0,1/10,3/10}^3, exponent profiles over {1,3/2,2,6}, end-point profiles over {0,1/2,1}; every "
                "individual out-of-range value of every parameter; saturation totals {0,.9,.99,1.01,1.1,2}; two-phase "
                "helper at 6 water saturations; distinct = (kind, parameters, record). code->spec = random parameter "
                "sets of the continuous admissible box, each with a sweep of every phase's saturation through its "
                "residual and its clamp point (float neighbours included), rejected pushes and two-phase tables, "
                "judged by RelPermTrace.tla; distinct adds one per recorded parameter set")
    ctx.assumptions += [
        "admissible = every exponent in [1,6], residual and end-point in [0,1], residuals summing to less than one; "
        "parameter sets whose residuals sum to one or more are outside the property and are not exercised",
        "'sums to one' = exactly one on the rational lattice / within 1e-12 for floats; 'does not sum to one' = off by "
        "more than 1e-3 (RelPerm!SumTol); totals in between are not exercised",
        "'rejected with an error' = the call raises (any exception class)",
        "for a fractional exponent n TLC cannot take the power: the spec brackets kmax*s^ceil(n) <= kr <= kmax*s^floor(n) "
        "on the clamped s and demands the discrete facts exactly (0 at/below residual); integer exponents are exact "
        "rationals compared to 1e-12 relative",
        "monotone / upper bound are judged with 1e-14 absolute slack (rounding of the power function)",
    ]
    ctx.trusted += ["TLC 1.8 / Rat.tla exact arithmetic", "bbv/quant.py quantisation (exact Fraction arithmetic)",
                    "projection bbv/drivers/relperm.py (exact float comparisons S<=S_r, kr==0, Sw>S_wc as booleans)"]
    for inv in ("Finite", "InRange", "ZeroAtResidual"):
        ctx.expect_refuted("RelPerm", f"MC_RelPerm_dev_Unclamped_{inv}.cfg", inv, workers=1)
    cases = export_cases(ctx, lattice)
    replay_cases(ctx, cases)
    if ctx.quick:
        trace_validation(ctx, ntid=48, npts=24)
    else:
        trace_validation(ctx, ntid=480, npts=40)

    # per-call statement of the property under concurrent use (Reentrant.tla): the same calls from several threads at once
    from ..drivers import threads  # noqa: PLC0415

    threads.clause(ctx, ['relperm'])


