"""C05 -- forecast scaling law, bounded fitting, parameter round trip (bluebonnet.forecast.forecast).

TLC:   Forecast.tla, four parts: every (M, tau) tuple pair of the Bounds constructor domain (C05_MalformedRejected),
       every 1-/2-element guess against every well-formed Bounds (C05_GuessInside), the scaling law on exact
       piecewise-linear curves (C05_Definition / C05_Linear / C05_Rescale), and the forecaster object as a state
       machine over fit(), fit(tau=..), forecast_cum(..) (C05_ForecastUses, C05_FitResult, C05_AttrsAreLatestFit).
       Eight named deviations must be refuted.
S->C:  every exported case is run on the real Bounds / regularize_initial_guess / forecast_cum (interp1d curves built
       from the spec's tables), every exported call history on real ForecasterOnePhase objects with real fits.
C->S:  random histories of real fits (ideal, real-gas and analytic curves; M and tau over 12-14 decades; windows
       ending in [0.6, 3] tau with >= 50 samples; default / finite / half-infinite bounds, containing the generating
       parameters or not) are validated by ForecastTrace.tla, which holds all tolerances.
"""
from __future__ import annotations

import json
import math
from concurrent.futures import ProcessPoolExecutor
from fractions import Fraction

import numpy as np

from .. import core, env, exact, tlc, trace
from ..drivers import forecast as drv

DEVIATIONS = [("AcceptsEqual", "C05_MalformedRejected"), ("MidIsSum", "C05_GuessInside"),
              ("NoRegularize", "C05_GuessInside"), ("TimesTau", "C05_Rescale"), ("AddM", "C05_Linear"),
              ("FixedTauOverwritten", "C05_FitResult"), ("FixedTauNotStored", "C05_ForecastUses"),
              ("FitIgnoresBounds", "C05_FitResult")]

EXPLAIN = {
    "MInBounds": "fitted M_ lies outside the configured bounds on M",
    "TauInBounds": "fitted tau_ lies outside the configured bounds on tau",
    "FitResult": "the attributes after fit() are not in the set Forecast!FitResultOK allows",
    "FixedTauUnchanged": "a supplied tau was not returned unchanged in tau_",
    "RoundTrip": "fit of noise-free production generated from the same curve does not recover M and tau to 1e-3",
    "FixedTauOptimal": "with tau supplied, M_ is not the bounded least-squares optimum clip(sum(y rf)/sum(rf^2), lo, hi) (1e-6; 1e-4 when the optimum is a bound)",
    "Equivariant": "the same production in other units (y -> a y, bounds on M scaled) does not give (a M_, tau_) to 1e-6",
    "ScalingLaw": "forecast_cum differs from M * rf(t / tau)",
    "Linear": "forecast_cum(t, a M, tau) differs from a * forecast_cum(t, M, tau)",
    "Rescale": "forecast_cum(k t, M, k tau) differs from forecast_cum(t, M, tau)",
    "Outcome": "the call raised (or failed to raise) against the specification",
}


# ---- TLC runs side by side (JVM start-up dominates; bookkeeping stays in the main thread) ---------------------------
def _account(ctx: core.Ctx, r: tlc.TLCResult, module: str, exhaustive: bool) -> None:
    ctx.states += r.distinct
    ctx.transitions += r.generated
    ctx.tlc_runs.append({"module": module, "cfg": r.cfg, "distinct": r.distinct, "generated": r.generated,
                         "depth": r.depth, "wall_s": round(r.wall_s, 2), "ok": r.ok, "violated": r.violated})
    if exhaustive:
        ctx.exhaustive_models.append(f"{module}/{r.cfg}")


def tlc_batch(ctx: core.Ctx, depth: int) -> dict:
    """All model-checking runs of Forecast.tla: the four exhaustive parts (must pass) and the deviations (must be
    refuted).  Returns the results of the exhaustive parts by name."""
    from concurrent.futures import ThreadPoolExecutor  # noqa: PLC0415

    sdir = env.scratch("c05m")
    try:
        mcfg = tlc.write_cfg(sdir / "MC_Forecast_machine_depth.cfg", spec="Spec",
                             constants={"Part": '"machine"', "Deviation": '"none"', "MaxDepth": depth, "Export": "TRUE", "Rebounds": "FALSE"},
                             invariants=["MachineTypeOK", "C05_ForecastUses", "C05_FitResult", "C05_AttrsAreLatestFit",
                                         "ExportLeaf"])
        jobs = [("machine", dict(cfg=mcfg, workers=6, timeout=1500), None)]
        jobs += [(part, dict(cfg=f"MC_Forecast_{part}.cfg", workers=2, timeout=600), None) for part in ("scale", "guess", "bounds")]
        jobs += [("machine_rebound", dict(cfg="MC_Forecast_machine_rebound.cfg", workers=4, timeout=900), None)]
        jobs += [(dev, dict(cfg=f"MC_Forecast_dev_{dev}.cfg", workers=1, timeout=600, expect_violation=True), inv)
                 for dev, inv in DEVIATIONS]
        with ThreadPoolExecutor(max_workers=5) as ex:
            futs = [(name, inv, ex.submit(tlc.run, "Forecast", **kw)) for name, kw, inv in jobs]
            res = [(name, inv, f.result()) for name, inv, f in futs]
    finally:
        env.cleanup(sdir)
    out = {}
    for name, inv, r in res:
        _account(ctx, r, "Forecast", exhaustive=inv is None)
        if inv is None:
            if not r.ok:
                raise tlc.MachineryError(f"design-level model Forecast/{r.cfg} violates {r.violated}:\n{r.output[-2500:]}")
            out[name] = r
        elif r.ok or inv not in r.violated:
            raise tlc.MachineryError(f"deviation config Forecast/{r.cfg} was not refuted (violated={r.violated})")
    return out


# ---- spec -> code: cases ---------------------------------------------------------------------------------------
def _floats(seq):
    return tuple(drv.ext(x) for x in seq)


def check_bounds_case(cs: dict) -> tuple[str, str] | None:
    from bluebonnet.forecast import Bounds  # noqa: PLC0415

    m, t = _floats(cs["M"]), _floats(cs["tau"])
    try:
        Bounds(M=m, tau=t)
        got = "accepted"
    except Exception:  # noqa: BLE001
        got = "rejected"
    if got != cs["outcome"]:
        return "MalformedRejected", f"Bounds(M={m}, tau={t}) was {got}, the specification says {cs['outcome']}"
    return None


def _same(a: float, b: float) -> bool:
    return a == b or (math.isnan(a) and math.isnan(b))


def check_guess_case(cs: dict) -> tuple[tuple[str, str] | None, bool]:
    """-> (violation or None, drift?) ; drift = differs from the modelled rule although the property holds."""
    from bluebonnet.forecast import Bounds  # noqa: PLC0415

    m, t = _floats(cs["M"]), _floats(cs["tau"])
    g = [float(x) for x in _floats(cs["guess"])]
    try:
        r = Bounds(M=m, tau=t).regularize_initial_guess(list(g))
        r = [float(x) for x in r]
    except Exception as ex:  # noqa: BLE001
        return ("GuessInside", f"Bounds(M={m}, tau={t}).regularize_initial_guess({g}) raised {type(ex).__name__}: {ex}"), False
    if len(r) != len(g):
        return ("GuessInside", f"Bounds(M={m}, tau={t}).regularize_initial_guess({g}) returned {len(r)} elements"), False
    for i, need in enumerate(cs["need"]):
        lo, hi = drv.ext(need["lo"]), drv.ext(need["hi"])
        if not (lo <= r[i] <= hi):
            return ("GuessInside", f"Bounds(M={m}, tau={t}).regularize_initial_guess({g}) -> {r}: element {i} is not "
                    f"inside [{lo}, {hi}]"), False
        if need["keep"] and r[i] != g[i]:
            return ("GuessInside", f"Bounds(M={m}, tau={t}).regularize_initial_guess({g}) -> {r}: element {i} was "
                    f"already inside the bounds but was moved"), False
    drift = any(not _same(r[i], drv.ext(cs["out"][i])) for i in range(len(r)))
    return None, drift


def check_scale_case(cs: dict) -> tuple[str, str] | None:
    from bluebonnet.forecast import ForecasterOnePhase  # noqa: PLC0415
    from scipy.interpolate import interp1d  # noqa: PLC0415

    xs, ys = [drv.ext(x) for x in cs["xs"]], [drv.ext(y) for y in cs["ys"]]
    rf = interp1d(xs, ys, bounds_error=False, fill_value=(0, ys[-1]))
    t, m, tau = drv.ext(cs["t"]), drv.ext(cs["M"]), drv.ext(cs["tau"])
    try:
        out = np.asarray(ForecasterOnePhase(rf).forecast_cum(np.array([t, t]), M=m, tau=tau), dtype=float)
    except Exception as ex:  # noqa: BLE001
        return "ScalingLaw", f"forecast_cum([{t}], M={m}, tau={tau}) on curve {cs['k']} raised {type(ex).__name__}: {ex}"
    if out.shape != (2,) or not all(exact.close(v, cs["cum"], rel=1e-13, abs_=1e-15) for v in out):
        return ("ScalingLaw", f"forecast_cum([{t}], M={m}, tau={tau}) on the piecewise-linear curve xs={xs}, ys={ys} "
                f"gave {out.tolist()}, exact value {Fraction(*cs['cum'])}")
    return None


def replay_cases(ctx: core.Ctx, results: dict) -> None:
    """Parts bounds, guess, scale: TLC checks the invariants on every case and exports it; run them all."""
    expect = {"bounds": 900, "guess": 5600, "scale": 1296}
    for part in ("bounds", "guess", "scale"):
        r = results[part]
        cases = [x["case"] for x in r.by_tag("CASE")]
        if len(cases) != expect[part] or r.distinct != expect[part]:
            raise tlc.MachineryError(f"Forecast/{part}: expected {expect[part]} cases, got {len(cases)} ({r.distinct} states)")
        ndrift = 0
        for cs in cases:
            if part == "bounds":
                bad = check_bounds_case(cs)
                key = f"bounds/{cs['M']}/{cs['tau']}"
            elif part == "guess":
                bad, drift = check_guess_case(cs)
                ndrift += drift
                key = f"guess/{cs['M']}/{cs['tau']}/{cs['guess']}"
            else:
                bad = check_scale_case(cs)
                key = f"scale/{cs['k']}/{cs['t']}/{cs['M']}/{cs['tau']}"
            ctx.case(key)
            if bad:
                ctx.violation(bad[0], bad[1], replay={"stage": part, "case": cs})
        ctx.sample({"part": part, "case": cases[len(cases) // 3]})
        if part == "guess":
            ctx.extra["guess_rule_drift"] = (f"{ndrift} of {len(cases)} guess cases satisfy the property but differ from the "
                                             "modelled rule (below -> lo, above -> midpoint); informational")


# ---- spec -> code: machine histories ---------------------------------------------------------------------------------
def _calls_key(steps) -> str:
    return json.dumps([s["call"] for s in steps], sort_keys=True)


def run_history(conc: drv.Conc, steps: list[dict]) -> list[tuple[str, str]]:
    """Execute one exported history on a real forecaster; judge every step against the exported expectation."""
    rf = drv.curve(conc.curve)
    fc = conc.new()
    res: dict[int, dict] = {}
    bad: list[tuple[str, str]] = []
    m_arg, t_arg = conc.M0 * 0.37, conc.tau0 * 2.1
    teval = conc.t[1:: max(1, len(conc.t) // 20)]
    for k, st in enumerate(steps, start=1):
        cl, ob = st["call"], st["obs"]
        if cl["op"] == "fit":
            a = drv.ext(cl["tau"])
            sup = None if math.isnan(a) else conc.supplied(a)
            outcome, m_, tau_ = drv.do_fit(fc, conc, sup)
            res[k] = {"M": m_, "tau": tau_, "supplied": sup}
            if outcome != "ok":
                bad.append(("Outcome", f"step {k}: fit raised {outcome}"))
                continue
            if not conc.mb[0] <= m_ <= conc.mb[1]:
                bad.append(("MInBounds", f"step {k}: M_={m_!r} outside {conc.mb}"))
            if sup is None:
                if ob["mode"] != "free":
                    raise tlc.MachineryError("exported mode mismatch")
                if not conc.tb[0] <= tau_ <= conc.tb[1]:
                    bad.append(("TauInBounds", f"step {k}: tau_={tau_!r} outside {conc.tb}"))
            elif tau_ != sup:
                bad.append(("FixedTauUnchanged", f"step {k}: fit(tau={sup!r}) left tau_={tau_!r}"))
        else:
            kw = {}
            if cl["M"] == "arg":
                kw["M"] = m_arg
            if cl["tau"] == "arg":
                kw["tau"] = t_arg
            try:
                out = np.asarray(fc.forecast_cum(teval, **kw), dtype=float)
                outcome = "ok"
            except Exception as ex:  # noqa: BLE001
                outcome = type(ex).__name__
            if ob["kind"] == "AttributeError":
                if outcome == "ok":
                    bad.append(("Outcome", f"step {k}: forecast_cum({sorted(kw)}) returned a value although nothing was fitted"))
                continue
            if outcome != "ok":
                bad.append(("Outcome", f"step {k}: forecast_cum({sorted(kw)}) raised {outcome}"))
                continue

            def val(src, which):
                if src["src"] == "arg":
                    return m_arg if which == "M" else t_arg
                if src["src"] == "fit":
                    return res[src["call"]][which]
                return res[src["call"]]["supplied"]

            mu, tu = val(ob["M"], "M"), val(ob["tau"], "tau")
            if drv.arr_e15(out, mu * np.asarray(rf(teval / tu), dtype=float)) > 1000:
                bad.append(("ForecastUses", f"step {k}: forecast_cum({sorted(kw)}) is not M*rf(t/tau) with M from {ob['M']} "
                            f"(= {mu!r}) and tau from {ob['tau']} (= {tu!r})"))
    return bad


def _replay_chunk(args):
    chunk, variant = args
    env.import_bluebonnet()
    out = []
    for i, (bnd, steps) in chunk:
        cname = drv.CURVES[(i + variant) % 3]
        conc = drv.machine_conc(cname, bnd["M"], bnd["tau"], variant * 7919 + i % 11)
        out.append((i, conc.describe(), run_history(conc, steps)))
    return out


def replay_machine(ctx: core.Ctx, r: tlc.TLCResult, depth: int, variants: list[int]) -> None:
    behs = [(b["bnd"], b["steps"]) for b in r.by_tag("BEH")]
    if len(behs) != 4 * 8**depth or len({(json.dumps(b, sort_keys=True), _calls_key(s)) for b, s in behs}) != len(behs):
        raise tlc.MachineryError(f"expected {4 * 8**depth} distinct exported histories, got {len(behs)}")
    items = list(enumerate(behs))
    nchunk = 64
    tasks = [(items[j::nchunk], v) for v in variants for j in range(nchunk)]
    with ProcessPoolExecutor(max_workers=16) as ex:
        for (chunk, v), outs in zip(tasks, ex.map(_replay_chunk, tasks)):
            for i, desc, bad in outs:
                bnd, steps = behs[i]
                ctx.case(f"hist/{v}/{bnd['M']}/{bnd['tau']}/{_calls_key(steps)}")
                for clause, what in bad:
                    ctx.violation(clause, f"history {_fmt(steps)} on {desc}: {what}",
                                  replay={"stage": "history", "bnd": bnd, "steps": steps, "i": i, "variant": v})
    ctx.sample({"part": "machine", "bnd": behs[len(behs) // 3][0], "history": behs[len(behs) // 3][1]})


def _fmt(steps) -> str:
    out = []
    for s in steps:
        cl = s["call"]
        if cl["op"] == "fit":
            a = drv.ext(cl["tau"])
            out.append("fit()" if math.isnan(a) else f"fit(tau~{a:g})")
        else:
            out.append("forecast_cum(" + ",".join(n for n in ("M", "tau") if cl[n] == "arg") + ")")
    return ";".join(out)


# ---- code -> spec ------------------------------------------------------------------------------------------------------
def _record(args):
    cname, seed, first, count, ncalls = args
    env.import_bluebonnet()
    out = []
    for j in range(first, first + count):
        kind = drv.BOUND_KINDS[j % len(drv.BOUND_KINDS)]
        small = (j // len(drv.BOUND_KINDS)) % 3 == 0  # a third of the objects: production numerically small
        evs, info = drv.object_events(cname, kind, [seed, drv.CURVES.index(cname), j, 11], small, ncalls)
        out.append((j, kind, small, evs, info))
    return out


def strip(ev: dict) -> dict:
    return {k: v for k, v in ev.items() if k != "raw"}


def trace_validation(ctx: core.Ctx, per_curve: int, ncalls: int) -> None:
    block = max(1, per_curve // 16)
    tasks = [(cn, ctx.seed, f, min(block, per_curve - f), ncalls) for cn in drv.CURVES for f in range(0, per_curve, block)]
    events, meta = [], {}
    tid = 0
    with ProcessPoolExecutor(max_workers=16) as ex:
        for t, outs in zip(tasks, ex.map(_record, tasks)):
            for j, kind, small, evs, info in outs:
                tid += 1
                meta[tid] = {"curve": t[0], "j": j, "kind": kind, "small": small, "ncalls": ncalls, "info": info, "evs": evs}
                for s, e in enumerate(evs):
                    events.append({"tid": tid, "seq": s, **strip(e)})
                nfit = sum(e["ev"] == "Fit" for e in evs)
                ctx.case(f"obj/{t[0]}/{kind}/{small}/{j}", nontrivial=nfit > 0)
    # the well of defect D16, a fixed object of every run
    env.import_bluebonnet()
    evs, info = drv.d16_events()
    tid += 1
    meta[tid] = {"curve": "ideal", "j": -16, "kind": "default", "small": False, "ncalls": 1, "info": info, "evs": evs}
    for s, e in enumerate(evs):
        events.append({"tid": tid, "seq": s, **strip(e)})
    ctx.case("obj/regression well D16")
    verdicts = trace.validate(ctx, "ForecastTrace", events)
    for v in verdicts:
        m = meta[v["tid"]]
        e = m["evs"][v["seq"]]
        for cl in v["clauses"]:
            if cl == "FitResult" and {"MInBounds", "TauInBounds", "FixedTauUnchanged"} & set(v["clauses"]):
                continue  # the split clauses say the same thing more precisely
            ctx.violation(cl, f"[{m['curve']}/{m['kind']}/object {m['j']}/call {v['seq']}] {EXPLAIN.get(cl, cl)}: {m['info']['conc']}, "
                          f"call #{v['seq']} of {m['info']['calls']}: {e.get('raw')} "
                          f"[{ {k: e[k] for k in e if k.endswith(('e15', '_m', '_tau', 'same', 'outcome'))} }]",
                          replay={"stage": "trace", "curve": m["curve"], "j": m["j"], "small": m["small"],
                                  "ncalls": m["ncalls"], "seed": ctx.seed, "clause": cl})
    fits = [e for m in meta.values() for e in m["evs"] if e["ev"] == "Fit"]
    free_in = [e for e in fits if not e["given"] and e["gen_inside"]]
    ctx.extra["fits"] = {"total": len(fits), "free_with_generating_parameters_inside": len(free_in),
                         "fixed_tau": sum(e["given"] for e in fits),
                         "worst_round_trip_rel": max([max(e["rt_m"], e["rt_tau"]) for e in free_in], default=0) * 1e-9,
                         "worst_fixed_tau_optimum_rel": max([e["opt_e15"] for e in fits if e["given"]], default=0) * 1e-15,
                         "worst_equivariance_rel": max([e["eq_e15"] for e in fits], default=0) * 1e-15}
    ctx.sample({"trace_event": strip(next(e for e in fits if not e["given"])), "raw": next(e for e in fits if not e["given"])["raw"]})


# ---- replay of one reported case -----------------------------------------------------------------------------------------
def replay(ctx: core.Ctx, obj: dict) -> None:
    r = obj["replay"]
    ctx.rule = "replay of one reported case"
    stage = r["stage"]
    if stage in ("bounds", "guess", "scale"):
        cs = r["case"]
        bad = (check_bounds_case(cs) if stage == "bounds" else check_guess_case(cs)[0] if stage == "guess"
               else check_scale_case(cs))
        ctx.case(f"replay/{stage}")
        print("case:", json.dumps(cs))
        if bad:
            ctx.violation(bad[0], bad[1], replay=r)
    elif stage == "history":
        cname = drv.CURVES[(r["i"] + r["variant"]) % 3]
        conc = drv.machine_conc(cname, r["bnd"]["M"], r["bnd"]["tau"], r["variant"] * 7919 + r["i"] % 11)
        print("history:", _fmt(r["steps"]), "on", conc.describe())
        ctx.case("replay/history")
        for clause, what in run_history(conc, r["steps"]):
            ctx.violation(clause, f"history {_fmt(r['steps'])} on {conc.describe()}: {what}", replay=r)
    elif stage == "trace":
        kind = drv.BOUND_KINDS[r["j"] % len(drv.BOUND_KINDS)]
        evs, info = drv.object_events(r["curve"], kind, [r["seed"], drv.CURVES.index(r["curve"]), r["j"], 11], r["small"],
                                      r["ncalls"])
        print("object:", info)
        events = [{"tid": 1, "seq": s, **strip(e)} for s, e in enumerate(evs)]
        ctx.case("replay/trace")
        for v in trace.validate(ctx, "ForecastTrace", events):
            for cl in v["clauses"]:
                ctx.violation(cl, f"{EXPLAIN.get(cl, cl)}: call #{v['seq']} of {info['calls']}: {evs[v['seq']].get('raw')}", replay=r)
    else:
        raise tlc.MachineryError(f"unknown replay stage {stage}")


def run(ctx: core.Ctx) -> None:
    ctx.rule = ("cases = every element of the finite domains of Forecast.tla (Bounds tuples, guesses x well-formed bounds, "
                "curve x time x M x tau), every call history of the forecaster machine up to the depth (x bounds shapes x "
                "concretisations), plus recorded forecaster objects (distinct = curve x bounds kind x seed index) "
                "validated by ForecastTrace.tla")
    ctx.assumptions += [
        "malformed bounds = a tuple of length other than 2 or lo >= hi; 'rejected' = the constructor raises",
        "regularised guesses: every finite end of the bounds is respected and a guess already inside is not moved; the "
        "exact rule (below -> lo, above -> midpoint) is modelled but not demanded (drift is reported in the evidence)",
        "claimed parameter range of the fits: M in [1e-9, 1e9] (a third of the recorded objects in [1e-7, 1e-5]), tau in "
        "[1e-4, 1e8]; beyond M ~ 3e9 the optimiser's xtol test can still stop early on interpolated curves (observed, "
        "outside the claimed range)",
        "round trip: noise-free data, first sample at t = 0, window end in [0.6, 3] tau, 50-399 samples (uniform, "
        "sqrt-spaced or random), generating parameters inside the bounds; tolerance 1e-3 relative",
        "fixed-tau optimum compared with the closed form clip(sum(y rf)/sum(rf^2), lo, hi) to 1e-6 relative",
        "scale equivariance (y -> a y with bounds on M scaled) is demanded only where the round trip is (zero-residual fits)",
        "forecast_cum before any fit and without both overrides must raise (any exception)",
    ]
    ctx.trusted += ["TLC 2026.09", "bbv/quant.py quantisation (exact Fractions)", "scipy interp1d as the curve evaluator",
                    "closed-form optimum evaluated in float64", "projection bbv/drivers/forecast.py"]
    depth = 3 if ctx.quick else 4
    results = tlc_batch(ctx, depth)
    replay_cases(ctx, results)
    if ctx.quick:
        replay_machine(ctx, results["machine"], depth, variants=[0])
        trace_validation(ctx, per_curve=192, ncalls=6)
    else:
        replay_machine(ctx, results["machine"], depth, variants=[0, 1])
        trace_validation(ctx, per_curve=1920, ncalls=8)

    # per-call statement of the property under concurrent use (Reentrant.tla): the same calls from several threads at once
    from ..drivers import threads  # noqa: PLC0415

    threads.clause(ctx, ['forecasts'])


