"""C19 -- the Fluid facade and the gas PVT-table builder reproduce the stand-alone correlations.

TLC:   Facade.tla.  Wiring of every Fluid method and of every correlation column of the gas table (explicit
       table == by-name rule; a parameter set with pairwise different values exposes every other choice /
       permutation / omission of arguments, a mis-wiring hides iff a wired value is shared), the pressure grid
       (numpy.arange length rule == {10k : 10 <= 10k < max}, ten maxima incl. the exclusive end), the
       pseudopressure column on exact tiny tables, the Sutton point (hydrocarbon-only reduction, zero-fraction
       component, unknown fluid type) on exact rationals.  Three deviation configs must be refuted.
S->C:  every exported record is replayed: each facade method on 40 / 1000 parameter sets with pairwise different values
       against the exported primitive call; build_pvt_gas for every exported maximum (grid, outcome) and every
       row / every k-th row against the exported row wiring at the Sutton point assembled as the spec says;
       Sutton cases against the exported exact values / with-and-without the zero-fraction component.
The thresholds (ulps, relative errors) are exported by the spec (RULES record).
"""
from __future__ import annotations

import math
import warnings
from fractions import Fraction

import numpy as np

from .. import core, exact, quant, tlc
from ..drivers import facade as drv

DEVIATIONS = (("MC_Facade_dev_CoincidingValues.cfg", "EveryEnvExposes"),
              ("MC_Facade_dev_GridInclusive.cfg", "GridExclusive"),
              ("MC_Facade_dev_ZeroFractionCounts.cfg", "ZeroFractionInert"))


class Spec:
    """What TLC exported (one exhaustive run of MC_Facade.cfg)."""

    def __init__(self, r: tlc.TLCResult):
        self.wiring = {tuple(w["unit"]): w for w in r.by_tag("WIRING")}
        self.grid = {tuple(g["max"]): g for g in r.by_tag("GRID")}
        self.pseudo = r.by_tag("PSEUDO")
        self.hc = r.by_tag("SUTTON_HC")
        self.zero = r.by_tag("SUTTON_ZERO")
        self.dryness = r.by_tag("DRYNESS")
        rules = r.by_tag("RULES")
        if len(rules) != 1 or len(self.wiring) != 11 or len(self.grid) < 8 or not self.pseudo or not self.hc \
                or not self.zero or not self.dryness:
            raise tlc.MachineryError("Facade.tla did not export the expected records")
        self.rules = rules[0]
        self.ulp_max = int(self.rules["ulp_max"])
        self.pseudo_rel = self.rules["pseudo_rel_e15"] * 1e-15
        self.sutton_rel = self.rules["sutton_rel_e15"] * 1e-15

    def bind(self) -> None:
        """The spec's tables must be about the code's primitives, and the harness oracle about the spec's rule."""
        P = drv.prims()
        for w in self.wiring.values():
            have = drv.leading_formals(P[w["prim"]], len(w["formals"]))
            if have != list(w["formals"]):
                raise tlc.MachineryError(f"Facade.tla Formal[{w['prim']}] = {w['formals']} but the code has {have}")
        nh = self.rules["sutton"]["nonhc"]
        if drv.leading_formals(P[nh["prim"]], len(nh["formals"])) != list(nh["formals"]):
            raise tlc.MachineryError("make_nonhydrocarbon_properties changed its leading parameters")
        for rec in self.pseudo:
            f = lambda xs: [float(exact.frac(x)) for x in xs]  # noqa: E731
            got = drv.pseudo_oracle(f(rec["p"]), f(rec["mu"]), f(rec["z"]), self.rules["pseudo"]["factor"])
            for g, e in zip(got, rec["expect"]):
                if not exact.close(float(g), e, rel=1e-14):
                    raise tlc.MachineryError(f"pseudopressure oracle disagrees with Facade!Pseudo on {rec}")


def load_spec(ctx: core.Ctx) -> Spec:
    r = ctx.model_check("Facade", "MC_Facade.cfg", workers=4)
    s = Spec(r)
    s.bind()
    return s


# ---- judges: payload (self-contained inputs) -> list of (clause, what) ----------------------------------------
def judge_facade(spec: Spec, pl: dict) -> tuple[list, dict]:
    w = spec.wiring[("facade", pl["method"])]
    ps = {"fields": pl["fields"], "args": dict(pl["args"]), "pressure_box": pl.get("pressure_box", "array")}
    if "pressure" in ps["args"]:
        ps["args"]["pressure"] = np.asarray(ps["args"]["pressure"], dtype=np.dtype(pl.get("pressure_dtype", "float64")))
    try:
        res = drv.facade_case(w, ps)
    except Exception as ex:  # noqa: BLE001
        return [("Delegation", f"Fluid.{pl['method']} raised {type(ex).__name__}: {ex}")], {}
    fails = []
    if res["ulps"] > spec.ulp_max:
        fails.append(("Delegation", f"Fluid(**{_short(pl['fields'])}).{pl['method']}(...) = {res['got'][:3]} but "
                      f"{w['prim']}({', '.join(a[1] for a in w['args'])}) = {res['ref'][:3]} ({res['ulps']} ulp)"))
    return fails, res


def _short(d: dict) -> str:
    return "{" + ", ".join(f"{k}={v:.6g}" for k, v in d.items()) + "}"


def judge_table(spec: Spec, pl: dict) -> tuple[list, dict]:
    g = spec.grid[tuple(pl["max"])]
    gv, dry = pl["gv"], pl["dryness"]
    mx = float(Fraction(*pl["max"]))
    info = {"rows": 0}
    try:
        df = drv.build_table(gv, dry, mx)
    except Exception as ex:  # noqa: BLE001
        if g["outcome"] == "empty":
            return [], info  # an empty grid may be refused
        return [("Grid", f"build_pvt_gas(.., {dry!r}, {mx}) raised {type(ex).__name__}: {ex}")], info
    if g["outcome"] == "empty":
        return ([("Grid", f"maximum {mx}: expected no rows, got {len(df)}")] if len(df) else []), info
    fails = []
    n = g["n"]
    want_p = g["first"] + g["step"] * np.arange(n, dtype=float)
    missing = [c for c in spec.rules["columns"] if c not in df.columns]
    if missing:
        return [("Columns", f"columns {missing} missing")], info
    p = df["pressure"].to_numpy(dtype=float)
    if len(p) != n or not np.array_equal(p, want_p):
        fails.append(("Grid", f"maximum {mx}: expected {n} rows {g['first']}..{g['last']} step {g['step']}, got "
                      f"{len(p)} rows {p[:1].tolist()}..{p[-1:].tolist()}"))
        return fails, info
    with warnings.catch_warnings():
        warnings.simplefilter("ignore")
        tpc, ppc = drv.sutton_point(spec.rules, gv, dry)
        rows = sorted(set(range(0, n, int(pl.get("stride", 1)))) | {n - 1})
        worst = 0
        for i in rows:
            for col in ("z-factor", "Density", "viscosity", "compressibility"):
                w = spec.wiring[("row", col)]
                ref = drv.row_reference(w, gv, tpc, ppc, float(p[i]))
                u = quant.ulps(float(df[col].iloc[i]), ref)
                worst = max(worst, u)
                if u > spec.ulp_max and len(fails) < 4:
                    fails.append(("Row", f"{dry}, gravity {gv['Gas Specific Gravity']:.4g}, row p={p[i]}: column "
                                  f"{col} = {df[col].iloc[i]!r} but {w['prim']} at the Sutton point "
                                  f"({tpc:.6g}, {ppc:.6g}) gives {ref!r} ({u} ulp)"))
            tcol = float(df["temperature"].iloc[i])
            if quant.ulps(tcol, gv[spec.rules["plain"]["temperature"][1]]) > spec.ulp_max and len(fails) < 4:
                fails.append(("Row", f"temperature column {tcol} at p={p[i]} is not the supplied temperature"))
    info["rows"] = len(rows)
    info["worst_ulp"] = worst
    pr = spec.rules["pseudo"]
    want = drv.pseudo_oracle(p, df[pr["integrand"][1]].to_numpy(), df[pr["integrand"][2]].to_numpy(), pr["factor"])
    got = df[pr["column"]].to_numpy(dtype=float)
    if got[0] != pr["initial"]:
        fails.append(("Pseudopressure", f"first pseudopressure {got[0]} is not {pr['initial']}"))
    rel = [drv.relerr(got[i], float(want[i])) for i in range(1, n)]
    if rel and max(rel) > spec.pseudo_rel:
        i = int(np.argmax(rel)) + 1
        fails.append(("Pseudopressure", f"row p={p[i]}: pseudopressure {got[i]!r} but 2*cumtrapz(p/(mu z)) of the "
                      f"table's own columns = {float(want[i])!r} (rel {rel[i - 1]:.2e})"))
    return fails, info


def _sutton(g, n2, h2s, co2, dry, *others):
    """The composition is described first, then another gas is described (and kept), then the first one is evaluated: a
    composition is a value of its own, whatever else has been described in the meantime."""
    P = drv.prims()
    with warnings.catch_warnings():
        warnings.simplefilter("ignore")
        comp = P["make_nonhydrocarbon_properties"](n2, h2s, co2, *others)
        other = P["make_nonhydrocarbon_properties"](0.11 - n2, 0.07 - h2s, 0.13 - co2)   # a different (sour) gas, still alive
        P["pseudocritical_point_Sutton"](g, comp, "wet gas" if dry == "dry gas" else "dry gas")   # the same table used before
        out = P["pseudocritical_point_Sutton"](g, comp, dry)
        del other
        return out


def judge_sutton_hc(spec: Spec, pl: dict) -> list:
    g, dry = pl["g"], pl["dryness"]
    t, p = _sutton(g, 0.0, 0.0, 0.0, dry)
    if "expect" in pl:  # exact values from TLC
        et, ep = (float(exact.frac(x)) for x in pl["expect"])
    else:  # the hydrocarbon-only quadratics with the spec's coefficients
        k = spec.rules["coef"]["dry" if dry == "dry gas" else "wet"]
        q = lambda c: float(exact.frac(c[0]) + exact.frac(c[1]) * Fraction(g) + exact.frac(c[2]) * Fraction(g) ** 2)  # noqa: E731
        et, ep = q(k["t"]) - float(exact.frac(spec.rules["rankine"])), q(k["p"])
    fails = []
    # the Fahrenheit value is a difference of Rankine values: judge it on the Rankine scale
    rk = float(exact.frac(spec.rules["rankine"]))
    if drv.relerr(t + rk, et + rk) > spec.sutton_rel or drv.relerr(p, ep) > spec.sutton_rel:
        fails.append(("HydrocarbonOnly", f"pseudocritical_point_Sutton({g!r}, no contaminants, {dry!r}) = ({t!r}, {p!r}) "
                      f"but the hydrocarbon-only correlation gives ({et!r}, {ep!r})"))
    return fails


def judge_sutton_zero(spec: Spec, pl: dict) -> list:
    g, dry = pl["g"], pl["dryness"]
    base = _sutton(g, pl["n2"], pl["h2s"], pl["co2"], dry)
    more = _sutton(g, pl["n2"], pl["h2s"], pl["co2"], dry, ("Extra", 0.0, *pl["extra"]))
    # the point of a composition table does not depend on whether the table was used before: a freshly described table, used once
    P = drv.prims()
    with warnings.catch_warnings():
        warnings.simplefilter("ignore")
        once = P["pseudocritical_point_Sutton"](g, P["make_nonhydrocarbon_properties"](pl["n2"], pl["h2s"], pl["co2"]), dry)
    if max(quant.ulps(base[0], once[0]), quant.ulps(base[1], once[1])) > spec.ulp_max:
        return [("ZeroFraction", f"gravity {g!r}, (N2,H2S,CO2)=({pl['n2']},{pl['h2s']},{pl['co2']}), {dry!r}: a composition table that "
                 f"was evaluated before gives {base}, a freshly described one {once}")]
    if max(quant.ulps(base[0], more[0]), quant.ulps(base[1], more[1])) > spec.ulp_max:
        return [("ZeroFraction", f"gravity {g!r}, (N2,H2S,CO2)=({pl['n2']},{pl['h2s']},{pl['co2']}), {dry!r}: a zero-fraction "
                 f"component {pl['extra']} moves the point from {base} to {more}")]
    return []


def judge_dryness(spec: Spec, pl: dict) -> list:
    want = pl["outcome"]
    try:
        t, p = _sutton(pl.get("g", 0.7), *pl.get("fractions", (0.02, 0.01, 0.03)), pl["dryness"])
        got = "value" if math.isfinite(t) and math.isfinite(p) else "nan"
    except ValueError:
        got = "ValueError"
    except Exception as ex:  # noqa: BLE001
        got = type(ex).__name__
    if got != want:
        return [("UnknownFluid", f"fluid type {pl['dryness']!r}: expected {want}, got {got}")]
    return []


JUDGES = {"facade": lambda s, pl: judge_facade(s, pl)[0], "table": lambda s, pl: judge_table(s, pl)[0],
          "sutton_hc": judge_sutton_hc, "sutton_zero": judge_sutton_zero, "dryness": judge_dryness}


def _report(ctx: core.Ctx, fails: list, payload: dict) -> None:
    for clause, what in fails:
        ctx.violation(clause, what, replay=payload)


# ---- stages ---------------------------------------------------------------------------------------------------
def stage_facade(ctx: core.Ctx, spec: Spec, n_sets: int) -> None:
    worst = 0
    for (kind, method), w in sorted(spec.wiring.items()):
        if kind != "facade":
            continue
        rng = np.random.default_rng([ctx.seed, 19, 1, sum(map(ord, method))])
        for k in range(n_sets):
            ps = drv.param_set(rng)
            args = {a: (ps["args"][a].tolist() if a == "pressure" else ps["args"][a])
                    for a in (s[1] for s in w["sources"] if s[0] == "arg")}
            pl = {"stage": "facade", "method": method, "fields": ps["fields"], "args": args,
                  "pressure_dtype": str(ps["args"]["pressure"].dtype), "pressure_box": ps.get("pressure_box", "array")}
            fails, res = judge_facade(spec, pl)
            ctx.case(f"facade/{method}/{k}")
            worst = max(worst, res.get("ulps", 0))
            _report(ctx, fails, pl)
            if k == 0 and method in ("water_viscosity", "gas_viscosity"):
                ctx.sample({"facade": method, "fields": ps["fields"], "primitive": w["prim"],
                            "args": [a[1] for a in w["args"]], "ulps": res.get("ulps")})
    ctx.extra["facade_worst_ulp"] = worst


def stage_tables(ctx: core.Ctx, spec: Spec, n_comp: int, n_full: int, stride_full: int) -> None:
    rng = np.random.default_rng([ctx.seed, 19, 2])
    rows = 0
    worst = 0
    comps = [drv.gas_values(rng, zero=(i == 1), only={2: "N2", 3: "H2S", 4: "CO2"}.get(i % 8 if i >= 8 else i)) for i in range(n_comp)]
    # the ends of the gravity axis: methane (0.5538) and a very rich gas, beyond any "usual range" a helper might clip to
    for i, g in ((5, 0.5538), (6, 1.75), (7, 0.56)):
        if i < n_comp:
            comps[i]["Gas Specific Gravity"] = g
    full = (14000, 1)
    for mx in sorted(spec.grid, key=lambda m: m[0] / m[1]):
        todo = comps[:n_full] if mx == full else comps
        for i, gv in enumerate(todo):
            for dry in ("dry gas", "wet gas") if (mx != full or i == 0) else (("dry gas", "wet gas")[i % 2],):
                pl = {"stage": "table", "gv": gv, "dryness": dry, "max": list(mx),
                      "stride": stride_full if mx == full else 1}
                fails, info = judge_table(spec, pl)
                ctx.case(f"table/{mx[0]}/{mx[1]}/{i}/{dry}", nontrivial=spec.grid[mx]["outcome"] != "empty")
                rows += info.get("rows", 0)
                worst = max(worst, info.get("worst_ulp", 0))
                _report(ctx, fails, pl)
    ctx.sample({"table": {"gas_values": comps[0], "maxima": sorted(float(Fraction(*m)) for m in spec.grid)},
                "rows_expected": {str(float(Fraction(*m))): g["n"] for m, g in spec.grid.items()}})
    ctx.extra["table_rows_checked"] = rows
    ctx.extra["table_worst_ulp"] = worst


def stage_sutton(ctx: core.Ctx, spec: Spec, n_rand: int) -> None:
    rng = np.random.default_rng([ctx.seed, 19, 3])
    for rec in spec.hc:
        pl = {"stage": "sutton_hc", "g": float(exact.frac(rec["g"])), "dryness": rec["dryness"], "expect": rec["expect"]}
        ctx.case(f"hc/{rec['g']}/{rec['dryness']}")
        _report(ctx, judge_sutton_hc(spec, pl), pl)
    for k in range(n_rand):
        pl = {"stage": "sutton_hc", "g": float(rng.uniform(0.55, 1.6)), "dryness": ("dry gas", "wet gas")[k % 2]}
        ctx.case(f"hc/rand/{k}")
        _report(ctx, judge_sutton_hc(spec, pl), pl)
    fl = lambda x: float(exact.frac(x))  # noqa: E731
    for j, rec in enumerate(spec.zero):
        for dry in ("dry gas", "wet gas"):
            pl = {"stage": "sutton_zero", "g": (0.62, 0.71, 0.83, 0.97)[j % 4], "dryness": dry, "n2": fl(rec["n2"]),
                  "h2s": fl(rec["h2s"]), "co2": fl(rec["co2"]), "extra": [fl(x) for x in rec["extra"]]}
            ctx.case(f"zero/{j}/{dry}")
            _report(ctx, judge_sutton_zero(spec, pl), pl)
    for k in range(n_rand):
        pl = {"stage": "sutton_zero", "g": float(rng.uniform(0.6, 1.2)), "dryness": ("dry gas", "wet gas")[k % 2],
              "n2": float(rng.uniform(0, 0.1)), "h2s": float(rng.uniform(0, 0.06)), "co2": float(rng.uniform(0, 0.1)),
              "extra": [float(rng.uniform(2, 200)), float(rng.uniform(10, 1500)), float(rng.uniform(20, 4000))]}
        ctx.case(f"zero/rand/{k}")
        _report(ctx, judge_sutton_zero(spec, pl), pl)
    for rec in spec.dryness:
        for fr in ((0.02, 0.01, 0.03), (0.0, 0.0, 0.0), (0.04, 0.0, 0.0)):   # with contaminants, contaminant-free, nitrogen only
            pl = {"stage": "dryness", "dryness": rec["dryness"], "outcome": rec["outcome"], "fractions": list(fr)}
            ctx.case(f"dryness/{rec['dryness']}/{fr}")
            _report(ctx, judge_dryness(spec, pl), pl)
    ctx.sample({"sutton_hc": spec.hc[0], "dryness": spec.dryness[0]})


def replay(ctx: core.Ctx, obj: dict) -> None:
    spec = load_spec(ctx)
    pl = obj["replay"]
    fails = JUDGES[pl["stage"]](spec, pl)
    print("payload:", pl)
    ctx.rule = "replay of one recorded case"
    ctx.case("replay")
    _report(ctx, fails, pl)


def run(ctx: core.Ctx) -> None:
    ctx.rule = ("case = (facade method, parameter set with pairwise different field values and a pressure array) | "
                "(gas composition, dryness, maximum pressure) table | Sutton special case; every case is replayed "
                "against the wiring / grid / exact value exported by Facade.tla; distinct = case id")
    ctx.assumptions += [
        "parameter sets are drawn inside the correlations' published ranges (100-350 F, 15-55 API, gravity 0.58-1.15, "
        "GOR 150-1800, salinity 0.5-25 without 15, pseudocritical point in (-115..-45 F, 600..720 psia), 120-9000 psia)",
        "'to rounding error' = at most 4 ulp between the facade / table entry and the stand-alone correlation called "
        "with the same values (the correlation evaluated on the array or element by element, whichever is closer)",
        "pseudopressure column: relative 1e-12 against 2*cumulative trapezoid of p/(mu z) over p of the table's own "
        "columns accumulated in extended precision",
        "a maximum pressure <= 10 psi gives an empty grid: build_pvt_gas may return an empty table or raise; it must not "
        "return rows (today it raises ValueError from scipy)",
        "Fluid methods are called with float64 pressure arrays (the documented argument type)",
    ]
    ctx.trusted += ["TLC", "numpy spacing (ulp)", "inspect.signature of the primitives == Facade!Formal (checked)",
                    "extended-precision pseudopressure oracle == Facade!Pseudo on the exported exact tables (checked)"]
    for cfg, inv in DEVIATIONS:
        ctx.expect_refuted("Facade", cfg, inv, workers=1)
    spec = load_spec(ctx)
    if ctx.quick:
        stage_facade(ctx, spec, 40)
        stage_tables(ctx, spec, n_comp=7, n_full=1, stride_full=7)
        stage_sutton(ctx, spec, 200)
    else:
        stage_facade(ctx, spec, 4000)
        stage_tables(ctx, spec, n_comp=30, n_full=16, stride_full=1)
        stage_sutton(ctx, spec, 40000)

    # per-call statement of the property under concurrent use (Reentrant.tla): the same calls from several threads at once
    from ..drivers import threads  # noqa: PLC0415

    threads.clause(ctx, ['facade', 'sutton', 'tables'])


