"""C06 -- the gas Z-factor is the root of the Dranchuk-Abou-Kassem equation of state; Hall-Yarbrough terminates
and agrees on the common range.

TLC    MC_GasEOS.tla: the design lattice (T_r x p_r ladder + the pinned Hall-Yarbrough corner) with the domain
       decisions (validity rectangle, ToOne region, common range) in exact rationals; every abstract class of a
       point's observations against the explanation table of open finding D6 (a root of neither equation is never
       explained); deviation "ExplainAnyRootFailure" must be refuted.
S->C   every exported lattice point is evaluated by the real z_factor_DAK (several pseudocritical points) with the
       side / domain flags TLC exported.
C->S   isotherms of the real code (lattice + dense + random points, tables made by build_pvt_gas) are logged as
       integer observations and judged by SweepC06.tla (rule tables over GasEOS.tla thresholds): Root (published
       residual <= 1e-9), NotBound, NotGuess, Continuous, ToOne, HYDone, HYAgree.  GasEOSTrace.tla decides point by
       point which Root / HYAgree failure carries the structural signature of D6.
"""
from __future__ import annotations

import math
from concurrent.futures import ProcessPoolExecutor

import numpy as np

from .. import core, env, quant, sweep, tlc, trace
from ..drivers import gaseos
from ..oracle import dak

X_HI = 32.0  # window of the sweep coordinate x = p_r
HY_TIMEOUT_BUDGET = 6  # watchdog expiries after which the run stops calling Hall-Yarbrough
RANK = 459.67  # only to turn a target T_r into a Fahrenheit input; the residual uses the T_r the code computes

# pseudocritical points (T_pc in Rankine, p_pc in psia): the design's, methane, a heavy gas, a sour wet gas
PCS_QUICK = [(400.0, 650.0), (343.0, 667.0), (520.0, 600.0), (459.67, 622.0)]   # the last one is a pseudocritical temperature of exactly 0 F (a wet gas of gravity 1.02)
PCS_THOROUGH = PCS_QUICK + [(372.3, 661.9), (455.1, 641.0), (410.0, 720.0), (480.0, 560.0), (357.45, 648.5)]


# ---- implementation side (worker processes) ---------------------------------------------------------------------
def _z_point(gas, T, p, tpc, ppc, T_arg=None, p_arg=None):
    """One call of the real z_factor_DAK and the reference measurements at the reduced state the code itself uses.
    T_arg / p_arg: the objects actually handed over (a 0-d array kept by the caller and used again, a numpy scalar)."""
    try:
        z = float(gas.z_factor_DAK(T if T_arg is None else T_arg, p if p_arg is None else p_arg, tpc, ppc))
        note = None
    except Exception as ex:  # noqa: BLE001  an exception inside the domain is an observation (Z = NaN)
        z, note = math.nan, repr(ex)[:160]
    tr = (T + 459.67) / (tpc + 459.67)
    pr = p / ppc
    rp = dak.residual_at_z(z, tr, pr, dak.PUBLISHED) if z == z else math.inf
    rv = dak.residual_at_z(z, tr, pr, dak.VARIANT) if z == z else math.inf
    d = {"T": T, "p": p, "tpc": tpc, "ppc": ppc, "tr": tr, "pr": pr, "z": z, "resid_pub": rp, "resid_var": rv}
    if note:
        d["exception"] = note
    return d


def _isotherm(task):
    """task: {tpcR, ppc, tr, prs} -> list of point dicts (real code evaluated at every p_r)."""
    env.import_bluebonnet()
    from bluebonnet.fluids import gas  # noqa: PLC0415

    tpc = task["tpcR"] - RANK
    T = task["tr"] * task["tpcR"] - RANK
    pts = []
    # history independence: the same process first evaluates ANOTHER gas (other pseudocritical point) at the very same
    # reservoir temperature and pressures; what it returned for that gas must not leak into this one
    other = task["tpcR"] * (0.9 if task["tr"] / 0.9 <= 3.0 else 1.1)
    for prn in task["prs"][:: max(1, len(task["prs"]) // 3)]:
        try:
            gas.z_factor_DAK(T, prn * task["ppc"], other - RANK, task["ppc"] * 1.07)
        except Exception:  # noqa: BLE001  (the warm-up is not what is judged)
            pass
    # the reservoir temperature of an isotherm is one object for the whole sweep: a Python float, a numpy scalar, or the 0-d array
    # an interpolator or a table cell hands back; pressures likewise
    form = int(round(task["tr"] * 1000 + task["tpcR"])) % 4
    T_obj = {0: None, 1: np.float64(T), 2: np.array(T, dtype=np.float64), 3: np.array([T], dtype=np.float64)[0:1].reshape(())}[form]
    for prn in task["prs"]:
        p_val = prn * task["ppc"]
        p_obj = np.array(p_val, dtype=np.float64) if form == 3 else None
        d = _z_point(gas, T, p_val, tpc, task["ppc"], T_arg=T_obj, p_arg=p_obj)
        if p_obj is not None:   # the same pressure object evaluated once more
            d2 = _z_point(gas, T, p_val, tpc, task["ppc"], T_arg=T_obj, p_arg=p_obj)
            if not (d2["z"] == d["z"] or (d2["z"] != d2["z"] and d["z"] != d["z"])):
                d = d2 | {"second_evaluation_of_the_same_objects": True, "first_z": d["z"]}
        d["pr_nominal"] = prn
        d["tr_nominal"] = task["tr"]
        if task.get("hy"):
            try:
                d["z_pub"] = dak.solve_z(d["tr"], d["pr"], dak.PUBLISHED)
            except ArithmeticError:
                d["z_pub"] = math.nan
        pts.append(d)
    return pts


def _table(task):
    """task: {gas_values, dryness} -> points of the z-factor column of the real build_pvt_gas (default range)."""
    env.import_bluebonnet()
    from bluebonnet.fluids import fluid, gas  # noqa: PLC0415

    gv = task["gas_values"]
    tpc, ppc = gas.pseudocritical_point_Sutton(
        gv["Gas Specific Gravity"], gas.make_nonhydrocarbon_properties(gv["N2"], gv["H2S"], gv["CO2"]), task["dryness"])
    tpc, ppc = float(tpc), float(ppc)
    tab = fluid.build_pvt_gas(gv, task["dryness"])
    # tables of several wells are built one after the other and used afterwards: another gas is tabulated before this table is read
    other = dict(gv)
    other["Reservoir Temperature (deg F)"] = float(gv["Reservoir Temperature (deg F)"]) + 37.5
    other["Gas Specific Gravity"] = min(1.2, float(gv["Gas Specific Gravity"]) + 0.07)
    try:
        kept = fluid.build_pvt_gas(other, task["dryness"])   # noqa: F841  (kept alive while `tab` is read)
    except Exception:  # noqa: BLE001  (the second table is not what is judged)
        kept = None
    T = float(gv["Reservoir Temperature (deg F)"])
    pts = []
    for p, z in zip(tab["pressure"].to_numpy(), tab["z-factor"].to_numpy()):
        p, z = float(p), float(z)
        tr = (T + 459.67) / (tpc + 459.67)
        pr = p / ppc
        pts.append({"T": T, "p": p, "tpc": tpc, "ppc": ppc, "tr": tr, "pr": pr, "z": z,
                    "resid_pub": dak.residual_at_z(z, tr, pr, dak.PUBLISHED) if z == z else math.inf,
                    "resid_var": dak.residual_at_z(z, tr, pr, dak.VARIANT) if z == z else math.inf,
                    "pr_nominal": pr, "tr_nominal": tr})
    return pts


# ---- projection: point dicts -> sweep events ----------------------------------------------------------------------
def _e15(x: float) -> int:
    return quant.e15_of(x)


def _ppm(a: float, b: float, scale: float) -> int:
    """ceil(|a-b| / scale * 1e6), saturating."""
    return quant.e15(a, b, scale * 1e9)


def _at_bound(z: float) -> bool:
    return z == z and (abs(z / 5.0 - 1.0) <= 1e-12 or abs(z / 0.05 - 1.0) <= 1e-12)


def log_z_sweep(log: sweep.SweepLog, m: gaseos.Model, profile: str, meta: dict, pts: list[dict],
                sides: list[str] | None = None) -> None:
    log.begin(profile, meta)
    prev = None
    for i, d in enumerate(pts):
        prn = d["pr_nominal"]
        z = d["z"]
        agree = {"root_pub": _e15(d["resid_pub"])}
        if prev is not None:
            agree["slope"] = _ppm(z, prev["z"], abs(d["pr"] - prev["pr"]))
        side = sides[i] if sides else m.side(prn)
        if m.toone_applies(prn):
            agree["toone"] = _ppm(z, 1.0, d["pr"])
        flags = {"not_bound": not _at_bound(z), "not_guess": z != 1.0}
        raw = {k: d[k] for k in ("T", "p", "tpc", "ppc", "tr", "pr", "z", "resid_pub", "resid_var")}
        if "exception" in d:
            raw["exception"] = d["exception"]
        raw["kind"] = "z"
        raw["o"] = {"root_pub": agree["root_pub"], "root_var": _e15(d["resid_var"])}
        log.point(quant.q(prn, 0.0, X_HI), side, {"z": quant.q(z, 0.0, 5.0)}, agree, flags, raw)
        prev = d
    log.end()


def log_hy_sweep(log: sweep.SweepLog, meta: dict, pts: list[dict], wd: gaseos.Watchdog) -> None:
    log.begin("hy", meta)
    for d in pts:
        if wd.timeouts >= HY_TIMEOUT_BUDGET:
            # the clause has already failed HY_TIMEOUT_BUDGET times in this run; the remaining points are logged
            # without Hall-Yarbrough fields (nothing is judged for them) instead of waiting 2 s for each
            log.point(quant.q(d["pr_nominal"], 0.0, X_HI), "none", {}, {}, {},
                      {"p_r": d["pr_nominal"], "T_r": d["tr_nominal"], "hy_status": "not evaluated (timeout budget spent)"})
            continue
        status, zhy = wd.call(d["pr_nominal"], d["tr_nominal"])
        done = status == "ok"  # an exception or a kill by the watchdog is not a normal return
        z = d["z"]
        agree = {}
        o = {"root_pub": _e15(d["resid_pub"]), "root_var": _e15(d["resid_var"]), "done": done,
             "hy_code": quant.CAP, "hy_pub": quant.CAP}
        if done:
            ok = math.isfinite(zhy) and z == z and z > 0
            o["hy_code"] = _ppm(zhy / z, 1.0, 1.0) if ok else quant.CAP
            zp = d.get("z_pub", math.nan)
            o["hy_pub"] = _ppm(zhy / zp, 1.0, 1.0) if (math.isfinite(zhy) and zp == zp and zp > 0) else quant.CAP
            agree["hy_code"] = o["hy_code"]
        raw = {"p_r": d["pr_nominal"], "T_r": d["tr_nominal"], "z_hy": zhy, "hy_status": status, "z_code": z,
               "z_published_root": d.get("z_pub"), "T": d["T"], "p": d["p"], "tpc": d["tpc"], "ppc": d["ppc"],
               "kind": "hy", "o": o}
        log.point(quant.q(d["pr_nominal"], 0.0, X_HI), "none", {}, agree, {"hy_done": done}, raw)
    log.end()


# ---- task construction -------------------------------------------------------------------------------------------
def _merge(*seqs) -> list[float]:
    return sorted({float(x) for s in seqs for x in s})


def dak_tasks(ctx: core.Ctx, m: gaseos.Model, n_dense: int, n_rng: int, rng_len: int, pcs) -> list[dict]:
    trs = sorted({p["tr"] for p in m.lattice})
    tasks = []
    dense = list(np.linspace(0.05, float(m.consts["prmax"]), n_dense))
    for tpcR, ppc in pcs:
        for tr in trs:
            ladder = [float(p["pr"]) for p in m.lattice if p["tr"] == tr]
            tasks.append({"what": "lattice isotherm", "tpcR": tpcR, "ppc": ppc, "tr": float(tr),
                          "prs": _merge(ladder, dense), "gen": {"dense": n_dense}})
    rng = np.random.default_rng([ctx.seed, 6, 1])
    lo, hi = m.f("trmin"), m.f("trmax")
    for i in range(n_rng):
        tr = float(rng.uniform(lo, hi)) if i % 4 else float(rng.uniform(lo, 1.2))  # every 4th near the critical isotherm
        tpcR = float(rng.uniform(330.0, 540.0))
        ppc = float(rng.uniform(540.0, 760.0))
        prs = _merge(10 ** rng.uniform(-6.0, math.log10(m.f("prmax")), rng_len // 2),
                     rng.uniform(0.0, m.f("prmax"), rng_len - rng_len // 2), [1e-5, 5e-3, m.f("prmax")])
        prs = [x for x in prs if m.in_validity(tr, x)]
        tasks.append({"what": "random isotherm", "tpcR": tpcR, "ppc": ppc, "tr": tr, "prs": prs, "gen": {"rng": i}})
    return tasks


def hy_tasks(ctx: core.Ctx, m: gaseos.Model, n_dense: int, n_rng: int) -> list[dict]:
    tasks = []
    trs = sorted({p["tr"] for p in m.lattice if p["hy"]})
    dense = list(np.linspace(m.f("hyprmin"), m.f("hyprmax"), n_dense))
    for tr in trs:
        pts = [float(p["pr"]) for p in m.lattice if p["tr"] == tr and p["hy"]]
        tasks.append({"what": "Hall-Yarbrough isotherm", "tpcR": 400.0, "ppc": 650.0, "tr": float(tr),
                      "prs": _merge(pts, dense), "hy": True})
    rng = np.random.default_rng([ctx.seed, 6, 2])
    for i in range(n_rng):
        corner = i % 3 == 0  # a third of the random isotherms in the corner where the Newton step used to leave (0,1)
        tr = float(rng.uniform(1.2, 1.3)) if corner else float(rng.uniform(m.f("hytrmin"), m.f("hytrmax")))
        prs = _merge(rng.uniform(18.0 if corner else m.f("hyprmin"), m.f("hyprmax"), 24), [m.f("hyprmin"), m.f("hyprmax")])
        tasks.append({"what": "Hall-Yarbrough random isotherm", "tpcR": 400.0, "ppc": 650.0, "tr": tr, "prs": prs,
                      "hy": True})
    return tasks


def table_tasks(quick: bool) -> list[dict]:
    def gv(g, t, n2=0.0, h2s=0.0, co2=0.0):
        return {"N2": n2, "H2S": h2s, "CO2": co2, "Gas Specific Gravity": g, "Reservoir Temperature (deg F)": t}

    if quick:
        return [{"gas_values": gv(0.55, 400.0), "dryness": "dry gas"},
                {"gas_values": gv(0.65, 285.21375, 0.03, 0.012, 0.018), "dryness": "dry gas"},   # reservoir temperatures are real numbers
                {"gas_values": gv(1.2, 80.0), "dryness": "wet gas"}]
    out = []
    for g in (0.55, 0.6, 0.65, 0.7, 0.8, 0.9, 1.0, 1.1, 1.2):
        for t in (80.0, 120.75, 200.0, 299.9, 400.0):
            out.append({"gas_values": gv(g, t), "dryness": "wet gas"})
            out.append({"gas_values": gv(g, t, 0.03, 0.012, 0.018) if g >= 0.65 else gv(g, t), "dryness": "dry gas"})
    return out


# ---- canary: the rule tables are not vacuous --------------------------------------------------------------------------
def canary(ctx: core.Ctx, m: gaseos.Model) -> None:
    """A synthetic isotherm in which each clause is broken exactly once must be rejected clause by clause
    (binding of every field SweepC06.tla reads); a clean one must be accepted."""
    log = sweep.SweepLog()
    prs = [1e-4, 1e-3, 0.01, 0.5, 1.0, 2.0, 3.0, 4.0, 5.0, 6.0]

    def pt(i, **kw):
        z = kw.get("z", 0.9)
        agree = {"root_pub": kw.get("root_pub", 10)}
        if i:
            agree["slope"] = kw.get("slope", 1000)
        if m.toone_applies(prs[i]):
            agree["toone"] = kw.get("toone", 300000)
        log.point(quant.q(prs[i], 0.0, X_HI), m.side(prs[i]), {"z": quant.q(z, 0.0, 5.0)}, agree,
                  {"not_bound": kw.get("not_bound", True), "not_guess": kw.get("not_guess", True)}, {})

    log.begin("dak", {"what": "canary clean"})
    for i in range(len(prs)):
        pt(i)
    log.end()
    log.begin("dak", {"what": "canary broken"})
    pt(0)
    pt(1, toone=2000001)
    pt(2)
    pt(3, root_pub=1000001)
    pt(4, slope=4000001)
    pt(5, not_bound=False)
    pt(6, not_guess=False)
    pt(7, z=math.nan)
    pt(8, toone=quant.CAP)  # outside the ToOne region: not logged, must not alarm
    pt(9)
    log.end()
    log.begin("hy", {"what": "canary hy"})
    log.point(quant.q(1.0, 0.0, X_HI), "none", {}, {"hy_code": 50000}, {"hy_done": True}, {})
    log.point(quant.q(2.0, 0.0, X_HI), "none", {}, {"hy_code": 50001}, {"hy_done": True}, {})
    log.point(quant.q(3.0, 0.0, X_HI), "none", {}, {}, {"hy_done": False}, {})
    log.end()
    n0 = ctx.events
    verdicts = trace.validate(ctx, "SweepC06", log.events, count_traces=False)
    ctx.events = n0
    got = sorted((v["tid"], v["seq"], tuple(sorted(v["clauses"]))) for v in verdicts if v["clauses"])
    want = sorted([(2, 2, ("Agree:toone",)), (2, 4, ("Agree:root_pub",)), (2, 5, ("Agree:slope",)),
                   (2, 6, ("Flag:not_bound",)), (2, 7, ("Flag:not_guess",)), (2, 8, ("NaN:z",)),
                   (3, 2, ("Agree:hy_code",)), (3, 3, ("Flag:hy_done",))])
    if got != want:
        raise tlc.MachineryError(f"SweepC06 canary: verdicts {got}, expected {want}")


# ---- the check ---------------------------------------------------------------------------------------------------------
def judge_all(ctx: core.Ctx, log: sweep.SweepLog, max_events: int = 60000) -> None:
    for piece in gaseos.split_log(log, max_events):
        keys = gaseos.classify(ctx, piece)
        sweep.judge(ctx, "SweepC06", piece, explain=gaseos.explainer(keys))


def run_sweeps(ctx: core.Ctx, m: gaseos.Model, dtasks, htasks, ttasks) -> sweep.SweepLog:
    log = sweep.SweepLog()
    skipped = 0
    with ProcessPoolExecutor(max_workers=16) as ex:
        dres = list(ex.map(_isotherm, dtasks, chunksize=2))
        hres = list(ex.map(_isotherm, htasks, chunksize=1))
        tres = list(ex.map(_table, ttasks, chunksize=1))
    for t, pts in zip(dtasks, dres):
        meta = {"what": t["what"], "T_pc_R": t["tpcR"], "p_pc": t["ppc"], "T_r": t["tr"],
                "task": {k: t[k] for k in ("tpcR", "ppc", "tr", "prs")} if len(t["prs"]) <= 80
                else {"tpcR": t["tpcR"], "ppc": t["ppc"], "tr": t["tr"], "gen": t["gen"]}}
        log_z_sweep(log, m, "dak", meta, pts)
        for d in pts:
            ctx.case(f"z|{t['tpcR']}|{t['ppc']}|{d['T']!r}|{d['p']!r}")
    for t, pts in zip(ttasks, tres):
        inside = [d for d in pts if m.in_validity(d["tr"], d["pr"])]
        skipped += len(pts) - len(inside)
        if len(inside) < 8:
            continue  # the whole table lies outside 1.05 <= T_r <= 3 (e.g. a heavy dry gas at 80 F)
        meta = {"what": "build_pvt_gas table", "task": {"table": t}, "T_r": inside[0]["tr"]}
        log_z_sweep(log, m, "table", meta, inside)
        for d in inside:
            ctx.case(f"tab|{d['tpc']!r}|{d['T']!r}|{d['p']!r}")
    wd = gaseos.Watchdog(2.0)
    try:
        for t, pts in zip(htasks, hres):
            meta = {"what": t["what"], "T_r": t["tr"], "task": {k: t[k] for k in ("tpcR", "ppc", "tr", "prs", "hy")}
                    if len(t["prs"]) <= 80 else {"tr": t["tr"], "hy": True}}
            log_hy_sweep(log, meta, pts, wd)
            for d, raw in zip(pts, log.meta[log._tid]["points"]):  # noqa: SLF001
                if "o" in raw:
                    ctx.case(f"hy|{d['tr_nominal']!r}|{d['pr_nominal']!r}")
    finally:
        ctx.extra["hy_watchdog_timeouts"] = ctx.extra.get("hy_watchdog_timeouts", 0) + wd.timeouts
        wd.close()
    ctx.extra["table_rows_outside_validity_skipped"] = ctx.extra.get("table_rows_outside_validity_skipped", 0) + skipped
    return log


def describe(ctx: core.Ctx) -> None:
    ctx.rule = ("one case = one evaluation of the real z_factor_DAK / build_pvt_gas row / z_factor_hallyarbrough at a "
                "distinct (T, p, T_pc, p_pc); lattice = T_r x p_r ladder exported by MC_GasEOS.tla, for several "
                "pseudocritical points, refined by a dense p_r grid, random isotherms and default-range tables")
    ctx.assumptions += [
        "reference equation: Dranchuk & Abou-Kassem (1975) as published (A1 + A2/T_r + ... first coefficient), "
        "constants re-typed in bbv/oracle/dak.py; residual F(rho) = 0.27 p_r/(T_r rho) - Z_eos(rho) evaluated in float64 "
        "(error <= 1e-13) at the T_r, p_r the code itself forms",
        "Hall-Yarbrough is called as z_factor_hallyarbrough(pressure=p_r, temperature=T_r) (its body uses t = 1/temperature, "
        "i.e. reduced arguments); common range = T_r in [1.2, 3], 0.2 <= p_r <= 24 (HY: 0.1..24, DAK: 0.2..30)",
        "'terminates' is decided by a 2 s watchdog on a child process (finite surrogate); 'tends to 1' by |Z-1| <= 2 p_r "
        "for p_r <= 1e-2 down to p_r = 1e-6; 'continuous' by |dZ| <= 4 |dp_r| between neighbouring sweep points",
        "table rows with T_r outside [1.05, 3] are outside the quantifier and skipped (counted in the evidence)",
        "open finding D6 explains a Root / HYAgree failure only where GasEOSTrace.tla established, for that point, that "
        "the returned Z is a root (<= 1e-9) of the variant equation and not of the published one (and Z_HY is within "
        "5 % of the oracle's published root)",
    ]
    ctx.trusted += ["TLC 2026.09", "bbv/oracle/dak.py (published DAK residual, bracketed published root)",
                    "bbv/quant.py (exact quantisation)", "scipy.optimize.brentq inside the oracle only"]


def run(ctx: core.Ctx) -> None:
    describe(ctx)
    m = gaseos.model(ctx)
    canary(ctx, m)
    if ctx.quick:
        dtasks = dak_tasks(ctx, m, n_dense=121, n_rng=24, rng_len=40, pcs=PCS_QUICK)
        htasks = hy_tasks(ctx, m, n_dense=49, n_rng=12)
    else:
        dtasks = dak_tasks(ctx, m, n_dense=1199, n_rng=400, rng_len=60, pcs=PCS_THOROUGH)
        htasks = hy_tasks(ctx, m, n_dense=477, n_rng=150)
    ttasks = table_tasks(ctx.quick)
    log = run_sweeps(ctx, m, dtasks, htasks, ttasks)
    # spec -> code bookkeeping: every exported lattice point was replayed with the flags TLC decided
    ctx.extra["lattice_points_exported_by_TLC"] = len(m.lattice)
    judge_all(ctx, log)
    pts = log.meta[1]["points"]
    ctx.sample({"isotherm": {k: v for k, v in log.meta[1].items() if k not in ("points", "task")},
                "points": [{k: p[k] for k in ("pr", "z", "resid_pub", "resid_var")} for p in pts[:: max(1, len(pts) // 5)]]})
    hy = next((mm for mm in log.meta.values() if mm["profile"] == "hy"), None)
    if hy:
        ctx.sample({"hall_yarbrough": [{k: p.get(k) for k in ("p_r", "T_r", "z_hy", "z_code", "z_published_root")}
                                       for p in hy["points"][:: max(1, len(hy["points"]) // 4)]]})

    # per-call statement of the property under concurrent use (Reentrant.tla): the same calls from several threads at once
    from ..drivers import threads  # noqa: PLC0415

    threads.clause(ctx, ['gas_z'])


def replay(ctx: core.Ctx, obj: dict) -> None:
    """Re-run the isotherm (or table) of a reported point on the current tree and judge it again."""
    describe(ctx)
    r = obj["replay"]
    meta = r["meta"]
    m = gaseos.model(ctx, refute=False)
    task = meta.get("task", {})
    print("replaying", {k: v for k, v in meta.items() if k != "task"}, "clause", r.get("clause"))
    print("reported point:", r.get("point"))
    dt, ht, tt = [], [], []
    if "table" in task:
        tt = [task["table"]]
    elif task.get("hy"):
        prs = task.get("prs") or _merge([r["point"]["p_r"]], np.linspace(m.f("hyprmin"), m.f("hyprmax"), 49))
        ht = [{"what": "replay", "tpcR": 400.0, "ppc": 650.0, "tr": task["tr"], "prs": prs, "hy": True}]
    else:
        prs = task.get("prs")
        if prs is None:
            ladder = [float(p["pr"]) for p in m.lattice if p["ladder"]]
            prs = _merge(ladder, np.linspace(0.05, m.f("prmax"), task["gen"].get("dense", 121)),
                         [r["point"]["p"] / r["point"]["ppc"]] if r.get("point") else [])
        dt = [{"what": "replay", "tpcR": task["tpcR"], "ppc": task["ppc"], "tr": task["tr"], "prs": prs, "gen": {}}]
    log = run_sweeps(ctx, m, dt, ht, tt)
    judge_all(ctx, log)
