"""C20 -- the plots carry the simulated data; the square-root axis is a true bijection.

TLC:   Plot.tla.  plot_pseudopressure as a loop machine (levels visited in order, drawn iff i % every = 0) for
       nt in 1..7, every in 1..8, both rescale settings, nx in {2,3,5}, two tiny exact reservoirs; the recovery
       factor / recovery rate artists (PWL!Gradient) on three time grids x three recovery shapes x both tick
       settings; the comparison figure's row filter / day index / cumulative sum / over-tau / over-M pipeline on
       three exact data sets; the transform pair as a two-state machine over n in 0..50, depth 4.  Seven named
       deviations (the mutants the property is about) must each be refuted.
S->C:  every exported terminal state is replayed into the real helpers (Agg, nothing rendered) on a stub object
       that carries the exact dyadic levels, and the Axes' line artists are compared with the exact rationals
       (bitwise for unrescaled data); transform sequences are replayed on the real transform objects through
       .transform() and through transform_non_affine().
C->S:  real simulated reservoirs (nt up to 2000, random strides, both kinds), realistic comparison data sets and
       float batches through the transform pair are projected to integers and judged by PlotTrace.tla.
"""
from __future__ import annotations

import math
from concurrent.futures import ProcessPoolExecutor

import numpy as np

from .. import core, env, tlc, trace
from ..drivers import plots as drv

DEVIATIONS = (("OffByOne", "DrawnIsEveryKth"), ("WrongNodes", "NodePositions"), ("RescaleWrongNode", "RescaleRule"),
              ("RateWithoutTime", "RateIsTimeDerivative"), ("DividesByTau", "CmpCumOverM"),
              ("InvertedSameDirection", "InverseUndoes"), ("InverseNotInverse", "InverseUndoes"))
P_INITIAL = 5000.0  # initial pressure used for the comparison figure (Haynesville table, pressures <= 750 psi)


# ---- spec -> code: one exported terminal state -> list of (clause, what) ------------------------------------------
def replay_exact(rec: dict, rules: dict) -> list:
    tol = rules["tol"]
    tag = rec["tag"]
    if tag == "PSEUDO":
        return _pseudo(rec, tol)
    if tag in ("RF", "RATE"):
        return _curve(rec, tol)
    if tag == "CMP":
        return _cmp(rec, tol, rules)
    if tag == "TRANSFORM":
        return _transform(rec, rules)
    raise KeyError(tag)


def _pseudo(rec, tol) -> list:
    levels = np.array([[drv.fl(v) for v in row] for row in rec["levels"]], dtype=float)
    stub = drv.Stub(nx=rec["nx"], pseudopressure=levels, time=np.arange(rec["nt"], dtype=float))
    own = (rec["nt"] * 31 + rec["every"] * 7 + rec["nx"]) % 9 == 0
    arts = drv.call_pseudo(stub, rec["every"], rec["rescale"], own_axes=own)
    what = f"nt={rec['nt']} nx={rec['nx']} every={rec['every']} rescale={rec['rescale']} shape={rec['shape']}"
    if len(arts) != len(rec["drawn"]):
        return [("Selection", f"{what}: {len(arts)} profiles drawn, expected levels {rec['drawn']}")]
    fails = []
    for k, (x, y) in enumerate(arts):
        if len(x) != rec["nx"] or len(y) != rec["nx"]:
            fails.append(("NodePositions", f"{what}: profile {k} has {len(x)} points, expected {rec['nx']}"))
            continue
        ux = max(drv.ulps_exact(x[j], rec["x"][j]) for j in range(rec["nx"]))
        if ux > tol["x_ulp"]:
            fails.append(("NodePositions", f"{what}: x = {x.tolist()} but node positions are j/nx = "
                          f"{[drv.fl(v) for v in rec['x']]}"))
        uy = max(drv.ulps_exact(y[j], rec["y"][k][j]) for j in range(rec["nx"]))
        if uy > (tol["rescale_ulp"] if rec["rescale"] else 0):
            fails.append(("Data", f"{what}: profile {k} (level {rec['drawn'][k]}) shows {y.tolist()}, expected "
                          f"{[drv.fl(v) for v in rec['y'][k]]} ({uy} ulp)"))
        if len(fails) >= 3:
            break
    return fails


def _curve(rec, tol) -> list:
    t = np.array([drv.fl(v) for v in rec["time"]], dtype=float)
    rf = np.array([drv.fl(v) for v in rec["recovery"]], dtype=float)
    stub = drv.Stub(nx=4, time=t, recovery=rf, pseudopressure=np.ones((len(t), 4)))
    which = "rf" if rec["tag"] == "RF" else "rate"
    arts, xscale, yscale = drv.call_curve(which, stub, rec["ticks"])
    what = f"{which} nt={rec['nt']} grid={rec['grid']} recovery={rec['rf']} ticks={rec['ticks']}"
    fails = []
    if len(arts) != len(rec["artists"]):
        return [("OneArtist", f"{what}: {len(arts)} artists")]
    x, y = arts[0]
    want_x = np.array([drv.fl(v) for v in rec["artists"][0]["x"]], dtype=float)
    if not np.array_equal(x, want_x):
        fails.append(("XIsTime", f"{what}: x = {x.tolist()} but time = {want_x.tolist()}"))
    if which == "rf":
        if not np.array_equal(y, rf):
            fails.append(("YIsRecovery", f"{what}: y = {y.tolist()} but recovery = {rf.tolist()}"))
        if xscale != rec["scale"]["x"]:
            fails.append(("SqrtAxis", f"{what}: x-scale is {xscale!r}, expected {rec['scale']['x']!r}"))
    else:
        want = [core_frac(v) for v in rec["artists"][0]["y"]]
        e = drv.rate_e15(y, want, drv.rate_scale(rf, t)) if len(y) == len(want) else drv.CAP
        if e > tol["rate_e15"]:
            fails.append(("RateIsDerivative", f"{what}: rate = {y.tolist()} but d(recovery)/d(time) = "
                          f"{[float(w) for w in want]}"))
    return fails


def core_frac(nd):
    from .. import exact  # noqa: PLC0415

    return exact.frac(nd)


def _cmp(rec, tol, rules) -> list:
    nanf = lambda v: float("nan") if len(v) == 1 else drv.fl(v)  # noqa: E731
    rows = [{"Days": drv.fl(r["d"]), "Gas": drv.fl(r["g"]), "Pressure": nanf(r["p"])} for r in rec["rows"]]
    M, tau = drv.fl(rec["M"]), drv.fl(rec["tau"])
    out = drv.call_comparison(rows, rec["filter"], None if rec["window"] == 0 else rec["window"], M, tau, P_INITIAL)
    what = f"data {rec['data']} filter={rec['filter']} window={rec['window']} M={M} tau={tau}"
    a1, a2 = out["ax1"], out["ax2"]
    n = rec["n"]
    if len(a1) != 2 or len(a2) != 1 or any(len(x) != n or len(y) != n for x, y in a1 + a2):
        return [("CmpArtists", f"{what}: axes carry {len(a1)} and {len(a2)} lines of lengths "
                 f"{[len(x) for x, _ in a1 + a2]}, expected 2 and 1 of length {n}")]
    fails = []
    for x, _ in a1 + a2:
        if max(drv.ulps_exact(x[k], rec["x"][k]) for k in range(n)) > tol["ratio_ulp"]:
            fails.append(("CmpTime", f"{what}: x = {x.tolist()} but time/tau = {[drv.fl(v) for v in rec['x']]}"))
            break
    if max(drv.ulps_exact(a1[1][1][k], rec["cum_over_M"][k]) for k in range(n)) > tol["ratio_ulp"]:
        fails.append(("CmpCum", f"{what}: second curve = {a1[1][1].tolist()} but cumulative/M = "
                      f"{[drv.fl(v) for v in rec['cum_over_M']]}"))
    pf = np.array([drv.fl(v) for v in rec["pf"]], dtype=float)
    if not np.array_equal(a2[0][1], pf):
        fails.append(("CmpPressure", f"{what}: pressure curve = {a2[0][1].tolist()} but frac-face pressure = {pf.tolist()}"))
    rf = drv.library_recovery(np.array([drv.fl(v) for v in rec["x"]], dtype=float), pf, P_INITIAL)
    d = float(np.max(np.abs(a1[0][1] - rf))) if np.all(np.isfinite(a1[0][1])) else math.inf
    if not d <= tol["rf_abs_e15"] * 1e-15:
        fails.append(("CmpRecovery", f"{what}: first curve = {a1[0][1].tolist()} but the simulated recovery is {rf.tolist()}"))
    if out["xscale1"] != rec["scale"] or out["xscale2"] != rec["scale"]:
        fails.append(("SqrtAxis", f"{what}: x-scales {out['xscale1']!r}, {out['xscale2']!r}"))
    return fails


def _transform(rec, rules) -> list:
    _, ax = drv.new_axes()
    ax.set_xscale(rules["scale_name"])
    t = ax.xaxis.get_transform()
    what = f"start {rec['vals'][0]}, ops {[o['op'] for o in rec['ops']]}"
    if type(t).__name__ != rec["first"]:
        return [("Pairing", f"the axis transform is a {type(t).__name__}, expected {rec['first']}")]
    v = float(rec["vals"][0])
    fails = []
    for k, op in enumerate(rec["ops"]):
        if op["op"] == "invert":
            t = t.inverted()
        if type(t).__name__ != op["class"]:
            return [*fails, ("Pairing", f"{what}: after step {k + 1} the object is a {type(t).__name__}, expected {op['class']}")]
        if op["op"] == "apply":
            want = float(rec["vals"][k + 1])
            g1 = float(np.asarray(t.transform(np.array([v])))[0])
            g2 = float(np.asarray(t.transform_non_affine(np.array([v])))[0])
            if g1 != want:
                fails.append(("InversePair", f"{what}: {op['class']}.transform({v}) = {g1}, expected {want}"))
            if g2 != want:
                fails.append(("InversePipeline", f"{what}: {op['class']}.transform_non_affine({v}) = {g2}, expected {want}"))
            v = want
    return fails


def _replay_chunk(args):
    recs, rules = args
    env.import_bluebonnet()
    out = []
    for rec in recs:
        try:
            out.append(replay_exact(rec, rules))
        except Exception as ex:  # noqa: BLE001
            out.append([("Helper", f"{rec['tag']} case raised {type(ex).__name__}: {ex}")])
    return out


def stage_exact(ctx: core.Ctx, recs: list, rules: dict) -> None:
    chunks = [recs[k::32] for k in range(32)]
    with ProcessPoolExecutor(max_workers=16) as ex:
        for chunk, res in zip(chunks, ex.map(_replay_chunk, [(ch, rules) for ch in chunks])):
            for rec, fails in zip(chunk, res):
                ctx.case(_key(rec))
                for clause, what in fails:
                    ctx.violation(clause, what, replay={"stage": "exact", "rec": rec})


def _key(rec) -> str:
    t = rec["tag"]
    if t == "PSEUDO":
        return f"pseudo/{rec['nt']}/{rec['nx']}/{rec['every']}/{rec['rescale']}/{rec['shape']}"
    if t in ("RF", "RATE"):
        return f"{t}/{rec['nt']}/{rec['grid']}/{rec['rf']}/{rec['ticks']}"
    if t == "CMP":
        return f"cmp/{rec['data']}/{rec['filter']}/{rec['window']}/{rec['M']}"
    return f"tr/{rec['n']}/" + "".join(o["op"][0] for o in rec["ops"])


# ---- code -> spec ---------------------------------------------------------------------------------------------------
def make_jobs(ctx: core.Ctx, n_res: int, n_big: int, n_cmp: int, n_tr: int) -> list[dict]:
    rng = np.random.default_rng([ctx.seed, 20, 1])
    jobs = []
    for k in range(n_res):
        big = k < n_big
        nt = int(rng.integers(1200, 2001)) if big else int(rng.integers(2, 500))
        kind = "single" if (k % 3 != 2) else "ideal"
        pi = float(rng.uniform(1500.0, 9000.0))
        job = {"stage": "reservoir", "kind": kind, "nx": int(rng.integers(3, 61)), "nt": nt,
               "t_end": float(rng.uniform(0.3, 11.0)), "grid": "sqrt" if k % 2 == 0 else "random",
               "grid_seed": int(rng.integers(1, 2**31 - 1)), "pf": float(rng.uniform(50.0, 0.8 * pi)), "pi": pi,
               "plot_seed": int(rng.integers(1, 2**31 - 1))}
        # simulations whose recovery is not strictly increasing and time grids that do not start at zero are simulations too
        v = (k // 3) % 6
        if v == 1:
            job["grid"] = "log"            # first time > 0 (decades of early time)
        elif v == 2:
            job["grid"] = "restart"        # a restart: t0 + ...
        elif v == 3 and kind == "single":
            job["schedule"] = "chokeback"  # frac-face pressure climbs back: negative rates
        elif v == 4:
            job["pf"] = pi                 # no drawdown: the rate is exactly zero
        elif v == 5:
            job["t_end"] = 1000.0 if kind == "single" else 100.0   # deep depletion: the rate is round-off, either sign
        if k == n_big and n_res > n_big:
            job["nt"], job["nx"] = int(rng.integers(5001, 7001)), int(rng.integers(3, 9))   # a long history: more than 5000 time levels
        jobs.append(job)
    for k in range(n_cmp):
        jobs.append({"stage": "cmp", "seed": int(rng.integers(1, 2**31 - 1)), "n": int(rng.integers(20, 61)),
                     "filter": k % 2 == 0, "window": (None, 1, 5, 9)[(k // 2) % 4], "M": float(rng.uniform(50.0, 3000.0)),
                     "extra_columns": k % 3 == 1, "dup_index": k % 4 == 2,
                     "tau": float(rng.uniform(30.0, 900.0)), "p_initial": P_INITIAL})
    for k in range(n_tr):
        jobs.append({"stage": "transform", "seed": int(rng.integers(1, 2**31 - 1)), "n": 400})
    return jobs


def events_of(job: dict) -> list[dict]:
    """All events of one execution (without tid/seq); each carries `call`, the arguments of that one plot call."""
    if job["stage"] == "cmp":
        return [drv.project_comparison(job) | {"call": {}}]
    if job["stage"] == "transform":
        return [drv.project_transform(job) | {"call": {}}]
    res = drv.real_reservoir(job)
    rng = np.random.default_rng(job["plot_seed"])
    nt = job["nt"]
    lo = max(1, math.ceil(nt / 250))
    evs = []
    strides = sorted({lo, int(math.exp(rng.uniform(math.log(lo), math.log(nt + 3)))), int(rng.integers(lo, nt + 4))})
    for every in strides:
        for rescale in ((False,) if job["pf"] == job["pi"] else (False, True)):   # no drawdown: "rescaled" is 0/0, not a claim
            e = drv.project_pseudo(res, every, rescale, own_axes=(every % 5 == 0))
            evs.append(e | {"call": {"every": every, "rescale": rescale}})
    if job["kind"] == "single" and job["plot_seed"] % 2 == 0:
        # the caller looked at the in-place recovery before plotting: the figures still show recovery_factor()
        import warnings  # noqa: PLC0415

        with warnings.catch_warnings():
            warnings.simplefilter("ignore")
            res.recovery_factor(density=True)
    cache: dict = {}
    for which in ("rf", "rate"):
        for ticks in (False, True):
            evs.append(drv.project_curve(which, res, ticks, cache) | {"call": {"which": which, "ticks": ticks}})
    return evs


def _job(job):
    env.import_bluebonnet()
    import matplotlib.pyplot as plt  # noqa: PLC0415

    try:
        return events_of(job), None
    except Exception as ex:  # noqa: BLE001
        return None, f"{type(ex).__name__}: {ex}"
    finally:
        plt.close("all")


def stage_trace(ctx: core.Ctx, jobs: list[dict]) -> None:
    events, origin = [], {}
    with ProcessPoolExecutor(max_workers=16) as ex:
        for tid, (job, (evs, err)) in enumerate(zip(jobs, ex.map(_job, jobs)), start=1):
            if evs is None:
                ctx.violation("Helper", f"plotting a simulated case raised {err}", replay={"stage": "trace", "job": job})
                continue
            for seq, e in enumerate(evs):
                call = e.pop("call")
                events.append({"tid": tid, "seq": seq, **e})
                origin[(tid, seq)] = (job, call, e)
                ctx.case(f"{job['stage']}/{tid}/{seq}")
    verdicts = trace.validate(ctx, "PlotTrace", events)
    for v in verdicts:
        job, call, e = origin[(v["tid"], v["seq"])]
        for cl in v["clauses"]:
            ctx.violation(cl, f"{_describe(job, call)}: clause {cl} rejected by PlotTrace; observed {_brief(e)}",
                          replay={"stage": "trace", "job": job, "call": call})
    for kind in ("Pseudo", "Transform"):
        e = next((e for e in events if e["ev"] == kind), None)
        if e is not None:
            ctx.sample({"trace_event": _brief(e)})
    ctx.extra["trace_events_by_kind"] = {k: sum(1 for e in events if e["ev"] == k)
                                         for k in ("Pseudo", "RF", "Rate", "Cmp", "Transform")}
    ctx.extra["largest_nt"] = max((j["nt"] for j in jobs if j["stage"] == "reservoir"), default=0)


def _describe(job, call) -> str:
    if job["stage"] == "reservoir":
        return (f"{job['kind']} reservoir nx={job['nx']} nt={job['nt']} pf={job['pf']:.5g} pi={job['pi']:.5g} "
                f"grid={job['grid']} t_end={job['t_end']:.4g}, plot {call}")
    return f"{job['stage']} case {{{', '.join(f'{k}={v}' for k, v in job.items() if k != 'stage')}}}"


def _brief(e: dict) -> dict:
    b = dict(e)
    if "drawn" in b and len(b["drawn"]) > 12:
        b["drawn"] = [*b["drawn"][:4], "...", *b["drawn"][-2:]]
    return b


# ---- entry points ------------------------------------------------------------------------------------------------------
INVARIANTS = ["TypeOK", "DrawnIsEveryKth", "DrawnSetRule", "FirstIsInitial", "NodePositions", "RescaleRule", "Unrescaled",
              "OneArtist", "TicksDoNotMatter", "RateIsTimeDerivative", "RateArtistShape", "CmpFilterRule", "CmpUnfiltered",
              "CmpCumOverM", "CmpTimeOverTau", "InvertInvolution", "SqrtIsRoot", "SquareIsSquare", "InverseUndoes",
              "ExportTerminal", "ExportRules"]


def load_spec(ctx: core.Ctx, deep: bool = False):
    if deep:  # thorough tier: longer operation sequences on the transform machine, larger n
        sdir = env.scratch("c20mc")
        try:
            cfg = tlc.write_cfg(sdir / "MC_Plot_deep.cfg", spec="Spec", invariants=INVARIANTS,
                                constants={"Deviation": '"none"', "Export": "TRUE", "MaxNt": 7, "MaxEvery": 8,
                                           "MaxN": 80, "Depth": 6})
            r = ctx.model_check("Plot", cfg, workers=8, scratch=sdir)
        finally:
            env.cleanup(sdir)
    else:
        r = ctx.model_check("Plot", "MC_Plot.cfg", workers=4)
    rules = r.by_tag("RULES")
    recs = [x for x in r.records if x.get("tag") in ("PSEUDO", "RF", "RATE", "CMP", "TRANSFORM")]
    if len(rules) != 1 or len(recs) < 1000:
        raise tlc.MachineryError("Plot.tla did not export the expected records")
    return recs, rules[0]


def replay(ctx: core.Ctx, obj: dict) -> None:
    pl = obj["replay"]
    ctx.rule = "replay of one recorded case"
    ctx.case("replay")
    if pl["stage"] == "exact":
        _, rules = load_spec(ctx)
        for clause, what in replay_exact(pl["rec"], rules):
            ctx.violation(clause, what, replay=pl)
        return
    stage_trace(ctx, [pl["job"]])


def run(ctx: core.Ctx) -> None:
    ctx.rule = ("case = one call of a plotting helper (or one sequence of invert/apply operations on the transform "
                "objects): every terminal state exported by Plot.tla replayed on a stub reservoir carrying exact "
                "levels, plus every plot call on real simulated reservoirs judged by PlotTrace.tla; distinct = "
                "(helper, configuration) id")
    ctx.assumptions += [
        "spec -> code uses a stub object with the attributes the helpers read (nx, time, pseudopressure, "
        "recovery_factor()) so that expected artist data are exact rationals; code -> spec uses real "
        "IdealReservoir / SinglePhaseReservoir objects after simulate()",
        "artists are the Line2D objects of the returned Axes in creation order; nothing is rendered (Agg)",
        "unrescaled profiles, time, recovery and frac-face pressure must be carried bitwise; node positions, rescaled "
        "profiles, time/tau and cumulative/M within 4 ulp of the exact quotient; the recovery rate within 1e-13 of "
        "(largest neighbouring recovery / smallest neighbouring step) of the exact second-order non-uniform gradient",
        "a level whose first node equals the initial value has no rescaled profile (0/0): it must be NaN on both sides "
        "(level 0 of an IdealReservoir)",
        "comparison figure: simulated recovery compared with SinglePhaseReservoir(80, pf, p_i, FlowProperties(pvt, p_i))"
        ".simulate(time/tau, pf).recovery_factor() to 1e-12 absolute; p_initial = 5000 psi, Haynesville table; smoothing "
        "comparison figure: exact stage with windows None and 1, recorded executions with windows None, 1, 5, 9 (the pressure panel and the simulated curve must use the smoothed series)",
        "transform pair on floats: 0 and [1e-12, 1e12] (no overflow of the square); data -> display -> data through "
        "ax.transData is judged relative to the axis range (display coordinates are affine images in float64)",
    ]
    ctx.trusted += ["TLC", "matplotlib Axes.get_lines / Line2D.get_xdata/get_ydata", "numpy spacing (ulp)",
                    "fractions.Fraction gradient oracle == PWL!Gradient (checked on every exported RATE case)"]
    for name, inv in DEVIATIONS:
        ctx.expect_refuted("Plot", f"MC_Plot_dev_{name}.cfg", inv, workers=1)
    recs, rules = load_spec(ctx, deep=not ctx.quick)
    stage_exact(ctx, recs, rules)
    ctx.sample({"exported_case": {k: v for k, v in next(r for r in recs if r["tag"] == "PSEUDO" and r["nt"] == 3
                                                         and r["rescale"]).items() if k != "levels"}})
    ctx.sample({"exported_case": next(r for r in recs if r["tag"] == "TRANSFORM" and r["n"] == 4)})
    if ctx.quick:
        stage_trace(ctx, make_jobs(ctx, n_res=16, n_big=3, n_cmp=8, n_tr=4))
    else:
        stage_trace(ctx, make_jobs(ctx, n_res=480, n_big=64, n_cmp=64, n_tr=64))
