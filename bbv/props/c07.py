"""C07 -- density, formation volume factor and compressibility are mutually consistent (gas, oil, water);
gas viscosity is positive and increases with pressure.

TLC    MC_GasEOS.tla: the exact mass-content cases (brine at salinities 0..25, Standing oils above the bubble
       point) evaluated in exact rationals and exported with the constants of the identities; every abstract class
       of a c_g observation against the explanation table of open finding D6 (deviation "ExplainCgByFormulaOnly"
       must be refuted).
S->C   the exported brine / oil cases are evaluated by the real density_* and b_* functions; the expectation is
       TLC's rational (the harness's own Fraction formula, used for non-lattice inputs, must reproduce it exactly).
C->S   pressure sweeps of the real functions at fixed temperature and fluid are logged as integer observations and
       judged by SweepC07.tla: rho*Bg constant and equal to p_sc M/(R T_sc)/5.615, rho = pM/(ZRT) with the library's
       own Z, c_g = d ln rho/dp (Richardson-extrapolated central difference of density_DAK), viscosity positive and
       strictly increasing, rho_o*B_o = 62.37 gamma_o + 0.0136 gamma_g R_s (library's own R_s), rho_w*B_w = brine
       density at standard conditions.  GasEOSTrace.tla decides point by point whether a c_g failure carries the
       structural signature of D6.
"""
from __future__ import annotations

import math
from concurrent.futures import ProcessPoolExecutor
from fractions import Fraction

import numpy as np

from .. import forms, core, env, quant, sweep, tlc, trace
from ..drivers import gaseos
from ..oracle import dak

X_HI = 32.0
P_MAX = 10000.0
RANK = 459.67

# gravity -> pseudocritical point (T_pc Rankine, p_pc psia) used on the lattice (the quantifier takes them as
# independent inputs; c_g does not depend on gravity, so each gravity walks another pseudocritical point)
GAS_LATTICE = [(0.55, 343.0, 667.0), (0.7, 400.0, 650.0), (0.9, 455.1, 641.0), (1.2, 520.0, 600.0)]


def _e11(a: float, b: float) -> int:
    return quant.e15(a, b, abs(b) * 1e4) if (b == b and b != 0) else quant.CAP


def _rel15(a: float, b: float) -> int:
    return quant.e15(a, b, abs(b)) if (b == b and b != 0) else quant.CAP


def _qvisc(mu: float):
    """log10 of the viscosity on the window [-4, 4] (tripled by quant.q: 1e-12 .. 1e8 cp): order-preserving, never
    saturates for any input combination, resolves relative increments of 1e-15."""
    return quant.q(math.log10(mu), -4.0, 4.0) if (mu == mu and mu > 0) else list(quant.NANQ)


def _safe(f, *a):
    try:
        return float(f(*a)), None
    except Exception as ex:  # noqa: BLE001  an exception inside the domain is an observation (NaN)
        return math.nan, repr(ex)[:160]


# ---- gas ---------------------------------------------------------------------------------------------------------------
def _dlnrho(gas, T, p, tpc, ppc, g):
    """d ln(density_DAK)/dp by central differences with steps h, h/2, h/4 and two Richardson extrapolations;
    returns (value, |difference of the last two extrapolants|)."""
    def f(pp):
        return math.log(gas.density_DAK(T, pp, tpc, ppc, g))

    def cd(h):
        return (f(p + h) - f(p - h)) / (2 * h)

    h = p * 1e-3
    d1, d2, d4 = cd(h), cd(h / 2), cd(h / 4)
    r1, r2 = (4 * d2 - d1) / 3, (4 * d4 - d2) / 3
    rr = (16 * r2 - r1) / 15
    return rr, abs(rr - r2)


STD_CONDITIONS = (None, None, (59.0, 14.65), (32.0, 14.696), (68.0, 15.025))


def _gas_sweep(task):
    env.import_bluebonnet()
    from bluebonnet.fluids import gas  # noqa: PLC0415

    g, tpcR, ppc, trn = task["g"], task["tpcR"], task["ppc"], task["tr"]
    tpc = tpcR - RANK
    T = trn * tpcR - RANK
    pts = []
    for prn, with_cg in task["prs"]:
        p = prn * ppc
        d = {"T": T, "p": p, "tpc": tpc, "ppc": ppc, "g": g, "pr_nominal": prn}
        d["rho"], e1 = _safe(gas.density_DAK, T, p, tpc, ppc, g)
        # base conditions are the caller's: the default (60 F, 14.70 psia) or another contract base, given by keyword or by position
        std = STD_CONDITIONS[int(round(trn * 100 + tpcR)) % len(STD_CONDITIONS)]
        if std is None:
            d["bg"], e2 = _safe(gas.b_factor_DAK, T, p, tpc, ppc)
        elif int(round(prn * 10)) % 2:
            d["bg"], e2 = _safe(gas.b_factor_DAK, T, p, tpc, ppc, std[0], std[1])
        else:
            d["bg"], e2 = _safe(lambda *a: gas.b_factor_DAK(*a, temperature_standard=std[0], pressure_standard=std[1]), T, p, tpc, ppc)
        d["std"] = list(std) if std else None
        d["z"], e3 = _safe(gas.z_factor_DAK, T, p, tpc, ppc)
        d["mu"], e4 = _safe(gas.viscosity_Sutton, T, p, tpc, ppc, g)
        errs = [e for e in (e1, e2, e3, e4) if e]
        if with_cg:
            d["cg"], e5 = _safe(gas.compressibility_DAK, T, p, tpc, ppc)
            try:
                d["dln"], d["dln_err"] = _dlnrho(gas, T, p, tpc, ppc, g)
            except Exception as ex:  # noqa: BLE001
                d["dln"], d["dln_err"] = math.nan, math.nan
                errs.append(repr(ex)[:160])
            if e5:
                errs.append(e5)
            tr = (T + 459.67) / (tpc + 459.67)
            pr = p / ppc
            z = d["z"]
            ok = z == z and z > 0
            d["cg_pub"] = dak.compressibility(z, tr, pr, ppc, dak.PUBLISHED) if ok else math.nan
            d["cg_var"] = dak.compressibility(z, tr, pr, ppc, dak.VARIANT) if ok else math.nan
        if errs:
            d["exception"] = errs
        pts.append(d)
    return pts


def log_gas_sweep(log: sweep.SweepLog, m: gaseos.Model, meta: dict, pts: list[dict]) -> None:
    c = m.consts
    log.begin("gas", meta)
    for d in pts:
        g, T, p, z = d["g"], d["T"], d["p"], d["z"]
        expect = float(m.gas_std_mass(g))
        if d.get("std"):   # p_sc M / (R T_sc) at the caller's base conditions
            expect = float(m.gas_std_mass(g) * Fraction(d["std"][1]) / c["pstd"] * (c["tstd"] + c["rankine"]) / (Fraction(d["std"][0]) + c["rankine"]))
        ratio = d["rho"] * d["bg"] / expect
        ok = z == z and z > 0
        ref = float(Fraction(p) * c["mair"] * Fraction(g) / (Fraction(z) * c["rgas"] * (Fraction(T) + c["rankine"]))) \
            if ok else math.nan
        agree = {"rhobg_exp": quant.e15(ratio, 1.0, 1.0), "dens_formula": _rel15(d["rho"], ref)}
        raw = {k: d[k] for k in ("T", "p", "tpc", "ppc", "g", "rho", "bg", "z", "mu")}
        raw["base_conditions"] = d.get("std") or "default"
        raw["rhobg"] = d["rho"] * d["bg"]
        raw["rhobg_expected"] = expect
        if "cg" in d:
            dl, err = d["dln"], d["dln_err"]
            agree["cg_dlnrho"] = _e11(d["cg"], dl)
            agree["dlnrho_err"] = quant.e15_of(err / abs(dl) * 1e-4) if (dl == dl and dl != 0 and err == err) else quant.CAP
            raw.update({"cg": d["cg"], "dlnrho_dp": dl, "dlnrho_err": err, "cg_published_formula": d["cg_pub"],
                        "cg_variant_formula": d["cg_var"], "kind": "cg",
                        "o": {"cg_dlnrho": agree["cg_dlnrho"], "cgvar_dlnrho": _e11(d["cg_var"], dl),
                              "dlnrho_err": agree["dlnrho_err"], "cg_formula": _rel15(d["cg"], d["cg_pub"])}})
        if "exception" in d:
            raw["exception"] = d["exception"]
        log.point(quant.q(d["pr_nominal"], 0.0, X_HI), "none",
                  {"rhobg": quant.q(ratio, 0.0, 1.0), "visc": _qvisc(d["mu"])}, agree,
                  {"visc_pos": d["mu"] > 0}, raw)
    log.end()


def gas_tasks(ctx: core.Ctx, m: gaseos.Model, n_dense: int, cg_every: int, n_rng: int, rng_len: int) -> list[dict]:
    tasks = []
    trs = sorted({p["tr"] for p in m.lattice})
    dense = list(np.linspace(0.05, m.f("prmax"), n_dense))
    for g, tpcR, ppc in GAS_LATTICE:
        for tr in trs:
            ladder = {float(p["pr"]) for p in m.lattice if p["tr"] == tr and p["ladder"]} or \
                     {float(p["pr"]) for p in m.lattice if p["tr"] == tr}
            prs = sorted(ladder | set(dense))
            marks = [(x, x in ladder or (i % cg_every == 0)) for i, x in enumerate(prs)]
            tasks.append({"what": "lattice gas isotherm", "g": g, "tpcR": tpcR, "ppc": ppc, "tr": float(tr),
                          "prs": marks, "gen": {"dense": n_dense, "cg_every": cg_every}})
    rng = np.random.default_rng([ctx.seed, 7, 1])
    for i in range(n_rng):
        tr = float(rng.uniform(m.f("trmin"), m.f("trmax")))
        g = float(rng.uniform(0.55, 1.2))
        tpcR = float(rng.uniform(330.0, 540.0))
        ppc = float(rng.uniform(540.0, 760.0))
        prs = sorted(set(10 ** rng.uniform(-4.0, math.log10(m.f("prmax")), rng_len // 2))
                     | set(rng.uniform(0.05, m.f("prmax"), rng_len - rng_len // 2)))
        tasks.append({"what": "random gas isotherm", "g": g, "tpcR": tpcR, "ppc": ppc, "tr": tr,
                      "prs": [(float(x), True) for x in prs], "gen": {"rng": i}})
    return tasks


# ---- oil ---------------------------------------------------------------------------------------------------------------
def _oil_sweep(task):
    env.import_bluebonnet()
    from bluebonnet.fluids import oil  # noqa: PLC0415

    T, api, gg, gor = task["T"], task["api"], task["gg"], task["gor"]
    pb, _ = _safe(oil.pressure_bubblepoint_Standing, T, api, gg, gor)
    out = {"pb": pb, "pts": []}
    fk = task.get("forms")
    if task.get("ints"):
        # a fluid described in whole numbers as a spreadsheet or a config file holds it: Python ints
        T, api, gor = int(T), int(api), int(gor)
        out["forms"] = ["int", "int", "float", "int"]
        fk = None
    if fk is not None:
        # the same fluid with its parameters held as a caller may hold them (whole numbers as ints, numpy scalars, 0-d arrays)
        fr = [int(x) for x in np.random.default_rng([fk, 77]).integers(0, 60, 5)]   # independent choices per argument
        (T, f1), (api, f2), (gg, f3), (gor, f4) = forms.scalar(T, fr[0]), forms.scalar(api, fr[1]), forms.scalar(gg, fr[2]), forms.scalar(gor, fr[3])
        out["forms"] = [f1, f2, f3, f4]
    if not (pb == pb and pb > task.get("pb_min", 50.0)):
        return out  # outside the quantifier (no positive bubble point)
    ps = set(task["ps"])
    if pb * 1.001 <= P_MAX:
        ps |= {pb, pb * 0.999, pb * 1.001, min(P_MAX, pb + 500.0)}
    ps = sorted(x for x in ps if 0 < x <= P_MAX)
    if task.get("array"):
        arr = np.array(ps, dtype=float)
        order = task.get("order", "ascending")   # a pressure history need not be sorted: depletion order, shuffled
        if order == "descending":
            arr = arr[::-1].copy()
        elif order == "shuffled":
            arr = arr[np.random.default_rng(len(ps)).permutation(len(ps))]
        ps = [float(x) for x in arr]
        unbox = np.asarray
        if task.get("ints"):
            out["forms"].append("ndarray")
        if fk is not None:
            arr, aform, unbox = forms.array(arr, fr[4], forms=("ndarray", "series_permuted", "strided_view", "series_default"))
            out["forms"].append(aform)
        try:
            rho = np.asarray(unbox(oil.density_Standing(T, arr, api, gg, gor)), dtype=float)
            bo = np.asarray(unbox(oil.b_o_Standing(T, arr, api, gg, gor)), dtype=float)
            rs = np.asarray(unbox(oil.solution_gor_Standing(T, arr, api, gg, gor)), dtype=float)
        except Exception as ex:  # noqa: BLE001
            rho = bo = rs = np.full(len(ps), math.nan)
            out["exception"] = repr(ex)[:160]
        for p, a, b, c in zip(ps, rho, bo, rs):
            # the dissolved gas the mass balance is written with: the initial GOR at and above the bubble point, the scalar
            # routine's value below it (independent of what the array call returned)
            ref, _ = (float(gor), None) if p >= pb else _safe(oil.solution_gor_Standing, task["T"], p, task["api"], task["gg"], task["gor"])
            out["pts"].append({"p": p, "rho": float(a), "bo": float(b), "rs": float(c), "rs_ref": float(ref)})
        out["pts"].sort(key=lambda d: d["p"])
    else:
        for p in ps:
            a, _ = _safe(oil.density_Standing, T, p, api, gg, gor)
            b, _ = _safe(oil.b_o_Standing, T, p, api, gg, gor)
            c, _ = _safe(oil.solution_gor_Standing, T, p, api, gg, gor)
            out["pts"].append({"p": p, "rho": a, "bo": b, "rs": c})
    return out


def log_oil_sweep(log: sweep.SweepLog, m: gaseos.Model, task: dict, res: dict, expect_exact: Fraction | None = None) -> int:
    pb = res["pb"]
    pts = res["pts"]
    if not pts:
        return 0
    has_above = any(d["p"] > pb for d in pts) and any(d["p"] == pb for d in pts)
    meta = {"what": task.get("what", "oil"), "T": task["T"], "api": task["api"], "gas_gravity": task["gg"],
            "gor": task["gor"], "bubble_point": pb, "array": bool(task.get("array")), "order": task.get("order", "ascending"),
            "forms": res.get("forms"),
            "task": {k: task[k] for k in ("T", "api", "gg", "gor", "ps", "array", "order", "pb_min", "forms", "ints") if k in task}}
    log.begin("oil" if has_above else "oilsat", meta)
    for d in pts:
        p, rs = d["p"], d.get("rs_ref", d["rs"])
        side = "below" if p < pb else ("at" if p == pb else "above")
        if rs == rs:
            expect = float(m.oil_mass(task["api"], task["gg"], rs))
            if expect_exact is not None and p >= pb:
                expect = float(expect_exact)  # TLC's rational for R_s = initial GOR
        else:
            expect = math.nan
        prod = d["rho"] * d["bo"]
        log.point(quant.q(p / P_MAX, 0.0, 1.0), side, {}, {"oil_mass": _rel15(prod, expect)}, {},
                  {"p": p, "density": d["rho"], "b_o": d["bo"], "solution_gor": rs, "rho_bo": prod, "expected": expect})
    log.end()
    return len(pts)


def oil_tasks(ctx: core.Ctx, quick: bool, n_rng: int) -> list[dict]:
    ps = [14.7, 50.0, 200.0, 500.0, 1000.0, 2000.0, 3000.0, 4500.0, 6000.0, 8000.0, P_MAX]
    if quick:
        Ts, apis, ggs, gors = (80.0, 200.0, 350.0), (12.0, 35.0, 55.0), (0.56, 0.8, 1.3), (20.0, 650.0, 2500.0)
    else:
        Ts, apis, ggs, gors = (80.0, 150.0, 200.0, 275.0, 350.0), (12.0, 25.0, 35.0, 45.0, 55.0), \
            (0.56, 0.8, 1.0, 1.3), (20.0, 100.0, 650.0, 1500.0, 2500.0)
    tasks = []
    k = 0
    for T in Ts:
        for api in apis:
            for gg in ggs:
                for gor in gors:
                    k += 1
                    tasks.append({"what": "lattice oil", "T": T, "api": api, "gg": gg, "gor": gor, "ps": ps,
                                  "array": k % 3 == 0, "order": ("ascending", "descending", "shuffled")[(k // 3) % 3],
                                  "forms": k if k % 2 == 0 else None})
                    if k % 2 == 1:
                        tasks.append({"what": "lattice oil, whole-number parameters as ints", "T": T, "api": api, "gg": gg, "gor": gor, "ps": ps,
                                      "array": True, "order": ("descending", "shuffled", "ascending")[(k // 2) % 3], "ints": True})
    rng = np.random.default_rng([ctx.seed, 7, 2])
    for i in range(n_rng):
        tasks.append({"what": "random oil", "T": float(rng.uniform(80, 350)), "api": float(rng.uniform(12, 55)),
                      "gg": float(rng.uniform(0.56, 1.3)), "gor": float(rng.uniform(20, 2500)),
                      "ps": sorted(float(x) for x in rng.uniform(14.7, P_MAX, 8)) + [P_MAX], "array": i % 2 == 1,
                      "order": ("ascending", "descending", "shuffled")[(i // 2) % 3], "forms": i if i % 4 >= 2 else None})
    return tasks


# ---- water -------------------------------------------------------------------------------------------------------------
def _water_sweep(task):
    env.import_bluebonnet()
    from bluebonnet.fluids import water  # noqa: PLC0415

    T, s, ps = task["T"], task["s"], task["ps"]
    pts = []
    if task.get("array"):
        arr = np.array(ps, dtype=float)
        try:
            rho = np.asarray(water.density_water_McCain(T, arr, s), dtype=float)
            bw = np.asarray(water.b_water_McCain(T, arr), dtype=float)
        except Exception:  # noqa: BLE001
            rho = bw = np.full(len(ps), math.nan)
        pts = [{"p": p, "rho": float(a), "bw": float(b)} for p, a, b in zip(ps, rho, bw)]
    else:
        for p in ps:
            a, _ = _safe(water.density_water_McCain, T, p, s)
            b, _ = _safe(water.b_water_McCain, T, p)
            pts.append({"p": p, "rho": a, "bw": b})
    return pts


def log_water_sweep(log: sweep.SweepLog, task: dict, pts: list[dict], expect: Fraction) -> None:
    meta = {"what": task["what"], "T": task["T"], "salinity": task["s"], "array": bool(task.get("array")),
            "task": {k: task[k] for k in ("what", "T", "s", "ps", "array") if k in task}}
    log.begin("water", meta)
    e = float(expect)
    for d in pts:
        prod = d["rho"] * d["bw"]
        log.point(quant.q(d["p"] / P_MAX, 0.0, 1.0), "none", {}, {"water_mass": _rel15(prod, e)}, {},
                  {"p": d["p"], "density": d["rho"], "b_w": d["bw"], "rho_bw": prod, "expected": e})
    log.end()


def water_tasks(ctx: core.Ctx, m: gaseos.Model, quick: bool, n_rng: int) -> list[dict]:
    ps = [14.7, 500.0, 1500.0, 3000.0, 5000.0, 7500.0, P_MAX]
    Ts = (80.0, 200.0, 350.0) if quick else (80.0, 120.0, 160.0, 200.0, 250.0, 300.0, 350.0)
    tasks = []
    k = 0
    for w in m.water:  # salinities 0..25 exported by TLC with their exact expectation
        for T in Ts:
            k += 1
            tasks.append({"what": "lattice brine", "T": T, "s": float(w["s"]), "ps": ps, "array": k % 2 == 0,
                          "exact": w["expect"]})
    rng = np.random.default_rng([ctx.seed, 7, 3])
    for i in range(n_rng):
        tasks.append({"what": "random brine", "T": float(rng.uniform(80, 350)), "s": float(rng.uniform(0, 25)),
                      "ps": sorted(float(x) for x in rng.uniform(14.7, P_MAX, 6)), "array": i % 2 == 0})
    return tasks


# ---- canary ----------------------------------------------------------------------------------------------------------------
def canary(ctx: core.Ctx) -> None:
    """Each clause of SweepC07.tla broken exactly once in a synthetic log must be rejected, a clean log accepted."""
    log = sweep.SweepLog()

    def gp(i, ratio=1.0, mu=None, **kw):
        agree = {"rhobg_exp": kw.get("rhobg_exp", 3), "dens_formula": kw.get("dens_formula", 2)}
        if kw.get("cg", True):
            agree["cg_dlnrho"] = kw.get("cg_dlnrho", 900)
            agree["dlnrho_err"] = kw.get("dlnrho_err", 5)
        log.point(quant.q(0.1 * (i + 1), 0.0, X_HI), "none",
                  {"rhobg": quant.q(ratio, 0.0, 1.0), "visc": _qvisc(0.01 + 0.001 * i if mu is None else mu)},
                  agree, {"visc_pos": kw.get("visc_pos", True)}, {})

    log.begin("gas", {"what": "canary clean"})
    for i in range(9):
        gp(i)
    log.end()
    log.begin("gas", {"what": "canary broken"})
    gp(0)
    gp(1, ratio=1.0 + 2.5e-13)                      # seq 2: Mono:rhobg (jump of 2.5e-13)
    gp(2, ratio=1.0 + 2.5e-13, rhobg_exp=101)       # seq 3: Agree:rhobg_exp
    gp(3, ratio=1.0 + 2.5e-13, dens_formula=101)    # seq 4
    gp(4, ratio=1.0 + 2.5e-13, cg_dlnrho=1000001)   # seq 5
    gp(5, ratio=1.0 + 2.5e-13, dlnrho_err=10001)    # seq 6
    gp(6, ratio=1.0 + 2.5e-13, mu=0.0149)           # seq 7: Mono:visc (not above 0.015)
    gp(7, ratio=1.0 + 2.5e-13, mu=0.02, visc_pos=False)  # seq 8
    gp(8, ratio=1.0 + 2.5e-13, mu=0.03)
    log.end()
    log.begin("oil", {"what": "canary oil"})
    for i, (side, v) in enumerate((("below", 3), ("below", 101), ("at", 5), ("above", 100), ("above", quant.CAP))):
        log.point(quant.q(0.1 * (i + 1), 0.0, 1.0), side, {}, {"oil_mass": v}, {}, {})
    log.end()
    log.begin("water", {"what": "canary water"})
    for i, v in enumerate((0, 100, 101, 7)):
        log.point(quant.q(0.1 * (i + 1), 0.0, 1.0), "none", {}, {"water_mass": v}, {}, {})
    log.end()
    n0 = ctx.events
    verdicts = trace.validate(ctx, "SweepC07", log.events, count_traces=False)
    ctx.events = n0
    got = sorted((v["tid"], v["seq"], tuple(sorted(v["clauses"]))) for v in verdicts if v["clauses"])
    want = sorted([(2, 2, ("Mono:rhobg",)), (2, 3, ("Agree:rhobg_exp",)), (2, 4, ("Agree:dens_formula",)),
                   (2, 5, ("Agree:cg_dlnrho",)), (2, 6, ("Agree:dlnrho_err",)), (2, 7, ("Mono:visc",)),
                   (2, 8, ("Flag:visc_pos",)), (3, 2, ("Agree:oil_mass",)), (3, 5, ("Agree:oil_mass",)),
                   (4, 3, ("Agree:water_mass",))])
    if got != want:
        raise tlc.MachineryError(f"SweepC07 canary: verdicts {got}, expected {want}")


# ---- the check -----------------------------------------------------------------------------------------------------------
def judge_all(ctx: core.Ctx, log: sweep.SweepLog, max_events: int = 60000) -> None:
    for piece in gaseos.split_log(log, max_events):
        keys = gaseos.classify(ctx, piece)
        sweep.judge(ctx, "SweepC07", piece, explain=gaseos.explainer(keys))


def check_formulas_against_spec(m: gaseos.Model) -> None:
    """The harness's Fraction formulas (used for inputs TLC did not enumerate) must reproduce TLC's exact values."""
    for w in m.water:
        if m.brine_std(w["s"]) != w["expect"]:
            raise tlc.MachineryError(f"brine formula differs from MC_GasEOS at salinity {w['s']}")
    for o in m.oil:
        if m.oil_mass(o["api"], o["gg"], o["rs"]) != o["expect"]:
            raise tlc.MachineryError(f"oil mass formula differs from MC_GasEOS at {o}")


def run_sweeps(ctx: core.Ctx, m: gaseos.Model, gtasks, otasks, wtasks) -> sweep.SweepLog:
    log = sweep.SweepLog()
    with ProcessPoolExecutor(max_workers=16) as ex:
        gres = list(ex.map(_gas_sweep, gtasks, chunksize=1))
        ores = list(ex.map(_oil_sweep, otasks, chunksize=8))
        wres = list(ex.map(_water_sweep, wtasks, chunksize=8))
    for t, pts in zip(gtasks, gres):
        task = {k: t[k] for k in ("g", "tpcR", "ppc", "tr")}
        task.update({"prs": t["prs"]} if len(t["prs"]) <= 70 else {"gen": t["gen"]})
        log_gas_sweep(log, m, {"what": t["what"], "gravity": t["g"], "T_pc_R": t["tpcR"], "p_pc": t["ppc"],
                               "T_r": t["tr"], "task": task}, pts)
        for d in pts:
            ctx.case(f"gas|{d['g']!r}|{d['tpc']!r}|{d['ppc']!r}|{d['T']!r}|{d['p']!r}")
    no_pb = 0
    n_exact = 0
    for t, res in zip(otasks, ores):
        n = log_oil_sweep(log, m, t, res, t.get("exact"))
        if not n:
            no_pb += 1
        if "exact" in t:
            n_exact += sum(1 for d in res["pts"] if d["p"] >= res["pb"])
        for d in res["pts"]:
            ctx.case(f"oil|{t['T']!r}|{t['api']!r}|{t['gg']!r}|{t['gor']!r}|{d['p']!r}|{bool(t.get('array'))}")
    ctx.extra["oil_points_compared_with_TLC_exact_rational"] = (
        ctx.extra.get("oil_points_compared_with_TLC_exact_rational", 0) + n_exact)
    for t, pts in zip(wtasks, wres):
        log_water_sweep(log, t, pts, t.get("exact") or m.brine_std(t["s"]))
        for d in pts:
            ctx.case(f"water|{t['T']!r}|{t['s']!r}|{d['p']!r}|{bool(t.get('array'))}")
    ctx.extra["oils_without_positive_bubble_point_skipped"] = ctx.extra.get("oils_without_positive_bubble_point_skipped", 0) + no_pb
    return log


def exact_oil_tasks(m: gaseos.Model) -> list[dict]:
    """TLC's exact oil cases: evaluated at and above the bubble point, where R_s is the initial GOR exactly."""
    out = []
    for i, o in enumerate(m.oil):
        for T in (100.0, 220.0):
            out.append({"what": "exact oil case from MC_GasEOS", "T": T, "api": float(o["api"]), "gg": float(o["gg"]),
                        "gor": float(o["rs"]), "ps": [14.7, 500.0, 1000.0, 2500.0, 4000.0, 7000.0, P_MAX],
                        "array": (i % 2 == 0),
                        "exact": o["expect"], "pb_min": 50.0})
    return out


def describe(ctx: core.Ctx) -> None:
    ctx.rule = ("one case = the functions of one phase evaluated at one distinct (fluid, T, p) (scalar or array form); "
                "gas: T_r x p_r lattice of C06 x gravities {0.55,0.7,0.9,1.2} + dense + random isotherms; oil: lattice "
                "and random (T, API, gas gravity, GOR) with bubble point > 50 psia, p <= 10000; water: salinities 0..25")
    ctx.assumptions += [
        "gas standard-condition mass content p_sc M/(R T_sc)/5.615 with M = 28.964 gravity, R = 10.73159, T_sc = 519.67 R, "
        "p_sc = 14.7 psia (b_factor_DAK's defaults); constants exported by MC_GasEOS.tla",
        "oil: 62.37 gamma_o + 0.0136 gamma_g R_s with gamma_o = 141.5/(131.5 + API) and the library's own "
        "solution_gor_Standing as R_s; 'positive bubble point' taken as p_b > 50 psia; pressures <= 10000 psia",
        "d ln rho / dp is a Richardson-extrapolated central difference of density_DAK (steps 1e-3 p, /2, /4); its own error "
        "estimate must be <= 1e-7 relative, the agreement tolerance is 1e-5 relative",
        "viscosity 'increases' is judged between neighbouring sweep points (relative pressure steps >= 1e-3)",
        "open finding D6 explains a c_g failure only where GasEOSTrace.tla established, for that point, that c_g equals the "
        "published-coefficient formula at the code's own rho (1e-10) and that the variant-coefficient formula equals the "
        "numerical derivative of the library's density (1e-5)",
    ]
    ctx.trusted += ["TLC 2026.09", "bbv/oracle/dak.py (compressibility formula for both coefficient forms)",
                    "bbv/quant.py (exact quantisation)", "fractions.Fraction for the expected mass contents"]


def run(ctx: core.Ctx) -> None:
    describe(ctx)
    m = gaseos.model(ctx)
    check_formulas_against_spec(m)
    canary(ctx)
    if ctx.quick:
        gtasks = gas_tasks(ctx, m, n_dense=41, cg_every=3, n_rng=16, rng_len=24)
        otasks = oil_tasks(ctx, True, n_rng=80) + exact_oil_tasks(m)
        wtasks = water_tasks(ctx, m, True, n_rng=12)
    else:
        gtasks = gas_tasks(ctx, m, n_dense=601, cg_every=2, n_rng=3000, rng_len=40)
        otasks = oil_tasks(ctx, False, n_rng=12000) + exact_oil_tasks(m)
        wtasks = water_tasks(ctx, m, False, n_rng=1500)
    log = run_sweeps(ctx, m, gtasks, otasks, wtasks)
    ctx.extra["exact_cases_exported_by_TLC"] = {"water": len(m.water), "oil": len(m.oil)}
    judge_all(ctx, log)
    for prof in ("gas", "oil", "water"):
        mm = next((x for x in log.meta.values() if x["profile"] == prof), None)
        if mm:
            pts = mm["points"]
            ctx.sample({prof: {k: v for k, v in mm.items() if k not in ("points", "task")},
                        "points": [{k: v for k, v in p.items() if k not in ("o", "kind")}
                                   for p in pts[:: max(1, len(pts) // 3)]][:4]})

    # per-call statement of the property under concurrent use (Reentrant.tla): the same calls from several threads at once
    from ..drivers import threads  # noqa: PLC0415

    threads.clause(ctx, ['gas_props', 'oil_water'])


def replay(ctx: core.Ctx, obj: dict) -> None:
    describe(ctx)
    r = obj["replay"]
    meta = r["meta"]
    task = meta.get("task", {})
    m = gaseos.model(ctx, refute=False)
    print("replaying", {k: v for k, v in meta.items() if k != "task"}, "clause", r.get("clause"))
    print("reported point:", r.get("point"))
    gt, ot, wt = [], [], []
    prof = meta.get("profile")
    if prof == "gas":
        if "prs" in task:
            prs = [(float(a), bool(b)) for a, b in task["prs"]]
        else:
            dense = np.linspace(0.05, m.f("prmax"), task["gen"].get("dense", 41))
            extra = [r["point"]["p"] / r["point"]["ppc"]] if r.get("point") else []
            ladder = sorted({float(p["pr"]) for p in m.lattice if p["ladder"]})
            prs = [(x, True) for x in sorted(set(ladder) | {float(v) for v in dense} | set(extra))]
        gt = [{"what": "replay", "g": task["g"], "tpcR": task["tpcR"], "ppc": task["ppc"], "tr": task["tr"], "prs": prs,
               "gen": {}}]
    elif prof in ("oil", "oilsat"):
        ot = [dict(task, what="replay")]
    else:
        wt = [dict(task, what="replay")]
    log = run_sweeps(ctx, m, gt, ot, wt)
    judge_all(ctx, log)
