"""C01 -- maximum principle and frac-face value (see DESIGN.md section 4, C01)."""
from __future__ import annotations

from .. import core
from . import scheme_common as sc


def run(ctx: core.Ctx) -> None:
    ctx.rule = ("design level: every case of the exact one-step model Scheme.tla (previous-profile lattice x mesh ratio x "
                "diffusivity table x face value, N = 3, 4); spec->code: every exported initial-profile case replayed as a "
                "2-point simulate; code->spec: random run configurations (kind x table family x p_f/p_i x nx x time-grid "
                "family x schedule family), every logged level judged by SchemeTrace.tla; distinct = distinct case / run key")
    ctx.assumptions += [
        "bounds, orderings and relaxation are judged on profiles quantised to 1e-17 of the window [lowest face value, m_i]; "
        "tolerance 1e-9 of the window (rounding level of a strictly diagonally dominant solve)",
        "level i+1 may hold the schedule value of level i or i+1 at the frac-face node (the property does not fix the lag)",
        "runs with more than 400 levels are sampled (first/last 50 levels and evenly in between): bounds and MonoX are "
        "per-level, MonoT is transitive, so sampling loses coverage, not soundness",
        "p_f/p_i up to 0.999 (0.99..0.999 with at most 150 steps) so that accumulated rounding stays below the tolerance",
    ]
    ctx.trusted += ["TLC", "fractions.Fraction quantisation (bbv/quant.py)", "numpy/scipy/pandas as used by the library"]
    sc.design_models(ctx)
    if not ctx.quick:
        sc.proof_check(ctx)
    sc.replay_exact(ctx)
    n = 160 if ctx.quick else 2000
    raws = sc.trace_runs(ctx, sc.gen_configs(ctx.seed, n, 100 if ctx.quick else 400), "C01", want_resid=False, want_rf=False)
    ctx.extra["repo_tests"] = sc.repo_test_traces(ctx, "C01", ["tests/flow/test_reservoir.py", "tests/forecast/test_forecast.py", "tests/test_plots.py"], False)
    if not ctx.quick:   # the documentation notebooks, cell by cell (those that need the network stop at that cell)
        ctx.extra["notebooks"] = sc.repo_test_traces(ctx, "C01", sc.NOTEBOOKS, False, module="bbv.drivers.notebooks")
    ctx.extra["worst_undershoot_of_window"] = min(r["min_rel"] for r in raws) if raws else None
    ctx.extra["worst_overshoot_of_window"] = max(r["max_rel"] for r in raws) - 1 if raws else None
    ctx.extra["levels_logged"] = sum(r["levels_logged"] for r in raws)
    ctx.sample({"run": raws[0]["cfg"], "summary": {k: v for k, v in raws[0].items() if k != "cfg"}})


def replay(ctx: core.Ctx, obj: dict) -> None:
    sc.replay_run(ctx, obj, "C01")
