"""C02 -- the solver converges to the solution of the documented diffusion problem."""
from __future__ import annotations

import math
import warnings
from concurrent.futures import ProcessPoolExecutor

import numpy as np

from .. import core, env, trace
from ..drivers import reservoir as rdrv
from ..drivers import scheme as sdrv
from ..oracle import diffusion as ref
from . import scheme_common as sc

T_MIN = 0.01
T_END = 4.0


def rungs(quick: bool):
    return [(20, 200), (40, 800), (80, 3200)] if quick else [(20, 200), (40, 800), (80, 3200), (160, 12800)]


def families(quick: bool):
    f = [("ideal", "pvt_gas", 100.0, 8000.0), ("ideal", "pvt_gas", 7200.0, 8000.0),
         ("single", "synth_alpha:constant", 1000.0, 8000.0), ("single", "synth_alpha:constant", 7600.0, 8000.0),
         ("single", "pvt_gas", 1000.0, 8000.0), ("single", "synth_alpha:rising", 3000.0, 9000.0),
         ("single", "synth_alpha:constant", 9999.0, 10000.0),   # p_f/p_i = 0.9999: a tiny drawdown must converge just as well
         # a coarse user-diffusivity table with p_i and p_f between the same two rows, p_f/p_i = 0.97: the scaled transform at p_i
         # is not 1 there (the scaling interpolates 1/m), and the uniform initial state is the transform of p_i, not 1
         ("single", "synth_alpha:constant:11", 7275.0, 7500.0)]
    if not quick:
        f += [("ideal", "pvt_gas", 4000.0, 8000.0), ("single", "pvt_gas", 4000.0, 8000.0), ("single", "pvt_gas", 7900.0, 8000.0),
              ("single", "synth_alpha:falling", 500.0, 9000.0), ("single", "synth_alpha:kinked", 2000.0, 10000.0),
              ("single", "synth_z:0.0002", 1000.0, 8000.0), ("single", "built:0.7,200", 2000.0, 10000.0),
              ("single", "haynesville", 1000.0, 9000.0), ("single", "synth_alpha:constant", 100.0, 10000.0),
              ("ideal", "pvt_gas", 7999.0, 8000.0)]
    return f


def _family(args):
    fam, rr = args
    kind, tab, pf, pi = fam
    env.import_bluebonnet()
    from bluebonnet.flow import IdealReservoir, SinglePhaseReservoir  # noqa: PLC0415

    out = []
    try:
        const_alpha = kind == "ideal" or tab.startswith("synth_alpha:constant")
        # the reference quantities (m_f, m_i, the diffusivity handed to the independent solver) come from a fluid built first, from
        # a private copy of the table
        src = sdrv.table(tab)
        fp = rdrv.flow_properties(src.copy() if hasattr(src, "copy") else dict(src), pi)
        # the runs themselves are made the way a study over initial pressures makes them: one table object (a DataFrame, or a dict
        # of arrays for every other family), a coarse scan over p_i first (fluids and reservoirs built, used and dropped), then a
        # fresh fluid for every reservoir
        tab_obj = src
        if (len(tab) + int(pf)) % 2 == 1 and hasattr(src, "columns"):
            tab_obj = {c: np.asarray(src[c]).copy() for c in src.columns}
        with warnings.catch_warnings():
            warnings.simplefilter("ignore")
            for q in np.linspace(0.55 * pi, pi, 9)[:-1]:
                try:
                    fq = rdrv.flow_properties(tab_obj, float(q))
                    (IdealReservoir if kind == "ideal" else SinglePhaseReservoir)(5, min(pf, 0.5 * float(q)), float(q), fq).simulate(
                        np.linspace(0, 1, 4) ** 2)
                except Exception:  # noqa: BLE001  the scan is only a prelude; a p_i the table cannot serve is skipped
                    pass
                fq = None
        if kind == "ideal":
            m_f, m_i, scale_rf = 0.0, 1.0, 1 - pf / pi
        else:
            # the documented initial state is the scaled transform of p_i (not whatever the wrapper stores as m_i)
            m_f, m_i, scale_rf = float(fp.m_scaled_func(pf)), float(fp.m_scaled_func(pi)), 1.0
        mol = None
        if tab.endswith(":11"):
            # this family's ladder comes from a study script that keeps its resolutions in a narrow integer array
            # (np.int16) and goes one rung further, to nx = 200, where nx*nx no longer fits that width
            rr = [r for r in rr if r[0] < 200] + [(200, 20000)]
            rr = list(zip(np.array([r[0] for r in rr], dtype=np.int16), [r[1] for r in rr]))
        for nx, nt in rr:
            t = np.linspace(0, math.sqrt(T_END), nt) ** 2
            obj = (IdealReservoir if kind == "ideal" else SinglePhaseReservoir)(nx, pf, pi, rdrv.flow_properties(tab_obj, pi))
            with warnings.catch_warnings(), env.time_limit(900, f"the simulation of rung nx={nx}, nt={nt}"):
                warnings.simplefilter("ignore")
                obj.simulate(t)
                rf = np.array(obj.recovery_factor(), dtype=float)
            u = (np.asarray(obj.pseudopressure, dtype=float) - m_f) / (m_i - m_f)
            mask = t >= T_MIN
            # documented node positions: the frac face is x = 0; single phase keeps node 0 on the face, the ideal class has
            # its first unknown one cell inside
            x = np.arange(nx) / nx if kind == "single" else (np.arange(nx) + 1) / nx
            if const_alpha:
                exf = ref.fourier_field(x, t[mask])
                exr = ref.fourier_recovery(t)
            else:
                if mol is None:
                    # one reference on the finest time grid requested so far; coarser grids are subsets? no: evaluate per rung
                    pass
                a = fp.alpha
                a_i = float(a(m_i))
                field, rec = ref.mol_reference(lambda uu: a(uu) / a_i, m_f, m_i, t[1:], n=800)
                field = np.vstack([np.full(field.shape[1], m_i), field])
                rec = np.concatenate([[0.0], rec])
                idx = (x * 800).round().astype(int)
                exf = ((field[:, idx] - m_f) / (m_i - m_f))[mask]
                exr = rec / (m_i - m_f)
            err_t = np.abs(u[mask] - exf).max(axis=1)
            e_field = float((err_t * np.sqrt(np.pi * t[mask])).max())
            e_rf = float(np.abs(rf / scale_rf / (m_i - m_f if kind == "single" else 1.0) - exr).max())
            # an error that is not a number (a field of NaN) is the largest error there is
            e_field, e_rf = (e if math.isfinite(e) else 1e9 for e in (e_field, e_rf))
            out.append({"nx": int(nx), "nt": nt, "e_field": e_field, "e_rf": e_rf, "e_field_sup": float(err_t.max())})
        return fam, out, None
    except Exception as ex:  # noqa: BLE001
        import traceback  # noqa: PLC0415

        return fam, out, f"{type(ex).__name__}: {ex} {traceback.format_exc()[-600:]}"


def run(ctx: core.Ctx) -> None:
    ctx.rule = ("refinement ladders (nx, nt) = (20,200),(40,800),(80,3200)[,(160,12800)], quadratic grid to t = 4, per family "
                "(class, table, p_f, p_i): sup-norm field error for t >= 0.01 weighted by the front slope sqrt(pi t), and recovery error, "
                "against the Fourier series (constant diffusivity) or an independent 800-cell method-of-lines BDF solution "
                "(pressure-dependent tables); judged by SchemeTrace.tla: FirstOrder (err * nx bounded), LadderShrinks (every rung smaller than the previous one, the finest pair <= 0.7); "
                "premises of the convergence theorem (consistency) checked exactly by TLC in Refine.tla, stability in Scheme.tla")
    ctx.assumptions += [
        "the limit itself is not decidable: the claim is first-order error at each rung, shrinking along the ladder, plus the exact "
        "premises consistent + stable on the stencil the code is held to by C04",
        "node positions compared: x_j = j/nx (single phase, node 0 on the face), x_j = (j+1)/nx (ideal class, first unknown one cell inside)",
        "constants 4 (field) and 5 (recovery) are 2x the worst values observed on the repaired tree (2.0 ideal field, 2.45 real-gas recovery; sup over all times incl. the first steps)",
        "method-of-lines reference: second order in space on 800 cells, BDF rtol 1e-9; its own error (~1e-6) is far below the rung errors",
    ]
    ctx.trusted += ["TLC", "scipy.integrate.solve_ivp (reference only)", "numpy"]
    ctx.model_check("Refine", "MC_Refine.cfg", workers=1)
    sc.design_models(ctx, full=not ctx.quick)
    rr = rungs(ctx.quick)
    fams = families(ctx.quick)
    events, tid, summary = [], 0, []
    with ProcessPoolExecutor(max_workers=16) as ex:
        for fam, out, err in ex.map(_family, [(f, rr) for f in fams]):
            if err:
                ctx.violation("C02.RunFailed", f"family {fam}: {err[:400]}", replay={"stage": "family", "family": fam})
                continue
            for o in out:
                ctx.case(f"{fam}/{o['nx']}x{o['nt']}")
                for what, key in (("field", "e_field"), ("rf", "e_rf")):
                    tid += 1
                    events.append({"tid": tid, "seq": 0, "ev": "Order", "owner": "C02", "what": what,
                                   "errE": int(min(2e9, math.ceil(1000 * o[key] * o["nx"])))})
                    summary.append({"family": fam, "rung": (o["nx"], o["nt"]), "what": what, "err_times_nx": o[key] * o["nx"]})
            for what, key in (("field", "e_field"), ("rf", "e_rf")):
                tid += 1
                events.append({"tid": tid, "seq": 0, "ev": "Ladder", "owner": "C02", "what": what,
                               "errs": [int(min(1e8, round(o[key] * 1e8))) for o in out]})
                summary.append({"family": fam, "what": what + " ladder", "errs": [o[key] for o in out]})
    for v in trace.validate(ctx, "SchemeTrace", events):
        for cl in v["clauses"]:
            s = summary[v["tid"] - 1]
            ctx.violation(cl, f"{s} violates {cl}", replay={"stage": "family", "family": s["family"]})
    ctx.extra["ladders"] = [s for s in summary if "ladder" in s["what"]]
    ctx.extra["worst_field_err_times_nx"] = max((s["err_times_nx"] for s in summary if s["what"] == "field"), default=None)
    ctx.extra["worst_rf_err_times_nx"] = max((s["err_times_nx"] for s in summary if s["what"] == "rf"), default=None)
    ctx.sample(summary[0] if summary else {})
    ctx.sample(summary[-1] if summary else {})


def replay(ctx: core.Ctx, obj: dict) -> None:
    fam = tuple(obj["replay"]["family"])
    print(_family((fam, rungs(True))))
    ctx.case("replay-1")
    ctx.case("replay-2")
