"""C17 -- time-shift invariance, equivalent schedule forms, error branches, recovery interpolator."""
from __future__ import annotations

import math
import warnings
from concurrent.futures import ProcessPoolExecutor

import numpy as np

from .. import core, env, quant, tlc, trace
from ..drivers import scheme as sdrv
from . import c10
from . import scheme_common as sc

SHIFTS = [1e-3, 1.0, 123.456, 1e6, -7.5]


def _pair(args):
    cfg, tid = args
    env.import_bluebonnet()
    rng = np.random.default_rng(cfg["seed"])
    base = np.asarray(sdrv.make_grid(cfg["grid"], cfg["nt"], cfg["tend"], rng), dtype=np.float64)
    # both grids are made of dyadic rationals (multiples of 2^-k, all below 2^52 * 2^-k), so that times, the shift and
    # every increment are exact in float64 and the two runs see bit-identical increments: only the solver's dependence
    # on the time origin is measured, not the rounding of the shifted input
    d = np.diff(base)
    dmin = float(d[d > 0].min()) if np.any(d > 0) else 1.0
    total = float(base[-1] - base[0]) + abs(cfg["shift_by"]) + 1.0
    k = int(min(40, max(0, math.ceil(-math.log2(dmin)) + 4)))
    k = int(min(k, math.floor(50 - math.log2(total))))
    q = np.maximum(1, np.round(d * 2.0**k)) / 2.0**k
    ref = np.concatenate([[0.0], np.cumsum(q)])
    shift = round(cfg["shift_by"] * 2.0**k) / 2.0**k
    shifted = ref + shift
    if not (np.array_equal(np.diff(shifted), np.diff(ref)) and np.all(np.diff(ref) > 0)):
        return [], {"cfg": cfg, "skipped": "grid not exactly representable"}, None
    out = []
    try:
        # a third run on a generic (non-dyadic) shift of the same grid, only when the rounding of time + shift perturbs
        # each increment by at most 1e-10 relative
        g_shift = float(cfg["shift_by"]) * 1.0000001 + 0.1234567
        eps = float(np.finfo(float).eps)
        generic = None
        if eps * (abs(g_shift) + float(ref[-1])) / float(np.diff(ref).min()) <= 1e-10:
            generic = ref + g_shift
        res = []
        for grid in (ref, shifted) + ((generic,) if generic is not None else ()):
            obj, fp, tab = sdrv.build_object(cfg)
            pmin = float(np.sort(np.asarray(tab["pressure"], dtype=float))[1])
            sched = sdrv.make_schedule(cfg.get("sched", "none"), len(grid), cfg["pf"], cfg["pi"], max(pmin, 0.05 * cfg["pf"]),
                                       np.random.default_rng(cfg["seed"] + 1)) if cfg["kind"] == "single" else None
            with warnings.catch_warnings(), env.time_limit(600, "the simulation"):
                warnings.simplefilter("ignore")
                if sched is None:
                    obj.simulate(grid)
                else:
                    obj.simulate(grid, sched)
                rf = np.array(obj.recovery_factor(), dtype=float)
                rfd = np.array(obj.recovery_factor(density=True), dtype=float) if cfg["kind"] == "single" and \
                    "density" in fp.pvt_props else None
                f = obj.recovery_factor_interpolator()
                t = np.asarray(obj.time, dtype=float)
                rcur = np.asarray(obj.recovery, dtype=float)
                at_nodes = np.asarray(f(t), dtype=float)
                node_ulps = max(quant.ulps(a, b) for a, b in zip(at_nodes, rcur))
                span = max(1.0, abs(t[-1] - t[0]))
                before = np.asarray(f([t[0] - 1e-9 * span - 1e-300, t[0] - span, -1e300]), dtype=float)
                after = np.asarray(f([t[-1] + 1e-9 * span + 1e-300, t[-1] + span, 1e300]), dtype=float)
            res.append((np.asarray(obj.pseudopressure, dtype=float), rf, rfd,
                        {"node_ulps": int(node_ulps), "zero_before": bool(np.all(before == 0.0)),
                         "after_ulps": int(max(quant.ulps(a, rcur[-1]) for a in after))}, float(fp.m_i) if cfg["kind"] == "single" else 1.0))
        (ua, ra, rda, ia, mi), (ub, rb, rdb, ib, _) = res[0], res[1]
        lo = float(min(ua.min(), ub.min()))
        window = max(mi - lo, 1e-300)
        de = float(np.max(np.abs(ua - ub))) / window
        dr = float(np.max(np.abs(ra - rb))) / max(1.0, float(np.max(np.abs(ra))))
        if rda is not None:
            dr = max(dr, float(np.max(np.abs(rda - rdb))))
        dg = -1
        if generic is not None:
            ug, rg, rdg = res[2][0], res[2][1], res[2][2]
            gd = float(np.max(np.abs(ua - ug))) / window
            gr = float(np.max(np.abs(ra - rg))) / max(1.0, float(np.max(np.abs(ra))))
            if rda is not None:
                gr = max(gr, float(np.max(np.abs(rda - rdg))))
            dg = quant.e15_of(max(gd, gr))
        out.append({"tid": tid, "seq": 0, "ev": "Shift", "de15": quant.e15_of(max(de, dr)), "dg15": dg})
        out.append({"tid": tid, "seq": 1, "ev": "Interp", **ib})
        return out, {"cfg": cfg, "field_diff_of_window": de, "rf_diff": dr, "generic_shift_diff_e15": dg, **ib}, None
    except Exception as ex:  # noqa: BLE001
        import traceback  # noqa: PLC0415

        return [], {"cfg": cfg}, f"{type(ex).__name__}: {ex} {traceback.format_exc()[-500:]}"


def shift_pairs(ctx: core.Ctx, n: int, nx_max: int) -> list[dict]:
    rng = np.random.default_rng([ctx.seed, 1717])
    cfgs = sc.gen_configs(ctx.seed + 3, n, nx_max)
    tasks = []
    for i, c in enumerate(cfgs):
        c = dict(c)
        c["shift_by"] = float(SHIFTS[i % len(SHIFTS)]) if rng.random() < 0.7 else float(10 ** rng.uniform(-3, 7))
        tasks.append((c, i + 1))
    events, raws, skipped = [], {}, 0
    with ProcessPoolExecutor(max_workers=16) as ex:
        for (c, tid), (ev, raw, err) in zip(tasks, ex.map(_pair, tasks)):
            if err:
                ctx.violation("C17.RunFailed", f"shifted pair raised on {c}: {err[:300]}", replay={"stage": "pair", "cfg": c})
                continue
            if not ev:
                skipped += 1
                continue
            events += ev
            raws[tid] = raw
            ctx.case(f"shift/{c['kind']}/{c['table']}/nx{c['nx']}/{c['grid']}{c['nt']}/{c.get('sched')}/{c['shift_by']:.6g}")
    for v in trace.validate(ctx, "SchemeTrace", events):
        for cl in v["clauses"]:
            if cl.startswith("C17."):
                ctx.violation(cl, f"pair {raws[v['tid']]} violates {cl}", replay={"stage": "pair", "cfg": raws[v["tid"]]["cfg"]})
    ctx.extra["pairs_skipped_not_representable"] = skipped
    return list(raws.values())


def keep_c17(f: dict) -> bool:
    last = f["history"][-1]
    exp = f.get("expected", {})
    if exp.get("kind") in ("RuntimeError", "ValueError", "AnyError"):
        return True
    if f["clause"] == "Outcome" and last.get("op") == "simulate" and last.get("sched") in ("S", "K", "KA", "E", "O"):
        return True
    if last.get("op") == "setpf":
        return True
    # the scalar setting against constant schedules: runs with K / KA, and runs without a schedule once the attribute was reassigned
    return last.get("op") == "simulate" and (last.get("sched") in ("K", "KA")
                                              or (last.get("sched") == "none" and any(c.get("op") == "setpf" for c in f["history"])))


def run(ctx: core.Ctx) -> None:
    ctx.rule = ("protocol: every call history of Reservoir.tla up to the depth (rejected schedules, calls before any simulation, constant "
                "schedule vs scalar) replayed on real objects; shift: pairs of real runs (grid with bit-identical increments at origin 0 "
                "vs the shifted grid) for random configurations and shifts 1e-3..1e7, judged by SchemeTrace.tla (Shift, Interp events); "
                "design level: C17_ShiftInvariant on every case of Scheme.tla")
    ctx.assumptions += [
        "both grids of a pair consist of dyadic rationals (times, shift and increments exact in float64), so the two runs see bit-identical "
        "increments and only the solver's dependence on the time origin is measured, not the rounding of the shifted input itself",
        "'exactly the result of the scalar setting' is bitwise equality of stored time, field and returned recovery",
        "interpolator clauses are evaluated on the real interp1d object at all simulated times and at 3 points on either side",
    ]
    ctx.trusted += ["TLC", "numpy byte equality", "bbv/drivers/reservoir.py projection"]
    ctx.model_check("Reservoir", "MC_Reservoir_single.cfg", workers=8)
    ctx.model_check("Reservoir", "MC_Reservoir_ideal.cfg", workers=4)
    ctx.model_check("Scheme", "MC_Scheme_ideal3.cfg", workers=8)
    ctx.model_check("Scheme", "MC_Scheme_relax_single.cfg", workers=4)
    variants = [0, 2, 3] if ctx.quick else [0, 1, 2, 3, 6]   # 2, 6: float32 time grids; 3: int64
    depth = 3 if ctx.quick else 4
    # single phase with the caller also assigning another scalar to `pressure_fracface` between calls ("pf=alt") and the
    # schedule that is constant at that other value ("KA"): the scalar setting is the attribute's value at the time of the call
    ctx.model_check("Reservoir", "MC_Reservoir_single_set.cfg", workers=16)
    ctx.model_check("Reservoir", "MC_Reservoir_unbounded_single_set.cfg", workers=2)
    behs = c10.export_behaviours(ctx, "single", depth if ctx.quick else 3, setters=True)
    c10.replay_histories(ctx, "single", behs, variants, clauses=None, keep=keep_c17, setters=True)
    if not ctx.quick:
        behs = c10.export_behaviours(ctx, "single", depth)
        c10.replay_histories(ctx, "single", behs, variants, clauses=None, keep=keep_c17)
        behs = c10.export_sampled(ctx, "single", 6, 1500, setters=True)
        c10.replay_histories(ctx, "single", behs, [0, 3], clauses=None, keep=keep_c17, setters=True)
    c10.trace_validation(ctx, n_inst=3 if ctx.quick else 10, nobj=4 if ctx.quick else 12, length=30, clauses={"Outcome", "StaleField", "StaleTime", "StaleReturn"},
                         setters=True, kinds=("single",))
    behs = c10.export_behaviours(ctx, "ideal", depth)
    c10.replay_histories(ctx, "ideal", behs, variants, clauses={"Outcome"}, keep=keep_c17)
    raws = shift_pairs(ctx, 60 if ctx.quick else 800, 80 if ctx.quick else 400)
    if raws:
        ctx.extra["worst_shift_difference_of_window"] = max(r["field_diff_of_window"] for r in raws)
        ctx.extra["worst_rf_shift_difference"] = max(r["rf_diff"] for r in raws)
        ctx.extra["worst_interp_node_ulps"] = max(r["node_ulps"] for r in raws)
        ctx.extra["generic_shift_pairs"] = sum(1 for r in raws if r["generic_shift_diff_e15"] >= 0)
        ctx.extra["worst_generic_shift_diff_e15"] = max(r["generic_shift_diff_e15"] for r in raws)
        ctx.sample({"pair": raws[0]})


def replay(ctx: core.Ctx, obj: dict) -> None:
    r = obj["replay"]
    if r.get("stage") == "pair":
        print(_pair((r["cfg"], 1)))
    else:
        c10.replay(ctx, obj)
    ctx.case("replay-1")
    ctx.case("replay-2")
