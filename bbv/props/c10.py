"""C10 -- results always reflect the most recent simulation, never stale state.

TLC:   Reservoir.tla, every call history up to depth D for both object kinds; invariants C10_Fresh,
       C10_Idempotent, CacheIsCurrent; deviation configs (KeepsCache = D3, ClobbersPf = D4) must be refuted.
S->C:  every maximal history TLC exports is executed call by call on a real object; after each call the
       stored time, stored field and returned value must be bit-identical to what a fresh real object shows
       for the abstract observation the spec predicts (and to the previous result when the spec marks the
       call as a repetition).
C->S:  long random histories on real objects, logged with value digests, validated by ReservoirTrace.tla.
"""
from __future__ import annotations

import json
from concurrent.futures import ProcessPoolExecutor

import numpy as np

from .. import core, env, tlc, trace
from ..drivers import reservoir as drv

OWN_CLAUSES = {"StaleTime", "StaleField", "StaleReturn", "Idempotent", "Outcome", "NoRef"}


def export_behaviours(ctx: core.Ctx, kind: str, depth: int, setters: bool = False) -> list[list[dict]]:
    sdir = env.scratch("c10exp")
    try:
        cfg = tlc.write_cfg(sdir / "exp.cfg", spec="Spec",
                            constants={"Kind": f'"{kind}"', "MaxDepth": depth, "Deviation": '"none"', "Export": "TRUE",
                                       "Setters": "TRUE" if setters else "FALSE"},
                            invariants=["TypeOK", "C10_Fresh", "C10_Idempotent", "C17_ConstIsScalar",
                                        "C17_ErrorsBeforeSim", "C17_MismatchRejected", "CacheIsCurrent", "ExportLeaf"])
        r = ctx.model_check("Reservoir", cfg, workers=16, scratch=sdir, timeout=1500)
    finally:
        env.cleanup(sdir)
    behs = [b["steps"] for b in r.by_tag("BEH")]
    ncalls = (22 if setters else 15) if kind == "single" else 6
    if len(behs) != ncalls**depth:
        raise tlc.MachineryError(f"expected {ncalls**depth} exported histories for {kind}, got {len(behs)}")
    return behs


def export_sampled(ctx: core.Ctx, kind: str, depth: int, num: int, setters: bool = False) -> list[list[dict]]:
    """Random behaviours of the given depth from TLC's simulation mode (for depths whose full enumeration is too large)."""
    sdir = env.scratch("c10sim")
    try:
        cfg = tlc.write_cfg(sdir / "sim.cfg", spec="Spec",
                            constants={"Kind": f'"{kind}"', "MaxDepth": depth, "Deviation": '"none"', "Export": "TRUE",
                                       "Setters": "TRUE" if setters else "FALSE"},
                            invariants=["TypeOK", "C10_Fresh", "C10_Idempotent", "CacheIsCurrent", "ExportLeaf"])
        r = ctx.tlc("Reservoir", cfg, workers=8, scratch=sdir, timeout=1500, simulate=f"num={num}", depth=depth + 1,
                    seed=ctx.seed + 11)
        if r.violated:
            raise tlc.MachineryError(f"simulation of Reservoir violates {r.violated}")
    finally:
        env.cleanup(sdir)
    seen, out = set(), []
    for b in r.by_tag("BEH"):
        k = json.dumps([s["call"] for s in b["steps"]], sort_keys=True)
        if k not in seen:
            seen.add(k)
            out.append(b["steps"])
    return out


def _walk(args):
    """Replay all histories that start with one first call (prefix-tree walk). Returns (n_steps, failures)."""
    kind, variant, behs, refs = args
    env.import_bluebonnet()
    inst = drv.default_inst(kind, variant)
    fails = []
    nsteps = 0

    def ref_for(obs):
        return refs[json.dumps(obs, sort_keys=True)]

    # build the prefix tree
    tree: dict = {}
    for steps in behs:
        node = tree
        for st in steps:
            key = json.dumps(st["call"], sort_keys=True)
            node = node.setdefault(key, {"step": st, "kids": {}})["kids"]

    def rec(node, obj, prev_proj, path):
        nonlocal nsteps
        for key, ent in node.items():
            st = ent["step"]
            o = drv.fork(obj)
            outcome, proj, _ = drv.apply(inst, o, st["call"])
            nsteps += 1
            ob = st["obs"]
            bad = []
            if ob["kind"] == "unspecified":
                pass
            elif ob["kind"] == "set":   # the caller assigned the attribute: nothing to compare, the call must simply succeed
                if outcome != "ok":
                    bad.append(("Outcome", f"assigning pressure_fracface raised {outcome}"))
            elif ob["kind"] == "AnyError":   # a rejected simulate on a never-simulated object: there is still nothing to report on
                if outcome == "ok":
                    bad.append(("Outcome", "expected an error (no simulation has succeeded on this object), got a result"))
            elif ob["kind"] in ("RuntimeError", "ValueError", "NotImplementedError"):
                if outcome != ob["kind"]:
                    bad.append(("Outcome", f"expected {ob['kind']}, got {outcome}"))
            else:
                if outcome != "ok":
                    bad.append(("Outcome", f"expected a result, got {outcome}"))
                else:
                    routcome, rproj = ref_for(ob)
                    if routcome == "ok" and ob["kind"] in ("rf", "interp"):
                        # RF / Interp leave the stored simulation untouched (Reservoir.tla: UNCHANGED sim)
                        so, sproj = ref_for({"kind": "sim", "of": ob["of"]})
                        if so == "ok":
                            rproj = (sproj[0], sproj[1], rproj[2])
                    if routcome != "ok":
                        bad.append(("NoRef", f"fresh object failed with {routcome} for {ob}"))
                    else:
                        for name, a, b in zip(("StaleTime", "StaleField", "StaleReturn"), proj, rproj):
                            if a != b:
                                bad.append((name, f"differs from a fresh object showing {ob}"))
                if st["idem"] and outcome == "ok" and prev_proj is not None and proj != prev_proj:
                    bad.append(("Idempotent", "repeated call returned something else"))
            here = path + [st["call"]]
            for clause, what in bad:
                fails.append({"clause": clause, "what": what, "history": here, "inst": inst.describe(),
                              "variant": variant, "kind": kind, "expected": ob})
            rec(ent["kids"], o, proj if outcome == "ok" else None, here)

    rec(tree, inst.new(), None, [])
    return nsteps, fails, len(refs)


def replay_histories(ctx: core.Ctx, kind: str, behs, variants, clauses=None, keep=None, setters: bool = False) -> None:
    groups: dict[str, list] = {}
    for steps in behs:
        groups.setdefault(json.dumps(steps[0]["call"], sort_keys=True), []).append(steps)
    rt = reference_tables([(kind, v, setters) for v in variants])   # fresh interpreters, one per simulation
    reftabs = {v: rt[(kind, v, setters)] for v in variants}
    tasks = [(kind, v, g, reftabs[v]) for v in variants for g in groups.values()]
    with ProcessPoolExecutor(max_workers=16) as ex:
        for (k, v, g, _r), (nsteps, fails, _nrefs) in zip(tasks, ex.map(_walk, tasks)):
            ctx.evaluations += nsteps
            for f in fails:
                if (clauses is None or f["clause"] in clauses) and (keep is None or keep(f)):
                    ctx.violation(f["clause"], f"{kind} reservoir, history {_fmt(f['history'])}: {f['what']}",
                                  replay={"stage": "history", **f})
    for v in variants:
        for steps in behs:
            ctx.nontrivial.add(f"{kind}/{v}/" + _fmt([s["call"] for s in steps]))
    ctx.sample({"kind": kind, "history": [s["call"] for s in behs[len(behs) // 3]],
                "expected": [s["obs"] for s in behs[len(behs) // 3]]})


_REF_CACHE: dict = {}


def reference_tables(keys) -> dict:
    """(kind, variant) -> reference table; computed once per check run, a few at a time."""
    from concurrent.futures import ThreadPoolExecutor  # noqa: PLC0415

    todo = [k for k in keys if k not in _REF_CACHE]
    with ThreadPoolExecutor(max_workers=4) as ex:
        for k, tab in zip(todo, ex.map(lambda kv: drv.reference_table(*kv), todo)):
            _REF_CACHE[k] = tab
    return {k: _REF_CACHE[k] for k in keys}


def _fmt(calls) -> str:
    out = []
    for c in calls:
        if c["op"] == "simulate":
            out.append(f"sim({c['grid']}{'' if c.get('sched', 'none') == 'none' else ',' + c['sched']})")
        elif c["op"] == "rf":
            out.append("rf(density)" if c["mode"] == "density" else "rf()")
        elif c["op"] == "setpf":
            out.append("pf=alt")
        else:
            out.append("interp()")
    return ";".join(out)


# ---- code -> spec ----------------------------------------------------------------------------------------
def random_call(rng, kind, setters=False):
    r = rng.random()
    if setters and kind == "single" and r < 0.07:
        return {"op": "setpf"}   # the caller assigns another scalar to pressure_fracface
    if r < 0.4:
        g = str(rng.choice(["A", "B", "C"]))
        s = "none"
        if kind == "single" and rng.random() < 0.5:
            s = str(rng.choice(["S", "K", "O", "KA", "E"] if setters else ["S", "K", "O"]))
        return {"op": "simulate", "grid": g, "sched": s}
    if r < 0.75:
        return {"op": "rf", "mode": str(rng.choice(["flux", "density"]))}
    return {"op": "interp"}


def _record(args):
    kind, variant, seed, nobj, length, tid0, reftab, setters = args
    env.import_bluebonnet()
    rng = np.random.default_rng([seed, variant, 17])
    inst = drv.default_inst(kind, variant)
    dg = drv.Digests()
    events = []
    tid = tid0
    seq = 0
    for obs in drv.all_observations(kind, setters):
        outcome, proj = reftab[json.dumps(obs, sort_keys=True)]
        if outcome != "ok":
            return None, f"fresh object failed with {outcome} for {obs} ({inst.describe()})"
        events.append({"tid": tid, "seq": seq, "ev": "Ref", "objkind": kind, "obs": obs, "dig": dg.triple(proj)})
        seq += 1
    for _ in range(nobj):
        obj = inst.new()
        events.append({"tid": tid, "seq": seq, "ev": "New", "objkind": kind})
        seq += 1
        for _ in range(length):
            c = random_call(rng, kind, setters)
            if rng.random() < 0.15 and events[-1]["ev"] == "Call":
                c = events[-1]["call"]  # repeat the previous call
            outcome, proj, _ = drv.apply(inst, obj, c)
            events.append({"tid": tid, "seq": seq, "ev": "Call", "call": c, "outcome": outcome, "dig": dg.triple(proj)})
            seq += 1
    return events, inst.describe()


def trace_validation(ctx: core.Ctx, n_inst: int, nobj: int, length: int, clauses=None, setters: bool = False,
                     kinds=("single", "ideal")) -> None:
    tasks = []
    tid = 1
    keys = [(kind, v, setters) for kind in kinds for v in range(n_inst)]
    reftabs = reference_tables(keys)
    for kind, v, _s in keys:
        tasks.append((kind, v, ctx.seed + (1000 if setters else 0), nobj, length, tid, reftabs[(kind, v, setters)], setters))
        tid += 1
    events = []
    with ProcessPoolExecutor(max_workers=16) as ex:
        for t, (evs, info) in zip(tasks, ex.map(_record, tasks)):
            if evs is None:
                raise tlc.MachineryError(info)
            events.extend(evs)
    verdicts = trace.validate(ctx, "ReservoirTrace", events)
    ctx.traces += (nobj - 1) * len(tasks)  # each object is one execution of the implementation
    by = {(e["tid"], e["seq"]): e for e in events}
    for v in verdicts:
        e = by[(v["tid"], v["seq"])]
        # history of this object up to the failing call
        hist = []
        s = v["seq"]
        while s >= 0 and by[(v["tid"], s)]["ev"] == "Call":
            hist.append(by[(v["tid"], s)]["call"])
            s -= 1
        hist.reverse()
        for cl in v["clauses"]:
            if clauses is None or cl in clauses:
                kind, variant = tasks[v["tid"] - 1][0], tasks[v["tid"] - 1][1]
                ctx.violation(cl, f"{kind} reservoir (variant {variant}), recorded history {_fmt(hist)}: clause {cl} "
                              f"rejected by ReservoirTrace (outcome {e['outcome']})",
                              replay={"stage": "history", "kind": kind, "variant": variant, "history": hist,
                                      "clause": cl})
    ctx.sample({"trace_event": next(e for e in events if e["ev"] == "Call")})


def replay(ctx: core.Ctx, obj: dict) -> None:
    r = obj["replay"]
    steps_like = []
    inst = drv.default_inst(r["kind"], r["variant"])
    o = inst.new()
    print("instantiation:", inst.describe())
    for c in r["history"]:
        outcome, proj, _ = drv.apply(inst, o, c)
        print(f"  {_fmt([c]):16s} -> {outcome}; digest lens {[len(p) for p in proj]}")
        steps_like.append((c, outcome))
    print("re-running the owning check stage on this single history is done by the quick check; "
          "this replay shows the concrete calls.")
    ctx.rule = "replay of one recorded history"
    ctx.case("replay")
    ctx.case("replay2")


def run(ctx: core.Ctx) -> None:
    depth_s, depth_i = (4, 5) if ctx.quick else (4, 6)   # 15^4 = 50 625 and 6^5 / 6^6 histories, exhaustively
    ctx.rule = ("histories = all words over the call alphabet of Reservoir.tla (12 calls single-phase, 6 ideal) "
                f"up to depth {depth_s}/{depth_i}, each replayed on real objects for several concrete "
                "instantiations (grids, nx, tables, schedules); distinct = (kind, instantiation, history); "
                "plus random recorded histories validated by ReservoirTrace.tla")
    ctx.assumptions += [
        "a fresh object is constructed with the same constructor arguments (shared FlowProperties instance)",
        "identity of results is bitwise equality of float64 arrays (time, pseudopressure, recovery, interpolator "
        "sampled at grid nodes, midpoints and 6 points outside the range)",
        "after a rejected simulate() the object is unspecified until the next successful simulate(), except that on an object that has "
        "never been simulated successfully recovery and interpolator calls still have to raise (any exception)",
    ]
    ctx.trusted += ["TLC 2026.09", "numpy array byte equality", "projection bbv/drivers/reservoir.py"]
    # deviations must be refuted (non-vacuity of C10_Fresh)
    # histories of ANY length: under the abstract view the state space is finite (59 / 17 states); the state-based form
    # of the property (ObsCurrent, CacheIsCurrent) holds in all of them, and the KeepsCache deviation is refuted there too
    ctx.model_check("Reservoir", "MC_Reservoir_unbounded_single.cfg", workers=2)
    ctx.model_check("Reservoir", "MC_Reservoir_unbounded_ideal.cfg", workers=2)
    ctx.expect_refuted("Reservoir", "MC_Reservoir_unbounded_dev.cfg", "ObsCurrent", workers=2)
    ctx.expect_refuted("Reservoir", "MC_Reservoir_dev_KeepsCache.cfg", "C10_Fresh", workers=4)
    ctx.expect_refuted("Reservoir", "MC_Reservoir_dev_ClobbersPf.cfg", "C10_Fresh", workers=4)
    variants = [0, 3] if ctx.quick else [0, 1, 2, 3, 4, 5, 6]   # 3: int64 time grids; 2, 6: float32
    for kind, depth in (("single", depth_s), ("ideal", depth_i)):
        behs = export_behaviours(ctx, kind, depth)
        # 7, 8: the frac-face pressure held as a 0-d / 1-element array (what an interpolator hands back)
        # 9: a uniform grid A and non-uniform grids B, C that start with A's first step
        # 10: a fine grid on which the reservoir depletes to round-off, then coarse grids far beyond that time; 11: consecutive horizons
        replay_histories(ctx, kind, behs, variants + ([7, 8, 9, 10, 11] if kind == "ideal" or not ctx.quick else []), OWN_CLAUSES)
    if not ctx.quick:
        # deeper single-phase histories: random behaviours of depth 6 from TLC's simulation mode
        behs = export_sampled(ctx, "single", 6, 1000)
        ctx.extra["sampled_depth6_histories"] = len(behs)
        replay_histories(ctx, "single", behs, [0, 3], OWN_CLAUSES)
    if ctx.quick:
        trace_validation(ctx, n_inst=4, nobj=6, length=30, clauses=OWN_CLAUSES)
    else:
        trace_validation(ctx, n_inst=16, nobj=20, length=40, clauses=OWN_CLAUSES)

    # per-call statement of the property under concurrent use (Reentrant.tla): the same calls from several threads at once
    from ..drivers import threads  # noqa: PLC0415

    threads.clause(ctx, ['reservoirs'])


