"""C04 -- each time level is the implicit backward-Euler update of the previous one."""
from __future__ import annotations

from .. import core
from . import scheme_common as sc


def run(ctx: core.Ctx) -> None:
    ctx.rule = ("spec->code: every initial-profile case of Scheme.tla replayed as a 2-point simulate and compared with TLC's exact "
                "rational step; code->spec: for every logged step of random runs (non-uniform grids, schedules, nx 3..400) the "
                "componentwise backward error of the stored level against the stencil of Scheme.tla, computed in exact rational "
                "arithmetic from the stored previous level, is judged by SchemeTrace.tla (<= 1e-11); solver flags captured")
    ctx.assumptions += [
        "rows judged: all interior nodes and the outer node (the frac-face row belongs to C01)",
        "rounding level = componentwise backward error |A u' - b|_j / (|b_j| + (|A||u'|)_j) <= 1e-11 (a direct solve gives 1e-16; "
        "BiCGSTAB with default tolerance 1e-6..1e-5); for mesh ratios k >> 1 no float64 solver can do better relative to |b| alone",
        "diffusivity of the step is re-evaluated from the stored previous level through the object's public alpha_scaled",
        "an iterative solver is observed only through scipy.sparse.linalg entry points returning an info flag (wrapped harness-side)",
    ]
    ctx.trusted += ["TLC", "fractions.Fraction", "bbv/drivers/scheme.py residual oracle (self-tested: exact zero on TLC's own solutions)"]
    sc.design_models(ctx, full=not ctx.quick)
    sc.replay_exact(ctx)
    n = 120 if ctx.quick else 1500
    raws = sc.trace_runs(ctx, sc.gen_configs(ctx.seed + 1, n, 100 if ctx.quick else 400, f32_tables=True), "C04", want_resid=True, want_rf=False)
    ctx.extra["repo_tests"] = sc.repo_test_traces(ctx, "C04", ["tests/flow/test_reservoir.py", "tests/forecast/test_forecast.py", "tests/test_plots.py"], True)
    if not ctx.quick:   # the documentation notebooks, cell by cell (those that need the network stop at that cell)
        ctx.extra["notebooks"] = sc.repo_test_traces(ctx, "C04", sc.NOTEBOOKS, True, module="bbv.drivers.notebooks")
    ctx.extra["worst_backward_error"] = max(r["worst_backward_error"] for r in raws) if raws else None
    ctx.extra["steps_judged"] = sum(max(0, r["levels_logged"] - 1) for r in raws)
    ctx.extra["nonuniform_grid_runs"] = sum(1 for r in raws if r["cfg"]["grid"] != "uniform")
    if raws:
        ctx.sample({"run": raws[0]["cfg"], "worst_backward_error": raws[0]["worst_backward_error"]})


def replay(ctx: core.Ctx, obj: dict) -> None:
    sc.replay_run(ctx, obj, "C04")
