"""X01 -- extended behaviour beyond the listed properties (not a MANIFEST check; see DESIGN.md section 5 / 0.7).

The reservoir state machine of Reservoir.tla also covers the two remaining public classes:
  twophase    TwoPhaseReservoir: the single-phase solver with the constructor's pressure and no schedule argument;
              the same freshness / idempotence rules as C10 hold, and its results are bit-identical to SinglePhaseReservoir's
  multiphase  MultiPhaseReservoir: simulate() always raises NotImplementedError and changes nothing, so recovery and the
              interpolator keep raising RuntimeError ("contract of the unfinished class": an accidental partial implementation is noticed)
Run:  ./check X01 [--tier thorough]
"""
from __future__ import annotations

import warnings

import numpy as np

from .. import core
from ..drivers import reservoir as drv
from . import c10


def run(ctx: core.Ctx) -> None:
    ctx.rule = "all call histories of Reservoir.tla for the kinds twophase / multiphase, replayed on the real classes; TwoPhase == SinglePhase bitwise"
    depth = 4 if ctx.quick else 5
    for kind in ("twophase", "multiphase"):
        ctx.model_check("Reservoir", f"MC_Reservoir_{kind}.cfg", workers=4)
        behs = c10.export_behaviours(ctx, kind, depth)
        c10.replay_histories(ctx, kind, behs, [0, 3] if ctx.quick else [0, 1, 2, 3])
    # TwoPhaseReservoir is the single-phase solver
    from bluebonnet.flow import SinglePhaseReservoir, TwoPhaseReservoir  # noqa: PLC0415

    for v in range(6 if ctx.quick else 40):
        inst = drv.default_inst("single", v)
        a = SinglePhaseReservoir(inst.nx, inst.pf, inst.pi, inst.fluid())
        b = TwoPhaseReservoir(inst.nx, inst.pf, inst.pi, inst.fluid(), 0.1)
        with warnings.catch_warnings():
            warnings.simplefilter("ignore")
            for g in "ABC":
                a.simulate(inst.grids[g].copy())
                b.simulate(inst.grids[g].copy())
                ctx.case(f"two==single/{v}/{g}")
                same = np.array_equal(a.pseudopressure, b.pseudopressure) and np.array_equal(a.recovery_factor(), b.recovery_factor()) \
                    and np.array_equal(a.recovery_factor(density=True), b.recovery_factor(density=True))
                if not same:
                    ctx.violation("TwoPhaseIsSinglePhase", f"instantiation {inst.describe()} grid {g}: TwoPhaseReservoir differs from "
                                  "SinglePhaseReservoir", replay={"stage": "twophase", "variant": v, "grid": g})
    ownership(ctx)
    # every task group of the re-entrancy clause in one place, plus the frame condition: a library call leaves the process-wide
    # settings (numpy error state and print options, random states, warning filters, pandas options, matplotlib rcParams, ...) alone
    from ..drivers import threads  # noqa: PLC0415

    threads.clause(ctx, ["gas_z", "gas_props", "gas_pseudopressure", "tables", "sutton", "oil_water", "facade", "relperm", "reservoirs",
                         "wrappers", "forecasts", "multiphase"], check_frame=True)
    ctx.sample({"kinds": ["twophase", "multiphase"], "depth": depth})


# ---- ownership: library operations only read caller-owned data (Ownership.tla) ------------------------------------------
def _digest(x) -> str:
    import hashlib  # noqa: PLC0415

    import pandas as pd  # noqa: PLC0415

    h = hashlib.sha1()
    if isinstance(x, pd.DataFrame):
        h.update(repr(list(x.columns)).encode() + repr(list(x.index[:5])).encode() + repr(x.shape).encode())
        for c in x.columns:
            h.update(np.ascontiguousarray(x[c].to_numpy()).tobytes())
    elif isinstance(x, dict):
        h.update(repr(sorted(x)).encode())
        for k in sorted(x):
            h.update(np.ascontiguousarray(np.asarray(x[k])).tobytes())
    else:
        a = np.asarray(x)
        h.update(repr((a.shape, a.dtype.str)).encode() + np.ascontiguousarray(a).tobytes())
    return h.hexdigest()


def ownership(ctx: core.Ctx) -> None:
    import pandas as pd  # noqa: PLC0415
    from bluebonnet.flow import FlowProperties, SinglePhaseReservoir, rescale_pseudopressure  # noqa: PLC0415
    from bluebonnet.flow.flowproperties import RelPermParams, relative_permeabilities  # noqa: PLC0415
    from bluebonnet.fluids import Fluid, pseudopressure  # noqa: PLC0415
    from bluebonnet.forecast import ForecasterOnePhase, fit_production_pressure  # noqa: PLC0415

    r = ctx.model_check("Ownership", "MC_Ownership.cfg", workers=2)
    ctx.expect_refuted("Ownership", "MC_Ownership_dev.cfg", "NoWrite", workers=2)
    ops = r.by_tag("OPS")[0]["ops"]
    rng = np.random.default_rng([ctx.seed, 4242])
    for rep in range(4 if ctx.quick else 40):
        as_dict = rep % 2 == 1
        base = drv.shipped_table("pvt_gas").iloc[1:].reset_index(drop=True)
        table = {c: base[c].to_numpy().copy() for c in base.columns} if as_dict else base.copy()
        pvt = pd.read_csv(__import__("bbv").env.REPO / "tests/data/pvt_gas_HAYNESVILLE SHALE_20.csv")
        nt = int(rng.integers(12, 40))
        time = np.linspace(0, 1.5, nt) ** 2
        sched = np.linspace(3000.0, 1000.0, nt)
        caller = {"time": time, "schedule": sched, "table": table, "pvt": pvt,
                  "pressure": rng.uniform(100, 9000, 7), "t_fit": np.linspace(0, 2.0, 60),
                  "saturations": np.array([(0.3, 0.1, 0.6), (0.05, 0.1, 0.85)], dtype=[("So", "f8"), ("Sw", "f8"), ("Sg", "f8")])}
        with warnings.catch_warnings():
            warnings.simplefilter("ignore")
            fp = None
            res = None
            interp = None
            fc = None

            def run_op(name):
                nonlocal fp, res, interp, fc
                if name == "FlowProperties":
                    fp = FlowProperties(caller["table"], 8000.0)
                elif name == "rescale":
                    rescale_pseudopressure(caller["table"], 1000.0, 8000.0)
                elif name == "simulate":
                    res = SinglePhaseReservoir(12, 1000.0, 8000.0, fp)
                    res.simulate(caller["time"], caller["schedule"])
                elif name == "recovery_factor":
                    res.recovery_factor()
                    res.recovery_factor(density=True)
                elif name == "interpolator":
                    interp = res.recovery_factor_interpolator()
                    interp(caller["time"])
                elif name == "fit":
                    caller["y_fit"] = 250.0 * interp(caller["t_fit"] / 1.3)
                    before["y_fit"] = _digest(caller["y_fit"])
                    fc = ForecasterOnePhase(interp)
                    fc.fit(caller["t_fit"], caller["y_fit"])
                elif name == "forecast_cum":
                    fc.forecast_cum(caller["t_fit"])
                elif name == "fit_pressure":
                    n = 24
                    pf = np.linspace(3000.0, 1200.0, n)
                    caller["prod"] = pd.DataFrame({"Days": np.arange(n) * 1.0, "Gas": rng.uniform(0.5, 2.0, n), "Pressure": pf})
                    before["prod"] = _digest(caller["prod"])
                    fit_production_pressure(caller["prod"], caller["pvt"], 6000.0, n_iter=2)
                elif name == "relperm":
                    relative_permeabilities(caller["saturations"], RelPermParams(2, 2, 2, 0.1, 0.1, 0.05, 1, 1, 1))
                elif name == "correlations":
                    f = Fluid(200.0, 35.0, 0.8, 650.0, salinity=5.0)
                    f.oil_FVF(caller["pressure"]); f.oil_viscosity(caller["pressure"]); f.water_FVF(caller["pressure"])
                    f.water_viscosity(caller["pressure"]); f.gas_FVF(caller["pressure"], -70.0, 650.0)
                elif name == "pseudopressure":
                    p = np.sort(caller["pressure"])
                    caller["pressure"] = p
                    before["pressure"] = _digest(p)
                    pseudopressure(p, np.full(7, 0.02), np.full(7, 0.9))

            before = {k: _digest(v) for k, v in caller.items()}
            order = ["FlowProperties", "rescale", "simulate", "recovery_factor", "interpolator", "fit", "forecast_cum",
                     "fit_pressure", "relperm", "correlations", "pseudopressure"]
            if set(order) != set(ops):
                raise __import__("bbv").tlc.MachineryError(f"operation table of Ownership.tla changed: {sorted(ops)}")
            for name in order:
                try:
                    run_op(name)
                except Exception as ex:  # noqa: BLE001
                    ctx.violation("Ownership.Raises", f"operation {name} raised {type(ex).__name__}: {ex}", replay={"stage": "own", "op": name})
                    continue
                ctx.case(f"own/{rep}/{name}")
                for a in ops[name]["reads"]:
                    if a in caller and a in before and _digest(caller[a]) != before[a]:
                        ctx.violation("Ownership.NoWrite", f"operation {name} modified the caller's {a} ({'dict' if as_dict else 'DataFrame'} table)",
                                      replay={"stage": "own", "op": name, "array": a})
            # nothing at all changed by the end (also arrays an operation was not supposed to read)
            for a, d in before.items():
                if _digest(caller[a]) != d:
                    ctx.violation("Ownership.NoWrite", f"caller's {a} changed during the session", replay={"stage": "own", "array": a})
            kept = {"time": res is not None and res.time is caller["time"]}
            ctx.extra.setdefault("aliasing_observed", {}).update({k: bool(v) for k, v in kept.items()})


def replay(ctx: core.Ctx, obj: dict) -> None:
    c10.replay(ctx, obj)
