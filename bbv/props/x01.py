"""X01 -- extended behaviour beyond the listed properties (not a MANIFEST check; see DESIGN.md section 5 / 0.7).

The reservoir state machine of Reservoir.tla also covers the two remaining public classes:
  twophase    TwoPhaseReservoir: the single-phase solver with the constructor's pressure and no schedule argument;
              the same freshness / idempotence rules as C10 hold, and its results are bit-identical to SinglePhaseReservoir's
  multiphase  MultiPhaseReservoir: simulate() always raises NotImplementedError and changes nothing, so recovery and the
              interpolator keep raising RuntimeError ("contract of the unfinished class": an accidental partial implementation is noticed)
Run:  ./check X01 [--tier thorough]
"""
from __future__ import annotations

import warnings

import numpy as np

from .. import core
from ..drivers import reservoir as drv
from . import c10


def run(ctx: core.Ctx) -> None:
    ctx.rule = "all call histories of Reservoir.tla for the kinds twophase / multiphase, replayed on the real classes; TwoPhase == SinglePhase bitwise"
    depth = 4 if ctx.quick else 5
    for kind in ("twophase", "multiphase"):
        ctx.model_check("Reservoir", f"MC_Reservoir_{kind}.cfg", workers=4)
        behs = c10.export_behaviours(ctx, kind, depth)
        c10.replay_histories(ctx, kind, behs, [0, 3] if ctx.quick else [0, 1, 2, 3])
    # TwoPhaseReservoir is the single-phase solver
    from bluebonnet.flow import SinglePhaseReservoir, TwoPhaseReservoir  # noqa: PLC0415

    for v in range(6 if ctx.quick else 40):
        inst = drv.default_inst("single", v)
        a = SinglePhaseReservoir(inst.nx, inst.pf, inst.pi, inst.fluid())
        b = TwoPhaseReservoir(inst.nx, inst.pf, inst.pi, inst.fluid(), 0.1)
        with warnings.catch_warnings():
            warnings.simplefilter("ignore")
            for g in "ABC":
                a.simulate(inst.grids[g].copy())
                b.simulate(inst.grids[g].copy())
                ctx.case(f"two==single/{v}/{g}")
                same = np.array_equal(a.pseudopressure, b.pseudopressure) and np.array_equal(a.recovery_factor(), b.recovery_factor()) \
                    and np.array_equal(a.recovery_factor(density=True), b.recovery_factor(density=True))
                if not same:
                    ctx.violation("TwoPhaseIsSinglePhase", f"instantiation {inst.describe()} grid {g}: TwoPhaseReservoir differs from "
                                  "SinglePhaseReservoir", replay={"stage": "twophase", "variant": v, "grid": g})
    ctx.sample({"kinds": ["twophase", "multiphase"], "depth": depth})


def replay(ctx: core.Ctx, obj: dict) -> None:
    c10.replay(ctx, obj)
