"""C12 -- black-oil correlations are continuous and correctly ordered at the bubble point.

C->S:  for every oil of the quantifier lattice (T 80..350 F, API 12..55, gas gravity 0.56..1.3, GOR 20..2500,
       p_b > 50 psia) and for random oils of the same box, the scalar branches of solution_gor_Standing,
       b_o_Standing, density_Standing, viscosity_beggs_robinson, oil_compressibility_undersat_Spivey and
       pressure_bubblepoint_Standing are evaluated along the ladder 15 psia .. p_b(1 -+ 2^-k) .. 2.5 p_b
       (k = 1..50, the two nextafter neighbours of p_b and p_b itself); the quantised observations are judged
       by SweepC12.tla (an instantiation of SweepCore.tla): every ordering, threshold and coverage obligation
       is evaluated by TLC at every point of every sweep.
"""
from __future__ import annotations

import math
from concurrent.futures import ProcessPoolExecutor
from fractions import Fraction

import numpy as np

from .. import core, env, quant, sweep
from ..drivers import oilwater as drv

CAP = quant.CAP
COARSE_K = 30      # bo_rise / bo_fall are logged at k <= COARSE_K (and the far points, k = 0)
SLOPE_K = (8, 44)  # slope_f is logged for these k
NAMES = ("rs", "bo", "rho", "mu")


def _finite(x: float) -> bool:
    return not (math.isnan(x) or math.isinf(x))


def _ratio_int(num: Fraction, den: Fraction, scale: int) -> int:
    if den <= 0:
        return CAP
    return int(min(CAP, math.ceil(num / den * scale)))


def jump17(f: float, fb: float) -> int:
    """ceil(|f - f_b| / |f_b| * 1e17), capped."""
    if not (_finite(f) and _finite(fb)):
        return CAP
    return _ratio_int(abs(Fraction(f) - Fraction(fb)), abs(Fraction(fb)), 10**17)


def slope_milli(f: float, fb: float, p: float, pb: float) -> int:
    """ceil(1000 * (|f - f_b| / |f_b|) / (|p - p_b| / p_b)), capped."""
    if not (_finite(f) and _finite(fb)):
        return CAP
    num = abs(Fraction(f) - Fraction(fb)) * Fraction(pb)
    den = abs(Fraction(fb)) * abs(Fraction(p) - Fraction(pb))
    return _ratio_int(num, den, 1000)


def points_of(m: dict) -> list[dict]:
    """Projection of one measured ladder to Point events (no judgement)."""
    rows, pb = m["rows"], m["pb"]
    gor_i = m["oil"][3]
    at = next(r for r in rows if r["side"] == "at")
    mus = [r["mu"] for r in rows if r["side"] != "above" and _finite(r["mu"]) and r["mu"] > 0]
    win = {"rs": gor_i, "bo": at["bo"] if _finite(at["bo"]) and at["bo"] > 0 else 1.0,
           "rho": at["rho"] if _finite(at["rho"]) and at["rho"] > 0 else 1.0,
           "mu": max(mus) if mus else 1.0}
    out = []
    for r in rows:
        side, k, p = r["side"], r["k"], r["p"]
        vals = {"rs": quant.q(r["rs"], 0.0, win["rs"]), "rho": quant.q(r["rho"], 0.0, win["rho"])}
        agree, flags = {}, {}
        bo_q = quant.q(r["bo"], 0.0, win["bo"])
        if side != "above":
            vals["bo_up"] = bo_q
            vals["mu_down"] = quant.q(r["mu"], 0.0, win["mu"])
        if side != "below":
            vals["bo_down"] = bo_q
            vals["rs_flat"] = vals["rs"]
            agree["rs_gori"] = quant.e15(r["rs"], gor_i, gor_i)
            flags["co_pos"] = bool(r["co"] > 0)
            flags["mu_pos"] = bool(r["mu"] > 0)
        else:
            agree["rs_inv"] = quant.e15(r["pb_of_rs"], p, p)
        if k <= COARSE_K and side == "below":
            vals["bo_rise"] = bo_q
        if k <= COARSE_K and side == "above":
            vals["bo_fall"] = bo_q
        if side != "at":
            if k == drv.NEXT:
                for nm in NAMES:
                    agree[f"jump_{nm}"] = jump17(r[nm], at[nm])
            elif SLOPE_K[0] <= k <= SLOPE_K[1]:
                for nm in NAMES:
                    agree[f"slope_{nm}"] = slope_milli(r[nm], at[nm], p, pb)
        raw = {kk: r[kk] for kk in ("p", "k", "side", "rs", "bo", "rho", "mu")}
        raw.update({kk: r[kk] for kk in ("co", "pb_of_rs") if kk in r})
        raw["p_over_pb"] = p / pb
        out.append({"x": quant.q(p, 0.0, 2.5 * pb), "side": side, "vals": vals, "agree": agree, "flags": flags,
                    "raw": raw})
    return out


def _work(o):
    env.import_bluebonnet()
    m = drv.measure_ladder(o)
    return m["pb"], points_of(m), m["style"] + ("/int GOR" if m["int_gor"] else "")


def sweep_oils(ctx: core.Ctx, oils: list[tuple], batch: int = 600) -> None:
    with ProcessPoolExecutor(max_workers=16) as ex:
        res = list(ex.map(_work, oils, chunksize=8))
    for i in range(0, len(oils), batch):
        log = sweep.SweepLog()
        for o, (pb, pts, style) in zip(oils[i:i + batch], res[i:i + batch]):
            log.begin("oil", {"what": f"oil T={o[0]!r} API={o[1]!r} gg={o[2]!r} GOR={o[3]!r} [calls: {style}]", "oil": list(o), "pb": pb,
                              "call_style": style})
            for pt in pts:
                log.point(pt["x"], pt["side"], pt["vals"], pt["agree"], pt["flags"], pt["raw"])
            log.end()
            ctx.case(f"oil {o}")
        sweep.judge(ctx, "SweepC12", log)
    o, (pb, pts, _style) = oils[len(oils) // 2], res[len(oils) // 2]
    styles: dict = {}
    for _o, (_pb, _pts, st) in zip(oils, res):
        styles[st] = styles.get(st, 0) + 1
    ctx.extra.setdefault("call_styles", {})
    for st, cnt in styles.items():
        ctx.extra["call_styles"][st] = ctx.extra["call_styles"].get(st, 0) + cnt
    for j in (0, 55, 56, 57, 58):
        ctx.sample({"oil": o, "p_b": pb, "point": pts[j]["raw"], "agree": pts[j]["agree"], "flags": pts[j]["flags"]})


def choose_oils(ctx: core.Ctx) -> list[tuple]:
    lat = drv.lattice_oils()
    ctx.extra["lattice_admissible"] = len(lat)
    if ctx.quick:
        rng = np.random.default_rng([ctx.seed, 12, 1])
        idx = sorted(rng.choice(len(lat), size=150, replace=False).tolist())
        lat = [lat[i] for i in idx]
        nrand = 60
    else:
        nrand = 2000
    # corners of the box are always in (extreme oils)
    corners = [o for o in drv.lattice_oils()
               if all(v in drv.BOX[k] for v, k in zip(o, ("T", "API", "gg", "R")))]
    seen, out = set(), []
    for o in corners + lat + drv.random_oils([ctx.seed, 12, 2], nrand):
        if o not in seen:
            seen.add(o)
            out.append(o)
    # the box corners and every 7th oil are measured again in the further call styles (column-major 2-d field; facade on a column
    # with repeated pressures) - listed after the others so that nothing about the first pass changes
    again = corners + [o for i, o in enumerate(out) if i % 7 == 3 and o not in corners]
    ctx.extra["oils_in_further_call_styles"] = len(again)
    return out + [o + (st,) for st in drv.EXTRA_STYLES for o in again]


def replay(ctx: core.Ctx, obj: dict) -> None:
    r = obj["replay"]
    o = tuple(r["meta"]["oil"])
    env.import_bluebonnet()
    m = drv.measure_ladder(o)
    print(f"oil T={o[0]!r} API={o[1]!r} gg={o[2]!r} GOR={o[3]!r}: p_b = {m['pb']!r}; clause {r['clause']} "
          f"at ladder point {r['point_index']}")
    lo, hi = max(0, r["point_index"] - 2), r["point_index"] + 3
    for row in m["rows"][lo:hi]:
        print("  ", {k: row[k] for k in row})
    ctx.rule = "replay of one oil's ladder"
    sweep_oils(ctx, [o])


def run(ctx: core.Ctx) -> None:
    ctx.rule = ("sweeps = oils of the 7x7x5x7 lattice over T 80..350 F, API 12..55, gas gravity 0.56..1.3, GOR 20..2500 "
                "with p_b > 50 psia (quick: 150 of them + the box corners) plus random oils of the same box; each "
                "sweep = 112 ladder points 15 psia .. p_b(1-+2^-k), k=1..50, nextafter neighbours, p_b itself .. 2.5 p_b; "
                "distinct = oil")
    ctx.assumptions += [
        "scalar branches are called with Python floats or numpy scalars; array branches with 1-d columns in three orders, and for "
        "a seventh of the oils also with a column-major 2-d field and through Fluid.oil_FVF / Fluid.oil_viscosity on a column in "
        "which every pressure occurs twice (the two answers must agree to 1e-13)",
        "the bubble point is the library's pressure_bubblepoint_Standing(T, API, gg, GOR_i) (the mark of the sweep)",
        "rounding allowances at the mark (SweepC12.tla): 4e-15 relative for the round trip p_b(GOR_i) -> R_s(p), "
        "1e-14 for mu_o; strict rise/fall of B_o is demanded between points at least 2^-31 p_b apart",
        "continuity is decided on the finite ladder: a jump at p_b larger than about 4e-15 (1e-14 for mu_o) relative "
        "is flagged by jump_f, a fast transition within 2^-44 p_b .. 2^-8 p_b by slope_f",
    ]
    ctx.trusted += ["TLC 2026.09", "exact rational projection bbv/quant.py", "driver bbv/drivers/oilwater.py"]
    sweep_oils(ctx, choose_oils(ctx))
