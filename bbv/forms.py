"""The forms in which one and the same value reaches the library (DESIGN 0.6: 'how a value is handed over').

The properties quantify over values; a caller holds a value as a Python float or int, a numpy scalar, a 0-d array, and a
column as an ndarray, a list, a reversed / strided view, a Fortran-ordered field, a pandas Series whose row labels are not
0..n-1 in order.  These helpers present a value in the k-th of its *exactly equal* forms (a form is only used when it
represents the value exactly, so that the expected result does not change)."""
from __future__ import annotations

import numpy as np

SCALAR_FORMS = ("float", "int", "np.float64", "np.int64", "0-d array", "np.float32")


def scalar(x: float, k: int, float32: bool = False):
    """x in the k-th admissible form; returns (value, form name). float32 (which legitimately lowers the working precision of
    everything computed from it) only on request."""
    x = float(x)
    forms = ["float", "np.float64", "0-d array"]
    if x == int(x) and abs(x) < 2**31:
        forms += ["int", "np.int64"]
    if float32 and float(np.float32(x)) == x:
        forms.append("np.float32")
    f = forms[k % len(forms)]
    if f == "float":
        return x, f
    if f == "int":
        return int(x), f
    if f == "np.float64":
        return np.float64(x), f
    if f == "np.int64":
        return np.int64(int(x)), f
    if f == "0-d array":
        return np.array(x), f
    return np.float32(x), f


ARRAY_FORMS = ("ndarray", "list", "series_permuted", "series_default", "reversed_view", "strided_view", "fortran_2d")


def array(a, k: int, forms=ARRAY_FORMS):
    """The 1-d float array `a` in the k-th form; returns (object, form name, unbox) where unbox(result) gives the result as a
    flat ndarray in the order of `a`."""
    a = np.asarray(a)
    f = forms[k % len(forms)]
    n = len(a)
    flat = lambda r: np.asarray(r).reshape(-1)  # noqa: E731
    if f == "ndarray":
        return a.copy(), f, flat
    if f == "list":
        return a.tolist(), f, flat
    if f in ("series_permuted", "series_default"):
        import pandas as pd  # noqa: PLC0415

        labels = np.arange(n) if f == "series_default" else np.random.default_rng(n + 1).permutation(n)
        return pd.Series(a.copy(), index=labels), f, flat
    if f == "reversed_view":
        return a[::-1].copy()[::-1], f, flat
    if f == "strided_view":
        buf = np.empty(2 * n, dtype=a.dtype)
        buf[::2] = a
        buf[1::2] = -1
        return buf[::2], f, flat
    if f == "fortran_2d":
        # a (2, n) field stored column-major whose first row is `a` (what DataFrame.to_numpy() of several columns gives)
        fld = np.asfortranarray(np.vstack([a, a[::-1]]))
        return fld, f, (lambda r: np.asarray(r)[0].reshape(-1))
    raise ValueError(f)
