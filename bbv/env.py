"""Process environment for every check: paths, determinism, and the assertion that the code under
test is the current working tree of /repo (the venv's editable install points at /repo/src)."""
from __future__ import annotations

import os
import shutil
import sys
import uuid
from pathlib import Path

VERIF = Path(__file__).resolve().parent.parent
REPO = Path(os.environ.get("BBV_REPO", "/repo"))
SPEC = VERIF / "spec"
WORK = VERIF / ".work"
# trials against scratch worktrees (tools/try_mutant.sh) write their artifacts / evidence elsewhere, so that they never
# replace the evidence of the registered checks
ARTIFACTS = Path(os.environ.get("BBV_ARTIFACTS", VERIF / "artifacts"))
EVIDENCE = Path(os.environ.get("BBV_EVIDENCE", VERIF / "evidence"))
GUARD = "BLUEBONNET_VERIF"

os.environ.setdefault("OMP_NUM_THREADS", "1")
os.environ.setdefault("OPENBLAS_NUM_THREADS", "1")
os.environ.setdefault("MKL_NUM_THREADS", "1")
os.environ.setdefault("MPLBACKEND", "Agg")
os.environ[GUARD] = "1"


def seed() -> int:
    try:
        return int(os.environ.get("VERIF_SEED", "0"))
    except ValueError:
        return 0


def import_bluebonnet():
    """Import bluebonnet and make sure it is the working tree of /repo (never a stale copy)."""
    src = str(REPO / "src")
    if src not in sys.path:
        sys.path.insert(0, src)
    import bluebonnet  # noqa: PLC0415

    here = Path(bluebonnet.__file__).resolve()
    if (REPO / "src") not in here.parents:
        msg = f"bluebonnet imported from {here}, expected under {REPO}/src"
        raise RuntimeError(msg)
    return bluebonnet


def scratch(tag: str) -> Path:
    d = WORK / f"{tag}-{os.getpid()}-{uuid.uuid4().hex[:8]}"
    d.mkdir(parents=True, exist_ok=True)
    return d


def cleanup(d: Path) -> None:
    if os.environ.get("BBV_KEEP"):
        return
    shutil.rmtree(d, ignore_errors=True)
