"""Process environment for every check: paths, determinism, and the assertion that the code under
test is the current working tree of /repo (the venv's editable install points at /repo/src)."""
from __future__ import annotations

import os
import shutil
import sys
import uuid
from pathlib import Path

VERIF = Path(__file__).resolve().parent.parent
REPO = Path(os.environ.get("BBV_REPO", "/repo"))
SPEC = VERIF / "spec"
WORK = VERIF / ".work"
# trials against scratch worktrees (tools/try_mutant.sh) write their artifacts / evidence elsewhere, so that they never
# replace the evidence of the registered checks
ARTIFACTS = Path(os.environ.get("BBV_ARTIFACTS", VERIF / "artifacts"))
EVIDENCE = Path(os.environ.get("BBV_EVIDENCE", VERIF / "evidence"))
GUARD = "BLUEBONNET_VERIF"

os.environ.setdefault("OMP_NUM_THREADS", "1")
os.environ.setdefault("OPENBLAS_NUM_THREADS", "1")
os.environ.setdefault("MKL_NUM_THREADS", "1")
os.environ.setdefault("MPLBACKEND", "Agg")
os.environ[GUARD] = "1"


import numpy as _np  # noqa: E402

START_ERR = _np.geterr()   # numpy's error state before any library code ran in this process


def seed() -> int:
    try:
        return int(os.environ.get("VERIF_SEED", "0"))
    except ValueError:
        return 0


def import_bluebonnet():
    """Import bluebonnet and make sure it is the working tree of /repo (never a stale copy)."""
    src = str(REPO / "src")
    if src not in sys.path:
        sys.path.insert(0, src)
    import bluebonnet  # noqa: PLC0415

    here = Path(bluebonnet.__file__).resolve()
    if (REPO / "src") not in here.parents:
        msg = f"bluebonnet imported from {here}, expected under {REPO}/src"
        raise RuntimeError(msg)
    return bluebonnet


def scratch(tag: str) -> Path:
    d = WORK / f"{tag}-{os.getpid()}-{uuid.uuid4().hex[:8]}"
    d.mkdir(parents=True, exist_ok=True)
    return d


def cleanup(d: Path) -> None:
    if os.environ.get("BBV_KEEP"):
        return
    shutil.rmtree(d, ignore_errors=True)


class time_limit:
    """Wall-clock limit for calls into the library made in a worker process (SIGALRM; main thread of that process only):
    a change that makes a call practically endless (a step split into 1e9 sub-steps) is reported by the caller as a failed run
    instead of hanging the check.  The limits used are hundreds of times what the unchanged library needs."""

    def __init__(self, seconds: int, what: str = "the library call"):
        self.seconds, self.what = int(seconds), what

    def _fire(self, *_):
        raise TimeoutError(f"{self.what} did not return within {self.seconds} s")

    def __enter__(self):
        import signal  # noqa: PLC0415
        import threading  # noqa: PLC0415

        self.active = threading.current_thread() is threading.main_thread() and hasattr(signal, "SIGALRM")
        if self.active:
            self.old = signal.signal(signal.SIGALRM, self._fire)
            signal.alarm(self.seconds)
        return self

    def __exit__(self, *exc):
        if self.active:
            import signal  # noqa: PLC0415

            signal.alarm(0)
            signal.signal(signal.SIGALRM, self.old)
        return False
