"""CLI:  python -m bbv.check Cxx [--tier quick|thorough] [--replay PATH]

exit 0: property held on everything explored (KNOWN-FINDING lines possible)
exit 1: at least one `VIOLATION property=<id> replay=<path>` line
exit 2: machinery failure (TLC crash, malformed trace, time-out) -- never a verdict
"""
from __future__ import annotations

import argparse
import importlib
import json
import os
import sys
import traceback

from . import core, env, tlc


def main(argv=None) -> int:
    ap = argparse.ArgumentParser()
    ap.add_argument("prop")
    ap.add_argument("--tier", default=os.environ.get("VERIF_TIER", "quick"), choices=["quick", "thorough"])
    ap.add_argument("--replay", default=None)
    a = ap.parse_args(argv)
    prop = a.prop.upper()
    env.import_bluebonnet()
    mod = importlib.import_module(f"bbv.props.{prop.lower()}")
    ctx = core.Ctx(prop, a.tier)
    try:
        if a.replay:
            obj = json.loads(open(a.replay).read())
            if isinstance(obj.get("replay"), dict) and obj["replay"].get("stage") == "threads":
                from .drivers import threads  # noqa: PLC0415

                threads.replay(ctx, obj)
            else:
                mod.replay(ctx, obj)
        else:
            mod.run(ctx)
    except tlc.MachineryError as ex:
        print(f"MACHINERY-FAILURE property={prop}: {ex}", file=sys.stderr)
        return 2
    except Exception:  # noqa: BLE001
        traceback.print_exc()
        print(f"MACHINERY-FAILURE property={prop}: unexpected exception in the harness", file=sys.stderr)
        return 2
    return ctx.finish()


if __name__ == "__main__":
    sys.exit(main())
