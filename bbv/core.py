"""Check context: counts what a run covered, reconciles violations with known findings, writes evidence."""
from __future__ import annotations

import hashlib
import json
import time
from pathlib import Path

from . import env, tlc

LEVEL = "model_checking"


def _jsonable(o):
    import numpy as np  # noqa: PLC0415

    if isinstance(o, dict):
        return {str(k): _jsonable(v) for k, v in o.items()}
    if isinstance(o, (list, tuple, set)):
        return [_jsonable(v) for v in o]
    if isinstance(o, np.ndarray):
        return _jsonable(o.tolist())
    if isinstance(o, (np.integer,)):
        return int(o)
    if isinstance(o, (np.floating,)):
        return float(o)
    if isinstance(o, (np.bool_,)):
        return bool(o)
    if isinstance(o, float) and (o != o or o in (float("inf"), float("-inf"))):
        return repr(o)
    if isinstance(o, (str, int, float, bool)) or o is None:
        return o
    return repr(o)


class Ctx:
    def __init__(self, prop: str, tier: str):
        self.prop = prop
        self.tier = tier
        self.seed = env.seed()
        self.t0 = time.time()
        self.states = 0
        self.transitions = 0
        self.traces = 0  # traces (executions of the implementation) validated against the spec
        self.events = 0
        self.evaluations = 0  # implementation executions / cases replayed
        self.nontrivial: set[str] = set()
        self.samples: list = []
        self.tlc_runs: list[dict] = []
        self.assumptions: list[str] = []
        self.trusted: list[str] = []
        self.rule = ""
        self.exhaustive_models: list[str] = []
        self.extra: dict = {}
        self.violations: list[dict] = []
        self.known_hits: dict[str, dict] = {}
        self.findings = load_findings()
        self.quick = tier == "quick"
        self._viol_keys: set[str] = set()

    # ---- TLC -------------------------------------------------------------------------------------
    def tlc(self, module: str, cfg, **kw) -> tlc.TLCResult:
        r = tlc.run(module, cfg, **kw)
        self.states += r.distinct
        self.transitions += r.generated
        self.tlc_runs.append({"module": module, "cfg": r.cfg, "distinct": r.distinct, "generated": r.generated,
                              "depth": r.depth, "wall_s": round(r.wall_s, 2), "ok": r.ok, "violated": r.violated})
        return r

    def model_check(self, module: str, cfg, *, exhaustive: bool = True, **kw) -> tlc.TLCResult:
        """Exhaustive run of a design-level config; an invariant violation here is a defect of the model
        (machinery), not of the code."""
        r = self.tlc(module, cfg, **kw)
        if not r.ok:
            raise tlc.MachineryError(f"design-level model {module}/{r.cfg} violates {r.violated}:\n{r.output[-2500:]}")
        if exhaustive:
            self.exhaustive_models.append(f"{module}/{r.cfg}")
        return r

    def expect_refuted(self, module: str, cfg, invariant: str | None = None, **kw) -> tlc.TLCResult:
        """A deviation config: TLC must find the violation, otherwise the invariant is vacuous."""
        r = self.tlc(module, cfg, expect_violation=True, **kw)
        if r.ok or (invariant and invariant not in r.violated):
            raise tlc.MachineryError(f"deviation config {module}/{r.cfg} was not refuted (violated={r.violated})")
        return r

    # ---- cases ------------------------------------------------------------------------------------
    def case(self, key, nontrivial: bool = True) -> None:
        self.evaluations += 1
        if nontrivial:
            self.nontrivial.add(key if isinstance(key, str) else json.dumps(_jsonable(key), sort_keys=True))

    def sample(self, obj, limit: int = 6) -> None:
        if len(self.samples) < limit:
            self.samples.append(_jsonable(obj))

    # ---- violations -------------------------------------------------------------------------------
    def violation(self, clause: str, what: str, replay: dict | None = None, finding_key: str | None = None) -> None:
        """Register a violated clause. `finding_key`: structural key the caller has *established* for this
        failure (by evaluating the finding's explanation predicate); only then can an open finding explain it."""
        if finding_key:
            f = next((f for f in self.findings if f["status"] == "open" and f["property"] == self.prop
                      and f["key"] == finding_key), None)
            if f:
                h = self.known_hits.setdefault(finding_key, {"finding": f, "count": 0, "example": what})
                h["count"] += 1
                return
        dedup = f"{clause}|{what[:160]}"
        if dedup in self._viol_keys:
            return
        self._viol_keys.add(dedup)
        path = None
        if len(self.violations) < 25:
            d = env.ARTIFACTS / self.prop
            d.mkdir(parents=True, exist_ok=True)
            body = _jsonable({"property": self.prop, "clause": clause, "what": what, "seed": self.seed,
                              "tier": self.tier, "replay": replay})
            hsh = hashlib.sha1(json.dumps(body, sort_keys=True).encode()).hexdigest()[:12]
            path = d / f"{clause.replace('/', '_')}-{hsh}.json"
            path.write_text(json.dumps(body, indent=1))
        self.violations.append({"clause": clause, "what": what, "replay": str(path) if path else None})

    # ---- finish -----------------------------------------------------------------------------------
    def finish(self) -> int:
        for key, h in self.known_hits.items():
            f = h["finding"]
            print(f"KNOWN-FINDING: property={self.prop} {f['id']} [{key}] {f['what']} "
                  f"(seen {h['count']}x this run; e.g. {h['example'][:200]})")
        for v in self.violations:
            print(f"VIOLATION property={self.prop} replay={v['replay'] or str(env.ARTIFACTS / self.prop)}  "
                  f"clause={v['clause']} :: {v['what'][:400]}")
        if not self.samples:
            self.samples.append({"note": "no sample recorded"})
        cov = {
            "states": max(self.states, 0),
            "transitions": max(self.transitions, 0),
            "traces_validated_against_impl": self.traces,
            "trace_events": self.events,
            "samples": self.samples,
            "evaluations": self.evaluations,
            "distinct_nontrivial": len(self.nontrivial),
            "rule": self.rule,
            "exhaustive": bool(self.exhaustive_models),
            "exhaustive_models": self.exhaustive_models,
            "tlc_runs": self.tlc_runs,
            "trusted_base": self.trusted,
            "known_findings_seen": {k: h["count"] for k, h in self.known_hits.items()},
        }
        cov.update(_jsonable(self.extra))
        ev = {
            "property_id": self.prop,
            "tier": self.tier,
            "seed": self.seed,
            "level": LEVEL,
            "coverage": cov,
            "assumptions": self.assumptions,
            "wall_s": round(time.time() - self.t0, 2),
            "violations": len(self.violations),
        }
        env.EVIDENCE.mkdir(exist_ok=True)
        (env.EVIDENCE / f"{self.prop}.json").write_text(json.dumps(ev, indent=1) + "\n")
        status = "VIOLATED" if self.violations else "held"
        print(f"[{self.prop}] {status}: tier={self.tier} seed={self.seed} states={self.states} "
              f"transitions={self.transitions} traces={self.traces} events={self.events} "
              f"cases={self.evaluations} distinct={len(self.nontrivial)} wall={ev['wall_s']}s")
        return 1 if self.violations else 0


def load_findings() -> list[dict]:
    p = env.VERIF / "known_findings.json"
    if not p.exists():
        return []
    return json.loads(p.read_text()).get("findings", [])


def write_ndjson(path: Path, events) -> None:
    with path.open("w") as f:
        for e in events:
            f.write(json.dumps(_jsonable(e), separators=(",", ":")) + "\n")
