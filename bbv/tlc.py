"""Run TLC / SANY on a module of /verif/spec and parse what it says.

All data that leaves a specification leaves it as one `PrintT(ToJson(record))` line, i.e. a quoted JSON
string on a line of its own, so no TLA+ value parser is needed and 16 workers cannot garble a record
(a single println is atomic).
"""
from __future__ import annotations

import json
import os
import re
import subprocess
import time
from dataclasses import dataclass, field
from pathlib import Path

from . import env

JAR = "/opt/veriftools/tla/tla2tools.jar:/opt/veriftools/tla/CommunityModules-deps.jar"


class MachineryError(RuntimeError):
    """TLC crashed, timed out, or said something we cannot interpret: exit code 2, never a verdict."""


@dataclass
class TLCResult:
    module: str
    cfg: str
    ok: bool  # "No error has been found"
    violated: list[str]  # names of violated invariants / properties
    records: list[dict]  # parsed PrintT(ToJson(..)) lines
    generated: int
    distinct: int
    depth: int
    wall_s: float
    output: str
    coverage: dict[str, int] = field(default_factory=dict)

    def by_tag(self, tag: str) -> list[dict]:
        return [r for r in self.records if r.get("tag") == tag]


_RE_STATES = re.compile(r"(\d+) states generated, (\d+) distinct states found")
_RE_DEPTH = re.compile(r"depth of the complete state graph search is (\d+)")
_RE_INV = re.compile(r"Error: Invariant (\S+) is violated")
_RE_PROP = re.compile(r"Error: (?:Action|Temporal) property (\S+) (?:is|was) violated")
_RE_COV = re.compile(r"^<(\w+) line \d+, col \d+ to line \d+, col \d+ of module (\w+)>: (\d+):(\d+)", re.M)


def write_cfg(path: Path, *, spec: str | None = None, init: str | None = None, next_: str | None = None,
              invariants=(), properties=(), constants: dict | None = None, constraints=(),
              postcondition: str | None = None, deadlock: bool = False, view: str | None = None,
              action_constraints=()) -> Path:
    lines = []
    if spec:
        lines.append(f"SPECIFICATION {spec}")
    if init:
        lines.append(f"INIT {init}")
    if next_:
        lines.append(f"NEXT {next_}")
    for k, v in (constants or {}).items():
        lines.append(f"CONSTANT {k} = {v}" if not str(v).startswith("<-") else f"CONSTANT {k} {v}")
    for i in invariants:
        lines.append(f"INVARIANT {i}")
    for p in properties:
        lines.append(f"PROPERTY {p}")
    for c in constraints:
        lines.append(f"CONSTRAINT {c}")
    for c in action_constraints:
        lines.append(f"ACTION_CONSTRAINT {c}")
    if view:
        lines.append(f"VIEW {view}")
    if postcondition:
        lines.append(f"POSTCONDITION {postcondition}")
    lines.append(f"CHECK_DEADLOCK {'TRUE' if deadlock else 'FALSE'}")
    path.write_text("\n".join(lines) + "\n")
    return path


def run(module: str, cfg: str | Path, *, workers: int = 1, extra_env: dict | None = None, timeout: int = 900,
        simulate: str | None = None, depth: int | None = None, coverage: bool = False,
        dfs: bool = False, expect_violation: bool = False, seed: int | None = None,
        scratch: Path | None = None) -> TLCResult:
    """Run TLC on spec/<module>.tla with config `cfg` (a name under spec/ or an absolute path)."""
    own = scratch is None
    sdir = scratch or env.scratch("tlc")
    cfg_path = Path(cfg)
    if not cfg_path.is_absolute():
        cfg_path = env.SPEC / cfg_path
    cmd = ["java", "-XX:+UseParallelGC", "-Xmx6g"]
    if dfs:
        cmd.append("-Dtlc2.tool.queue.IStateQueue=StateDeque")
    cmd += ["-cp", JAR, "tlc2.TLC", "-workers", str(workers), "-metadir", str(sdir / f"meta-{time.time_ns()}"),
            "-noGenerateSpecTE", "-config", str(cfg_path)]
    if simulate:
        cmd += ["-simulate", simulate]
    if depth is not None:
        cmd += ["-depth", str(depth)]
    if coverage:
        cmd += ["-coverage", "1"]
    if seed is not None:
        cmd += ["-seed", str(seed)]
    cmd.append(str(env.SPEC / f"{module}.tla"))
    e = dict(os.environ)
    e.update({k: str(v) for k, v in (extra_env or {}).items()})
    t0 = time.time()
    try:
        p = subprocess.run(cmd, cwd=env.SPEC, env=e, capture_output=True, text=True, timeout=timeout, check=False)
    except subprocess.TimeoutExpired as ex:
        subprocess.run(["pkill", "-f", f"metadir {sdir}"], check=False)
        raise MachineryError(f"TLC timed out after {timeout}s on {module}/{cfg_path.name}") from ex
    finally:
        if own:
            env.cleanup(sdir)
    out = p.stdout + p.stderr
    wall = time.time() - t0
    records = []
    for line in p.stdout.splitlines():
        if line.startswith('"{') and line.endswith('}"'):
            try:
                records.append(json.loads(json.loads(line)))
            except json.JSONDecodeError:
                raise MachineryError(f"unparsable record line from TLC: {line[:200]}") from None
    m = _RE_STATES.findall(out)
    generated, distinct = (int(m[-1][0]), int(m[-1][1])) if m else (0, 0)
    if simulate and not m:
        ms = re.findall(r"The number of states generated: (\d+)", out)
        generated = int(ms[-1]) if ms else 0   # simulation: states visited along random behaviours (not de-duplicated)
    d = _RE_DEPTH.findall(out)
    violated = _RE_INV.findall(out) + _RE_PROP.findall(out)
    if re.search(r"Error: Postcondition \S+ .* is false", out):
        violated.append("POSTCONDITION")
    ok = "No error has been found" in out
    if simulate and not violated and "Error:" not in out and "states checked" in out:
        ok = True   # simulation mode ends without the model-checking banner
    res = TLCResult(module, cfg_path.name, ok, violated, records, generated, distinct, int(d[-1]) if d else 0,
                    wall, out)
    if coverage:
        for name, mod, _n, tot in _RE_COV.findall(out):
            res.coverage[f"{mod}!{name}"] = res.coverage.get(f"{mod}!{name}", 0) + int(tot)
    if not ok and not violated:
        raise MachineryError(f"TLC failed on {module}/{cfg_path.name} without a property verdict:\n{out[-3000:]}")
    return res


def sany(module: str) -> None:
    p = subprocess.run(["java", "-cp", JAR, "tla2sany.SANY", str(env.SPEC / f"{module}.tla")], cwd=env.SPEC,
                       capture_output=True, text=True, check=False, timeout=120)
    if p.returncode != 0 or "Semantic errors" in p.stdout or "*** Errors" in p.stdout or "Could not parse" in p.stdout \
            or "***Parse Error***" in p.stdout:
        raise MachineryError(f"SANY rejects {module}:\n{p.stdout[-2000:]}")
