"""Code -> spec: validate recorded executions of the implementation against a trace specification.

Trace specifications are *total*: a step whose clause fails does not disable the action, it prints
{"tag":"VERDICT","tid":..,"seq":..,"clauses":[..]} and goes on, so every execution in a batch is judged.
Acceptance (POSTCONDITION TraceAccepted) means every line was consumed and the coverage obligations of the
spec were met; its failure is a machinery failure (malformed trace), never a verdict.
"""
from __future__ import annotations

from . import core, env, tlc


def validate(ctx: core.Ctx, module: str, events: list[dict], *, cfg: str | None = None, extra_env: dict | None = None,
             timeout: int = 1200, count_traces: bool = True) -> list[dict]:
    """Run trace spec `module` over `events` (each has integer tid, seq). Returns VERDICT records."""
    if not events:
        return []
    sdir = env.scratch("trace")
    try:
        path = sdir / "trace.ndjson"
        core.write_ndjson(path, events)
        e = {"TRACE_FILE": str(path)}
        e.update(extra_env or {})
        r = ctx.tlc(module, cfg or f"{module}.cfg", workers=1, extra_env=e, timeout=timeout, scratch=sdir,
                    expect_violation=True)
        if not r.ok:
            raise tlc.MachineryError(f"trace spec {module} did not accept the trace file ({r.violated}):\n"
                                     f"{r.output[-3000:]}")
        if r.depth != len(events) + 1:
            raise tlc.MachineryError(f"trace spec {module}: depth {r.depth} != {len(events)}+1 lines")
    finally:
        env.cleanup(sdir)
    if count_traces:
        ctx.traces += len({ev["tid"] for ev in events})
    ctx.events += len(events)
    return r.by_tag("VERDICT")
