"""Float <-> exact rational comparison for spec -> code replays (expected values come from TLC as [n, d])."""
from __future__ import annotations

import math
from fractions import Fraction


def frac(nd) -> Fraction:
    return Fraction(int(nd[0]), int(nd[1]))


def close(x: float, nd, rel: float = 1e-12, abs_: float = 0.0) -> bool:
    """|x - n/d| <= rel*max(|n/d|,|x|) + abs_ , evaluated exactly."""
    x = float(x)
    if math.isnan(x) or math.isinf(x):
        return False
    f = frac(nd)
    return abs(Fraction(x) - f) <= Fraction(rel) * max(abs(f), abs(Fraction(x))) + Fraction(abs_)


def rat(x, max_den: int = 1000):
    """Small rational -> [n, d] for feeding cases *into* a cfg / module (only for harness-side bookkeeping)."""
    f = Fraction(x).limit_denominator(max_den)
    return [f.numerator, f.denominator]
