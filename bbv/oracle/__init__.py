"""Reference measurements (formulas the properties name, evaluated outside the code under test)."""
