"""Forward-mode automatic differentiation with dual numbers (oracle of C13).

A `Dual(re, du)` carries a value and its derivative with respect to one chosen input.  It is passed *through
the library's own parent function* in place of the pressure (or GOR) argument, so the derivative obtained is
the derivative of the code as it stands in the tree under test: no step size, no transcription of the parent.

What the parents need (and a little more, so that a harmless refactor of a parent does not break the oracle):
`+ - * / **` with floats and numpy scalars on either side, `10 ** dual`, `dual ** float`, comparisons (on the
real part, so the parent takes the branch it takes for the plain float), and the numpy ufuncs
add/subtract/multiply/divide/power/negative/absolute/sqrt/exp/log/log10/square plus the comparison ufuncs,
dispatched through `__array_ufunc__` (numpy scalars on the left therefore end up in the same code).
Anything else raises TypeError: loud, never a silently dropped derivative (there is deliberately no __float__).
"""
from __future__ import annotations

import math

import numpy as np

_LN10 = math.log(10.0)


def _is_num(x) -> bool:
    return isinstance(x, (int, float, np.integer, np.floating)) and not isinstance(x, bool)


class Dual:
    __slots__ = ("du", "re")

    def __init__(self, re: float, du: float = 0.0):
        self.re = float(re)
        self.du = float(du)

    # ---- helpers -----------------------------------------------------------------------------------
    @staticmethod
    def lift(x) -> "Dual":
        if isinstance(x, Dual):
            return x
        if _is_num(x):
            return Dual(float(x), 0.0)
        if isinstance(x, np.ndarray) and x.ndim == 0 and x.dtype.kind in "fiu":
            return Dual(float(x), 0.0)
        msg = f"Dual arithmetic with {type(x).__name__} is not supported"
        raise TypeError(msg)

    def __repr__(self) -> str:
        return f"Dual({self.re!r}, {self.du!r})"

    # ---- arithmetic --------------------------------------------------------------------------------
    def __add__(self, o):
        o = Dual.lift(o)
        return Dual(self.re + o.re, self.du + o.du)

    __radd__ = __add__

    def __sub__(self, o):
        o = Dual.lift(o)
        return Dual(self.re - o.re, self.du - o.du)

    def __rsub__(self, o):
        o = Dual.lift(o)
        return Dual(o.re - self.re, o.du - self.du)

    def __mul__(self, o):
        o = Dual.lift(o)
        return Dual(self.re * o.re, self.du * o.re + self.re * o.du)

    __rmul__ = __mul__

    def __truediv__(self, o):
        o = Dual.lift(o)
        if o.du == 0.0:
            return Dual(self.re / o.re, self.du / o.re)
        q = self.re / o.re
        return Dual(q, (self.du - q * o.du) / o.re)

    def __rtruediv__(self, o):
        return Dual.lift(o).__truediv__(self)

    def __neg__(self):
        return Dual(-self.re, -self.du)

    def __pos__(self):
        return self

    def __abs__(self):
        return self if self.re >= 0 else -self

    def __pow__(self, o):
        o = Dual.lift(o)
        if o.du == 0.0:  # dual ** constant
            n = o.re
            if n == 0.0:
                return Dual(1.0, 0.0)
            if n == 1.0:
                return Dual(self.re, self.du)
            return Dual(self.re**n, n * self.re ** (n - 1.0) * self.du)
        # general case a ** b = exp(b ln a)
        v = self.re**o.re
        return Dual(v, v * (o.du * math.log(self.re) + o.re * self.du / self.re))

    def __rpow__(self, o):  # constant ** dual, e.g. 10 ** x
        a = float(o)
        v = a**self.re
        return Dual(v, v * math.log(a) * self.du)

    # ---- comparisons act on the real part (branch selection of the parent) ---------------------------
    def __lt__(self, o):
        return self.re < Dual.lift(o).re

    def __le__(self, o):
        return self.re <= Dual.lift(o).re

    def __gt__(self, o):
        return self.re > Dual.lift(o).re

    def __ge__(self, o):
        return self.re >= Dual.lift(o).re

    def __eq__(self, o):
        try:
            return self.re == Dual.lift(o).re
        except TypeError:
            return NotImplemented

    def __ne__(self, o):
        r = self.__eq__(o)
        return r if r is NotImplemented else not r

    __hash__ = None

    # ---- elementary functions ------------------------------------------------------------------------
    def sqrt(self):
        s = math.sqrt(self.re)
        return Dual(s, self.du / (2.0 * s))

    def exp(self):
        e = math.exp(self.re)
        return Dual(e, e * self.du)

    def log(self):
        return Dual(math.log(self.re), self.du / self.re)

    def log10(self):
        return Dual(math.log10(self.re), self.du / (self.re * _LN10))

    def square(self):
        return self * self

    # ---- numpy interoperability ----------------------------------------------------------------------
    def __array_ufunc__(self, ufunc, method, *inputs, **kwargs):
        if method != "__call__" or kwargs:
            return NotImplemented
        f = _UFUNCS.get(ufunc)
        if f is None:
            return NotImplemented
        try:
            return f(*inputs)
        except TypeError:
            return NotImplemented


def _pow(a, b):
    if isinstance(a, Dual):
        return a.__pow__(b)
    return b.__rpow__(a)


_UFUNCS = {
    np.add: lambda a, b: Dual.lift(a) + b,
    np.subtract: lambda a, b: Dual.lift(a) - b,
    np.multiply: lambda a, b: Dual.lift(a) * b,
    np.true_divide: lambda a, b: Dual.lift(a) / b,
    np.power: _pow,
    np.float_power: _pow,
    np.negative: lambda a: -a,
    np.positive: lambda a: a,
    np.absolute: abs,
    np.sqrt: lambda a: a.sqrt(),
    np.exp: lambda a: a.exp(),
    np.log: lambda a: a.log(),
    np.log10: lambda a: a.log10(),
    np.square: lambda a: a.square(),
    np.less: lambda a, b: Dual.lift(a) < b,
    np.less_equal: lambda a, b: Dual.lift(a) <= b,
    np.greater: lambda a, b: Dual.lift(a) > b,
    np.greater_equal: lambda a, b: Dual.lift(a) >= b,
    np.equal: lambda a, b: Dual.lift(a) == b,
    np.not_equal: lambda a, b: Dual.lift(a) != b,
}


def derivative(fn, x: float):
    """(f(x), f'(x)) of a scalar function by one forward pass; a result that does not depend on x (a plain
    number, e.g. the constant branch of a parent) has derivative exactly 0."""
    y = fn(Dual(x, 1.0))
    if isinstance(y, Dual):
        return y.re, y.du
    if isinstance(y, np.ndarray) and y.dtype == object and y.ndim == 0:
        y = y.item()
        if isinstance(y, Dual):
            return y.re, y.du
    if _is_num(y) or (isinstance(y, np.ndarray) and y.ndim == 0):
        return float(y), 0.0
    msg = f"parent returned {type(y).__name__}, cannot read a derivative off it"
    raise TypeError(msg)


# ---- polynomial objects: reading the coefficient list off a polynomial function ------------------------------
class Poly:
    """A univariate polynomial with exact rational coefficients (`fractions.Fraction`; a float literal enters
    with its exact binary value).  Passed through a function that is a polynomial in that argument it returns
    the polynomial the code *denotes*, coefficient by coefficient, without rounding and without assuming a
    degree.  Supports + - * and ** with a non-negative integer; anything else raises TypeError."""

    __slots__ = ("c",)

    def __init__(self, coeffs):
        from fractions import Fraction  # noqa: PLC0415

        c = [Fraction(x) for x in coeffs]
        while c and c[-1] == 0:
            c.pop()
        self.c = c

    @staticmethod
    def x() -> "Poly":
        return Poly([0, 1])

    @staticmethod
    def lift(o) -> "Poly":
        if isinstance(o, Poly):
            return o
        if _is_num(o):
            return Poly([float(o) if isinstance(o, (float, np.floating)) else int(o)])
        if isinstance(o, np.ndarray) and o.ndim == 0 and o.dtype.kind in "fiu":
            return Poly([o.item()])
        msg = f"Poly arithmetic with {type(o).__name__} is not supported"
        raise TypeError(msg)

    @property
    def degree(self) -> int:
        return len(self.c) - 1  # -1 for the zero polynomial

    def coef(self, i: int):
        from fractions import Fraction  # noqa: PLC0415

        return self.c[i] if 0 <= i < len(self.c) else Fraction(0)

    def __call__(self, x):
        from fractions import Fraction  # noqa: PLC0415

        r = Fraction(0)
        for a in reversed(self.c):
            r = r * Fraction(x) + a
        return r

    def __repr__(self) -> str:
        return "Poly(" + ", ".join(f"{float(a):.17g}" for a in self.c) + ")"

    def __add__(self, o):
        o = Poly.lift(o)
        n = max(len(self.c), len(o.c))
        return Poly([self.coef(i) + o.coef(i) for i in range(n)])

    __radd__ = __add__

    def __neg__(self):
        return Poly([-a for a in self.c])

    def __pos__(self):
        return self

    def __sub__(self, o):
        return self + (-Poly.lift(o))

    def __rsub__(self, o):
        return Poly.lift(o) + (-self)

    def __mul__(self, o):
        o = Poly.lift(o)
        if not self.c or not o.c:
            return Poly([])
        out = [0] * (len(self.c) + len(o.c) - 1)
        for i, a in enumerate(self.c):
            for j, b in enumerate(o.c):
                out[i + j] += a * b
        return Poly(out)

    __rmul__ = __mul__

    def __truediv__(self, o):
        o = Poly.lift(o)
        if o.degree != 0:
            raise TypeError("division by a non-constant polynomial")
        return Poly([a / o.c[0] for a in self.c])

    def __pow__(self, n):
        if isinstance(n, (float, np.floating)) and float(n).is_integer():
            n = int(n)
        if not isinstance(n, (int, np.integer)) or n < 0:
            raise TypeError("Poly ** non-negative integer only")
        r = Poly([1])
        for _ in range(int(n)):
            r = r * self
        return r

    __hash__ = None

    def __array_ufunc__(self, ufunc, method, *inputs, **kwargs):
        if method != "__call__" or kwargs:
            return NotImplemented
        f = _POLY_UFUNCS.get(ufunc)
        if f is None:
            return NotImplemented
        try:
            return f(*inputs)
        except TypeError:
            return NotImplemented


_POLY_UFUNCS = {
    np.add: lambda a, b: Poly.lift(a) + b,
    np.subtract: lambda a, b: Poly.lift(a) - b,
    np.multiply: lambda a, b: Poly.lift(a) * b,
    np.true_divide: lambda a, b: Poly.lift(a) / b,
    np.power: lambda a, b: Poly.lift(a) ** b,
    np.negative: lambda a: -a,
    np.positive: lambda a: a,
    np.square: lambda a: a * a,
}


def as_poly(fn) -> Poly:
    """The polynomial a function denotes in its argument (TypeError if it is not built from + - * ** alone)."""
    y = fn(Poly.x())
    if isinstance(y, np.ndarray) and y.dtype == object and y.ndim == 0:
        y = y.item()
    return Poly.lift(y)
