"""Reference solutions of the *documented* scaled diffusion problem (docs/background.md):
   m_t = (alpha/alpha_i) m_xx,  m(x,0) = m_i,  m(0,t) = m_f,  m_x(1,t) = 0.
fourier_*: closed form for constant diffusivity.  mol_reference: independent method of lines (second order in
space on 800 cells with the Dirichlet value AT x = 0 and a mirrored node at x = 1; BDF in time, rtol 1e-9) for
pressure-dependent diffusivity.  Neither uses the library's stencil, node positions or time stepping."""
from __future__ import annotations

import numpy as np
from scipy.integrate import solve_ivp


def fourier_field(x: np.ndarray, t: np.ndarray, nterm: int = 600) -> np.ndarray:
    """(m - m_f)/(m_i - m_f) at positions x, times t (> 0).  Evaluated in blocks of times: the full (terms x times x positions)
    array of a 12800 x 160 rung would take 10 GB."""
    n = np.arange(nterm)[:, None, None]
    lam = (2 * n + 1) * np.pi / 2
    sx = 2 / lam * np.sin(lam * x[None, None, :])
    out = np.empty((len(t), len(x)))
    step = max(1, int(4_000_000 // max(1, nterm * len(x))))
    for a in range(0, len(t), step):
        out[a:a + step] = np.sum(sx * np.exp(-(lam**2) * t[None, a:a + step, None]), axis=0)
    return out


def fourier_recovery(t: np.ndarray, nterm: int = 20000) -> np.ndarray:
    """int_0^t m_x(0,s) ds / (m_i - m_f) = 1 - sum 2/lam^2 exp(-lam^2 t)  (in blocks of times, see fourier_field)."""
    n = np.arange(nterm)[:, None]
    lam = (2 * n + 1) * np.pi / 2
    out = np.empty(len(t))
    step = max(1, int(4_000_000 // nterm))
    for a in range(0, len(t), step):
        out[a:a + step] = 1 - np.sum(2 / lam**2 * np.exp(-(lam**2) * t[None, a:a + step]), axis=0)
    return out


def mol_reference(alpha_scaled, m_f: float, m_i: float, t_eval: np.ndarray, n: int = 800):
    """Returns (field[nt, n+1] at x_j = j/n, recovery[nt]) of the documented problem."""
    h = 1.0 / n
    y0 = np.full(n + 2, m_i)
    y0[0] = 0.0  # cumulative flux
    y0[1] = m_f

    def rhs(_t, y):
        u = y[1:]
        a = alpha_scaled(np.minimum(u, m_i))
        du = np.zeros_like(u)
        du[1:-1] = a[1:-1] * (u[:-2] - 2 * u[1:-1] + u[2:]) / h**2
        du[-1] = a[-1] * 2 * (u[-2] - u[-1]) / h**2
        flux = (-u[2] + 4 * u[1] - 3 * u[0]) / (2 * h)
        return np.concatenate([[flux], du])

    from scipy.sparse import diags, lil_matrix  # noqa: PLC0415

    sp = lil_matrix(diags([np.ones(n + 1), np.ones(n + 2), np.ones(n + 1)], [-1, 0, 1], shape=(n + 2, n + 2)))
    sp[0, 1:4] = 1
    sol = solve_ivp(rhs, (0.0, float(t_eval[-1])), y0, method="BDF", t_eval=t_eval, rtol=1e-9, atol=1e-12,
                    jac_sparsity=sp.tocsc(), first_step=1e-9)
    if not sol.success:
        raise RuntimeError(sol.message)
    return sol.y[1:].T, sol.y[0]
