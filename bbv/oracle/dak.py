"""Dranchuk & Abou-Kassem (1975) equation of state as published -- the reference formula property C06 names --
and the one-coefficient *variant* of open finding D6 (key "dak-first-coefficient-product").

Published (DAK 1975, eq. as reproduced in every PVT text, e.g. Whitson & Brule, McCain):

    Z = 1 + C1 rho + C2 rho^2 - C3 rho^5 + C4,       rho = 0.27 p_r / (Z T_r)
    C1 = A1 + A2/T_r + A3/T_r^3 + A4/T_r^4 + A5/T_r^5
    C2 = A6 + A7/T_r + A8/T_r^2
    C3 = A9 (A7/T_r + A8/T_r^2)
    C4 = A10 (1 + A11 rho^2) (rho^2 / T_r^3) exp(-A11 rho^2)

Variant (what gas.z_factor_DAK codes):  C1' = A1*A2/T_r + A3/T_r^3 + A4/T_r^4 + A5/T_r^5 .

Nothing here imports bluebonnet: the constants are written out again from the publication, so an edit of a
constant in the library is seen as a disagreement, not copied.
"""
from __future__ import annotations

import math

from scipy.optimize import brentq

A1, A2, A3, A4, A5 = 0.3265, -1.0700, -0.5339, 0.01569, -0.05165
A6, A7, A8 = 0.5475, -0.7361, 0.1844
A9, A10, A11 = 0.1056, 0.6134, 0.7210

PUBLISHED = "published"
VARIANT = "variant"


def first_coefficient(t_r: float, which: str = PUBLISHED) -> float:
    tail = A3 / t_r**3 + A4 / t_r**4 + A5 / t_r**5
    if which == PUBLISHED:
        return A1 + A2 / t_r + tail
    if which == VARIANT:
        return A1 * A2 / t_r + tail
    raise ValueError(which)


def z_of_rho(rho: float, t_r: float, which: str = PUBLISHED) -> float:
    """Right-hand side of the equation of state: Z as a function of reduced density."""
    c1 = first_coefficient(t_r, which)
    c2 = A6 + A7 / t_r + A8 / t_r**2
    c3 = A9 * (A7 / t_r + A8 / t_r**2)
    c4 = A10 * (1 + A11 * rho**2) * (rho**2 / t_r**3) * math.exp(-A11 * rho**2)
    return 1 + c1 * rho + c2 * rho**2 - c3 * rho**5 + c4


def residual_rho(rho: float, t_r: float, p_r: float, which: str = PUBLISHED) -> float:
    """F(rho) = 0.27 p_r/(T_r rho) - Z_eos(rho): zero exactly at the solution of the equation of state."""
    return 0.27 * p_r / (t_r * rho) - z_of_rho(rho, t_r, which)


def residual_at_z(z: float, t_r: float, p_r: float, which: str = PUBLISHED) -> float:
    """|F| at the reduced density that corresponds to a returned Z (rho = 0.27 p_r / (Z T_r)); = |Z - Z_eos(rho)|."""
    if not (math.isfinite(z) and z > 0):
        return math.inf
    rho = 0.27 * p_r / (z * t_r)
    return abs(z - z_of_rho(rho, t_r, which))


def solve_z(t_r: float, p_r: float, which: str = PUBLISHED, z_lo: float = 0.02, z_hi: float = 8.0) -> float:
    """Root of the equation of state by bracketing in Z (wider than the library's [0.05, 5] on purpose).
    On 1.05 <= T_r <= 3, 0 < p_r <= 30 the function Z - Z_eos(0.27 p_r/(Z T_r)) changes sign exactly once
    on this bracket (asserted by roots_in_bracket in the check's calibration, not assumed here: a missing
    sign change raises)."""
    def g(z):
        return z - z_of_rho(0.27 * p_r / (z * t_r), t_r, which)

    a, b = g(z_lo), g(z_hi)
    if not (a < 0 < b):
        msg = f"no sign change of the {which} DAK equation on Z in [{z_lo},{z_hi}] at T_r={t_r}, p_r={p_r}"
        raise ArithmeticError(msg)
    return brentq(g, z_lo, z_hi, xtol=1e-300, rtol=1e-15, maxiter=500)


def sign_changes(t_r: float, p_r: float, which: str = PUBLISHED, z_lo: float = 0.05, z_hi: float = 5.0,
                 n: int = 4000) -> int:
    """Number of sign changes of the residual on a fine geometric grid of Z (uniqueness probe)."""
    last = None
    k = 0
    for i in range(n + 1):
        z = z_lo * (z_hi / z_lo) ** (i / n)
        s = z - z_of_rho(0.27 * p_r / (z * t_r), t_r, which) > 0
        if last is not None and s != last:
            k += 1
        last = s
    return k


def dz_drho(rho: float, t_r: float, which: str = PUBLISHED) -> float:
    """d Z_eos / d rho at constant T_r."""
    c1 = first_coefficient(t_r, which)
    c2 = A6 + A7 / t_r + A8 / t_r**2
    c3 = A9 * (A7 / t_r + A8 / t_r**2)
    return (c1 + 2 * c2 * rho - 5 * c3 * rho**4
            + 2 * A10 * rho / t_r**3 * (1 + A11 * rho**2 - A11**2 * rho**4) * math.exp(-A11 * rho**2))


def compressibility(z: float, t_r: float, p_r: float, p_pc: float, which: str = PUBLISHED) -> float:
    """Isothermal gas compressibility 1/p - (1/Z) dZ/dp implied by the equation of state (Mattar-Brar-Aziz form)
    evaluated at a given Z (the code's own), i.e. at rho = 0.27 p_r/(Z T_r)."""
    rho = 0.27 * p_r / (z * t_r)
    d = dz_drho(rho, t_r, which)
    c_r = 1.0 / p_r - 0.27 / (z**2 * t_r) * (d / (1 + rho * d / z))
    return c_r / p_pc
