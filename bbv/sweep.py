"""Helpers for sweep traces judged by an instantiation of spec/SweepCore.tla."""
from __future__ import annotations

from . import core, quant, tlc, trace


class SweepLog:
    """Collects Begin/Point/End events of many sweeps (tid = sweep)."""

    def __init__(self):
        self.events: list[dict] = []
        self.meta: dict[int, dict] = {}  # tid -> free-form description for replay files
        self._tid = 0
        self._seq = 0

    def begin(self, profile: str, meta: dict | None = None) -> int:
        self._tid += 1
        self._seq = 0
        self.meta[self._tid] = {"profile": profile, "points": [], **(meta or {})}
        self.events.append({"tid": self._tid, "seq": 0, "ev": "Begin", "profile": profile})
        return self._tid

    def point(self, x_q, side: str = "none", vals: dict | None = None, agree: dict | None = None,
              flags: dict | None = None, raw: dict | None = None) -> None:
        self._seq += 1
        self.events.append({"tid": self._tid, "seq": self._seq, "ev": "Point", "x": x_q, "side": side,
                            "vals": vals or {}, "agree": {k: int(v) for k, v in (agree or {}).items()},
                            "flags": {k: bool(v) for k, v in (flags or {}).items()}})
        self.meta[self._tid]["points"].append(raw if raw is not None else {})

    def end(self) -> None:
        self._seq += 1
        self.events.append({"tid": self._tid, "seq": self._seq, "ev": "End"})

    def extend(self, other: "SweepLog") -> None:
        off = self._tid
        for e in other.events:
            e2 = dict(e)
            e2["tid"] = e["tid"] + off
            self.events.append(e2)
        for t, m in other.meta.items():
            self.meta[t + off] = m
        self._tid += other._tid


def judge(ctx: core.Ctx, module: str, log: SweepLog, *, explain=None, timeout: int = 1800) -> None:
    """Validate all sweeps with trace spec `module`; register a violation per failed clause.
    explain(tid, seq, clause, meta, raw_point) -> finding_key | None  (structural key of an open finding
    the caller has established for this very failure)."""
    verdicts = trace.validate(ctx, module, log.events, timeout=timeout)
    for v in verdicts:
        meta = log.meta.get(v["tid"], {})
        idx = v["seq"] - 1
        pts = meta.get("points", [])
        raw = pts[idx] if 0 <= idx < len(pts) else {}
        for cl in v["clauses"]:
            if cl.startswith("Machinery:"):
                raise tlc.MachineryError(f"{module}: sweep {v['tid']} ({meta.get('what', '')}) fails {cl}")
            key = explain(v["tid"], v["seq"], cl, meta, raw) if explain else None
            ctx.violation(cl, f"sweep {{{_brief(meta)}}} point {idx}: {raw} violates {cl}",
                          replay={"stage": "sweep", "meta": {k: m for k, m in meta.items() if k != "points"},
                                  "point_index": idx, "point": raw, "clause": cl}, finding_key=key)


def _brief(meta: dict) -> str:
    return ", ".join(f"{k}={v}" for k, v in meta.items() if k not in ("points",))[:300]


Q = quant.q
E15 = quant.e15
