"""Projection of floats to values TLC can compare exactly (TLC integers are 32-bit, no reals).

Q(x; lo, hi): position of x in the window [lo - (hi-lo), hi + (hi-lo)] in units of (hi-lo)/S, S = 10^17,
as two limbs <<q div 10^9, q mod 10^9>>.  The unit interval [lo, hi] maps to [S, 2S]; values outside the
tripled window saturate at 0 / 3S (and so violate any bound clause); NaN is flagged separately.
The arithmetic is exact (fractions.Fraction on the binary value of the float).

E15(a, b; scale): ceil(|a-b| / scale * 10^15) capped at 2*10^9 -- an agreement magnitude.
"""
from __future__ import annotations

import math
from fractions import Fraction

S = 10**17
LIMB = 10**9
CAP = 2 * 10**9
NANQ = [-1, -1]


def q(x: float, lo: float = 0.0, hi: float = 1.0) -> list[int]:
    x = float(x)
    if math.isnan(x):
        return list(NANQ)
    if math.isinf(x):
        v = 0 if x < 0 else 3 * S
    else:
        span = Fraction(hi) - Fraction(lo)
        if span <= 0:
            msg = f"empty quantisation window [{lo}, {hi}]"
            raise ValueError(msg)
        v = math.floor((Fraction(x) - Fraction(lo)) / span * S) + S
        v = max(0, min(3 * S, v))
    return [v // LIMB, v % LIMB]


def qs(xs, lo: float = 0.0, hi: float = 1.0) -> list[list[int]]:
    return [q(x, lo, hi) for x in xs]


def unq(limbs, lo: float = 0.0, hi: float = 1.0) -> float:
    v = limbs[0] * LIMB + limbs[1]
    return lo + (hi - lo) * (v - S) / S


def qtol(rel: float) -> list[int]:
    """A tolerance `rel` (fraction of the window's unit interval) as limbs."""
    v = math.ceil(Fraction(rel) * S)
    return [v // LIMB, v % LIMB]


def e15(a: float, b: float, scale: float = 1.0) -> int:
    a, b, scale = float(a), float(b), float(scale)
    if math.isnan(a) or math.isnan(b) or math.isinf(a) or math.isinf(b) or not scale > 0:
        return CAP
    d = abs(Fraction(a) - Fraction(b)) / Fraction(scale) * 10**15
    return int(min(CAP, math.ceil(d)))


def e15_of(relerr: float) -> int:
    if math.isnan(relerr) or math.isinf(relerr):
        return CAP
    return int(min(CAP, math.ceil(Fraction(abs(relerr)) * 10**15)))


def ulps(a: float, b: float, dtype="float64") -> int:
    """Distance in units in the last place of `dtype` at max(|a|,|b|), capped."""
    import numpy as np  # noqa: PLC0415

    a, b = float(a), float(b)
    if math.isnan(a) or math.isnan(b):
        return 0 if (math.isnan(a) and math.isnan(b)) else CAP
    if a == b:
        return 0
    if math.isinf(a) or math.isinf(b):
        return CAP
    sp = float(np.spacing(np.dtype(dtype).type(max(abs(a), abs(b)))))
    return int(min(CAP, math.ceil(abs(a - b) / sp)))
