#!/venv/bin/python
"""Systematic small mutations of the library (operator / comparison / constant / min-max swaps), as a complement to the
hand-made independent changes of seeded/: which of those that the repository's own suite lets through do the checks catch?

usage: tools/mutscore.py <n_per_file> <seed> [file-substring ...]
For every sampled mutant: a scratch worktree of /repo under /tmp (never /repo itself), the mutated file written into it, the
repository's suite run (mutants it kills are of no interest), then the quick tier of the checks mapped to that file, in order,
until one reports a VIOLATION.  One result line per mutant on stdout; a summary at the end.  Worktrees are removed as soon as a
mutant is done."""
from __future__ import annotations

import ast
import json
import os
import random
import subprocess
import sys
from concurrent.futures import ThreadPoolExecutor
from pathlib import Path

V = Path(__file__).resolve().parent.parent
REPO = Path("/repo")
FILES = {
    "src/bluebonnet/flow/reservoir.py": ["C04", "C01", "C03", "C10", "C17"],
    "src/bluebonnet/flow/flowproperties.py": ["C09", "C14", "C15", "C16", "C01"],
    "src/bluebonnet/fluids/gas.py": ["C06", "C07", "C08", "C19"],
    "src/bluebonnet/fluids/oil.py": ["C12", "C13", "C11", "C07", "C19"],
    "src/bluebonnet/fluids/water.py": ["C07", "C13", "C11", "C19"],
    "src/bluebonnet/fluids/fluid.py": ["C19", "C08", "C11"],
    "src/bluebonnet/forecast/forecast.py": ["C05"],
    "src/bluebonnet/forecast/forecast_pressure.py": ["C18", "C20"],
    "src/bluebonnet/plotting.py": ["C20"],
}
BIN = {ast.Add: ast.Sub, ast.Sub: ast.Add, ast.Mult: ast.Div, ast.Div: ast.Mult, ast.Pow: ast.Mult}
CMP = {ast.Lt: ast.LtE, ast.LtE: ast.Lt, ast.Gt: ast.GtE, ast.GtE: ast.Gt, ast.Eq: ast.NotEq, ast.NotEq: ast.Eq}
NAMES = {"minimum": "maximum", "maximum": "minimum", "min": "max", "max": "min", "cumsum": "cumprod", "zeros": "ones",
         "ones": "zeros", "argmin": "argmax", "argmax": "argmin"}


class Sites(ast.NodeVisitor):
    """Enumerate mutation sites (node path index) outside docstrings and annotations."""

    def __init__(self):
        self.sites = []
        self.in_ann = 0

    def visit_FunctionDef(self, node):
        for d in node.decorator_list:
            self.visit(d)
        for a in node.args.defaults + node.args.kw_defaults:
            if a is not None:
                self.visit(a)
        for st in node.body:
            self.visit(st)

    visit_AsyncFunctionDef = visit_FunctionDef

    def visit_AnnAssign(self, node):
        if node.value is not None:
            self.visit(node.value)

    def visit_BinOp(self, node):
        if type(node.op) in BIN:
            self.sites.append(("bin", node))
        self.generic_visit(node)

    def visit_Compare(self, node):
        if len(node.ops) == 1 and type(node.ops[0]) in CMP:
            self.sites.append(("cmp", node))
        self.generic_visit(node)

    def visit_Constant(self, node):
        if isinstance(node.value, bool):
            self.sites.append(("bool", node))
        elif isinstance(node.value, (int, float)) and not isinstance(node.value, bool):
            self.sites.append(("num", node))

    def visit_Call(self, node):
        f = node.func
        if isinstance(f, ast.Attribute) and f.attr == "copy" and not node.args:
            self.sites.append(("uncopy", node))          # x.copy() -> x
        elif isinstance(f, (ast.Attribute, ast.Name)) and getattr(f, "attr", getattr(f, "id", "")) in ("deepcopy", "copy") and len(node.args) == 1:
            self.sites.append(("uncopy", node))          # copy.copy(x) / copy.deepcopy(x) -> x
        if len(node.args) >= 2 and not any(isinstance(a, ast.Starred) for a in node.args[:2]) \
                and ast.dump(node.args[0]) != ast.dump(node.args[1]):
            self.sites.append(("argswap", node))         # f(a, b, ...) -> f(b, a, ...)
        self.generic_visit(node)

    def visit_Attribute(self, node):
        if node.attr in NAMES:
            self.sites.append(("name", node))
        self.generic_visit(node)

    def visit_Expr(self, node):
        if isinstance(node.value, ast.Constant) and isinstance(node.value.value, str):
            return   # docstring
        self.generic_visit(node)


class _Replace(ast.NodeTransformer):
    def __init__(self, target, repl):
        self.target, self.repl = target, repl

    def visit(self, node):
        if node is self.target:
            return self.repl
        return super().visit(node)


def mutate(src: str, k: int) -> tuple[str, str] | None:
    tree = ast.parse(src)
    s = Sites()
    s.visit(tree)
    if k >= len(s.sites):
        return None
    kind, node = s.sites[k]
    line = getattr(node, "lineno", 0)
    if kind == "bin":
        old = type(node.op).__name__
        node.op = BIN[type(node.op)]()
        what = f"{old}->{type(node.op).__name__}"
    elif kind == "cmp":
        old = type(node.ops[0]).__name__
        node.ops = [CMP[type(node.ops[0])]()]
        what = f"{old}->{type(node.ops[0]).__name__}"
    elif kind == "bool":
        node.value = not node.value
        what = f"bool->{node.value}"
    elif kind == "num":
        old = node.value
        node.value = (old + 1) if isinstance(old, int) else old * 1.01 if old != 0 else 0.01
        what = f"{old!r}->{node.value!r}"
    elif kind == "uncopy":
        inner = node.func.value if (isinstance(node.func, ast.Attribute) and not node.args) else node.args[0]
        what = "copy removed"
        tree = _Replace(node, inner).visit(tree)
    elif kind == "argswap":
        node.args[0], node.args[1] = node.args[1], node.args[0]
        what = "first two arguments swapped"
    else:
        old = node.attr
        node.attr = NAMES[old]
        what = f"{old}->{node.attr}"
    ast.fix_missing_locations(tree)
    return ast.unparse(tree) + "\n", f"line {line}: {kind} {what}"


def nsites(src: str) -> int:
    s = Sites()
    s.visit(ast.parse(src))
    return len(s.sites)


def sh(cmd, **kw):
    return subprocess.run(cmd, capture_output=True, text=True, check=False, **kw)


def one(job):
    rel, k, mid = job
    wt = Path(f"/tmp/mutscore-{mid}")
    res = {"id": mid, "file": rel, "site": k}
    try:
        if sh(["git", "-C", str(REPO), "worktree", "add", "-q", "--detach", str(wt), "HEAD"]).returncode != 0:
            res["status"] = "worktree-failed"
            return res
        src = (wt / rel).read_text()
        m = mutate(src, k)
        if m is None:
            res["status"] = "no-site"
            return res
        new, what = m
        res["what"] = what
        if ast.dump(ast.parse(new)) == ast.dump(ast.parse(src)):
            res["status"] = "identical"
            return res
        (wt / rel).write_text(new)
        t = sh(["/venv/bin/python", "-m", "pytest", "-q", "-p", "no:cacheprovider", "--timeout=900", "tests"], cwd=wt,
               env={**os.environ, "PYTHONPATH": str(wt / "src"), "MPLBACKEND": "Agg"}, timeout=1800)
        tail = (t.stdout.strip().splitlines() or [""])[-1]
        if not ("69 passed" in tail and "7 failed" in tail):   # the unchanged tree: 69 passed, 7 known image failures
            res["status"] = "killed-by-repo-tests"
            res["tests"] = tail[:80]
            return res
        res["tests"] = tail[:60]
        res["status"] = "survived-all-checks"
        res["tried"] = []
        for c in FILES[rel]:
            r = sh([str(V / "check"), c, "--tier", "quick"], cwd=V, env={**os.environ, "BBV_REPO": str(wt), "VERIF_SEED": "0"}, timeout=3600)
            res["tried"].append(c)
            if "VIOLATION" in r.stdout:
                res["status"] = "caught"
                res["by"] = c
                res["clause"] = next((ln.split("clause=")[1].split(" ")[0] for ln in r.stdout.splitlines() if "clause=" in ln), "")
                break
            if r.returncode == 2:
                res["status"] = "machinery-failure"
                res["by"] = c
                res["tail"] = r.stdout.strip().splitlines()[-1][:200] if r.stdout.strip() else r.stderr[-200:]
                break
        return res
    except subprocess.TimeoutExpired:
        res["status"] = "timeout"
        return res
    finally:
        sh(["git", "-C", str(REPO), "worktree", "remove", "--force", str(wt)])
        sh(["rm", "-rf", str(wt)])


def main():
    n, seed = int(sys.argv[1]), int(sys.argv[2])
    only = sys.argv[3:]
    rng = random.Random(seed)
    jobs = []
    kinds = set(filter(None, os.environ.get("MUT_KINDS", "").split(",")))
    for rel in FILES:
        if only and not any(o in rel for o in only):
            continue
        sv = Sites()
        sv.visit(ast.parse((REPO / rel).read_text()))
        idx = [i for i, (kd, _n) in enumerate(sv.sites) if not kinds or kd in kinds]
        for k in rng.sample(idx, min(n, len(idx))):
            jobs.append((rel, k, f"{seed}-{len(jobs)}"))
    print(f"{len(jobs)} mutants", flush=True)
    out = []
    with ThreadPoolExecutor(max_workers=int(os.environ.get("MUT_WORKERS", "4"))) as ex:
        for r in ex.map(one, jobs):
            out.append(r)
            print("MUT " + json.dumps(r), flush=True)
    by = {}
    for r in out:
        by[r["status"]] = by.get(r["status"], 0) + 1
    print("SUMMARY " + json.dumps(by), flush=True)


if __name__ == "__main__":
    main()
