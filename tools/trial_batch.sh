#!/bin/sh
# usage: tools/trial_batch.sh <tier> <listfile>   (lines: <mutant-dir> <check> [<check> ...])
tier=$1; list=$2
here=$(cd "$(dirname "$0")/.." && pwd)
while read -r d checks; do
  [ -z "$d" ] && continue
  echo "#### $d"
  # shellcheck disable=SC2086
  "$here/tools/try_mutant.sh" "$d/patch.diff" "$tier" $checks 2>&1 | cut -c1-300
done < "$list"
