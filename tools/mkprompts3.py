#!/usr/bin/env python3
"""Round-3 red-team prompts: property text + excerpts of the notes of the earlier changes (to be avoided).
usage: tools/mkprompts3.py <outdir> Cxx [Cyy ...]   (first new change number = number of existing seeded changes + 1)"""
import json
import sys
from pathlib import Path

V = Path(__file__).resolve().parent.parent
out = Path(sys.argv[1]); out.mkdir(parents=True, exist_ok=True)
props = {json.loads(l)["id"]: json.loads(l) for l in (V / "properties.jsonl").read_text().splitlines() if l.strip()}
tmpl = (V / "tools/redteam_prompt.txt").read_text()
TESTS = ""
for pid in sys.argv[2:]:
    p = props[pid]
    prev = sorted((V / "seeded").glob(f"{pid}-m*"), key=lambda d: int(d.name.split("-m")[1]))
    first = len(prev) + 1
    ks = [first, first + 1, first + 2]
    excerpts = []
    for d in prev:
        n = (d / "notes.md").read_text() if (d / "notes.md").exists() else ""
        excerpts.append(f"({d.name.split('-')[1]}) " + " ".join(n.split())[:420])
    wt = f"/tmp/rt3-{pid}"
    text = tmpl.replace("{WT}", wt).replace("{ID}", pid).replace("{TITLE}", p["title"]).replace("{STATEMENT}", p["statement"]) \
        .replace("{QUANT}", p["quantifier"]["text"]).replace("{TESTS}", TESTS)
    text = text.replace("For each change k = 1, 2, 3 create", f"For each change k = {ks[0]}, {ks[1]}, {ks[2]} create")
    text += ("\nIMPORTANT: earlier rounds have already produced the following changes for this property (excerpts of their notes): "
             + " ;; ".join(excerpts) + ". Do NOT repeat them or close variants. The obvious ideas are taken: look harder. Promising "
             "directions: numerical effects that appear only in a corner of the stated domain (extreme but admissible parameter values, values "
             "at exact boundaries of validation ranges, very large or very small magnitudes, denormals, exact zeros); semantics of "
             "Python/numpy/pandas/scipy that differ subtly between equivalent-looking calls (integer vs float division and powers, in-place vs "
             "out-of-place operators, views vs copies, default arguments evaluated once, keyword vs positional arguments, pandas index "
             "alignment, boolean masks vs index arrays, chained comparisons, NaN comparisons, operator precedence); state that survives "
             "between calls in one process or on one object; interactions between this code and another module of the library that it calls "
             "or that calls it. Run the test-suite WITHOUT -x (the known image failures would stop it early).\n")
    (out / f"{pid}.txt").write_text(text)
    print(pid, ks, len(text))
