#!/venv/bin/python
"""Regenerate MANIFEST.json from the table below (claimed checks) and properties.jsonl (the rest is not_applicable)."""
import json
from pathlib import Path

V = Path(__file__).resolve().parent.parent
CLAIMED = {p.stem: json.loads(p.read_text()) for p in sorted((V / "tools/claimed.d").glob("C*.json"))}
props = [json.loads(l) for l in (V / "properties.jsonl").read_text().splitlines() if l.strip()]
checks, na = [], []
for p in props:
    pid = p["id"]
    c = CLAIMED.get(pid)
    if not c:
        na.append({"property_id": pid, "reason": "check not built yet in this round (planned in DESIGN.md section 4); nothing is claimed for it"})
        continue
    if c.get("not_applicable"):
        na.append({"property_id": pid, "reason": c["not_applicable"]})
        continue
    checks.append({
        "property_id": pid,
        "quick_cmd": f"./check {pid} --tier quick",
        "thorough_cmd": f"./check {pid} --tier thorough",
        "evidence_file": f"evidence/{pid}.json",
        "replay_cmd_template": f"./check {pid} --replay {{path}}",
        "engine": "tlc+bbv",
        "level_claimed": {"category": "model_checking", "text": c["text"], "design_ref": c.get("design_ref", f"DESIGN.md section 4, {pid}")},
        "level_note": c["note"],
        "technique": c["technique"],
    })
m = {
    "version": 1,
    "setup_cmd": "./setup.sh",
    "hooks": {"guard": "BLUEBONNET_VERIF", "enable": "no in-repo hooks: the public API exposes all abstract state; checks import bluebonnet from /repo/src (editable install) in fresh interpreters",
              "baseline_off_cmd": "cd /repo && /venv/bin/python -m pytest -ra -q -p no:cacheprovider --timeout=900 --continue-on-collection-errors",
              "source_commits": [], "add_only": True},
    "engines": [{"name": "tlc+bbv", "path": "bbv/", "serves_properties": [c["property_id"] for c in checks],
                 "kind_free_text": "explicit TLA+ specifications (spec/*.tla) model-checked with TLC; TLC-generated behaviours/cases replayed into the real code (spec->code) and recorded executions of the real code validated by trace specifications (code->spec)"}],
    "checks": checks,
    "notes": "All checks: ./check Cxx --tier quick|thorough; exit 0 held / 1 VIOLATION / 2 machinery failure. known_findings.json lists open findings (explained only via their structural key) and fixed ones (suppress nothing). Genuine defects repaired in /repo as separate 'fix:' commits (D1-D5, D5b, D7-D17, D14b); D6 is open.",
    "not_applicable": na,
}
(V / "MANIFEST.json").write_text(json.dumps(m, indent=1) + "\n")
import jsonschema
jsonschema.validate(m, json.loads(Path("/root/.vp/MANIFEST.schema.json").read_text()))
print("MANIFEST ok:", len(checks), "checks,", len(na), "not applicable")
