#!/bin/sh
# usage: tools/seed_sweep.sh <tier> <seed> [<seed> ...]   every check on the unchanged tree under other seeds (false-alarm hunt)
tier=$1; shift
here=$(cd "$(dirname "$0")/.." && pwd)
cd "$here" || exit 2
mkdir -p .work
for s in "$@"; do
  for i in 01 02 03 04 05 06 07 08 09 10 11 12 13 14 15 16 17 18 19 20; do
    VERIF_SEED=$s ./check "C$i" --tier "$tier" > ".work/sweep_${s}_$i.log" 2>&1
    rc=$?
    echo "seed=$s C$i rc=$rc $(grep -c '^VIOLATION' ".work/sweep_${s}_$i.log") $(grep -E '^VIOLATION' ".work/sweep_${s}_$i.log" | head -2 | cut -c1-200)"
  done
done
