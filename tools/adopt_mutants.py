#!/venv/bin/python
"""Copy confirmed red-team changes into /verif/seeded/<Cxx-mk>/ with a meta.json.
usage: tools/adopt_mutants.py <results.json>
results.json: {"C17/m2": {"needs": "...", "caught_by": {"C17": "quick: StaleField ..."}, "missed_by": [...], "note": "..."}, ...}
Only changes listed as CONFIRMED in /tmp/redteam/confirm_*.log are adopted."""
import json
import re
import shutil
import sys
from pathlib import Path

V = Path(__file__).resolve().parent.parent
res = json.loads(Path(sys.argv[1]).read_text())
confirmed = {}
for log in Path("/tmp/redteam").glob("confirm_*.log"):
    for line in log.read_text().splitlines():
        m = re.match(r"CONFIRMED /tmp/redteam/(C\d+/m\d+) \((.*)\)", line)
        if m:
            confirmed[m.group(1)] = m.group(2)
for key, r in sorted(res.items()):
    if key not in confirmed:
        print("not confirmed, skipped:", key)
        continue
    src = Path("/tmp/redteam") / key
    dst = V / "seeded" / key.replace("/", "-")
    dst.mkdir(parents=True, exist_ok=True)
    for f in ("patch.diff", "demo.py", "notes.md"):
        if (src / f).exists():
            shutil.copy(src / f, dst / f)
    meta = {"property": key.split("/")[0], "origin": "independent sub-agent given only the property text and a scratch worktree",
            "needs_to_manifest": r.get("needs", ""), "confirmed": confirmed[key],
            "ran": "tools/confirm_mutant.sh (demo on clean and changed tree, full test-suite on the changed tree) and "
                   "tools/try_mutant.sh / trial_batch.sh (checks against a scratch worktree with the patch, BBV_REPO)",
            "caught_by": r.get("caught_by", {}), "missed_by": r.get("missed_by", []), "note": r.get("note", "")}
    (dst / "meta.json").write_text(json.dumps(meta, indent=1) + "\n")
    print("adopted", key, "->", dst)
