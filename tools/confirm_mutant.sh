#!/bin/sh
# usage: tools/confirm_mutant.sh /tmp/redteam/Cxx/mk   -> prints CONFIRMED / REJECTED with reasons
d=$(readlink -f "$1"); wt=/tmp/wt-conf-$$
git -C /repo worktree add -q --detach "$wt" HEAD || exit 2
cd "$wt" || exit 2
PYTHONPATH="$wt/src" timeout 900 /venv/bin/python "$d/demo.py" >/tmp/conf-$$.clean 2>&1; rc_clean=$?
if ! git apply "$d/patch.diff"; then echo "REJECTED $d: patch does not apply"; cd /; git -C /repo worktree remove --force "$wt"; exit 1; fi
PYTHONPATH="$wt/src" timeout 900 /venv/bin/python "$d/demo.py" >/tmp/conf-$$.mut 2>&1; rc_mut=$?
PYTHONPATH="$wt/src" timeout 1500 /venv/bin/python -m pytest -q -p no:cacheprovider --timeout=900 tests >/tmp/conf-$$.tests 2>&1
summary=$(tail -1 /tmp/conf-$$.tests)
imp=$(PYTHONPATH="$wt/src" /venv/bin/python -c "import bluebonnet; print(bluebonnet.__file__)" 2>&1)
cd /; git -C /repo worktree remove --force "$wt"
ok=1
[ $rc_clean -eq 0 ] || ok=0
[ $rc_mut -ne 0 ] || ok=0
echo "$summary" | grep -q "69 passed" || ok=0
echo "$summary" | grep -q "7 failed" || ok=0
if [ $ok -eq 1 ]; then echo "CONFIRMED $d (demo clean rc=$rc_clean, mutated rc=$rc_mut; tests: $summary)"; else echo "REJECTED $d (demo clean rc=$rc_clean, mutated rc=$rc_mut; tests: $summary; import $imp)"; fi
rm -f /tmp/conf-$$.*
