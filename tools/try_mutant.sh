#!/bin/sh
# usage: tools/try_mutant.sh <patch.diff> <tier> Cxx [Cyy ...]
# Applies the patch in a scratch worktree of /repo (never in /repo itself), runs the named checks against it
# (BBV_REPO), prints one line per check, removes the worktree.
set -u
patch=$(readlink -f "$1"); tier=$2; shift 2
wt=/tmp/wt-mut-$$
git -C /repo worktree add -q --detach "$wt" HEAD || exit 2
if ! git -C "$wt" apply "$patch"; then echo "PATCH-DOES-NOT-APPLY $patch"; git -C /repo worktree remove --force "$wt"; exit 2; fi
here=$(cd "$(dirname "$0")/.." && pwd); cd "$here" || exit 2
for c in "$@"; do
  out=$(BBV_REPO="$wt" BBV_ARTIFACTS="$wt/.bbv-artifacts" BBV_EVIDENCE="$wt/.bbv-evidence" ./check "$c" --tier "$tier" 2>&1); rc=$?
  nviol=$(printf '%s\n' "$out" | grep -c '^VIOLATION')
  first=$(printf '%s\n' "$out" | grep '^VIOLATION' | head -2 | cut -c1-260)
  echo "== $c rc=$rc violations=$nviol"
  [ -n "$first" ] && printf '%s\n' "$first"
  [ $rc -eq 2 ] && printf '%s\n' "$out" | tail -5
done
git -C /repo worktree remove --force "$wt"
