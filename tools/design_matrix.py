#!/usr/bin/env python3
"""Regenerate the per-change table of DESIGN.md section 0.5 from seeded/results.json (between the table header and '### 0.6')."""
import json
import re
from pathlib import Path

V = Path(__file__).resolve().parent.parent
res = json.loads((V / "seeded/results.json").read_text())


def key(k):
    c, m = k.split("/")
    return int(c[1:]), int(m[1:])


rows = ["| change | needs, to manifest | caught by | tried, quiet |", "|---|---|---|---|"]
for k in sorted(res, key=key):
    r = res[k]
    caught = ", ".join(sorted(r.get("caught_by", {}))) or "none"
    rows.append(f"| {k.replace('/', '-')} | {r.get('needs', '')} | {caught} | {', '.join(r.get('missed_by', []))} |")
d = (V / "DESIGN.md").read_text()
a = d.index("| change | needs, to manifest |")
b = d.index("### 0.6")
d = d[:a] + "\n".join(rows) + "\n\n" + d[b:]
(V / "DESIGN.md").write_text(d)
n = len(res)
caught = sum(1 for r in res.values() if r.get("caught_by"))
print(f"{n} changes, {caught} caught by at least one check")
for rnd, lo, hi in (("round 3", 7, 9), ("round 4", 10, 12), ("round 5", 13, 15)):
    sub = {k: r for k, r in res.items() if lo <= key(k)[1] <= hi}
    ft = [r.get("first_trial") for r in sub.values()]
    print(rnd, len(sub), "own", ft.count("own"), "other", ft.count("other"), "none", ft.count("none"))
