#!/venv/bin/python
"""Re-run every kept change against the check(s) recorded as catching it (seeded/results.json), in parallel scratch worktrees.
usage: tools/rerun_all.py [-j N] [--all-recorded] [pattern]     prints one line per change: STILL-CAUGHT / LOST / DOES-NOT-APPLY
Reverse patches of the fixes (seeded/asshipped-*) are run against the property of the finding."""
import json
import re
import subprocess
import sys
from concurrent.futures import ThreadPoolExecutor
from pathlib import Path

V = Path(__file__).resolve().parent.parent
res = json.loads((V / "seeded/results.json").read_text())
kf = {f["id"]: f["property"] for f in json.loads((V / "known_findings.json").read_text())["findings"]}
args = sys.argv[1:]
jobs = 6
if "-j" in args:
    i = args.index("-j"); jobs = int(args[i + 1]); del args[i:i + 2]
all_rec = "--all-recorded" in args
args = [a for a in args if not a.startswith("--")]
pat = re.compile(args[0]) if args else None
work = []
for k, r in sorted(res.items()):
    d = V / "seeded" / k.replace("/", "-")
    own = k.split("/")[0]
    caught = list(r.get("caught_by", {}))
    if not caught:
        continue
    checks = caught if all_rec else [own if own in caught else caught[0]]
    work.append((k, d / "patch.diff", checks))
for d in sorted((V / "seeded").glob("asshipped-*")):
    fid = d.name.split("-")[1]
    prop = kf.get(fid) or kf.get(fid.rstrip("b"))
    if prop:
        work.append((d.name, d / "patch.diff", [prop]))
if pat:
    work = [w for w in work if pat.search(w[0])]


def run(w):
    k, patch, checks = w
    p = subprocess.run([str(V / "tools/try_mutant.sh"), str(patch), "quick", *checks], capture_output=True, text=True)
    out = p.stdout + p.stderr
    if "PATCH-DOES-NOT-APPLY" in out:
        return f"DOES-NOT-APPLY {k}"
    got = {m.group(1): int(m.group(2)) for m in re.finditer(r"== (C\d+) rc=(\d)", out)}
    if any(v == 1 for v in got.values()):
        return f"STILL-CAUGHT {k} {got}"
    return f"LOST {k} {got}"


with ThreadPoolExecutor(jobs) as ex:
    for line in ex.map(run, work):
        print(line, flush=True)
