#!/venv/bin/python
"""Adopt a confirmed red-team round: copy /tmp/redteam/<Cxx>/m<k>/ into seeded/, write meta.json, merge seeded/results.json.
usage: tools/adopt_round.py <needs.json> <trial-output-dir>
needs.json: {"C17/m13": ["what it needs", "own|other|none" (first trial)], ...}; trial dir: out_*.txt of tools/trial_batch.sh (final checks)"""
import json
import re
import shutil
import sys
from pathlib import Path

V = Path(__file__).resolve().parent.parent
needs = json.loads(Path(sys.argv[1]).read_text())
tdir = Path(sys.argv[2])
confirmed = {}
for log in Path("/tmp/redteam").glob("confirm_*.log"):
    for line in log.read_text().splitlines():
        m = re.match(r"CONFIRMED /tmp/redteam/(C\d+/m\d+) \((.*)\)", line)
        if m:
            confirmed[m.group(1)] = m.group(2)
trial = {}
for f in tdir.glob("out_*.txt"):
    cur = None
    for line in f.read_text().splitlines():
        m = re.match(r"#### /tmp/redteam/(C\d+/m\d+)", line)
        if m:
            cur = m.group(1); trial.setdefault(cur, {}); continue
        m = re.match(r"== (C\d+) rc=(\d) violations=(\d+)", line)
        if m and cur:
            trial[cur][m.group(1)] = (int(m.group(2)), int(m.group(3)))
        m = re.match(r"VIOLATION property=(C\d+) .*clause=(\S+)", line)
        if m and cur:
            trial[cur].setdefault("clauses", {}).setdefault(m.group(1), m.group(2))
res = json.loads((V / "seeded/results.json").read_text())
for key, val in sorted(needs.items()):
    need, first = val[0], val[1]
    if key not in confirmed:
        print("NOT CONFIRMED, skipped:", key); continue
    t = trial.get(key, {})
    caught = {c: f"quick: {t.get('clauses', {}).get(c, 'VIOLATION')} ({v[1]} events)" for c, v in t.items() if c != "clauses" and v[0] == 1}
    missed = sorted(c for c, v in t.items() if c != "clauses" and v[0] == 0)
    extra = needs[key][2] if len(needs[key]) > 2 else {}
    caught.update(extra.get("caught_by", {}))
    entry = {"needs": need, "caught_by": caught, "missed_by": [m for m in missed if m not in caught], "first_trial": first}
    if extra.get("note"):
        entry["note"] = extra["note"]
    res[key] = entry
    src, dst = Path("/tmp/redteam") / key, V / "seeded" / key.replace("/", "-")
    dst.mkdir(parents=True, exist_ok=True)
    for f in ("patch.diff", "demo.py", "notes.md"):
        if (src / f).exists():
            shutil.copy(src / f, dst / f)
    meta = {"property": key.split("/")[0], "origin": "independent sub-agent given only the property text and a scratch worktree",
            "needs_to_manifest": need, "confirmed": confirmed[key],
            "ran": "tools/confirm_mutant.sh (demo on clean and changed tree, full test-suite on the changed tree) and tools/try_mutant.sh / "
                   "trial_batch.sh (checks against a scratch worktree with the patch, BBV_REPO)",
            "first_trial": first, "caught_by": caught, "missed_by": entry["missed_by"], "note": entry.get("note", "")}
    (dst / "meta.json").write_text(json.dumps(meta, indent=1) + "\n")
    print("adopted", key, "caught by", sorted(caught) or "none")
(V / "seeded/results.json").write_text(json.dumps(res, indent=1) + "\n")
