"""Stand-alone reproduction of the defects D1..D10 of DESIGN.md section 3 against the real code.

Not a check: a quick demonstration script (used to confirm each failing input before / after a fix).
Run:  cd /repo && /venv/bin/python /verif/selftest/probe_defects.py
"""
from __future__ import annotations

import warnings

import numpy as np
import pandas as pd

warnings.simplefilter("ignore")
from bluebonnet.flow import FlowProperties, IdealReservoir, SinglePhaseReservoir  # noqa: E402
from bluebonnet.flow.flowproperties import (  # noqa: E402
    FlowPropertiesTwoPhase,
    RelPermParams,
    relative_permeabilities,
    relative_permeabilities_twophase,
    rescale_pseudopressure,
)
from bluebonnet.fluids import gas, oil  # noqa: E402

REN = {"P": "pressure", "Z-Factor": "z-factor", "Cg": "compressibility", "Viscosity": "viscosity",
       "Density": "density"}
pvt_gas = pd.read_csv("/repo/tests/data/pvt_gas.csv").rename(columns=REN)


def d1():
    fp = FlowProperties(pvt_gas, 8000)
    r = SinglePhaseReservoir(30, 4000, 8000, fp)
    t = np.linspace(0, 100, 6) ** 2
    r.simulate(t)
    mf = float(fp.m_scaled_func(4000))
    mi = float(fp.m_i)
    u = r.pseudopressure
    below = (mf - u.min()) / (mi - mf)
    rf = r.recovery_factor(density=True)
    dens = np.interp([4000, 8000], pvt_gas["pressure"], pvt_gas["density"])
    return {"below_mf_in_units_of_range": below, "rf_density_last": rf[-1], "ceiling": 1 - dens[0] / dens[1]}


def d2():
    r = IdealReservoir(50, 100, 8000, None)
    t = np.linspace(0, 3, 50) ** 2
    r.simulate(t)
    from scipy import sparse
    from bluebonnet.flow.reservoir import _build_matrix
    worst = 0
    for i in range(len(t) - 1):
        k = (t[i + 1] - t[i]) * 49 ** 2 * np.ones(50)
        a = _build_matrix(k)
        res = a @ r.pseudopressure[i + 1] - r.pseudopressure[i]
        worst = max(worst, np.abs(res).max() / np.abs(r.pseudopressure[i]).max())
    r2 = IdealReservoir(50, 100, 8000, None)
    r2.simulate(t + 123.456)
    return {"rel_residual": worst, "shift_diff": np.abs(r2.pseudopressure - r.pseudopressure).max()}


def d3():
    ta = np.linspace(0, 1, 20) ** 2
    tb = np.linspace(0, 3, 20) ** 2
    r = IdealReservoir(10, 100, 8000, None)
    r.simulate(ta); r.recovery_factor(); r.simulate(tb)
    stale = float(r.recovery_factor_interpolator()(0.1))
    f = IdealReservoir(10, 100, 8000, None)
    f.simulate(tb)
    fresh = float(f.recovery_factor_interpolator()(0.1))
    return {"stale": stale, "fresh": fresh}


def d4():
    fp = FlowProperties(pvt_gas, 8000)
    t = np.linspace(0, 1, 12) ** 2
    sched = np.linspace(4000, 1000, 12)
    r = SinglePhaseReservoir(10, 4000, 8000, fp)
    r.simulate(t, sched); r.simulate(t)
    f = SinglePhaseReservoir(10, 4000, 8000, fp)
    f.simulate(t)
    return {"diff_vs_fresh": float(np.abs(r.pseudopressure - f.pseudopressure).max())}


def d5():
    hits = []
    for tr in (1.05, 1.1, 1.2):
        for pr in (8, 12, 16, 20, 25, 30):
            z = gas.z_factor_DAK(tr * 400 - 459.67, pr * 650, 400 - 459.67, 650)
            if abs(z - 5) < 1e-9 or abs(z - 0.05) < 1e-9:
                hits.append((tr, pr, z))
    return {"at_bound": hits}


def d7():
    return {"bo_int": oil.b_o_Standing(200.0, np.arange(500, 5000, 500), 35.0, 0.8, 650.0)[:4].tolist(),
            "rs_int": oil.solution_gor_Standing(200.0, np.arange(500, 5000, 500), 35.0, 0.8, 650.0)[:4].tolist()}


def d8():
    p = RelPermParams(n_o=1.5, n_w=1.5, n_g=1.5, S_or=0.1, S_wc=0.1, S_gc=0.05, k_ro_max=0.9, k_rw_max=0.9,
                      k_rg_max=0.9)
    s = np.array([(0.05, 0.05, 0.9)], dtype=[("So", "f8"), ("Sw", "f8"), ("Sg", "f8")])
    k = relative_permeabilities(s, p)
    return {"kro": float(k["kro"][0]), "krg": float(k["krg"][0])}


def _df_pvt():
    Sw = 0.1
    pvt_oil = pd.read_csv("/repo/tests/data/pvt_oil.csv")
    pvt_water = pd.read_csv("/repo/tests/data/pvt_water.csv").rename(
        columns={"T": "temperature", "P": "pressure", "Viscosity": "mu_w"})
    ren = {"T": "temperature", "P": "pressure", "Oil_Viscosity": "mu_o", "Gas_Viscosity": "mu_g", "Rso": "Rs"}
    df = pvt_water.drop(columns=["temperature"]).merge(pvt_oil.rename(columns=ren), on="pressure").assign(Rv=0)
    df["So"] = (1 - Sw) / ((df["Rs"].max() - df["Rs"]) * df["Bg"] / df["Bo"] / 5.61458 + 1)
    return df


def d9_d10():
    from bluebonnet.flow.flowproperties import (compressibility_combined_func, lambda_combined_func,
                                                 pseudopressure_threephase)
    from scipy.interpolate import interp1d
    df = rescale_pseudopressure(_df_pvt(), 1000, 8000)
    rp = RelPermParams(1, 1, 1, 0, 0.1, 0, 1, 1, 1)
    kr_t = relative_permeabilities_twophase(rp)
    rho = {"rho_o0": 141.5 / (45 + 131.5), "rho_g0": 1.03e-3, "rho_w0": 1}
    cols = ["pseudopressure", "pressure", "Bo", "Bg", "Bw", "Rs", "Rv", "mu_o", "mu_g", "mu_w", "So"]
    pvt = {c: interp1d(df["pressure"], df[c], fill_value="extrapolate") for c in cols}
    pvt.update(rho)
    kr = {f: interp1d(kr_t["So"], kr_t[f]) for f in ("kro", "krg", "krw")}
    m = pseudopressure_threephase(df["pressure"].to_numpy(), df["So"].to_numpy(), pvt, kr)
    lam = lambda_combined_func(df["pressure"].to_numpy(), df["So"].to_numpy(), pvt, kr)
    from scipy.integrate import cumulative_trapezoid
    ref = cumulative_trapezoid(lam, df["pressure"].to_numpy(), initial=0)
    c = compressibility_combined_func(df["pressure"].to_numpy(), df["So"].to_numpy(), 0.1, 0.1, pvt)

    def storage(p):
        So = df["So"].to_numpy(); Sg = 1 - So - 0.1
        return 0.1 * (rho["rho_o0"] * (pvt["Rv"](p) * Sg / pvt["Bg"](p) + So / pvt["Bo"](p))
                      + rho["rho_g0"] * (pvt["Rs"](p) * So / pvt["Bo"](p) + Sg / pvt["Bg"](p))
                      + rho["rho_w0"] * 0.1 / pvt["Bw"](p))
    p = df["pressure"].to_numpy()
    cref = storage(p + 0.5) - storage(p - 0.5)
    return {"m_last": float(m[-1]), "m_ref_last": float(ref[-1]), "monotone": bool(np.all(np.diff(m) > 0)),
            "c_over_ref_median": float(np.median(np.abs(c / cref)))}


if __name__ == "__main__":
    for f in (d1, d2, d3, d4, d5, d7, d8, d9_d10):
        try:
            print(f.__name__, f())
        except Exception as e:  # noqa: BLE001
            print(f.__name__, "EXC", type(e).__name__, e)
