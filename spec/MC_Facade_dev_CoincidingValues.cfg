SPECIFICATION Spec
CONSTANT Deviation = "CoincidingValues"
CONSTANT Export = FALSE
INVARIANT EveryEnvExposes
CHECK_DEADLOCK FALSE
