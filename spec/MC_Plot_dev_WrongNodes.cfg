SPECIFICATION Spec
CONSTANT Deviation = "WrongNodes"
CONSTANT Export = FALSE
CONSTANT MaxNt = 4
CONSTANT MaxEvery = 3
CONSTANT MaxN = 10
CONSTANT Depth = 3
INVARIANT NodePositions
CHECK_DEADLOCK FALSE
