SPECIFICATION Spec
CONSTANT Lattice = "small"
CONSTANT Deviation = "Corey_Unclamped"
CONSTANT Export = FALSE
INVARIANT ZeroAtResidual
CHECK_DEADLOCK FALSE
