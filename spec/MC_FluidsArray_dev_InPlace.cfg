SPECIFICATION Spec
CONSTANT MaxLen = 2
CONSTANT Deviation = "InPlace"
CONSTANT Export = FALSE
INVARIANT C11_InputUnchanged
CHECK_DEADLOCK FALSE
