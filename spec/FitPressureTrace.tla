------------------------------- MODULE FitPressureTrace -------------------------------
(* Code -> spec for C18: observations recorded from the real objective function and from real fits        *)
(* (lmfit Nelder-Mead through fit_production_pressure, 80-node simulations per evaluation) are judged here. *)
(* Events:                                                                                                  *)
(*   Objective [kind, outcome, agree_e15, atgen, zero_e15]                                                  *)
(*       agree_e15: | _obj_function(params, days, production, pvt, pf) - (M * RF_lib - production) | / scale  *)
(*                  where RF_lib is obtained by calling the public classes as FitPressure!RefModel says      *)
(*       zero_e15:  | objective | / M at the parameters that generated the production (atgen = TRUE)          *)
(*   FitResult [n, n_iter, outcome, tq, mq, cprev_q, pq, pfmax_q, w1_e15]                                    *)
(*       n: rows that reached the minimiser; tq: fitted tau in the window [0, 1000] days; mq, cprev_q: fitted *)
(*       M and the second-to-last cumulative production in [0, inplace_max]; pq, pfmax_q: fitted initial      *)
(*       pressure and the highest frac-face pressure passed to the objective in [0, pressure_imax];          *)
(*       plo_q: the declared lower limit of the initial pressure in the same window;                        *)
(*       w1_e15: largest relative change of a pressure between the table rows that get through and what the  *)
(*       objective receives, when no smoothing or a window of one sample was requested (-1 otherwise)        *)
(*       n_exp, cexp_q, pexp_q: rows / second-to-last cumulative production / highest pressure of the rows   *)
(*       that the table itself says get through (harness side; decides whether the case is meaningful);     *)
(*       excl_e15: largest relative change of anything handed to the minimiser when the readings carried by  *)
(*       excluded rows are replaced by other values (-1 when nothing is excluded)                            *)
EXTENDS FitPressure, TraceLib, Quant

VARIABLES l

ObjTolE15 == 1000        \* 1e-12 relative: the objective *is* the library's model
W1TolE15  == 0           \* a window of one sample (or none) leaves every pressure bit for bit as the table holds it (defect D17:
                         \* the boxcar filter of width one moved last bits, and an exact 0 psi reading below the table's range)
ExclTolE15 == 1000       \* 1e-12 relative

\* position of the integer L (days) in the window [0, 1000]: S * (1 + L / 1000)
QDays(L) == <<100000 * (1000 + L), 0>>

StepObjective(e) ==
    Report(e, IF e.outcome # "ok" THEN {"Outcome"}
              ELSE (IF e.agree_e15 > ObjTolE15 THEN {"ObjectiveIsLibraryModel"} ELSE {})
                   \cup (IF e.atgen /\ e.zero_e15 > ObjTolE15 THEN {"ZeroAtGenerating"} ELSE {}))

StepFitResult(e) ==
    LET Texp == TauLimits(e.n_exp)     \* from the rows the table itself says must get through (harness side)
        T    == TauLimits(e.n)         \* the limits the code declared (from the rows it used)
        meaningful == Texp.min < Texp.max /\ QLt(e.cexp_q, Q2S) /\ QLt(e.pexp_q, Q2S)
    IN  Report(e, IF ~meaningful THEN {"NotMeaningful"}
                  ELSE IF e.outcome # "ok" THEN {"Outcome"}
                  ELSE IF e.n # e.n_exp THEN {"RowsUsed"}
                  ELSE (IF QLe(QDays(T.min), e.tq) /\ QLe(e.tq, QDays(T.max)) THEN {} ELSE {"TauLimits"})
                       \cup (IF QLe(e.cprev_q, e.mq) /\ QLe(e.mq, Q2S) THEN {} ELSE {"MLimits"})
                       \cup (IF QLe(e.pfmax_q, e.pq) /\ QLe(e.pq, Q2S) THEN {} ELSE {"PLimits"})
                       \* the declared lower limit itself: the highest frac-face pressure of the history that is simulated
                       \* (after smoothing, if any) - otherwise "within its limits" would not imply "at least the highest pressure"
                       \cup (IF QLe(e.pfmax_q, e.plo_q) THEN {} ELSE {"PLimitDeclared"})
                       \cup (IF e.w1_e15 > W1TolE15 THEN {"Window1Identity"} ELSE {})
                       \cup (IF e.excl_e15 > ExclTolE15 THEN {"ExcludedRowsIgnored"} ELSE {}))

TInit == c = [none |-> TRUE] /\ l = 1
TNext == /\ l <= Len(Trace)
         /\ LET e == Trace[l]
            IN  CASE e.ev = "Objective" -> StepObjective(e)
                  [] e.ev = "FitResult" -> StepFitResult(e)
         /\ l' = l + 1
         /\ UNCHANGED c
TraceSpec == TInit /\ [][TNext]_<<c, l>>
TraceAccepted == TLCGet("stats").diameter = Len(Trace) + 1
=============================================================================
