------------------------------- MODULE SweepC07 -------------------------------
(* C07 -- density x formation volume factor = standard-condition mass content for gas, oil and water; gas density *)
(* is p M / (Z R T) with the library's own Z; gas compressibility is the isothermal d ln(rho)/dp of that same      *)
(* density; gas viscosity is positive and increases with pressure.                                                 *)
(* Rule tables for SweepCore; thresholds are constants of GasEOS.tla.  One sweep = fixed temperature and fluid,    *)
(* walked along increasing pressure.                                                                               *)
(*                                                                                                                 *)
(* profile "gas"   (x = reduced pressure)                                                                          *)
(*   vals.rhobg          density_DAK * b_factor_DAK divided by the expected p_sc M/(R T_sc)/5.615, window [0,1]    *)
(*                       -> constant along the sweep to ConstUnits (1e-13)                                         *)
(*   agree.rhobg_exp     E15 of that ratio against 1                                                               *)
(*   agree.dens_formula  E15 of density_DAK against p M /(Z R T), Z = z_factor_DAK at the same point               *)
(*   agree.cg_dlnrho     E11 of compressibility_DAK against the Richardson-extrapolated central difference of      *)
(*                       ln density_DAK;  agree.dlnrho_err  E11 of that derivative's own error estimate            *)
(*   vals.visc           log10 of viscosity_Sutton, window [-4,4] -> strictly increasing; flags.visc_pos           *)
(* profile "oil"   (x = pressure / 10000 psia; side relative to the bubble point)                                  *)
(*   agree.oil_mass      E15 of density_Standing * b_o_Standing against 62.37 gamma_o + 0.0136 gamma_g R_s         *)
(* profile "water" (x = pressure / 10000 psia)                                                                     *)
(*   agree.water_mass    E15 of density_water_McCain * b_water_McCain against 62.368 + 0.438603 s + 1.60074e-3 s^2 *)
(* A failed cg_dlnrho is a KNOWN-FINDING only when GasEOSTrace.tla printed the key of D6 for that point            *)
(* (GasEOS!ExplainCg); anything else is a violation.                                                               *)
EXTENDS TraceLib, Quant, GasEOS
VARIABLES l, h

NoMono == [nm \in {} |-> [dir |-> "const", tol |-> Units(0), where |-> "all"]]

C07Rules ==
    [ gas   |-> [mono |-> [rhobg |-> [dir |-> "const", tol |-> Units(ConstUnits), where |-> "all"],
                           visc  |-> [dir |-> "inc",   tol |-> Units(0),          where |-> "all"]],
                 agreeMax |-> [rhobg_exp    |-> [max |-> IdentTolE15, where |-> "all"],
                               dens_formula |-> [max |-> IdentTolE15, where |-> "all"],
                               cg_dlnrho    |-> [max |-> CgTolE11,    where |-> "all"],
                               dlnrho_err   |-> [max |-> DerivErrE11, where |-> "all"]],
                 mustTrue |-> {"visc_pos"}, need |-> {"none"}, minPoints |-> 8],
      \* an oil whose bubble point lies inside the swept pressures: both branches and the bubble point itself
      oil   |-> [mono |-> NoMono, agreeMax |-> [oil_mass |-> [max |-> IdentTolE15, where |-> "all"]],
                 mustTrue |-> {}, need |-> {"below", "at", "above"}, minPoints |-> 5],
      \* an oil that stays saturated over the whole swept range
      oilsat |-> [mono |-> NoMono, agreeMax |-> [oil_mass |-> [max |-> IdentTolE15, where |-> "all"]],
                 mustTrue |-> {}, need |-> {"below"}, minPoints |-> 5],
      water |-> [mono |-> NoMono, agreeMax |-> [water_mass |-> [max |-> IdentTolE15, where |-> "all"]],
                 mustTrue |-> {}, need |-> {"none"}, minPoints |-> 4] ]

INSTANCE SweepCore WITH Rules <- C07Rules
=============================================================================
