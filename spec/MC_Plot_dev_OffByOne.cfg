SPECIFICATION Spec
CONSTANT Deviation = "OffByOne"
CONSTANT Export = FALSE
CONSTANT MaxNt = 4
CONSTANT MaxEvery = 3
CONSTANT MaxN = 10
CONSTANT Depth = 3
INVARIANT DrawnIsEveryKth
CHECK_DEADLOCK FALSE
