SPECIFICATION Spec
CONSTANT Threads = {1,2,3}
CONSTANT Args = {1, 2}
CONSTANT MaxCalls = 4
CONSTANT Deviation = "none"
INVARIANT TypeOK
INVARIANT ReturnsOwn
PROPERTY Stateless
CHECK_DEADLOCK FALSE
