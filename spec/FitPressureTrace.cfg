SPECIFICATION TraceSpec
CONSTANT MaxRows = 2
CONSTANT Reps = 18
CONSTANT Deviation = "none"
CONSTANT Export = FALSE
POSTCONDITION TraceAccepted
CHECK_DEADLOCK FALSE
