SPECIFICATION Spec
CONSTANT MaxRows = 2
CONSTANT Reps = 18
CONSTANT Deviation = "PLimitsSwapped"
CONSTANT Export = FALSE
INVARIANT C18_Limits
CHECK_DEADLOCK FALSE
