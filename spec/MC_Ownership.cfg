SPECIFICATION Spec
CONSTANT MaxOps = 3
CONSTANT Deviation = "none"
INVARIANT NoWrite
INVARIANT KeptWasRead
INVARIANT ReadsKnown
CHECK_DEADLOCK FALSE
