------------------------------- MODULE Reentrant -------------------------------
(* Calls into the library from several threads of one process.                                             *)
(*                                                                                                       *)
(* Every listed property is stated per call ("for every temperature and pressure the returned Z ...",   *)
(* "every correlation returns, element by element, what the scalar call returns"), so it has to hold    *)
(* for a call whatever the other threads of the process are doing: the library's functions are          *)
(* *stateless* - the result of a call is a function of its arguments (and, for methods, of the object   *)
(* the calling thread owns) and of nothing another call has written.                                    *)
(*                                                                                                       *)
(* The model follows the shape of the code rather than an atomic "call" (the point of the exercise is   *)
(* the interleaving): a call first FILLS a work area from its arguments (the coefficient array C of the *)
(* DAK solver, the masked output array of an array correlation, the stored pseudopressure field of a    *)
(* reservoir object), then ITERATES on it zero or more times (the root finder calling the residual, the *)
(* time loop), then RETURNS a value read from it.  In the design every work area belongs to the call    *)
(* (`local[t]`).  Named deviations:                                                                      *)
(*   SharedScratch  the work area is one module-level array (an "allocate once" clean-up)               *)
(*   SharedMemo     a one-slot memo written as key first, value second and read without a lock          *)
(*                  (a hit skips the computation and reads the slot)                                    *)
(* Each is refuted by TLC (MC_Reentrant_dev_*.cfg) with two threads and two argument values; the design  *)
(* config satisfies `ReturnsOwn` and `Stateless` for three threads.                                      *)
(*                                                                                                       *)
(* Code -> spec: ReentrantTrace.tla replays recorded executions of real threads (events logged under a  *)
(* lock with one sequence counter) through Begin/Return and demands that every returned value is        *)
(* bit-identical to the value the same call returned when nothing else was running.                      *)
EXTENDS Naturals, Sequences, FiniteSets, TLC

CONSTANTS Threads, Args, MaxCalls, Deviation

None == 0
ASSUME None \notin Args /\ Args \subseteq Nat

\* the abstract function the library computes: the model only needs it to be injective
F(a) == a

VARIABLES pc,        \* [Threads -> {"idle", "filled", "iter", "ret"}]
          arg,       \* [Threads -> Args \cup {None}]
          local,     \* [Threads -> Args \cup {None}]   the call's own work area
          shared,    \* one module-level work area (used by the deviations only)
          memo,      \* [key, val] one-slot memo (SharedMemo)
          ncalls,    \* total number of calls begun (SharedDefault reads it)
          result,    \* [Threads -> value]
          done       \* number of completed calls (bounds the model)
vars == <<pc, arg, local, shared, memo, ncalls, result, done>>

Init == /\ pc = [t \in Threads |-> "idle"]
        /\ arg = [t \in Threads |-> None]
        /\ local = [t \in Threads |-> None]
        /\ shared = None
        /\ memo = [key |-> None, val |-> None]
        /\ ncalls = 0
        /\ result = [t \in Threads |-> None]
        /\ done = 0

\* --- the steps of one call ------------------------------------------------------------------------
Begin(t, a) ==
    /\ pc[t] = "idle" /\ done + Cardinality({u \in Threads : pc[u] # "idle"}) < MaxCalls
    /\ arg' = [arg EXCEPT ![t] = a]
    /\ local' = [local EXCEPT ![t] = IF Deviation = "SharedMemo" /\ memo.key = a THEN None ELSE F(a)]   \* None: memo hit, nothing computed
    /\ shared' = IF Deviation = "SharedScratch" THEN F(a) ELSE shared
    /\ memo' = IF Deviation = "SharedMemo" /\ memo.key # a THEN [memo EXCEPT !.key = a] ELSE memo   \* key first
    /\ ncalls' = ncalls + 1
    /\ pc' = [pc EXCEPT ![t] = "filled"]
    /\ UNCHANGED <<result, done>>

\* the solver works on the work area (one or more reads; modelled as one step that may repeat)
Iterate(t) ==
    /\ pc[t] \in {"filled", "iter"}
    /\ pc' = [pc EXCEPT ![t] = "iter"]
    /\ memo' = IF Deviation = "SharedMemo" /\ local[t] # None /\ memo.key = arg[t]
               THEN [memo EXCEPT !.val = F(arg[t])] ELSE memo                                         \* value second
    /\ UNCHANGED <<arg, local, shared, ncalls, result, done>>

ReadBack(t) ==
    CASE Deviation = "SharedScratch" -> shared
      [] Deviation = "SharedMemo" -> IF local[t] = None THEN memo.val ELSE local[t]
      [] OTHER -> local[t]

\* zero iterations are allowed (a call that needs no solve), except that the memo variant always stores what it computed
Finish(t) ==
    /\ \/ pc[t] = "iter"
       \/ pc[t] = "filled" /\ (Deviation # "SharedMemo" \/ local[t] = None)
    /\ result' = [result EXCEPT ![t] = ReadBack(t)]
    /\ pc' = [pc EXCEPT ![t] = "ret"]
    /\ UNCHANGED <<arg, local, shared, memo, ncalls, done>>

Return(t) ==
    /\ pc[t] = "ret"
    /\ pc' = [pc EXCEPT ![t] = "idle"]
    /\ done' = done + 1
    /\ UNCHANGED <<arg, local, shared, memo, ncalls, result>>

Next == \E t \in Threads : (\E a \in Args : Begin(t, a)) \/ Iterate(t) \/ Finish(t) \/ Return(t)
Spec == Init /\ [][Next]_vars

\* --- properties -----------------------------------------------------------------------------------
TypeOK == /\ pc \in [Threads -> {"idle", "filled", "iter", "ret"}]
          /\ arg \in [Threads -> Args \cup {None}]
          /\ done \in 0..MaxCalls

\* what a call hands back is the function of ITS arguments
ReturnsOwn == \A t \in Threads : pc[t] = "ret" => result[t] = F(arg[t])

\* no step of one thread changes what another thread's call will read back
Stateless == [][\A t, u \in Threads :
                    (t # u /\ pc[u] \in {"filled", "iter"} /\ pc'[u] = pc[u] /\ arg'[u] = arg[u])
                        => (ReadBack(u))' = ReadBack(u)]_vars

\* the exploration really interleaves: some state has two calls in flight on different arguments
TwoInFlight == \E t, u \in Threads : t # u /\ pc[t] \in {"filled", "iter"} /\ pc[u] \in {"filled", "iter"} /\ arg[t] # arg[u]
NeverTwoInFlight == ~TwoInFlight      \* a config that claims this must be refuted (non-vacuity)
=============================================================================
