SPECIFICATION Spec
CONSTANT Prop = "C16"
CONSTANT Tier = "quick"
CONSTANT Deviation = "none"
CONSTANT Export = FALSE
INVARIANT Admissible
INVARIANT C16_ZeroForConstantTables
INVARIANT C16_LinearInPhi
INVARIANT C16_MatchesSlope
INVARIANT C16_AlphaIsRatio
INVARIANT C16_LambdaIsSum
CHECK_DEADLOCK FALSE
