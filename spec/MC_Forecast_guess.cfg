SPECIFICATION Spec
CONSTANT Part = "guess"
CONSTANT Deviation = "none"
CONSTANT MaxDepth = 3
CONSTANT Rebounds = FALSE
CONSTANT Export = TRUE
INVARIANT C05_GuessInside
INVARIANT ExportCase
CHECK_DEADLOCK FALSE
