------------------------------- MODULE Refine -------------------------------
(* Premises of "consistent + stable => convergent" for the stencil of Scheme.tla, as exact facts TLC evaluates  *)
(* (C02).  Stability is C01_MMatrix / C01_Bounds of Scheme.tla.  Consistency, on node grids x_j = j*h:            *)
(*   - the interior rows reproduce u_xx exactly on quadratics;                                                   *)
(*   - the flux stencil (-u2 + 4 u1 - 3 u0)/(2h) is the exact derivative at the face on quadratics;               *)
(*   - the cumulative trapezoid is exact for rates that are linear in time;                                       *)
(*   - the outer row is the mirror (zero-flux) closure: it equals the interior row with u[n+1] = u[n]             *)
(*     (a reflecting wall half a cell beyond the last node: first-order in h, which is why C02 is first order);   *)
(*   - the steady state of the single-phase stencil is u == m_f, of the ideal one u == 0.                         *)
(* The ladder judgement itself (FirstOrder, LadderShrinks) is in SchemeTrace.tla.                                 *)
EXTENDS PWL, TLC
VARIABLE x
Init == x = 0
Next == UNCHANGED x
Spec == Init /\ [][Next]_x

Coefs == {R(-2), R(-1), Zero, Q(1, 2), R(3)}
Grids == {4, 5, 8}
Quad(a, b, c, s) == Add(Add(Mul(a, Mul(s, s)), Mul(b, s)), c)
Nodes(n, a, b, c) == [j \in 0..n |-> Quad(a, b, c, Q(j, n))]

InteriorExact == \A n \in Grids, a \in Coefs, b \in Coefs, c \in Coefs :
    LET v == Nodes(n, a, b, c) h == Q(1, n)
    IN  \A j \in 1..(n - 1) : Div(Add(Sub(v[j - 1], Mul(R(2), v[j])), v[j + 1]), Mul(h, h)) = Mul(R(2), a)
FluxExact == \A n \in Grids, a \in Coefs, b \in Coefs, c \in Coefs :
    LET v == Nodes(n, a, b, c) h == Q(1, n)
    IN  Div(Add(Add(Neg(v[2]), Mul(R(4), v[1])), Mul(R(-3), v[0])), Mul(R(2), h)) = b
TrapExactOnLinear == \A r0 \in Coefs, r1 \in Coefs :
    LET ts == <<Zero, Q(1, 4), One, R(3)>>
        rate == [i \in 1..4 |-> Add(r0, Mul(r1, ts[i]))]
        cum == CumTrap(rate, ts)
    IN  \A i \in 1..4 : cum[i] = Add(Mul(r0, ts[i]), Mul(Q(1, 2), Mul(r1, Mul(ts[i], ts[i]))))
\* outer row of Scheme.tla: (1 + k) u_n - k u_{n-1} = b  <=>  interior row with the mirrored neighbour u_{n+1} = u_n
MirrorClosure == \A k \in {Q(1, 2), One, R(3)}, un \in Coefs, um \in Coefs :
    Sub(Mul(Add(One, k), un), Mul(k, um)) = Sub(Sub(Mul(Add(One, Mul(R(2), k)), un), Mul(k, um)), Mul(k, un))

Premises == InteriorExact /\ FluxExact /\ TrapExactOnLinear /\ MirrorClosure
=============================================================================
