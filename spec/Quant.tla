------------------------------- MODULE Quant -------------------------------
(* Two-limb fixed point <<hi, lo>>, value = hi * 10^9 + lo, produced by bbv/quant.py.       *)
(* The unit interval of the quantisation window maps to [S, 2S], S = 10^17; <<-1,-1>> is NaN *)
(* Only comparison and addition are needed, so full float resolution fits 32-bit integers.  *)
EXTENDS Integers, Sequences

LIMB  == 1000000000
QS    == <<100000000, 0>>      \* 10^17 : value 0 of the window's unit interval
Q2S   == <<200000000, 0>>      \* 2*10^17: value 1
QNaN  == <<-1, -1>>
CAP   == 2000000000            \* saturation value of E15 agreement magnitudes

IsNaN(a) == a[1] < 0
QLe(a, b) == a[1] < b[1] \/ (a[1] = b[1] /\ a[2] <= b[2])
QLt(a, b) == a[1] < b[1] \/ (a[1] = b[1] /\ a[2] < b[2])
QAdd(a, b) == LET lo == a[2] + b[2]
              IN  IF lo >= LIMB THEN <<a[1] + b[1] + 1, lo - LIMB>> ELSE <<a[1] + b[1], lo>>
\* a <= b + t   (t a tolerance in the same units)
QLeTol(a, b, t) == QLe(a, QAdd(b, t))
\* |a - b| <= t
QWithin(a, b, t) == QLeTol(a, b, t) /\ QLeTol(b, a, t)
QMin(a, b) == IF QLe(a, b) THEN a ELSE b
QMax(a, b) == IF QLe(a, b) THEN b ELSE a
\* small tolerances: n units of 10^-17 of the window (n < 10^9)
Units(n) == <<0, n>>
=============================================================================
