SPECIFICATION TraceSpec
CONSTANT Kind = "single"
CONSTANT MaxDepth = 0
CONSTANT Deviation = "none"
CONSTANT Export = FALSE
POSTCONDITION TraceAccepted
CHECK_DEADLOCK FALSE
