SPECIFICATION TraceSpec
CONSTANT Kind = "single"
CONSTANT MaxDepth = 0
CONSTANT Deviation = "none"
CONSTANT Setters = TRUE
CONSTANT Export = FALSE
POSTCONDITION TraceAccepted
CHECK_DEADLOCK FALSE
