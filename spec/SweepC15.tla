------------------------------- MODULE SweepC15 -------------------------------
(* C15 at realistic magnitudes: sweeps along the pressure axis of a PVT table, judged by SweepCore.        *)
(* profile "integral" (x = table pressures, all rows):                                                    *)
(*    m      pseudopressure_threephase, quantised on [0, harness trapezoid at the last row]; strictly      *)
(*           increasing (the generated families have positive mobility everywhere)                        *)
(*    zero   E15(m[first], 0)                      only logged at the first row                            *)
(*    trap   E15(m, harness cumulative trapezoid of the code's own lambda_combined_func)                  *)
(*    doc    E15(lambda_combined_func, documented sum evaluated from FlowPropsMP!LambdaTerms)              *)
(*    homog  E15(m computed with all reference densities times a, a * m)                                   *)
(*    sub    E15(from_table(...).pvt_props["pseudopressure"], m)   (the substitution into the wrapper)     *)
(* profile "scaled" (x = pressures up to p_i, p_i a table node; the last point is p_i, side "at"):         *)
(*    ms     from_table(...).m_scaled_func(x) on the window [0, 1]: strictly increasing; together with     *)
(*           zero (first point) and one (at p_i) this puts every frac-face pressure below p_i into [0, 1)  *)
(*    col    the tabulated m-scaled column at table nodes: strictly increasing; colfunc: E15(ms, col)     *)
(*    mi     E15(.m_i, 1) at p_i                                                                           *)
(* Agreement magnitudes are in units of 1e-15 of the stated scale: 1000 = 1e-12 (pointwise), 10000 = 1e-11 *)
(* (cumulative sums over up to ~1000 rows).                                                                *)
EXTENDS TraceLib, Quant
VARIABLES l, h
Pointwise  == 1000
Cumulative == 10000
C15Rules ==
  [integral |-> [mono     |-> [m |-> [dir |-> "inc", tol |-> Units(0), where |-> "all"]],
                 agreeMax |-> [zero  |-> [max |-> Pointwise,  where |-> "all"],
                               trap  |-> [max |-> Cumulative, where |-> "all"],
                               doc   |-> [max |-> Pointwise,  where |-> "all"],
                               homog |-> [max |-> Cumulative, where |-> "all"],
                               sub   |-> [max |-> Cumulative, where |-> "all"]],
                 mustTrue |-> {},
                 need |-> {"none"}, minPoints |-> 3],
   scaled   |-> [mono     |-> [ms  |-> [dir |-> "inc", tol |-> Units(0), where |-> "all"],
                               col |-> [dir |-> "inc", tol |-> Units(0), where |-> "all"]],
                 agreeMax |-> [zero    |-> [max |-> Pointwise,  where |-> "all"],
                               colfunc |-> [max |-> Pointwise,  where |-> "all"],
                               one     |-> [max |-> Pointwise,  where |-> "at"],
                               mi      |-> [max |-> Pointwise,  where |-> "at"]],
                 mustTrue |-> {},
                 need |-> {"below", "at"}, minPoints |-> 3]]
INSTANCE SweepCore WITH Rules <- C15Rules
=============================================================================
