SPECIFICATION Spec
CONSTANT Lattice = "small"
CONSTANT Deviation = "LookupExtrapolates"
CONSTANT Export = FALSE
INVARIANT LookupInRange
CHECK_DEADLOCK FALSE
