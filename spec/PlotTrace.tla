------------------------------- MODULE PlotTrace -------------------------------
(* Code -> spec for C20: what the plotting helpers drew for real simulations (nt up to 2000, random stride),  *)
(* projected by the harness to integers, is judged by the rules of Plot.tla.                                 *)
(* Events (one execution = one simulated reservoir / one comparison data set / one float batch):            *)
(*   Pseudo    [nt, nx, every, rescale, drawn, xlen, lens_ok, x_ulp, y_ulp]                                   *)
(*             drawn[k] = the stored levels the k-th artist's y data is nearest to, as [lo, hi] index runs   *)
(*             (one run of one index unless levels are bitwise identical; empty: no level);                 *)
(*             x_ulp = worst distance of an x value from j/nx; y_ulp = worst distance of the y data from     *)
(*             that level (rescaled as Plot!Y says when requested)                                            *)
(*   RF        [n, nlines, x_same, y_same, xscale, ticks]     bitwise identity with time / recovery           *)
(*   Rate      [n, nlines, x_same, rate_e15, ticks]           distance from the exact second-order gradient   *)
(*   Cmp       [n, lines1, lines2, x_ulp, cum_ulp, pf_same, rf_e15, xscale1, xscale2, len_ok]                 *)
(*   Transform [classes, fwd_ulp, back_ulp, back2_ulp, pipe_ulp, axes_e15, scale]                             *)
EXTENDS Plot, TraceLib

VARIABLE l
tvars == <<vars, l>>

TInit == /\ c = [part |-> "trace"] /\ i = 0 /\ out = <<>> /\ kind = "none" /\ vals = <<>> /\ l = 1

Unless(ok, clause) == IF ok THEN {} ELSE {clause}

JudgePseudo(e) ==
    LET want == DrawnSeq(e.nt, e.every)
    IN  Unless(Len(e.drawn) = Len(want), "Count")
        \cup Unless(\A k \in 1..Min(Len(want), Len(e.drawn)) :
                        \E r \in 1..Len(e.drawn[k]) : e.drawn[k][r][1] <= want[k] /\ want[k] <= e.drawn[k][r][2],
                    "Selection")
        \cup Unless(e.xlen = e.nx /\ e.lens_ok /\ e.x_ulp <= Tol.x_ulp, "NodePositions")
        \cup Unless(e.y_ulp <= (IF e.rescale THEN Tol.rescale_ulp ELSE 0), "Data")

JudgeRF(e) ==
    Unless(e.nlines = Len(RFArtists([nt |-> 1, grid |-> "unif", rf |-> "lin"])), "OneArtist")
    \cup Unless(e.x_same, "XIsTime")
    \cup Unless(e.y_same, "YIsRecovery")
    \cup Unless(e.xscale = RFScale.x, "SqrtAxis")

JudgeRate(e) ==
    Unless(e.nlines = 1, "OneArtist")
    \cup Unless(e.x_same, "XIsTime")
    \cup Unless(e.rate_e15 <= Tol.rate_e15, "RateIsDerivative")

JudgeCmp(e) ==
    Unless(e.lines1 = 2 /\ e.lines2 = 1 /\ e.len_ok, "CmpArtists")
    \cup Unless(e.x_ulp <= Tol.ratio_ulp, "CmpTime")
    \cup Unless(e.cum_ulp <= Tol.ratio_ulp, "CmpCum")
    \cup Unless(e.pf_same, "CmpPressure")
    \cup Unless(e.rf_e15 <= Tol.rf_abs_e15, "CmpRecovery")
    \cup Unless(e.xscale1 = RFScale.x /\ e.xscale2 = RFScale.x, "SqrtAxis")

\* the classes of t, t.inverted(), t.inverted().inverted() follow the two-state machine
JudgeTransform(e) ==
    Unless(e.classes = <<ClassOf["sqrt"], ClassOf[Invert("sqrt")], ClassOf[Invert(Invert("sqrt"))]>>, "Pairing")
    \cup Unless(e.fwd_ulp <= Tol.sqrt_ulp, "SqrtIsSqrt")
    \cup Unless(e.back_ulp <= Tol.sqrt_ulp /\ e.back2_ulp <= Tol.sqrt_ulp, "InversePair")
    \cup Unless(e.pipe_ulp <= Tol.sqrt_ulp /\ e.axes_e15 <= Tol.axes_e15, "InversePipeline")
    \cup Unless(e.scale = RFScale.x, "SqrtAxis")

Judge(e) == CASE e.ev = "Pseudo" -> JudgePseudo(e)
              [] e.ev = "RF" -> JudgeRF(e)
              [] e.ev = "Rate" -> JudgeRate(e)
              [] e.ev = "Cmp" -> JudgeCmp(e)
              [] e.ev = "Transform" -> JudgeTransform(e)

TNext == /\ l <= Len(Trace)
         /\ Report(Trace[l], Judge(Trace[l]))
         /\ l' = l + 1
         /\ UNCHANGED vars

TraceSpec == TInit /\ [][TNext]_tvars
TraceAccepted == TLCGet("stats").diameter = Len(Trace) + 1
=============================================================================
