------------------------------- MODULE GasEOS -------------------------------
(* Discrete content of properties C06 (gas Z-factor is the root of the Dranchuk-Abou-Kassem equation of    *)
(* state; Hall-Yarbrough terminates and agrees) and C07 (density, formation volume factor, compressibility  *)
(* mutually consistent).  A constant-level module: no variables.  It is                                     *)
(*   - EXTENDed by SweepC06.tla / SweepC07.tla, whose SweepCore rule tables take every threshold from here, *)
(*   - EXTENDed by MC_GasEOS.tla, where TLC enumerates the lattice, the abstract observation classes and    *)
(*     the exact mass-content cases, checks the soundness of the explanation table and exports the cases,   *)
(*   - EXTENDed by GasEOSTrace.tla, which classifies every recorded point of the real code: which failed    *)
(*     clause (if any) is explained by the open finding D6, and which is a plain violation.                 *)
(*                                                                                                          *)
(* Numbers.  Domain limits are exact rationals (Rat).  Observations arrive as integer magnitudes made by    *)
(* bbv/quant.py:  E15(a,b;s) = min(2e9, ceil(|a-b|/s * 1e15)).  With s = 1 (or s = |b|) the unit is 1e-15; *)
(* with s = 1e4|b| it is 1e-11 ("E11"), with s = 1e9|b| it is 1e-6 ("ppm").  2e9 is the saturation value.   *)
EXTENDS Integers, Sequences, FiniteSets, Rat

\* ---------------------------------------------------------------------------------------------------------
\* C06: the quantifier domain (property text) and the lattice the design walks
\* ---------------------------------------------------------------------------------------------------------
TrMin == Q(105, 100)
TrMax == R(3)
PrMax == R(30)
InValidity(tr, pr) == Leq(TrMin, tr) /\ Leq(tr, TrMax) /\ Lt(Zero, pr) /\ Leq(pr, PrMax)

TrLattice == {Q(105, 100), Q(11, 10), Q(12, 10), Q(135, 100), Q(15, 10), Q(175, 100), R(2), Q(24, 10), R(3)}
PrLadder  == {Q(1, 1000000), Q(1, 10000), Q(1, 100), Q(1, 10), Q(1, 2), R(1), R(2), R(3), R(5), R(8), R(12),
              R(16), R(20), R(25), R(30)}

\* "tends to 1 as pressure tends to 0": finite surrogate |Z - 1| <= ToOneFactor * p_r wherever p_r <= ToOnePrMax.
\* (The second virial coefficient of either form of the equation is below 0.31 in magnitude on 1.05 <= T_r <= 3,
\*  so 2 p_r is a bound with > 6x margin that still rejects Z -> c # 1.)
ToOnePrMax  == Q(1, 100)
ToOneApplies(pr) == Lt(Zero, pr) /\ Leq(pr, ToOnePrMax)

\* "their common range": Hall-Yarbrough is published for 1.2 <= T_r <= 3, 0.1 <= p_r <= 24; Dranchuk-Abou-Kassem
\* for 1.0 <= T_r <= 3, 0.2 <= p_r <= 30.  The intersection:
HYTrMin == Q(12, 10)
HYTrMax == R(3)
HYPrMin == Q(2, 10)
HYPrMax == R(24)
InHYCommon(tr, pr) == Leq(HYTrMin, tr) /\ Leq(tr, HYTrMax) /\ Leq(HYPrMin, pr) /\ Leq(pr, HYPrMax)
\* points of the common range where the shipped Newton loop left (0,1) and returned NaN (defect D11, repaired):
\* pinned in every run.
HYCorner == {<<Q(12, 10), Q(205, 10)>>, <<Q(12, 10), R(24)>>, <<Q(125, 100), Q(225, 10)>>, <<Q(125, 100), R(24)>>}

\* ---------------------------------------------------------------------------------------------------------
\* C06: thresholds on the integer observations
\* ---------------------------------------------------------------------------------------------------------
GSat        == 2000000000   \* saturation of every magnitude (bbv/quant.py CAP)
RootTolE15  == 1000000      \* |F(rho)| <= 1e-9 : "satisfies the equation" (float64 evaluation error of F <= 1e-13)
HYTolPpm    == 50000        \* |Z_HY / Z - 1| <= 0.05 : "within a few percent"
\* Continuity: |Z(p') - Z(p)| <= L |p_r' - p_r| between neighbouring sweep points.  L is 4: the largest |dZ/dp_r|
\* of the *published* equation on the rectangle is 1.04 (T_r = 1.05, p_r = 1.23, measured with the oracle on
\* 40 isotherms x 3000 pressures), of the coded variant 0.22; by the mean value theorem no finite difference can
\* exceed it, so 4 has a 3.8x (18x) margin and still rejects a jump of 0.2 in Z across a step of 0.05 in p_r.
SlopeMaxPpm == 4000000
ToOneMaxPpm == 2000000      \* |Z - 1| / p_r <= 2

\* ---------------------------------------------------------------------------------------------------------
\* C07: constants of the identities (exact decimals as written in the correlations) and thresholds
\* ---------------------------------------------------------------------------------------------------------
MolWeightAir == Q(28964, 1000)
GasConstant  == Q(1073159, 100000)   \* psia ft^3 / (lb-mol R)
RankineOfF   == Q(45967, 100)
TStdF        == R(60)
PStd         == Q(147, 10)
Ft3PerBbl    == Q(5615, 1000)
OilWater     == Q(6237, 100)         \* lb/ft^3 of water in Standing's oil density
OilGasTerm   == Q(136, 10000)        \* lb/ft^3 per (scf/bbl) of dissolved gas of unit gravity
ApiNum       == Q(1415, 10)
ApiDen       == Q(1315, 10)
BrineW0      == Q(62368, 1000)
BrineW1      == Q(438603, 1000000)
BrineW2      == Q(160074, 100000000)

\* standard-condition mass content per reservoir volume unit the library reports (exact where TLC can hold it)
\* (as the *terms* of the sum: adding them exactly needs more than 32 bits, the harness adds the exported terms
\*  with fractions.Fraction)
BrineStdTerms(s)          == <<BrineW0, Mul(BrineW1, s), Mul(BrineW2, Mul(s, s))>>
OilGravity(api)           == Div(ApiNum, Add(ApiDen, api))
OilMassTerms(api, gg, rs) == <<Mul(OilWater, OilGravity(api)), Mul(Mul(OilGasTerm, gg), rs)>>
\* gas: p_sc * M_air * gravity / (R * T_sc) / 5.615 -- the product overflows 32-bit integers, so the harness
\* evaluates it with fractions.Fraction from the constants exported above.

IdentTolE15   == 100        \* "equals" for products of two library functions: 1e-13 relative (rounding: ~5e-16)
ConstUnits    == 10000      \* rho*Bg constant along a pressure sweep: 1e-13 of the expected value (Quant units 1e-17)
CgTolE11      == 1000000    \* c_g = d ln rho / dp to 1e-5 relative (numerical derivative good to 1e-7)
DerivErrE11   == 10000      \* Richardson error estimate of the numerical derivative <= 1e-7 relative
CgFormulaE15  == 100000     \* "c_g equals the published-coefficient formula at the code's own rho": 1e-10 relative

\* ---------------------------------------------------------------------------------------------------------
\* Known finding D6 ("dak-first-coefficient-product"): z_factor_DAK solves the equation whose first density
\* coefficient is A1*A2/T_r + ... (variant) instead of the published A1 + A2/T_r + ...; compressibility_DAK uses
\* the published coefficient.  A failed clause is *explained* only when the structural predicate below has
\* been established for that very point; everything else is a plain violation.
\* ---------------------------------------------------------------------------------------------------------
KeyD6 == "dak-first-coefficient-product"
NoKey == "none"

\* clause names as SweepCore reports them
ClRoot   == "Agree:root_pub"
ClHY     == "Agree:hy_code"
ClCg     == "Agree:cg_dlnrho"
ZClauses  == {ClRoot, "Agree:slope", "Agree:toone", "Flag:not_bound", "Flag:not_guess", "NaN:z"}
HYClauses == {ClHY, "Flag:hy_done"}
CgClauses == {ClCg, "Agree:dlnrho_err", "Agree:dens_formula", "Agree:rhobg_exp", "Mono:rhobg", "Mono:visc",
              "Flag:visc_pos"}

IsVariantRoot(o)      == o.root_var <= RootTolE15
IsPublishedRoot(o)    == o.root_pub <= RootTolE15
\* o: [root_pub, root_var] (E15 magnitudes of the two residuals at the returned Z)
ExplainZ(cl, o) ==
    IF cl = ClRoot /\ ~IsPublishedRoot(o) /\ IsVariantRoot(o) THEN KeyD6 ELSE NoKey
\* o: [root_pub, root_var, done, hy_code, hy_pub] (ppm distances of Z_HY from the code's Z and from the root of
\* the published equation computed by the oracle)
ExplainHY(cl, o) ==
    IF /\ cl = ClHY /\ o.done
       /\ o.hy_code > HYTolPpm /\ o.hy_pub <= HYTolPpm
       /\ ~IsPublishedRoot(o) /\ IsVariantRoot(o)
    THEN KeyD6 ELSE NoKey
\* o: [cg_dlnrho, cgvar_dlnrho, dlnrho_err] (E11) and [cg_formula] (E15): c_g against the numerical derivative of
\* the library's own density; the variant-coefficient formula against the same derivative; c_g against the
\* published-coefficient formula at the code's own rho
ExplainCg(cl, o) ==
    IF /\ cl = ClCg /\ o.cg_dlnrho > CgTolE11
       /\ o.dlnrho_err <= DerivErrE11
       /\ o.cg_formula <= CgFormulaE15
       /\ o.cgvar_dlnrho <= CgTolE11
    THEN KeyD6 ELSE NoKey

Explain(kind, cl, o) == CASE kind = "z"  -> ExplainZ(cl, o)
                          [] kind = "hy" -> ExplainHY(cl, o)
                          [] kind = "cg" -> ExplainCg(cl, o)
ClausesOf(kind) == CASE kind = "z" -> ZClauses [] kind = "hy" -> HYClauses [] kind = "cg" -> CgClauses
=============================================================================
