SPECIFICATION Spec
CONSTANT Deviation = "WaterOtherTFactor"
CONSTANT Export = FALSE
INVARIANT WaterSameTFactor
CHECK_DEADLOCK FALSE
