SPECIFICATION Spec
CONSTANT MaxRows = 2
CONSTANT Reps = 18
CONSTANT Deviation = "Window1Smooths"
CONSTANT Export = FALSE
INVARIANT C18_Window1Identity
CHECK_DEADLOCK FALSE
