------------------------------- MODULE FlowPropsTrace -------------------------------
(* Code -> spec for C09: real constructions of FlowProperties / FlowPropertiesSimple on shipped,         *)
(* generated and synthetic tables (as DataFrame and as dict of arrays), real diffusivity lookups and     *)
(* real rescale_pseudopressure calls, judged with the column rules and thresholds of FlowProps.tla.      *)
(* Events (tid = one table, seq = position):                                                             *)
(*   Construct [cls, cols, box, pi_below, pi_above, outcome, keys_before, keys_after, changed, own_table  *)
(*              and, when outcome = "ok": n_noninc, n_nan, ms, mi_at, mi_self, node, mi_one, mi_low,       *)
(*              mi_high, alpha_nodes, alpha_bad]                                                          *)
(*        pi_below / pi_above: p_i < p_1 / p_i > p_n (exact float comparisons);  keys_*: the caller's key  *)
(*        set before / after; changed: caller columns whose array identity or bytes changed; own_table:    *)
(*        the wrapper's table is not the caller's object; n_noninc: adjacent pairs of m-scaled that do not  *)
(*        increase (exact); ms: the column quantised on [min, max] (a subsequence for long tables);         *)
(*        mi_at = |m_i - PWL(p, m-scaled)(p_i)|, mi_self = |m_scaled_func(p_i) - m_i|, mi_one = |m_i - 1|,   *)
(*        mi_low = max(0, 1 - m_i), mi_high = max(0, m_i - 1 - (b-a)^2/(4ab)), alpha_nodes =                 *)
(*        max_j |alpha_j c_j mu_j - 1| as E15 magnitudes; alpha_bad: nodes with non-finite or non-positive   *)
(*        diffusivity.                                                                                       *)
(*   Lookup [lo, hi]     the looked-up diffusivity quantised on [0, min alpha] and on [0, max alpha]          *)
(*   Rescale [box, outcome, at_pf, at_pi, n_noninc, keys_before, keys_after, changed, own_table]              *)
EXTENDS FlowProps, TraceLib, Quant

VARIABLES l, live
tvars == <<vars, l, live>>

LookTol == Units(1000)      \* 1e-14 of the bound it is compared with

ToSet(s) == {s[i] : i \in DOMAIN s}

TInit == /\ cs = [kind |-> "trace"] /\ caller = [cols |-> {}] /\ obj = NoObj /\ obs = NoObs
         /\ l = 1 /\ live = FALSE

OwnershipBad(e) == (IF ToSet(e.keys_before) = ToSet(e.keys_after) /\ Len(e.keys_before) = Len(e.keys_after) /\ e.changed = <<>>
                    THEN {} ELSE {"NoMutation"})
                   \cup (IF e.own_table THEN {} ELSE {"OwnTable"})

NonDecreasingQ(s) == \A i \in 1..(Len(s) - 1) : ~IsNaN(s[i]) /\ ~IsNaN(s[i + 1]) /\ QLe(s[i], s[i + 1])

ConstructBad(e) ==
    LET cols      == ToSet(e.cols)
        expectErr == Missing(e.cls, cols) \/ e.pi_below \/ e.pi_above
        b         == Branch(e.cls, cols)
    IN  OwnershipBad(e)
        \cup (IF (e.outcome = "error") = expectErr THEN {} ELSE {"ErrorBranches"})
        \cup (IF e.outcome # "ok" \/ expectErr THEN {}
              ELSE (IF e.n_noninc = 0 /\ e.n_nan = 0 /\ NonDecreasingQ(e.ms) THEN {} ELSE {"Increasing"})
                   \cup (IF e.mi_at <= AgreeMax /\ e.mi_self <= AgreeMax THEN {} ELSE {"MiIsValueAtPi"})
                   \* mi_kept = |m_scaled_func(p_i) after the caller edited its own pressure array in place - m_i|: the wrapper
                   \* that was built keeps answering for the table it was built from (0 when nothing was edited)
                   \cup (IF e.mi_kept <= AgreeMax THEN {} ELSE {"MiIsValueAtPi"})
                   \cup (IF b # "user" \/ (/\ e.mi_low <= AgreeMax /\ e.mi_high <= AgreeMax
                                           /\ e.node => e.mi_one <= AgreeMax) THEN {} ELSE {"UserAlphaMi"})
                   \cup (IF e.alpha_bad = 0 /\ (b = "user" \/ e.alpha_nodes <= AgreeMax) THEN {} ELSE {"AlphaAtNodes"}))

StepConstruct(e) == /\ Report(e, ConstructBad(e))
                    /\ live' = (e.outcome = "ok")

StepLookup(e) ==
    LET bad == IF ~live THEN {"Machinery:LookupWithoutObject"}
               ELSE IF IsNaN(e.lo) \/ IsNaN(e.hi) THEN {"LookupInRange"}
               ELSE IF QLeTol(Q2S, e.lo, LookTol) /\ QLeTol(e.hi, Q2S, LookTol) THEN {} ELSE {"LookupInRange"}
    IN  Report(e, bad) /\ UNCHANGED live

StepRescale(e) ==
    LET bad == OwnershipBad(e)
               \cup (IF e.outcome = "ok" THEN {} ELSE {"RescaleAccepts"})
               \cup (IF e.outcome # "ok" \/ (e.at_pf <= AgreeMax /\ e.at_pi <= AgreeMax /\ e.n_noninc = 0) THEN {}
                     ELSE {"RescaleEndpoints"})
    IN  Report(e, bad) /\ UNCHANGED live

TNext == /\ l <= Len(Trace)
         /\ LET e == Trace[l]
            IN  CASE e.ev = "Construct" -> StepConstruct(e)
                  [] e.ev = "Lookup"    -> StepLookup(e)
                  [] e.ev = "Rescale"   -> StepRescale(e)
         /\ l' = l + 1
         /\ UNCHANGED vars

TraceSpec == TInit /\ [][TNext]_tvars
TraceAccepted == TLCGet("stats").diameter = Len(Trace) + 1
=============================================================================
