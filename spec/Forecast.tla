------------------------------- MODULE Forecast -------------------------------
(* Property C05: forecast scaling law, bounded fitting, parameter round trip                            *)
(* (bluebonnet.forecast.forecast: Bounds, ForecasterOnePhase, _forecast_cum_onephase).                   *)
(*                                                                                                        *)
(* Four parts, selected by the constant Part (one TLC run each; Init picks a case / the machine runs):    *)
(*   "bounds"   the Bounds constructor: which (M, tau) tuples are accepted, which rejected                *)
(*   "guess"    regularize_initial_guess: 1- and 2-element guesses against every well-formed Bounds       *)
(*   "scale"    the scaling law Cum(t, M, tau) = M * rf(t / tau), exact on rational piecewise-linear      *)
(*              recovery curves (PWL.tla): linear in M, invariant under (t, tau) -> (k t, k tau)          *)
(*   "machine"  one forecaster object over its public calls fit(), fit(tau=..), forecast_cum(..)          *)
(* Numbers are exact rationals <<n, d>> (Rat.tla) extended by the IEEE values the code can meet in        *)
(* bounds: +inf = <<1,0>>, -inf = <<-1,0>>, NaN = <<0,0>>.                                               *)
(* The code-shaped definitions (CtorOutcome, Reg1, Cum, the Fit actions) say what the code does; the      *)
(* property-shaped ones (WellFormed, NeedOf, Linear, Rescale, ExpectedObs, FitResultOK) say what C05       *)
(* demands; the invariants relate the two.  Named deviations reproduce typical defects; their configs    *)
(* must be refuted by TLC.                                                                                *)
EXTENDS PWL, FiniteSets, TLC, Json

CONSTANTS Part,       \* "bounds" | "guess" | "scale" | "machine"
          Deviation,  \* "none" | "AcceptsEqual" | "MidIsSum" | "NoRegularize" | "TimesTau" | "AddM"
                      \*        | "FixedTauOverwritten" | "FixedTauNotStored" | "FitIgnoresBounds"
          MaxDepth,   \* machine: bound on the number of calls in a history
          Rebounds,   \* machine: TRUE = the alphabet also has the caller assigning other bounds to the object between calls
          Export      \* TRUE: print every case / maximal history with its expectation

VARIABLES c,          \* the case (parts bounds, guess, scale); [part |-> "machine"] otherwise
          bnd,        \* machine: [M |-> style, tau |-> style], style in {"finite", "lower"}
          fitted,     \* machine: "none" | "free" | "fixedTau"   (which kind of fit set M_, tau_)
          M_, tau_,   \* machine: the attributes: [v |-> value, src |-> provenance] or Unset
          hist,       \* machine: calls so far (fit calls carry what the attributes showed afterwards)
          obs,        \* machine: abstract observation of the latest call
          exp         \* machine: per-step expectations for the replay

vars == <<c, bnd, fitted, M_, tau_, hist, obs, exp>>

\* ======================================================================================================
\* extended numbers
\* ======================================================================================================
PInf == <<1, 0>>
NInf == <<-1, 0>>
NaN  == <<0, 0>>
IsFin(x) == x[2] # 0
ELt(x, y) == IF x = NaN \/ y = NaN THEN FALSE
             ELSE IF x = y THEN FALSE
             ELSE IF x = NInf \/ y = PInf THEN TRUE
             ELSE IF x = PInf \/ y = NInf THEN FALSE
             ELSE Lt(x, y)
ELeq(x, y) == IF x = NaN \/ y = NaN THEN FALSE ELSE (x = y \/ ELt(x, y))
\* IEEE (lo + hi) / 2
EMid(lo, hi) == IF lo = NaN \/ hi = NaN THEN NaN
                ELSE IF IsFin(lo) /\ IsFin(hi) THEN Mul(Add(lo, hi), Q(1, 2))
                ELSE IF IsFin(lo) THEN hi
                ELSE IF IsFin(hi) THEN lo
                ELSE IF lo = hi THEN lo ELSE NaN
ESum(lo, hi) == IF IsFin(lo) /\ IsFin(hi) THEN Add(lo, hi) ELSE EMid(lo, hi)

\* ======================================================================================================
\* part "bounds": the constructor
\* ======================================================================================================
Ends   == {NInf, R(0), R(2), R(4), PInf}
Tuples == {<<a, b>> : a \in Ends, b \in Ends}
             \cup {<<>>, <<R(0)>>, <<R(2)>>, <<R(0), R(2), R(4)>>, <<R(4), R(2), R(0)>>}

\* code-shaped: the order of the four tests of __post_init__ ("lo >= hi" rejects)
GeCode(a, b) == IF Deviation = "AcceptsEqual" THEN ELt(b, a) ELSE ELeq(b, a)
CtorOutcome(m, t) == IF Len(m) # 2 THEN "rejected"
                     ELSE IF Len(t) # 2 THEN "rejected"
                     ELSE IF GeCode(m[1], m[2]) THEN "rejected"
                     ELSE IF GeCode(t[1], t[2]) THEN "rejected"
                     ELSE "accepted"
\* property-shaped: a bound is a pair with a non-empty interior
WellFormed(b) == Len(b) = 2 /\ ELt(b[1], b[2])

BoundsCases == {[part |-> "bounds", M |-> m, tau |-> t, outcome |-> CtorOutcome(m, t)] : m \in Tuples, t \in Tuples}

C05_MalformedRejected == c.part = "bounds"
                            => (c.outcome = "accepted" <=> (WellFormed(c.M) /\ WellFormed(c.tau)))

\* ======================================================================================================
\* part "guess": regularize_initial_guess
\* ======================================================================================================
GuessVals  == {R(-1), R(0), R(1), R(2), R(3), R(4), R(5)}
ValidPairs == {b \in Tuples : WellFormed(b)}

\* code-shaped: below -> lo; above -> midpoint; otherwise untouched
Reg1(lo, hi, x) == IF Deviation = "NoRegularize" THEN x
                   ELSE IF ELt(x, lo) THEN lo
                   ELSE IF ELt(hi, x) THEN (IF Deviation = "MidIsSum" THEN ESum(lo, hi) ELSE EMid(lo, hi))
                   ELSE x
RegGuess(mb, tb, g) == IF Len(g) = 2 THEN <<Reg1(mb[1], mb[2], g[1]), Reg1(tb[1], tb[2], g[2])>>
                       ELSE <<Reg1(mb[1], mb[2], g[1])>>

\* property-shaped: every *finite* end is respected afterwards; a guess already inside is not moved.
\* (With bounds (-inf, hi) and a guess above hi the code returns the midpoint -inf: that respects the only
\*  finite end; the property speaks about finite bounds, so nothing more is demanded there.)
NeedOf(lo, hi, x) == [lo |-> IF IsFin(lo) THEN lo ELSE NInf,
                      hi |-> IF IsFin(hi) THEN hi ELSE PInf,
                      keep |-> (ELeq(lo, x) /\ ELeq(x, hi))]
Satisfies(r, need, x) == /\ ELeq(need.lo, r) /\ ELeq(r, need.hi)
                         /\ (need.keep => r = x)
Needs(mb, tb, g) == IF Len(g) = 2 THEN <<NeedOf(mb[1], mb[2], g[1]), NeedOf(tb[1], tb[2], g[2])>>
                    ELSE <<NeedOf(mb[1], mb[2], g[1])>>

Guesses == {<<x>> : x \in GuessVals} \cup {<<x, y>> : x \in GuessVals, y \in GuessVals}
GuessCases == {[part |-> "guess", M |-> mb, tau |-> tb, guess |-> g,
                out |-> RegGuess(mb, tb, g), need |-> Needs(mb, tb, g)] :
                   mb \in ValidPairs, tb \in ValidPairs, g \in Guesses}

C05_GuessInside == c.part = "guess"
                      => /\ Len(c.out) = Len(c.guess)
                         /\ \A i \in 1..Len(c.guess) : Satisfies(c.out[i], c.need[i], c.guess[i])

\* ======================================================================================================
\* part "scale": the scaling law on piecewise-linear recovery curves
\* ======================================================================================================
Curves == << [xs |-> <<R(0), R(1), R(2), R(4)>>,    ys |-> <<R(0), Q(1, 2), Q(3, 4), R(1)>>],
             [xs |-> <<R(0), Q(1, 2), R(1), R(3)>>, ys |-> <<R(0), Q(1, 4), Q(1, 2), Q(2, 3)>>],
             [xs |-> <<R(0), R(2), R(8)>>,          ys |-> <<R(0), Q(1, 3), Q(9, 10)>>] >>

\* a recovery curve as the library's interpolator evaluates it: 0 before the first node, the last value
\* after the last one (recovery_factor_interpolator: bounds_error=False, fill_value=(0, last))
Rf(k, q) == LET cv == Curves[k] IN InterpFill(cv.xs, cv.ys, q, Zero, cv.ys[Len(cv.ys)])

\* code-shaped: _forecast_cum_onephase
Cum(k, t, M, tau) == IF Deviation = "TimesTau" THEN Mul(M, Rf(k, Mul(t, tau)))
                     ELSE IF Deviation = "AddM" THEN Add(M, Rf(k, Div(t, tau)))
                     ELSE Mul(M, Rf(k, Div(t, tau)))

Pows   == {Q(1, 8), Q(1, 4), Q(1, 2), R(1), R(2), R(4), R(8)}
Facs   == Pows \cup {R(3)}
Ms     == Pows \cup {R(3), Q(5, 3)}
Taus   == Pows \cup {R(3)}
Times  == {R(0), Q(1, 4), R(1), R(3), R(6), R(40)}

ScaleCases == {[part |-> "scale", k |-> k, xs |-> Curves[k].xs, ys |-> Curves[k].ys, t |-> t, M |-> M, tau |-> tau,
                cum |-> Cum(k, t, M, tau)] :
                  k \in 1..Len(Curves), t \in Times, M \in Ms, tau \in Taus}

IsScale == c.part = "scale"
\* property-shaped
C05_Definition == IsScale => c.cum = Mul(c.M, Rf(c.k, Div(c.t, c.tau)))
C05_Linear     == IsScale => \A a \in Facs : Cum(c.k, c.t, Mul(a, c.M), c.tau) = Mul(a, c.cum)
C05_Rescale    == IsScale => \A f \in Facs : Cum(c.k, Mul(f, c.t), c.M, Mul(f, c.tau)) = c.cum
C05_CurveSane  == \A k \in 1..Len(Curves) : StrictlyIncreasing(Curves[k].xs) /\ NonDecreasing(Curves[k].ys)

\* ======================================================================================================
\* part "machine": one ForecasterOnePhase object
\* ======================================================================================================
\* abstract bounds: "finite" = (1, 3), "lower" = (1, +inf) (the default bounds are of the second shape)
Styles  == {"finite", "lower"}
AB(s)   == IF s = "finite" THEN <<R(1), R(3)>> ELSE <<R(1), PInf>>
Vals    == {R(0), R(1), R(2), R(3), R(4)}            \* 0 is below every bound, 4 above the finite one
InB(b)  == {v \in Vals : ELeq(b[1], v) /\ ELeq(v, b[2])}

Unset   == [src |-> "unset"]
ArgSrc  == [src |-> "arg"]
FitSrc(k) == [src |-> "fit", call |-> k]
SupSrc(k) == [src |-> "supplied", call |-> k]

NoTau == NaN            \* fit() called without tau
FitCalls == {[op |-> "fit", tau |-> NoTau]} \cup {[op |-> "fit", tau |-> v] : v \in {R(0), R(2), R(4)}}
FcCalls  == {[op |-> "forecast", M |-> m, tau |-> t] : m \in {"none", "arg"}, t \in {"none", "arg"}}
\* the caller assigns another Bounds object to the (public, non-frozen) `bounds` field: later fits honour the new limits
ReCalls  == IF Rebounds THEN {[op |-> "rebound", M |-> sm, tau |-> st] : sm \in Styles, st \in Styles} ELSE {}
Calls    == FitCalls \cup FcCalls \cup ReCalls

\* ---- declarative side ----------------------------------------------------------------------------------
\* index of the latest fit among h[1..n] (0 if none)
RECURSIVE LastFit(_, _)
LastFit(h, n) == IF n = 0 THEN 0 ELSE IF h[n].op = "fit" THEN n ELSE LastFit(h, n - 1)

\* what C05 says the latest call shows: a forecast uses the explicit argument when given, otherwise the
\* result of the latest fit -- for tau, the value supplied to that fit when one was supplied
ExpectedObs(h) ==
    LET n == Len(h)
        cl == h[n]
        k == LastFit(h, n - 1)
    IN  IF cl.op = "rebound" THEN [kind |-> "set"]
        ELSE IF cl.op = "fit"
        THEN [kind |-> "fit", mode |-> IF cl.tau = NoTau THEN "free" ELSE "fixedTau"]
        ELSE LET ms == IF cl.M = "arg" THEN ArgSrc ELSE IF k = 0 THEN Unset ELSE FitSrc(k)
                 ts == IF cl.tau = "arg" THEN ArgSrc
                       ELSE IF k = 0 THEN Unset
                       ELSE IF h[k].tau = NoTau THEN FitSrc(k) ELSE SupSrc(k)
             IN  IF ms = Unset \/ ts = Unset THEN [kind |-> "AttributeError"]
                 ELSE [kind |-> "cum", M |-> ms, tau |-> ts]

\* what C05 says about the attributes after a fit call (resM, resTau: what M_, tau_ show afterwards)
\* b: the bounds in force when the fit was made
FitResultOKAt(b, cl, resM, resTau) ==
    /\ resM \in InB(AB(b.M))
    /\ IF cl.tau = NoTau THEN resTau \in InB(AB(b.tau)) ELSE resTau = cl.tau
FitResultOK(cl, resM, resTau) == FitResultOKAt(bnd, cl, resM, resTau)

\* ---- implementation-shaped actions -----------------------------------------------------------------------
Record(cl, o) == /\ hist' = Append(hist, cl)
                 /\ obs' = o
                 /\ exp' = Append(exp, [call |-> [f \in (DOMAIN cl) \ {"resM", "resTau", "bndAt"} |-> cl[f]], obs |-> o])

ValOf(a) == IF a = Unset THEN NaN ELSE a.v

\* the optimiser returns some (m, t); no precondition here (the trace specification feeds observed values),
\* the model-checking Next restricts them to what curve_fit with bounds can return
FitFree(cl, m, t) ==
    /\ cl.op = "fit" /\ cl.tau = NoTau
    /\ LET k == Len(hist) + 1
       IN  /\ M_' = [v |-> m, src |-> FitSrc(k)]
           /\ tau_' = [v |-> t, src |-> FitSrc(k)]
           /\ fitted' = "free"
           /\ UNCHANGED <<c, bnd>>
           /\ Record(cl @@ [resM |-> m, resTau |-> t, bndAt |-> bnd], [kind |-> "fit", mode |-> "free"])

FitFixed(cl, m, t) ==       \* t is only used by the deviation in which the fit overwrites the supplied tau
    /\ cl.op = "fit" /\ cl.tau # NoTau
    /\ LET k == Len(hist) + 1
           newTau == IF Deviation = "FixedTauOverwritten" THEN [v |-> t, src |-> FitSrc(k)]
                     ELSE IF Deviation = "FixedTauNotStored" THEN tau_
                     ELSE [v |-> cl.tau, src |-> SupSrc(k)]
       IN  /\ M_' = [v |-> m, src |-> FitSrc(k)]
           /\ tau_' = newTau
           /\ fitted' = "fixedTau"
           /\ UNCHANGED <<c, bnd>>
           /\ Record(cl @@ [resM |-> m, resTau |-> ValOf(newTau), bndAt |-> bnd], [kind |-> "fit", mode |-> "fixedTau"])

Forecast(cl) ==
    /\ cl.op = "forecast"
    /\ LET ms == IF cl.M = "arg" THEN ArgSrc ELSE IF M_ = Unset THEN Unset ELSE M_.src
           ts == IF cl.tau = "arg" THEN ArgSrc ELSE IF tau_ = Unset THEN Unset ELSE tau_.src
       IN  Record(cl, IF ms = Unset \/ ts = Unset THEN [kind |-> "AttributeError"]
                      ELSE [kind |-> "cum", M |-> ms, tau |-> ts])
    /\ UNCHANGED <<c, bnd, fitted, M_, tau_>>

Rebound(cl) ==
    /\ cl.op = "rebound"
    /\ bnd' = [M |-> cl.M, tau |-> cl.tau]
    /\ UNCHANGED <<c, fitted, M_, tau_>>
    /\ Record(cl, [kind |-> "set"])

\* what the bounded optimiser may return
FitSetM   == IF Deviation = "FitIgnoresBounds" THEN Vals ELSE InB(AB(bnd.M))
FitSetTau == IF Deviation = "FitIgnoresBounds" THEN Vals ELSE InB(AB(bnd.tau))

MachineNext == /\ Len(hist) < MaxDepth
               /\ \E cl \in Calls :
                     \/ \E m \in FitSetM, t \in FitSetTau : FitFree(cl, m, t)
                     \/ \E m \in FitSetM, t \in (IF Deviation = "FixedTauOverwritten" THEN FitSetTau ELSE {R(1)}) :
                           FitFixed(cl, m, t)
                     \/ Forecast(cl)
                     \/ Rebound(cl)

\* ---- machine properties ------------------------------------------------------------------------------------
IsMachine == c.part = "machine"
C05_ForecastUses == (IsMachine /\ hist # <<>>) => obs = ExpectedObs(hist)
C05_FitResult == IsMachine => \A i \in 1..Len(hist) :
                                 hist[i].op = "fit" => FitResultOKAt(hist[i].bndAt, hist[i], hist[i].resM, hist[i].resTau)
C05_AttrsAreLatestFit == (IsMachine /\ fitted # "none")
                            => LET k == LastFit(hist, Len(hist))
                               IN  /\ k > 0 /\ M_ # Unset /\ M_.src = FitSrc(k) /\ M_.v = hist[k].resM
                                   /\ tau_ # Unset /\ tau_.v = hist[k].resTau
                                   /\ fitted = (IF hist[k].tau = NoTau THEN "free" ELSE "fixedTau")
MachineTypeOK == IsMachine => /\ fitted \in {"none", "free", "fixedTau"}
                              /\ bnd \in [M : Styles, tau : Styles]
                              /\ (fitted = "none" <=> M_ = Unset)
                              /\ Len(hist) <= MaxDepth

\* ======================================================================================================
\* specification
\* ======================================================================================================
Idle == /\ bnd = "na" /\ fitted = "na" /\ M_ = "na" /\ tau_ = "na" /\ hist = <<>> /\ obs = "na" /\ exp = <<>>

Init == CASE Part = "bounds"  -> c \in BoundsCases /\ Idle
          [] Part = "guess"   -> c \in GuessCases /\ Idle
          [] Part = "scale"   -> c \in ScaleCases /\ Idle
          [] Part = "machine" -> /\ c = [part |-> "machine"] /\ bnd \in [M : Styles, tau : Styles]
                                 /\ fitted = "none" /\ M_ = Unset /\ tau_ = Unset
                                 /\ hist = <<>> /\ obs = [kind |-> "none"] /\ exp = <<>>

Next == Part = "machine" /\ MachineNext

Spec == Init /\ [][Next]_vars

\* ---- export for the replay into the code (spec -> code) -------------------------------------------------------
ExportCase == (Export /\ c.part # "machine") => PrintT(ToJson([tag |-> "CASE", case |-> c]))
\* one representative per call sequence: the leaf in which every fit returned the value 1
Canonical == \A i \in 1..Len(hist) : hist[i].op = "fit" => (hist[i].resM = R(1) /\ hist[i].resTau \in {R(1), hist[i].tau})
ExportLeaf == (Export /\ c.part = "machine" /\ Len(hist) = MaxDepth /\ Canonical)
                 => PrintT(ToJson([tag |-> "BEH", bnd |-> bnd, steps |-> exp]))
=============================================================================
