SPECIFICATION Spec
CONSTANT Part = "machine"
CONSTANT Deviation = "FitIgnoresBounds"
CONSTANT MaxDepth = 3
CONSTANT Rebounds = FALSE
CONSTANT Export = FALSE
INVARIANT C05_FitResult
CHECK_DEADLOCK FALSE
