SPECIFICATION Spec
CONSTANT Prop = "C15"
CONSTANT Tier = "quick"
CONSTANT Deviation = "none"
CONSTANT Export = FALSE
INVARIANT Admissible
INVARIANT InterpAtNodes
INVARIANT MobilityNonNeg
INVARIANT C15_ZeroAtFirst
INVARIANT C15_StrictlyIncreasing
INVARIANT C15_IntegralBounds
INVARIANT C15_Homogeneous
INVARIANT C15_ScaledIncreasing
INVARIANT C15_MiIsOne
INVARIANT C15_FracfaceInUnit
CHECK_DEADLOCK FALSE
