SPECIFICATION Spec
CONSTANT Deviation = "PowerKeepsExponent"
CONSTANT Export = FALSE
INVARIANT PowerRuleHolds
CHECK_DEADLOCK FALSE
