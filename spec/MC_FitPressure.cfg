SPECIFICATION Spec
CONSTANT MaxRows = 3
CONSTANT Reps = 18
CONSTANT Deviation = "none"
CONSTANT Export = TRUE
INVARIANT C18_FilterExcludes
INVARIANT C18_Window1Identity
INVARIANT C18_TimeReindexed
INVARIANT C18_Limits
INVARIANT ExportCase
CHECK_DEADLOCK FALSE
