SPECIFICATION Spec
CONSTANT MaxLen = 2
CONSTANT Deviation = "ArrayAlloc_InputDType"
CONSTANT Export = FALSE
INVARIANT C11_Floating
CHECK_DEADLOCK FALSE
