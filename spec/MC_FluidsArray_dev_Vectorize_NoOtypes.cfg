SPECIFICATION Spec
CONSTANT MaxLen = 2
CONSTANT Deviation = "Vectorize_NoOtypes"
CONSTANT Export = FALSE
INVARIANT C11_Returns
CHECK_DEADLOCK FALSE
