------------------------------- MODULE FlowProps -------------------------------
(* The flow-property wrapper (property C09): FlowProperties (two construction branches: diffusivity     *)
(* derived from compressibility and viscosity, or supplied by the user in an 'alpha' column),           *)
(* FlowPropertiesSimple, the clipped diffusivity lookup, and rescale_pseudopressure.                    *)
(*                                                                                                      *)
(* A behaviour: the caller owns a table (`cs`: numeric content, column set, container kind), then       *)
(* either constructs a wrapper at some initial pressure and queries its diffusivity lookup, or rescales *)
(* the table.  `caller` is the ownership view of the caller's table: its key set and a version per       *)
(* column array that is bumped whenever the callee rebinds or overwrites something the caller can see.   *)
(* `obj.own` is the callee's table: whether it is the very same mapping object, which of its arrays are  *)
(* still the caller's (shallow copy of a dict) and which keys it holds.                                  *)
(* Numbers are exact rationals (Rat.tla / PWL.tla) over 3- and 4-row tables.                             *)
(* Deviations (each must be refuted by TLC):                                                             *)
(*   NoCopy              construct / rescale work on the caller's mapping itself   -> NoMutation          *)
(*   LookupExtrapolates  the diffusivity lookup extrapolates instead of clipping   -> LookupInRange       *)
(*   MiUnscaled          m_i read from the unscaled pseudopressure                 -> MiIsValueAtPi       *)
EXTENDS PWL, FiniteSets, TLC, Json

CONSTANTS Lattice,    \* "small" | "full"
          Deviation,  \* "none" | "NoCopy" | "LookupExtrapolates" | "MiUnscaled"
          Export

VARIABLES cs, caller, obj, obs
vars == <<cs, caller, obj, obs>>

\* ---- columns and the validation rules ---------------------------------------------------------------------
Long       == {"pseudopressure", "compressibility", "pressure", "viscosity", "z-factor"}
Short      == {"pressure", "pseudopressure", "alpha"}
SimpleNeed == {"compressibility", "pressure", "viscosity"}
RescaleNeed == {"pressure", "pseudopressure"}
AllCols    == Long \cup {"alpha", "density"}

\* declarative: when a column set is not enough for a class ("full" = FlowProperties, "simple" = FlowPropertiesSimple)
Missing(cls, cols) == IF cls = "simple" THEN ~(SimpleNeed \subseteq cols)
                      ELSE ~(Long \subseteq cols) /\ ~(Short \subseteq cols)
\* implementation-shaped: which branch runs, what it reads, which keys it (re)binds, in order
Branch(cls, cols) == IF cls = "simple" THEN "simple" ELSE IF "alpha" \in cols THEN "user" ELSE "derived"
Reads(b)  == CASE b = "simple" -> SimpleNeed [] b = "user" -> Short [] b = "derived" -> Long
Writes(b) == IF b = "user" THEN <<"m-scaled">> ELSE <<"alpha", "m-scaled">>

\* thresholds of the trace specification (agreement magnitudes in units of 1e-15)
AgreeMax == 1000        \* rounding level: 1e-12 relative

\* ---- numerics ------------------------------------------------------------------------------------------------
NRows(t) == Len(t.p)
Scaling(t) == [j \in 1..NRows(t) |-> Div(Mul(Mul(t.c[j], t.mu[j]), t.z[j]), Mul(R(2), t.p[j]))]
RecipM(t)  == [j \in 1..NRows(t) |-> Inv(t.m[j])]
Factor(b, t, pi) == CASE b = "derived" -> InterpStrict(t.p, Scaling(t), pi)
                      [] b = "user"    -> InterpStrict(t.p, RecipM(t), pi)
                      [] b = "simple"  -> One
MScaled(b, t, f) == IF b = "simple" THEN t.p ELSE [j \in 1..NRows(t) |-> Mul(t.m[j], f)]
AlphaCol(b, t)   == IF b = "user" THEN t.al ELSE [j \in 1..NRows(t) |-> Inv(Mul(t.c[j], t.mu[j]))]
MiOf(b, t, ms, pi) == IF Deviation = "MiUnscaled" /\ b # "simple" THEN InterpStrict(t.p, t.m, pi)
                      ELSE InterpStrict(t.p, ms, pi)
AlphaLookup(ms, al, q) == IF Deviation = "LookupExtrapolates" THEN InterpExtrap(ms, al, q)
                          ELSE InterpFill(ms, al, q, SeqMin(al), SeqMax(al))
\* largest excess of the chord of x -> 1/x times x over 1 on a segment with end values a, b: (b-a)^2 / (4ab)
InterpErr(a, b) == Div(Mul(Sub(b, a), Sub(b, a)), Mul(R(4), Mul(a, b)))
IsNode(xs, q) == \E j \in 1..Len(xs) : xs[j] = q

Rescaled(t, pf, pi) == LET a == InterpStrict(t.p, t.m, pf)
                           b == InterpStrict(t.p, t.m, pi)
                       IN  [j \in 1..NRows(t) |-> Div(Sub(t.m[j], a), Sub(b, a))]

\* ---- ownership --------------------------------------------------------------------------------------------------
Caller0(x) == [cols |-> x.cols, ver |-> [k \in x.cols |-> 0]]
\* the callee's working table after `copy.copy` / `.copy()`: a DataFrame copy owns new arrays, a dict copy shares them
Own0 == [same |-> Deviation = "NoCopy", cols |-> caller.cols, alias |-> IF cs.box = "dict" THEN caller.cols ELSE {}]
\* table[col] = <new array>
WriteCol(st, col) ==
    [own    |-> [st.own EXCEPT !.cols = @ \cup {col}, !.alias = @ \ {col}],
     caller |-> IF st.own.same
                THEN [cols |-> st.caller.cols \cup {col},
                      ver  |-> [k \in st.caller.cols \cup {col} |->
                                   IF k # col THEN st.caller.ver[k]
                                   ELSE IF col \in st.caller.cols THEN st.caller.ver[col] + 1 ELSE 1]]
                ELSE st.caller]
RECURSIVE ApplyWrites(_, _, _)
ApplyWrites(st, ws, i) == IF i > Len(ws) THEN st ELSE ApplyWrites(WriteCol(st, ws[i]), ws, i + 1)

\* ---- what TLC enumerates ---------------------------------------------------------------------------------------
H == Q(1, 2)
Ints(s) == [j \in 1..Len(s) |-> R(s[j])]
Cut(s, n) == SubSeq(s, 1, n)
RowCounts == {3, 4}
Grids  == IF Lattice = "small" THEN {<<1, 2, 4, 8>>, <<2, 3, 5, 10>>} ELSE {<<1, 2, 4, 8>>, <<2, 3, 5, 10>>, <<1, 2, 3, 4>>}
MProfs == IF Lattice = "small" THEN {<<0, 1, 3, 6>>, <<1, 3, 4, 9>>} ELSE {<<0, 1, 3, 6>>, <<1, 3, 4, 9>>, <<1, 2, 4, 8>>, <<2, 3, 7, 8>>}
CProfs  == {<<One, One, One, One>>, <<R(2), One, H, Q(1, 4)>>}
MuProfs == {<<One, One, One, One>>, <<One, R(2), R(2), R(3)>>}
ZProfs  == IF Lattice = "small" THEN {<<One, H, One, Q(3, 2)>>} ELSE {<<One, One, One, One>>, <<One, H, One, Q(3, 2)>>}
AlProfs == {<<R(1), R(2), R(3), R(4)>>, <<R(4), R(1), R(3), R(2)>>, <<R(2), R(2), R(2), R(2)>>}
Ones == <<One, One, One, One>>

Tab(n, g, m, cc, mu, z, al) == [p |-> Cut(Ints(g), n), m |-> Cut(Ints(m), n), c |-> Cut(cc, n), mu |-> Cut(mu, n),
                                z |-> Cut(z, n), al |-> Cut(al, n)]
DerivedTabs == {Tab(n, g, m, cc, mu, z, Ones) : n \in RowCounts, g \in Grids, m \in MProfs, cc \in CProfs, mu \in MuProfs, z \in ZProfs}
UserTabs    == {Tab(n, g, m, Ones, Ones, Ones, al) : n \in RowCounts, g \in Grids, m \in {x \in MProfs : x[1] > 0}, al \in AlProfs}
SimpleTabs  == {Tab(n, g, <<1, 2, 3, 4>>, cc, mu, Ones, Ones) : n \in RowCounts, g \in Grids, cc \in CProfs, mu \in MuProfs}
RescaleTabs == {Tab(n, g, m, Ones, Ones, Ones, Ones) : n \in RowCounts, g \in Grids, m \in MProfs}
ColumnTab   == Tab(4, <<1, 2, 4, 8>>, <<1, 3, 4, 9>>, Ones, <<One, R(2), R(2), R(3)>>, Ones, <<R(4), R(1), R(3), R(2)>>)
Boxes == {"df", "dict"}

Cases ==
         {[kind |-> "derived", tab |-> t, cols |-> k, box |-> b] : t \in DerivedTabs, k \in {Long, Long \cup {"density"}}, b \in Boxes}
    \cup {[kind |-> "user", tab |-> t, cols |-> k, box |-> b] : t \in UserTabs, k \in {Short, Long \cup {"alpha"}}, b \in Boxes}
    \cup {[kind |-> "simple", tab |-> t, cols |-> k, box |-> b] : t \in SimpleTabs, k \in {SimpleNeed, Long}, b \in Boxes}
    \cup {[kind |-> "columns", tab |-> ColumnTab, cols |-> k, box |-> b] : k \in SUBSET AllCols, b \in Boxes}
    \cup {[kind |-> "rescale", tab |-> t, cols |-> k, box |-> b] : t \in RescaleTabs, k \in {RescaleNeed, Long}, b \in Boxes}

Classes(x) == CASE x.kind = "simple" -> {"simple"} [] x.kind = "columns" -> {"full", "simple"} [] OTHER -> {"full"}
PiVals(x) == LET t == x.tab
                 n == NRows(t)
             IN  IF x.kind = "columns" THEN {t.p[2], Add(t.p[n], One)}
                 ELSE {t.p[1], t.p[2], t.p[n], Mul(H, Add(t.p[1], t.p[2])), Mul(H, Add(t.p[n - 1], t.p[n])), Add(t.p[2], Q(1, 3)),
                       Sub(t.p[1], H), Add(t.p[n], One), Zero, R(-1), R(1000)}
Queries(o) == {R(-1000000), R(-1), Zero, R(1000000)} \cup {o.ms[j] : j \in 1..Len(o.ms)}
              \cup {Mul(H, Add(o.ms[j], o.ms[j + 1])) : j \in 1..(Len(o.ms) - 1)}
RescalePairs(t) == LET n == NRows(t)
                   IN  {pr \in {t.p[1], Mul(H, Add(t.p[1], t.p[2])), t.p[2]} \X {t.p[n - 1], Mul(H, Add(t.p[n - 1], t.p[n])), t.p[n]} :
                           Lt(pr[1], pr[2])}

NoObj == [status |-> "none"]
NoObs == [kind |-> "none"]

Init == /\ cs \in Cases
        /\ caller = Caller0(cs)
        /\ obj = NoObj
        /\ obs = NoObs

Fail(why, cls, pi, st) == /\ obj' = [status |-> "error", why |-> why, cls |-> cls, pi |-> pi]
                          /\ caller' = st.caller

Construct(cls, pi) ==
    /\ cs.kind # "rescale" /\ obj = NoObj
    /\ obs' = [kind |-> "construct"]
    /\ UNCHANGED cs
    /\ LET b   == Branch(cls, cs.cols)
           t   == cs.tab
           st0 == [own |-> Own0, caller |-> caller]
       IN  IF Missing(cls, cs.cols) THEN Fail("MissingColumns", cls, pi, st0)
           ELSE IF ~(Reads(b) \subseteq cs.cols) THEN Fail("KeyError", cls, pi, st0)
           ELSE IF ~InRange(t.p, pi)
                \* FlowPropertiesSimple binds its two columns before it evaluates m_scaled_func(p_i)
                THEN Fail("PiOutside", cls, pi, IF b = "simple" THEN ApplyWrites(st0, Writes(b), 1) ELSE st0)
           ELSE LET f  == Factor(b, t, pi)
                    ms == MScaled(b, t, f)
                    st == ApplyWrites(st0, Writes(b), 1)
                IN  /\ obj' = [status |-> "ok", cls |-> cls, branch |-> b, pi |-> pi, factor |-> f, ms |-> ms,
                               al |-> AlphaCol(b, t), mi |-> MiOf(b, t, ms, pi), own |-> st.own]
                    /\ caller' = st.caller

Lookup(q) == /\ obj.status = "ok" /\ obs.kind = "construct"     \* a lookup leaves the object unchanged: one level suffices
             /\ obs' = [kind |-> "lookup", q |-> q, v |-> AlphaLookup(obj.ms, obj.al, q)]
             /\ UNCHANGED <<cs, caller, obj>>

Rescale(pf, pi) ==
    /\ cs.kind = "rescale" /\ obs = NoObs
    /\ LET st == ApplyWrites([own |-> Own0, caller |-> caller], <<"pseudopressure">>, 1)
       IN  /\ obs' = [kind |-> "rescale", pf |-> pf, pi |-> pi, m |-> Rescaled(cs.tab, pf, pi), own |-> st.own]
           /\ caller' = st.caller
    /\ UNCHANGED <<cs, obj>>

Next == \/ \E cls \in Classes(cs), pi \in PiVals(cs) : Construct(cls, pi)
        \/ (obj.status = "ok" /\ \E q \in Queries(obj) : Lookup(q))
        \/ \E pr \in RescalePairs(cs.tab) : Rescale(pr[1], pr[2])
Spec == Init /\ [][Next]_vars

\* ---- properties -------------------------------------------------------------------------------------------------------
TypeOK == /\ cs.kind \in {"derived", "user", "simple", "columns", "rescale"}
          /\ obj.status \in {"none", "ok", "error"}
          /\ obs.kind \in {"none", "construct", "lookup", "rescale"}

Ok == obj.status = "ok"

\* construction and rescaling never modify the caller's table (key set and every array)
NoMutation == caller = Caller0(cs)
\* ... and hand back a table of their own
OwnTable == (Ok => ~obj.own.same) /\ (obs.kind = "rescale" => ~obs.own.same)

\* missing columns or an initial pressure outside the table raise an error; nothing else does
ErrorBranches == obj.status # "none" =>
                    (obj.status = "error" <=> (Missing(obj.cls, cs.cols) \/ ~InRange(cs.tab.p, obj.pi)))
NoKeyError == obj.status = "error" => obj.why # "KeyError"

Increasing == Ok => StrictlyIncreasing(obj.ms)
\* the reported m_i is the value at p_i of (scaling factor x the table's pseudopressure function)
MiIsValueAtPi == Ok => obj.mi = (IF obj.branch = "simple" THEN obj.pi
                                 ELSE Mul(obj.factor, InterpStrict(cs.tab.p, cs.tab.m, obj.pi)))
\* user-supplied diffusivity: 1 at table nodes, within linear-interpolation error above 1 between them
UserAlphaMi == (Ok /\ obj.branch = "user") =>
                  LET i == SegOf(cs.tab.p, obj.pi)
                  IN  /\ Leq(One, obj.mi)
                      /\ Leq(obj.mi, Add(One, InterpErr(cs.tab.m[i], cs.tab.m[i + 1])))
                      /\ IsNode(cs.tab.p, obj.pi) => obj.mi = One
AlphaAtNodes == Ok => \A j \in 1..NRows(cs.tab) :
                   IF obj.branch = "user" THEN obj.al[j] = cs.tab.al[j]
                   ELSE Mul(obj.al[j], Mul(cs.tab.c[j], cs.tab.mu[j])) = One
AlphaPositive == Ok => \A j \in 1..NRows(cs.tab) : Lt(Zero, obj.al[j])

LookupInRange == obs.kind = "lookup" => Leq(SeqMin(obj.al), obs.v) /\ Leq(obs.v, SeqMax(obj.al))
LookupAtNodes == obs.kind = "lookup" => \A j \in 1..Len(obj.ms) : obs.q = obj.ms[j] => obs.v = obj.al[j]

RescaleEndpoints == obs.kind = "rescale" =>
                       /\ InterpStrict(cs.tab.p, obs.m, obs.pf) = Zero
                       /\ InterpStrict(cs.tab.p, obs.m, obs.pi) = One
                       /\ StrictlyIncreasing(obs.m)

\* ---- export for the spec -> code replay -----------------------------------------------------------------------------------
Where(o, q) == IF Lt(q, o.ms[1]) THEN "below" ELSE IF Lt(o.ms[Len(o.ms)], q) THEN "above"
               ELSE IF IsNode(o.ms, q) THEN "node" ELSE "between"
ExportCase == Export =>
    CASE obs.kind = "construct" ->
            PrintT(ToJson([tag |-> "CASE", op |-> "construct", cs |-> cs, obj |-> obj, caller |-> caller,
                           lookups |-> IF Ok THEN {[q |-> q, v |-> AlphaLookup(obj.ms, obj.al, q), where |-> Where(obj, q)] : q \in Queries(obj)}
                                       ELSE {},
                           alrange |-> IF Ok THEN <<SeqMin(obj.al), SeqMax(obj.al)>> ELSE <<>>]))
      [] obs.kind = "rescale" ->
            PrintT(ToJson([tag |-> "CASE", op |-> "rescale", cs |-> cs, obs |-> obs, caller |-> caller]))
      [] OTHER -> TRUE
=============================================================================
