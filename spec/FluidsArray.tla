------------------------------- MODULE FluidsArray -------------------------------
(* Property C11: every correlation that accepts an array of pressures returns, element by element, what   *)
(* the scalar call returns; results are floating point, have the input's shape, the input is unmodified.  *)
(*                                                                                                        *)
(* Declarative side:  Expected(c)[k] = ScalarEval(fn, View(c)[k])  -- one scalar evaluation per element,   *)
(*   with the scalar branch rule of the library (`>=` selects the undersaturated branch, so the bubble     *)
(*   point itself is undersaturated).                                                                      *)
(* Implementation-shaped side: what the array code paths actually do, as a small state machine:            *)
(*   masked2   (b_o_Standing, Fluid.oil_FVF): GOR array first; allocate; res[p >= pb] = U(co(p[p >= pb]),  *)
(*             p[p >= pb]);  res[p < pb] = S(rs[p < pb])     -- two masked passes over compressed arrays   *)
(*   fillLT    (solution_gor_Standing): full_like(p, GOR_i); res[p < pb] = g(p[p < pb])                     *)
(*   rows      (oil_compressibility_undersat_Spivey): early return for size 0, else one row per element    *)
(*   ufunc     (water correlations, Fluid.water_viscosity): broadcasting arithmetic                        *)
(*   iterate   (Fluid.water_FVF, gas_FVF, gas_viscosity): np.array([f(p) for p in pressure])               *)
(*   vectorize (Fluid.oil_viscosity): np.vectorize of the scalar function with otypes=[float]              *)
(* TLC checks, for every dtype x layout x side pattern (length 0..MaxLen, empty masks included) x function, *)
(* that the implementation-shaped result equals the declarative one, is floating, has the input's shape    *)
(* and that the input buffer is untouched; it exports every case with its expectation for replay.          *)
(* Named deviations (each has a config TLC must refute):                                                   *)
(*   ArrayAlloc_InputDType  result allocated with the input's dtype (as-shipped defect D7)                 *)
(*   Mask_StrictGT          array branch selects with `>` where the scalar branch uses `>=`                *)
(*   InPlace                masked pass writes into the caller's array                                     *)
(*   Vectorize_NoOtypes     np.vectorize without otypes: raises on a length-0 array (as-shipped defect D15) *)
EXTENDS Naturals, Sequences, FiniteSets, TLC, Json

CONSTANTS MaxLen,     \* longest side pattern
          Deviation,  \* "none" | "ArrayAlloc_InputDType" | "Mask_StrictGT" | "InPlace" | "Vectorize_NoOtypes"
          Export      \* TRUE: print every case with its expectation

VARIABLES c, pc, inp, rs, res
vars == <<c, pc, inp, rs, res>>

\* ---- vocabulary -------------------------------------------------------------------------------------
DTypes  == {"f64", "f32", "i64", "i32"}
Layouts == {"contiguous", "strided", "reversed"}
IsInt(dt) == dt \in {"i64", "i32"}

Impl == ( "b_o_Standing" :> "masked2" @@ "Fluid.oil_FVF" :> "masked2"
       @@ "solution_gor_Standing" :> "fillLT"
       @@ "oil_compressibility_undersat_Spivey" :> "rows"
       @@ "b_water_McCain" :> "ufunc" @@ "b_water_McCain_dp" :> "ufunc"
       @@ "compressibility_water_McCain" :> "ufunc" @@ "density_water_McCain" :> "ufunc"
       @@ "viscosity_water_McCain" :> "ufunc" @@ "Fluid.water_viscosity" :> "ufunc"
       @@ "Fluid.water_FVF" :> "iterate" @@ "Fluid.gas_FVF" :> "iterate" @@ "Fluid.gas_viscosity" :> "iterate"
       @@ "Fluid.oil_viscosity" :> "vectorize" )
Fns == DOMAIN Impl

\* functions whose scalar evaluation branches at the bubble point
Branchy == {"b_o_Standing", "Fluid.oil_FVF", "solution_gor_Standing", "Fluid.oil_viscosity"}
\* defined at and above the bubble point only
UndersatOnly == {"oil_compressibility_undersat_Spivey"}
\* element type of the values the list comprehension collects (gas correlations compute in float64)
IterF64 == {"Fluid.gas_FVF", "Fluid.gas_viscosity"}

\* "at" (= p_b itself) only exists in float64, the one dtype that can hold p_b
SideSet(fn, dt) == ((IF dt = "f64" THEN {"below", "at", "above"} ELSE {"below", "above"})
                    \ (IF fn \in UndersatOnly THEN {"below"} ELSE {}))

\* agreement tolerance with the scalar call, in units in the last place of the floating type involved
\* (float32 when the input or the result is float32, else float64).  4 ulp for one correctly rounded chain,
\* times a conditioning factor of the correlation with respect to the rounding of its intermediates
\* (different instruction order / SIMD vs scalar libm between the array and the scalar path):
\*   water correlations: low-degree polynomials                                         x2
\*   solution GOR: power 1/0.83 of a product of a power of ten                          x4
\*   oil FVF: GOR, power 1.2, exp(c_o (p_b - p)) with the Spivey c_o                    x8
\*   Spivey c_o: z = sum C0 + X.C1 + X^2.C2 cancels from O(30) terms to O(1) and is then
\*     exponentiated (0.475 z + 0.048 z^2): dot-product order alone moves it by ~50 ulp  x64
\*   oil viscosity: powers of powers (10^(10^..)), exponent 5.44 (Rs+150)^-0.338 on ln(mu_dead) <= 9   x8
\*   gas FVF / viscosity: root of the DAK residual (rtol 1e-14), float32 scalars mix precisions         x4 / x8
\* Every defect class of C11 is > 10^8 of these units (integer truncation, wrong branch, wrong element).
TolUlps == ( "b_o_Standing" :> 32 @@ "Fluid.oil_FVF" :> 32
          @@ "solution_gor_Standing" :> 16
          @@ "oil_compressibility_undersat_Spivey" :> 256
          @@ "b_water_McCain" :> 8 @@ "b_water_McCain_dp" :> 8
          @@ "compressibility_water_McCain" :> 8 @@ "density_water_McCain" :> 8
          @@ "viscosity_water_McCain" :> 8 @@ "Fluid.water_viscosity" :> 8
          @@ "Fluid.water_FVF" :> 8 @@ "Fluid.gas_FVF" :> 16 @@ "Fluid.gas_viscosity" :> 32
          @@ "Fluid.oil_viscosity" :> 32 )

Cases == UNION {[fn : {f}, dtype : {dt}, layout : Layouts, sides : [1..len -> SideSet(f, dt)]] :
                   <<f, dt, len>> \in Fns \X DTypes \X (0..MaxLen)}

\* ---- input buffer and view ---------------------------------------------------------------------------
N(cs) == Len(cs.sides)
BaseLen(cs) == IF cs.layout = "strided" THEN 2 * N(cs) ELSE N(cs)
\* base offset shown at logical position k
Off(cs, k) == CASE cs.layout = "contiguous" -> k
                [] cs.layout = "strided"    -> 2 * k - 1        \* base[::2]
                [] cs.layout = "reversed"   -> N(cs) + 1 - k    \* base[::-1]
Shown(cs) == {Off(cs, k) : k \in 1..N(cs)}
Pos(cs, j) == CHOOSE k \in 1..N(cs) : Off(cs, k) = j
\* a cell: its offset in the caller's buffer, which side of p_b its pressure is on, a version counter
Base(cs) == [j \in 1..BaseLen(cs) |->
               [id |-> j, side |-> IF j \in Shown(cs) THEN cs.sides[Pos(cs, j)] ELSE "filler", ver |-> 0]]
ViewOf(cs, buf) == [k \in 1..N(cs) |-> buf[Off(cs, k)]]

\* ---- abstract values -----------------------------------------------------------------------------------
\* br: which formula; src: the cell whose pressure went in; trunc: stored into an integer container
Val(br, src) == [br |-> br, src |-> src, trunc |-> FALSE]
Uninit       == [br |-> "uninit", src |-> 0, trunc |-> FALSE]
Store(dt, v) == IF IsInt(dt) THEN [v EXCEPT !.trunc = TRUE] ELSE v

\* ---- declarative side: the scalar call, element by element -------------------------------------------------
ScalarBranch(fn, side) == IF fn \in Branchy THEN (IF side \in {"at", "above"} THEN "undersat" ELSE "sat")
                          ELSE IF fn \in UndersatOnly THEN "undersat" ELSE "plain"
ScalarEval(fn, cell) == Val(ScalarBranch(fn, cell.side), cell.id)
Expected(cs) == LET v == ViewOf(cs, Base(cs)) IN [k \in 1..N(cs) |-> ScalarEval(cs.fn, v[k])]
AllowedOut(dt) == IF dt = "f32" THEN {"f32", "f64"} ELSE {"f64"}

\* ---- numpy-shaped helpers -----------------------------------------------------------------------------------
\* dtype of arithmetic between an array of dt and Python floats / np.result_type(dt, float32)
Promote(dt) == IF dt = "f32" THEN "f32" ELSE "f64"

MaskGE(v) == [k \in 1..Len(v) |-> IF Deviation = "Mask_StrictGT" THEN v[k].side = "above"
                                  ELSE v[k].side \in {"at", "above"}]
MaskLT(v) == [k \in 1..Len(v) |-> v[k].side = "below"]

Count(m, k) == Cardinality({i \in 1..k : m[i]})
\* a[m]: the selected elements, in order
Compress(a, m) == LET idx == [j \in 1..Count(m, Len(m)) |->
                                CHOOSE i \in 1..Len(m) : m[i] /\ Count(m, i) = j]
                  IN  [j \in 1..Count(m, Len(m)) |-> a[idx[j]]]
\* a[m] = vals: the j-th selected position receives vals[j]
Scatter(a, m, vals) == [k \in 1..Len(a) |-> IF m[k] THEN vals[Count(m, k)] ELSE a[k]]

\* Spivey on an array of cells (the loop `for rp in reduced_pressure`); size 0 returns an empty float64 array
Rows(cells) == [j \in 1..Len(cells) |-> Val("undersat", cells[j].id)]
\* fvf_bubblepoint * exp(co * (pb - p[m])): elementwise product of two compressed arrays
Under(co, cell) == IF co.src = cell.id THEN Val("undersat", cell.id) ELSE Val("misaligned", cell.id)
\* b_o_bubblepoint_Standing(.., solution_gor[m]): needs the *saturated* GOR of that element
SatFromRs(r) == IF r.br = "sat" /\ ~r.trunc THEN Val("sat", r.src) ELSE Val("wrongGOR", r.src)

AllocDT(dt) == IF Deviation = "ArrayAlloc_InputDType" THEN dt ELSE Promote(dt)

\* solution_gor_Standing on a view, as one operator (b_o_Standing calls it first)
RsArray(v, dt) ==
    LET full == [k \in 1..Len(v) |-> Store(AllocDT(dt), Val("undersat", v[k].id))]
        m    == MaskLT(v)
        sel  == Compress(v, m)
    IN  Scatter(full, m, [j \in 1..Len(sel) |-> Store(AllocDT(dt), Val("sat", sel[j].id))])

Map(fn, v) == [k \in 1..Len(v) |-> ScalarEval(fn, v[k])]

NoRes == [raised |-> FALSE, dt |-> "none", el |-> <<>>]

\* ---- the state machine ---------------------------------------------------------------------------------------
Init == /\ c \in Cases
        /\ pc = "start" /\ inp = Base(c) /\ rs = <<>> /\ res = NoRes

View == ViewOf(c, inp)
n    == N(c)

Start ==
    /\ pc = "start"
    /\ LET impl == Impl[c.fn] IN
       CASE impl = "masked2" ->
              /\ rs' = RsArray(View, c.dtype)
              /\ res' = [raised |-> FALSE, dt |-> AllocDT(c.dtype), el |-> [k \in 1..n |-> Uninit]]
              /\ pc' = "passGE"
         [] impl = "fillLT" ->
              /\ res' = [raised |-> FALSE, dt |-> AllocDT(c.dtype),
                         el |-> [k \in 1..n |-> Store(AllocDT(c.dtype), Val("undersat", View[k].id))]]
              /\ pc' = "passLT" /\ UNCHANGED rs
         [] impl = "rows" ->
              /\ res' = [raised |-> FALSE, dt |-> "f64", el |-> Rows(View)]
              /\ pc' = "done" /\ UNCHANGED rs
         [] impl = "ufunc" ->
              /\ res' = [raised |-> FALSE, dt |-> Promote(c.dtype), el |-> Map(c.fn, View)]
              /\ pc' = "done" /\ UNCHANGED rs
         [] impl = "iterate" ->
              /\ res' = [raised |-> FALSE,
                         dt |-> IF n = 0 \/ c.fn \in IterF64 THEN "f64" ELSE Promote(c.dtype),
                         el |-> Map(c.fn, View)]
              /\ pc' = "done" /\ UNCHANGED rs
         [] impl = "vectorize" ->
              /\ res' = IF n = 0 /\ Deviation = "Vectorize_NoOtypes"
                        THEN [NoRes EXCEPT !.raised = TRUE]    \* output type is inferred from the first element
                        ELSE [raised |-> FALSE, dt |-> "f64", el |-> Map(c.fn, View)]
              /\ pc' = "done" /\ UNCHANGED rs
    /\ UNCHANGED <<c, inp>>

PassGE ==
    /\ pc = "passGE"
    /\ LET m    == MaskGE(View)
           sel  == Compress(View, m)
           co   == Rows(sel)                              \* Spivey on the compressed array (may be empty)
           vals == [j \in 1..Len(sel) |-> Store(res.dt, Under(co[j], sel[j]))]
       IN  /\ res' = [res EXCEPT !.el = Scatter(@, m, vals)]
           /\ inp' = IF Deviation = "InPlace"
                     THEN [j \in 1..Len(inp) |-> IF \E k \in 1..n : m[k] /\ Off(c, k) = j
                                                 THEN [inp[j] EXCEPT !.ver = @ + 1] ELSE inp[j]]
                     ELSE inp
    /\ pc' = "passLT"
    /\ UNCHANGED <<c, rs>>

PassLT ==
    /\ pc = "passLT"
    /\ LET m == MaskLT(View) IN
       IF Impl[c.fn] = "masked2"
       THEN LET sel  == Compress(rs, m)
                vals == [j \in 1..Len(sel) |-> Store(res.dt, SatFromRs(sel[j]))]
            IN  res' = [res EXCEPT !.el = Scatter(@, m, vals)]
       ELSE LET sel  == Compress(View, m)
                vals == [j \in 1..Len(sel) |-> Store(res.dt, Val("sat", sel[j].id))]
            IN  res' = [res EXCEPT !.el = Scatter(@, m, vals)]
    /\ pc' = "done"
    /\ UNCHANGED <<c, inp, rs>>

Next == Start \/ PassGE \/ PassLT
Spec == Init /\ [][Next]_vars

\* ---- properties ------------------------------------------------------------------------------------------------
TypeOK == /\ c \in Cases /\ pc \in {"start", "passGE", "passLT", "done"}
          /\ Len(inp) = BaseLen(c)

C11_Elementwise == (pc = "done" /\ ~res.raised) => res.el = Expected(c)
C11_Shape       == (pc = "done" /\ ~res.raised) => Len(res.el) = N(c)
C11_Floating    == (pc = "done" /\ ~res.raised) => res.dt \in AllowedOut(c.dtype)
C11_InputUnchanged == inp = Base(c)
\* the quantifier names length 0: every function returns for every case (an empty floating array for length 0)
C11_Returns == pc = "done" => ~res.raised
\* the two masks of the two-pass assignment partition the view (also for empty masks and length 0)
MasksPartition == \A k \in 1..n : MaskGE(View)[k] # MaskLT(View)[k]

\* ---- export (spec -> code) -----------------------------------------------------------------------------------------
ExportCase ==
    (Export /\ pc = "done") =>
        PrintT(ToJson([tag |-> "CASE", fn |-> c.fn, impl |-> Impl[c.fn], dtype |-> c.dtype, layout |-> c.layout,
                       n |-> N(c),
                       sides |-> [k \in 1..N(c) |-> c.sides[k]],
                       base |-> [j \in 1..BaseLen(c) |-> Base(c)[j].side],
                       view |-> [k \in 1..N(c) |-> Off(c, k)],
                       src |-> [k \in 1..N(c) |-> Expected(c)[k].src],
                       branch |-> [k \in 1..N(c) |-> Expected(c)[k].br],
                       outdtypes |-> IF c.dtype = "f32" THEN <<"f32", "f64">> ELSE <<"f64">>,
                       tol |-> TolUlps[c.fn]]))
=============================================================================
