SPECIFICATION Spec
CONSTANT Deviation = "DividesByTau"
CONSTANT Export = FALSE
CONSTANT MaxNt = 4
CONSTANT MaxEvery = 3
CONSTANT MaxN = 10
CONSTANT Depth = 3
INVARIANT CmpCumOverM
CHECK_DEADLOCK FALSE
