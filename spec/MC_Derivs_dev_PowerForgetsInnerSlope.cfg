SPECIFICATION Spec
CONSTANT Deviation = "PowerForgetsInnerSlope"
CONSTANT Export = FALSE
INVARIANT PowerRuleHolds
CHECK_DEADLOCK FALSE
