------------------------------- MODULE PWL -------------------------------
(* Piecewise-linear tables over exact rationals: the semantics of the interpolation,       *)
(* cumulative-trapezoid and gradient operations the library builds everything on.          *)
(* A table is a pair of equally long sequences xs (strictly increasing), ys.               *)
EXTENDS Rat, Naturals

\* index i of the segment [xs[i], xs[i+1]] containing q (q inside [xs[1], xs[n]])
SegOf(xs, q) == CHOOSE i \in 1..(Len(xs) - 1) :
                   /\ Leq(xs[i], q)
                   /\ \/ Lt(q, xs[i + 1])
                      \/ (i = Len(xs) - 1 /\ Leq(q, xs[i + 1]))

OnSeg(xs, ys, i, q) == Add(ys[i], Mul(Div(Sub(ys[i + 1], ys[i]), Sub(xs[i + 1], xs[i])), Sub(q, xs[i])))

InRange(xs, q) == Leq(xs[1], q) /\ Leq(q, xs[Len(xs)])

\* interp1d default: error outside
InterpStrict(xs, ys, q) == IF InRange(xs, q) THEN OnSeg(xs, ys, SegOf(xs, q), q) ELSE <<"error">>
\* interp1d(fill_value="extrapolate")
InterpExtrap(xs, ys, q) ==
    IF Lt(q, xs[1]) THEN OnSeg(xs, ys, 1, q)
    ELSE IF Lt(xs[Len(xs)], q) THEN OnSeg(xs, ys, Len(xs) - 1, q)
    ELSE OnSeg(xs, ys, SegOf(xs, q), q)
\* interp1d(bounds_error=False, fill_value=(below, above))
InterpFill(xs, ys, q, below, above) ==
    IF Lt(q, xs[1]) THEN below
    ELSE IF Lt(xs[Len(xs)], q) THEN above
    ELSE OnSeg(xs, ys, SegOf(xs, q), q)

RECURSIVE SeqMin(_)
SeqMin(s) == IF Len(s) = 1 THEN s[1] ELSE RMin(Head(s), SeqMin(Tail(s)))
RECURSIVE SeqMax(_)
SeqMax(s) == IF Len(s) = 1 THEN s[1] ELSE RMax(Head(s), SeqMax(Tail(s)))

\* scipy.integrate.cumulative_trapezoid(y, x, initial=0)
CumTrap(ys, xs) ==
    LET RECURSIVE C(_)
        C(i) == IF i = 1 THEN Zero
                ELSE Add(C(i - 1), Mul(Q(1, 2), Mul(Add(ys[i], ys[i - 1]), Sub(xs[i], xs[i - 1]))))
    IN  [i \in 1..Len(xs) |-> C(i)]

\* numpy.gradient(y, x): second-order interior rule on a non-uniform grid, one-sided at the ends
Gradient(ys, xs) ==
    LET n == Len(xs)
        H(i) == Sub(xs[i + 1], xs[i])
    IN  [i \in 1..n |->
           IF i = 1 THEN Div(Sub(ys[2], ys[1]), H(1))
           ELSE IF i = n THEN Div(Sub(ys[n], ys[n - 1]), H(n - 1))
           ELSE LET hd == H(i)   hs == H(i - 1)
                IN  Div(Add(Add(Mul(Mul(hs, hs), ys[i + 1]),
                                Mul(Sub(Mul(hd, hd), Mul(hs, hs)), ys[i])),
                            Neg(Mul(Mul(hd, hd), ys[i - 1]))),
                        Mul(Mul(hs, hd), Add(hd, hs)))]

StrictlyIncreasing(s) == \A i \in 1..(Len(s) - 1) : Lt(s[i], s[i + 1])
NonDecreasing(s)      == \A i \in 1..(Len(s) - 1) : Leq(s[i], s[i + 1])
MapSeq(s, Op(_))      == [i \in 1..Len(s) |-> Op(s[i])]
=============================================================================
