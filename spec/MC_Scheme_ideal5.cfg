SPECIFICATION Spec
CONSTANT N = 5
CONSTANT Closure = "ghost0"
CONSTANT InitialOnly = FALSE
CONSTANT PrevVals <- D_Prev4
CONSTANT MfVals <- D_Mf
CONSTANT RVals <- D_RSmall
CONSTANT AlphaTabs <- D_AConst
CONSTANT Export = FALSE
INVARIANT C01_Bounds
INVARIANT C01_FaceValue
INVARIANT C01_MonoX
INVARIANT C01_MonoT_First
INVARIANT C01_MMatrix
INVARIANT C01_ProofForm
INVARIANT C04_Residual
INVARIANT C17_ShiftInvariant
CHECK_DEADLOCK FALSE
INVARIANT C03_ConserveIdeal
