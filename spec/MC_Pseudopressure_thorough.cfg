SPECIFICATION Spec
CONSTANT NGrids = 3
CONSTANT Deviation = "none"
CONSTANT Export = TRUE
INVARIANT ZeroAtFirst
INVARIANT Increasing
INVARIANT Additive
INVARIANT ExactOnLinear
INVARIANT RoutesAgree
INVARIANT ExportCase
CHECK_DEADLOCK FALSE
