SPECIFICATION TraceSpec
CONSTANT Lattice = "small"
CONSTANT Deviation = "none"
CONSTANT Export = FALSE
POSTCONDITION TraceAccepted
CHECK_DEADLOCK FALSE
