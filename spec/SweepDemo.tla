------------------------------- MODULE SweepDemo -------------------------------
(* Self-test instantiation of SweepCore (binding demo: a corrupted field must flip the verdict). *)
EXTENDS TraceLib, Quant
VARIABLES l, h
DemoRules == [demo |-> [mono |-> [f |-> [dir |-> "nondec", tol |-> Units(10), where |-> "all"],
                                  g |-> [dir |-> "const", tol |-> Units(0), where |-> "above"]],
                        agreeMax |-> [r |-> [max |-> 1000, where |-> "below"]],
                        mustTrue |-> {"ok"},
                        need |-> {"below", "at", "above"}, minPoints |-> 3]]
INSTANCE SweepCore WITH Rules <- DemoRules
=============================================================================
