SPECIFICATION Spec
CONSTANT Deviation = "none"
CONSTANT Export = TRUE
CONSTANT MaxNt = 7
CONSTANT MaxEvery = 8
CONSTANT MaxN = 50
CONSTANT Depth = 4
INVARIANT TypeOK
INVARIANT DrawnIsEveryKth
INVARIANT DrawnSetRule
INVARIANT FirstIsInitial
INVARIANT NodePositions
INVARIANT RescaleRule
INVARIANT Unrescaled
INVARIANT OneArtist
INVARIANT TicksDoNotMatter
INVARIANT RateIsTimeDerivative
INVARIANT RateArtistShape
INVARIANT CmpFilterRule
INVARIANT CmpUnfiltered
INVARIANT CmpCumOverM
INVARIANT CmpTimeOverTau
INVARIANT InvertInvolution
INVARIANT SqrtIsRoot
INVARIANT SquareIsSquare
INVARIANT InverseUndoes
INVARIANT ExportTerminal
INVARIANT ExportRules
CHECK_DEADLOCK FALSE
