------------------------------- MODULE SweepCore -------------------------------
(* Generic judgement of a *sweep*: one input walked along a lattice with the other inputs fixed, the    *)
(* implementation evaluated at every lattice point, observations logged as quantised values.            *)
(* The rules (which series must be monotone in which direction and where, which agreement magnitudes   *)
(* are bounded by what, which flags must hold, which coverage a sweep needs) are a CONSTANT record      *)
(* `Rules` supplied by the instantiating property module (SweepC06.tla, SweepC12.tla, ...), so every    *)
(* threshold and ordering lives in TLA+ and TLC evaluates it at every point of every recorded sweep.    *)
(*                                                                                                      *)
(* Events (tid = one sweep, seq = position in it):                                                      *)
(*   Begin [profile]                          profile names a rule set of Rules                         *)
(*   Point [x, side, vals, agree, flags]      x: position (limbs, strictly increasing); side: "below" |  *)
(*                                            "at" | "above" | "none" relative to the sweep's mark;      *)
(*                                            vals: name -> limbs; agree: name -> E15 integer;           *)
(*                                            flags: name -> BOOLEAN                                     *)
(*   End   []                                 coverage obligations are judged here                       *)
(* Rule set fields:                                                                                      *)
(*   mono      name -> [dir, tol, where]   dir in nondec|noninc|inc|dec|const ; where in all|below|above *)
(*   agreeMax  name -> [max, where]        agree[name] <= max at points where `where` holds              *)
(*   mustTrue  set of flag names (must be TRUE wherever logged)                                          *)
(*   need      set of sides every sweep must visit;  minPoints                                           *)
EXTENDS TraceLib, Quant

CONSTANT Rules
VARIABLES l, h      \* h: [profile, prev (point or NoPoint), n, sides]

svars == <<l, h>>
NoPoint == [side |-> "none", vals |-> [x \in {} |-> <<0, 0>>]]
H0 == [profile |-> "none", prev |-> NoPoint, n |-> 0, sides |-> {}, hasPrev |-> FALSE]

SInit == l = 1 /\ h = H0

WhereCur(w, cs)      == CASE w = "all" -> TRUE
                          [] w = "below" -> cs \in {"below", "at"}
                          [] w = "above" -> cs \in {"at", "above"}
                          [] w = "strictbelow" -> cs = "below"
                          [] w = "strictabove" -> cs = "above"
                          [] w = "at" -> cs = "at"
WherePair(w, ps, cs) == CASE w = "all" -> TRUE
                          [] w = "below" -> cs \in {"below", "at"}
                          [] w = "above" -> ps \in {"at", "above"}
                          [] w = "strictbelow" -> cs = "below"
                          [] w = "strictabove" -> ps = "above"

MonoOK(r, a, b) ==   \* a: previous value, b: current value
    IF IsNaN(a) \/ IsNaN(b) THEN FALSE
    ELSE CASE r.dir = "nondec" -> QLeTol(a, b, r.tol)
           [] r.dir = "noninc" -> QLeTol(b, a, r.tol)
           [] r.dir = "inc"    -> QLt(a, b)
           [] r.dir = "dec"    -> QLt(b, a)
           [] r.dir = "const"  -> QWithin(a, b, r.tol)

BadMono(R, p, e) == {nm \in DOMAIN R.mono :
                        /\ nm \in DOMAIN e.vals /\ nm \in DOMAIN p.vals
                        /\ WherePair(R.mono[nm].where, p.side, e.side)
                        /\ ~MonoOK(R.mono[nm], p.vals[nm], e.vals[nm])}
BadAgree(R, e)   == {nm \in DOMAIN R.agreeMax :
                        /\ nm \in DOMAIN e.agree
                        /\ WhereCur(R.agreeMax[nm].where, e.side)
                        /\ e.agree[nm] > R.agreeMax[nm].max}
BadFlags(R, e)   == {nm \in R.mustTrue : nm \in DOMAIN e.flags /\ ~e.flags[nm]}
BadNaN(e)        == {nm \in DOMAIN e.vals : IsNaN(e.vals[nm])}

Tag(prefix, S) == {prefix \o nm : nm \in S}

StepBegin(e) == h' = [H0 EXCEPT !.profile = e.profile]

StepPoint(e) ==
    LET R   == Rules[h.profile]
        p   == h.prev
        bad == (IF h.hasPrev THEN Tag("Mono:", BadMono(R, p, e)) ELSE {})
               \cup Tag("Agree:", BadAgree(R, e)) \cup Tag("Flag:", BadFlags(R, e)) \cup Tag("NaN:", BadNaN(e))
               \cup (IF h.hasPrev /\ ~QLt(p.x, e.x) THEN {"Machinery:Order"} ELSE {})
    IN  /\ Report(e, bad)
        /\ h' = [h EXCEPT !.prev = e, !.n = @ + 1, !.sides = @ \cup {e.side}, !.hasPrev = TRUE]

StepEnd(e) ==
    LET R   == Rules[h.profile]
        bad == (IF R.need \subseteq h.sides THEN {} ELSE {"Machinery:CoverageSides"})
               \cup (IF h.n >= R.minPoints THEN {} ELSE {"Machinery:CoveragePoints"})
    IN  Report(e, bad) /\ h' = H0

SNext == /\ l <= Len(Trace)
         /\ LET e == Trace[l]
            IN  CASE e.ev = "Begin" -> StepBegin(e)
                  [] e.ev = "Point" -> StepPoint(e)
                  [] e.ev = "End"   -> StepEnd(e)
         /\ l' = l + 1

TraceSpec == SInit /\ [][SNext]_svars
TraceAccepted == TLCGet("stats").diameter = Len(Trace) + 1
=============================================================================
