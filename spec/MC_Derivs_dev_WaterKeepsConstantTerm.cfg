SPECIFICATION Spec
CONSTANT Deviation = "WaterKeepsConstantTerm"
CONSTANT Export = FALSE
INVARIANT WaterDerivativeIsFormal
CHECK_DEADLOCK FALSE
