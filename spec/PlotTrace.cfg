SPECIFICATION TraceSpec
CONSTANT Deviation = "none"
CONSTANT Export = FALSE
CONSTANT MaxNt = 0
CONSTANT MaxEvery = 0
CONSTANT MaxN = 0
CONSTANT Depth = 0
POSTCONDITION TraceAccepted
CHECK_DEADLOCK FALSE
