SPECIFICATION Spec
CONSTANT Deviation = "InvertedSameDirection"
CONSTANT Export = FALSE
CONSTANT MaxNt = 4
CONSTANT MaxEvery = 3
CONSTANT MaxN = 10
CONSTANT Depth = 3
INVARIANT InverseUndoes
CHECK_DEADLOCK FALSE
