SPECIFICATION Spec
CONSTANT Part = "machine"
CONSTANT Deviation = "FixedTauNotStored"
CONSTANT MaxDepth = 3
CONSTANT Rebounds = FALSE
CONSTANT Export = FALSE
INVARIANT C05_ForecastUses
CHECK_DEADLOCK FALSE
