SPECIFICATION Spec
CONSTANT Deviation = "ZeroFractionCounts"
CONSTANT Export = FALSE
INVARIANT ZeroFractionInert
CHECK_DEADLOCK FALSE
