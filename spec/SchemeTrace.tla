------------------------------- MODULE SchemeTrace -------------------------------
(* Code -> spec for C01 / C03 / C04 / C17: level-by-level traces of real simulations.                  *)
(* Profiles are quantised (Quant.tla) on the window [lowest frac-face value of the run, m_i]            *)
(* (ideal reservoir: [0, 1]); so 0 of the window = QS, m_i = Q2S.  One tid = one simulate() run.        *)
(*   Run   [kind, nx, constdd]                       kind "ideal" | "single"                            *)
(*   Level [i, mf, u, resid, loose, relaxE]          mf: frac-face value of the schedule at level i;    *)
(*                                                   u: profile; resid: E15 of the backward-Euler       *)
(*                                                   residual of step i-1 -> i (rows beyond the face    *)
(*                                                   row), -1 for level 0; loose: a linear solve of     *)
(*                                                   this step reported non-convergence; relaxE:        *)
(*                                                   floor(1000 * min scaled diffusivity * elapsed)     *)
(*   RF    [mode, rf, ceil, plateauE, gapE, nxE]     recovery series (window [0,1]); see clauses        *)
(*   Shift [de15]                                    E15 distance to the same run on a shifted origin   *)
(* All thresholds live here.                                                                            *)
EXTENDS TraceLib, Quant

VARIABLES l, h

tv == <<l, h>>

Eps      == Units(100000000)      \* 1e-9 of the window: rounding level of a well-conditioned solve
EpsRF    == Units(100000000)      \* 1e-9 absolute on recovery
ResidMax == 10000                 \* 1e-11: componentwise backward error of a step (direct solve: ~1e-16)
ResidMaxF32 == 1000000            \* 1e-9 for tables held in single precision
ShiftMax == 1000000               \* 1e-9 of the window (C17; bit-identical increments in both runs)
\* relaxation: elapsed*min-scaled-diffusivity >= E/1000  =>  deviation from the face value <= Dev (of the window)
Relax1E == 500000       \* rho*T >= 500    => |u - face| <= 1e-2 window   (bound 1/(1+lambda T), lambda >= 2)
Relax1D == <<1000000, 0>>     \* 1e-2 * 1e17 = 1e15 = <<10^6, 0>>
Relax2E == 50000000     \* rho*T >= 5e4    => |u - face| <= 1e-4 window
Relax2D == <<10000, 0>>       \* 1e-4 * 1e17 = 1e13 = <<10^4, 0>>

H0 == [kind |-> "none", nx |-> 0, constdd |-> FALSE, n |-> 0, mfMin |-> Q2S, mfPrev |-> Q2S, prevU |-> <<>>,
       everRose |-> FALSE, nonuniform |-> FALSE, residMax |-> ResidMax]

TInit == l = 1 /\ h = H0

\* a run on a table held in single precision: the wrapper's own lookups (interp1d on float32 columns) carry single-precision
\* rounding, so the step is the backward-Euler update to 1e-9 only (a history stored in single precision shows 4e-8)
StepRun(e) == h' = [H0 EXCEPT !.kind = e.kind, !.nx = e.nx, !.constdd = e.constdd,
                              !.residMax = IF Has(e, "f32table") /\ e.f32table THEN ResidMaxF32 ELSE ResidMax]

Face(e) == IF h.kind = "ideal" THEN QS ELSE e.mf

StepLevel(e) ==
    LET first  == h.n = 0
        lowNow == IF h.kind = "ideal" THEN QS ELSE QMin(h.mfMin, e.mf)     \* lowest face value applied so far
        nx     == Len(e.u)
        rose   == h.everRose \/ (~first /\ h.kind = "single" /\ QLt(h.mfPrev, e.mf))
        bad ==
           (IF \E j \in 1..nx : IsNaN(e.u[j]) THEN {"C01.NaN"} ELSE {})
           \cup (IF \E j \in 1..nx : ~IsNaN(e.u[j]) /\ (~QLeTol(lowNow, e.u[j], Eps) \/ ~QLeTol(e.u[j], Q2S, Eps))
                 THEN {"C01.Bounds"} ELSE {})
           \cup (IF h.kind = "single" /\ ~first /\ ~(QWithin(e.u[1], h.mfPrev, Eps) \/ QWithin(e.u[1], e.mf, Eps))
                 THEN {"C01.FaceValue"} ELSE {})
           \cup (IF h.constdd /\ (\E j \in 1..(nx - 1) : ~QLeTol(e.u[j], e.u[j + 1], Eps))
                 THEN {"C01.MonoX"} ELSE {})
           \cup (IF h.constdd /\ ~first /\ (\E j \in 2..nx : ~QLeTol(e.u[j], h.prevU[j], Eps))
                 THEN {"C01.MonoT"} ELSE {})
           \cup (IF h.constdd /\ e.relaxE >= Relax1E /\ (\E j \in 1..nx : ~QWithin(e.u[j], Face(e), Relax1D))
                 THEN {"C01.Relaxes"} ELSE {})
           \cup (IF h.constdd /\ e.relaxE >= Relax2E /\ (\E j \in 1..nx : ~QWithin(e.u[j], Face(e), Relax2D))
                 THEN {"C01.Relaxes"} ELSE {})
           \cup (IF ~first /\ e.resid > h.residMax THEN {"C04.Residual"} ELSE {})
           \cup (IF e.loose THEN {"C04.LooseSolve"} ELSE {})
           \cup (IF nx # h.nx THEN {"Machinery:nx"} ELSE {})
    IN  /\ Report(e, bad)
        /\ h' = [h EXCEPT !.n = @ + 1, !.mfMin = lowNow, !.mfPrev = e.mf, !.prevU = e.u, !.everRose = rose]

\* recovery series: rf[1] = 0; non-decreasing while the schedule has never risen (the harness cuts the series
\* at the first rise: field upto); density mode below the ceiling; ideal plateau; flux/density gap first order
\* slack[i]: the rounding floor of step i -> i+1 as the harness measures it, 1e-9 + 1e-12 * (t[i+1] - t[i]) * (largest rate of the run):
\* cumulative flux is rate x time, so on grids with steps of 1e8 a rate at rounding level moves recovery by 1e-8 and more; for
\* steps up to 1000 the floor stays at 1e-9.  It is capped here at 1e-4.
SlackCap == <<100000, 0>>
SlackOf(e, i) == IF Has(e, "slack") /\ QLe(e.slack[i], SlackCap) THEN e.slack[i] ELSE EpsRF
MonotoneUpTo(e, n) == \A i \in 1..(n - 1) : QLeTol(e.rf[i], e.rf[i + 1], SlackOf(e, i))
GapC     == 3000        \* gap * nx <= 3        (gapE = 1000 * gap * nx / ceiling, table inconsistency subtracted)
PlateauC == 2500        \* |rf_last/(1-pf/pi) - 1| * nx <= 2.5   (plateauE = 1000 * that; -1: not applicable)
StepRF(e) ==
    LET n   == Len(e.rf)
        bad == (IF ~QWithin(e.rf[1], QS, Units(0)) THEN {"C03.StartsAtZero"} ELSE {})
               \cup (IF ~MonotoneUpTo(e, e.upto) THEN {"C03.MonotoneRF"} ELSE {})
               \cup (IF e.mode = "density" /\ e.hasceil /\ (\E i \in 1..n : ~QLeTol(e.rf[i], e.ceil, EpsRF))
                     THEN {"C03.Ceiling"} ELSE {})
               \cup (IF e.plateauE >= 0 /\ e.plateauE > PlateauC THEN {"C03.IdealPlateau"} ELSE {})
               \cup (IF e.gapE >= 0 /\ e.gapE > GapC THEN {"C03.Gap"} ELSE {})
               \cup (IF \E i \in 1..n : IsNaN(e.rf[i]) THEN {"C03.NaN"} ELSE {})
    IN  Report(e, bad) /\ UNCHANGED h

\* first-order accuracy at one resolution (C02): errE = 1000 * error * nx (field: also * sqrt(pi t), the front slope)
\* against the closed-form Fourier series / an independent method-of-lines solution of the documented problem
OrderMax == [field |-> 4000, rf |-> 5000]      \* 2x the values observed on the repaired tree (2.0, 2.45)
StepOrder(e) == Report(e, IF e.errE > OrderMax[e.what] THEN {e.owner \o ".FirstOrder:" \o e.what} ELSE {}) /\ UNCHANGED h

\* recovery interpolator of a finished run (C17): reproduces recovery at the simulated times (<= 2 ulp: the last node is
\* reached through slope * width), is exactly 0 before the first time and exactly the final recovery after the last
InterpNodeUlps == 2
StepInterp(e) ==
    Report(e, (IF e.node_ulps > InterpNodeUlps THEN {"C17.InterpAtNodes"} ELSE {})
              \cup (IF ~e.zero_before THEN {"C17.InterpZeroBefore"} ELSE {})
              \cup (IF e.after_ulps > 0 THEN {"C17.InterpLastAfter"} ELSE {})) /\ UNCHANGED h

\* refinement ladder of one configuration: the first-order error shrinks from rung to rung (C03 gap, C02 errors);
\* errs: integers = error * 10^8 (capped), one per rung, coarse to fine
\* "the error shrinks under refinement": every rung is smaller than the one before (coarse rungs may still be pre-asymptotic,
\* where two error sources partly cancel: no rate is demanded of them), and the finest pair shows the first-order rate
\* (<= 7/10; a halved mesh gives ~1/2).  errs <= 10^8, so the products stay below 2^31.
StepLadder(e) ==
    LET n   == Len(e.errs)
        bad == IF (\E i \in 1..(n - 1) : e.errs[i + 1] >= e.errs[i] /\ e.errs[i] > 10)
                  \/ (n >= 2 /\ 10 * e.errs[n] > 7 * e.errs[n - 1] + 10)
               THEN {e.owner \o ".LadderShrinks"} ELSE {}
    IN  Report(e, bad) /\ UNCHANGED h

\* de15: exact-increment pair (dyadic grids); dg15: generic float shift whose rounding perturbs every increment by at
\* most 1e-10 relative (-1: not applicable): a stable solve may amplify that to 1e-8 of the window, no more
ShiftGenericMax == 10000000
StepShift(e) == Report(e, (IF e.de15 > ShiftMax THEN {"C17.ShiftEq"} ELSE {})
                          \cup (IF e.dg15 > ShiftGenericMax THEN {"C17.ShiftGeneric"} ELSE {})) /\ UNCHANGED h

TNext == /\ l <= Len(Trace)
         /\ LET e == Trace[l]
            IN  CASE e.ev = "Run"   -> StepRun(e)
                  [] e.ev = "Level" -> StepLevel(e)
                  [] e.ev = "RF"    -> StepRF(e)
                  [] e.ev = "Shift" -> StepShift(e)
                  [] e.ev = "Ladder" -> StepLadder(e)
                  [] e.ev = "Interp" -> StepInterp(e)
                  [] e.ev = "Order" -> StepOrder(e)
         /\ l' = l + 1

TraceSpec == TInit /\ [][TNext]_tv
TraceAccepted == TLCGet("stats").diameter = Len(Trace) + 1
=============================================================================
