------------------------------- MODULE ReservoirTrace -------------------------------
(* Code -> spec for C10 / C17: call logs recorded from real reservoir objects are replayed through   *)
(* the actions of Reservoir.tla.  The spec tracks which simulation / cache the object must hold and   *)
(* predicts the abstract observation of every call; the logged value digests must be the digests a    *)
(* fresh object produced for that abstract observation ("Ref" events recorded from fresh objects).     *)
(* Events:  Ref  [objkind, obs, dig]       reference digests <<time, field, returned>> per observation *)
(*          New  [objkind]                 a new object starts                                          *)
(*          Call [call, outcome, dig]      one public call on the object and what it returned           *)
EXTENDS Reservoir, TraceLib

VARIABLES l, ref, objkind, prevDig

tvars == <<vars, l, ref, objkind, prevDig>>

NoDig == <<-1, -1, -1>>

TInit == Init /\ l = 1 /\ ref = [x \in {} |-> NoDig] /\ objkind = "none" /\ prevDig = NoDig

Extend(f, k, v) == [x \in DOMAIN f \cup {k} |-> IF x = k THEN v ELSE f[x]]

StepRef(e) == /\ ref' = Extend(ref, <<e.objkind, e.obs>>, e.dig)
              /\ UNCHANGED <<vars, objkind, prevDig>>

StepNew(e) == /\ sim' = NoSim /\ cache' = NoCache /\ pfAttr' = "ctor" /\ tainted' = FALSE
              /\ hist' = <<>> /\ obs' = [kind |-> "none"] /\ exp' = <<>>
              /\ objkind' = e.objkind /\ prevDig' = NoDig
              /\ UNCHANGED ref

StepCall(e) ==
    /\ Do(e.call)
    /\ LET o    == obs'
           x    == exp'[Len(exp')]
           key  == <<objkind, o>>
           \* recovery and interpolator calls leave the stored simulation untouched (RF / Interp: UNCHANGED sim), so the
           \* stored time and field must be those a fresh object shows right after the simulation itself
           skey == <<objkind, [kind |-> "sim", of |-> o.of]>>
           own  == IF key \in DOMAIN ref THEN ref[key] ELSE NoDig
           base == IF o.kind \in {"rf", "interp"} /\ skey \in DOMAIN ref THEN ref[skey] ELSE own
           want == <<base[1], base[2], own[3]>>
           bad  == IF o.kind = "unspecified" THEN {}
                   ELSE IF o.kind = "AnyError" THEN (IF e.outcome = "ok" THEN {"Outcome"} ELSE {})
                   ELSE IF o.kind = "set" THEN (IF e.outcome = "ok" THEN {} ELSE {"Outcome"})
                   ELSE IF o.kind \in {"RuntimeError", "ValueError", "NotImplementedError"}
                        THEN (IF e.outcome = o.kind THEN {} ELSE {"Outcome"})
                   ELSE (IF e.outcome # "ok" THEN {"Outcome"}
                         ELSE (IF key \notin DOMAIN ref THEN {"NoRef"} ELSE {})
                              \cup (IF want[1] # e.dig[1] THEN {"StaleTime"} ELSE {})
                              \cup (IF want[2] # e.dig[2] THEN {"StaleField"} ELSE {})
                              \cup (IF want[3] # e.dig[3] THEN {"StaleReturn"} ELSE {}))
                        \cup (IF x.idem /\ e.outcome = "ok" /\ prevDig # e.dig THEN {"Idempotent"} ELSE {})
       IN  Report(e, bad)
    /\ prevDig' = e.dig
    /\ UNCHANGED <<ref, objkind>>

TNext == /\ l <= Len(Trace)
         /\ LET e == Trace[l]
            IN  CASE e.ev = "Ref"  -> StepRef(e)
                  [] e.ev = "New"  -> StepNew(e)
                  [] e.ev = "Call" -> StepCall(e)
         /\ l' = l + 1

TraceSpec == TInit /\ [][TNext]_tvars
TraceAccepted == TLCGet("stats").diameter = Len(Trace) + 1
=============================================================================
