SPECIFICATION Spec
CONSTANT Deviation = "RateWithoutTime"
CONSTANT Export = FALSE
CONSTANT MaxNt = 4
CONSTANT MaxEvery = 3
CONSTANT MaxN = 10
CONSTANT Depth = 3
INVARIANT RateIsTimeDerivative
CHECK_DEADLOCK FALSE
