SPECIFICATION Spec
CONSTANT Part = "scale"
CONSTANT Deviation = "TimesTau"
CONSTANT MaxDepth = 3
CONSTANT Rebounds = FALSE
CONSTANT Export = FALSE
INVARIANT C05_Rescale
CHECK_DEADLOCK FALSE
