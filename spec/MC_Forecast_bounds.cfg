SPECIFICATION Spec
CONSTANT Part = "bounds"
CONSTANT Deviation = "none"
CONSTANT MaxDepth = 3
CONSTANT Rebounds = FALSE
CONSTANT Export = TRUE
INVARIANT C05_MalformedRejected
INVARIANT ExportCase
CHECK_DEADLOCK FALSE
