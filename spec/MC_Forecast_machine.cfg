SPECIFICATION Spec
CONSTANT Part = "machine"
CONSTANT Deviation = "none"
CONSTANT MaxDepth = 3
CONSTANT Rebounds = FALSE
CONSTANT Export = TRUE
INVARIANT MachineTypeOK
INVARIANT C05_ForecastUses
INVARIANT C05_FitResult
INVARIANT C05_AttrsAreLatestFit
INVARIANT ExportLeaf
CHECK_DEADLOCK FALSE
