SPECIFICATION Spec
CONSTANT Threads = {1,2}
CONSTANT Args = {1, 2}
CONSTANT MaxCalls = 4
CONSTANT Deviation = "SharedScratch"
INVARIANT ReturnsOwn
CHECK_DEADLOCK FALSE
