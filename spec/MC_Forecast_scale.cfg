SPECIFICATION Spec
CONSTANT Part = "scale"
CONSTANT Deviation = "none"
CONSTANT MaxDepth = 3
CONSTANT Rebounds = FALSE
CONSTANT Export = TRUE
INVARIANT C05_Definition
INVARIANT C05_Linear
INVARIANT C05_Rescale
INVARIANT C05_CurveSane
INVARIANT ExportCase
CHECK_DEADLOCK FALSE
