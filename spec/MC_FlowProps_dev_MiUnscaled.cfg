SPECIFICATION Spec
CONSTANT Lattice = "small"
CONSTANT Deviation = "MiUnscaled"
CONSTANT Export = FALSE
INVARIANT MiIsValueAtPi
CHECK_DEADLOCK FALSE
