------------------------------- MODULE DerivsTrace -------------------------------
(* Code -> spec for the exact part of C13: coefficient lists *read off the real functions*.            *)
(* bbv/props/c13.py evaluates b_water_McCain(T, .) and b_water_McCain_dp(T, .) on a polynomial object   *)
(* (exact rational arithmetic on the code's own literals), rounds the coefficient of p^i of the parent   *)
(* and of p^(i-1) of the derivative function to scaled integers on one common grid per pair, and logs    *)
(*   Coef [fn, i, cp, cd]     cp = [p^i] parent, cd = [p^(i-1)] hand-coded derivative  (i >= 1)          *)
(*   End  [degp, degd]        degrees of the two polynomials as read off the code                        *)
(* one tid per temperature.  The rule is Derivs!CoefIsDerivative; a list must cover every i up to        *)
(* max(degp, degd + 1) (checked at End, machinery) so no coefficient escapes the comparison.             *)
EXTENDS TraceLib

VARIABLES l, seen
tvars == <<l, seen>>

D == INSTANCE Derivs WITH Deviation <- "none", Export <- FALSE, case <- [kind |-> "none"]

TInit == l = 1 /\ seen = {}

StepCoef(e) == /\ Report(e, IF D!CoefIsDerivative(e.i, e.cp, e.cd) THEN {} ELSE {"CoefNotDerivative"})
               /\ seen' = seen \cup {e.i}

StepEnd(e) == LET t0  == IF e.degp >= e.degd + 1 THEN e.degp ELSE e.degd + 1
                  top == IF t0 >= 1 THEN t0 ELSE 1
              IN  /\ Report(e, IF seen = 1..top THEN {} ELSE {"Machinery:CoefCoverage"})
                  /\ seen' = {}

TNext == /\ l <= Len(Trace)
         /\ LET e == Trace[l]
            IN  CASE e.ev = "Coef" -> StepCoef(e)
                  [] e.ev = "End"  -> StepEnd(e)
         /\ l' = l + 1

TraceSpec == TInit /\ [][TNext]_tvars
TraceAccepted == TLCGet("stats").diameter = Len(Trace) + 1
=============================================================================
