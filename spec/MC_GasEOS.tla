------------------------------- MODULE MC_GasEOS -------------------------------
(* Exhaustive model over the discrete content of GasEOS.tla.  Every initial state is one *case*; there are no *)
(* transitions.  TLC                                                                                          *)
(*   - enumerates the C06 lattice (T_r x p_r, plus the pinned Hall-Yarbrough corner) with the domain decisions *)
(*     (validity rectangle, ToOne region, Hall-Yarbrough common range) made here in exact rationals, and       *)
(*     exports each point so that the harness replays exactly this lattice with exactly these decisions;       *)
(*   - enumerates all abstract observation classes of a point (each magnitude below / at / above its           *)
(*     threshold, saturated) and checks that the explanation table of open finding D6 is sound: nothing but    *)
(*     the two named clauses can be explained, and only for a Z that is a root of the variant and not of the   *)
(*     published equation (a root of neither is never explained);                                              *)
(*   - enumerates the exact mass-content cases of C07 (brine at integer salinities 0..25, Standing oils above  *)
(*     the bubble point) with the expected product rho*B as an exact rational, exported for replay.            *)
(* Deviation configs (must be refuted): "ExplainAnyRootFailure", "ExplainCgByFormulaOnly".                    *)
EXTENDS GasEOS, TLC, Json

CONSTANTS Deviation,   \* "none" | "ExplainAnyRootFailure" | "ExplainCgByFormulaOnly"
          Export       \* TRUE: print every case

VARIABLE c
vars == <<c>>

\* ---- cases ------------------------------------------------------------------------------------------------
LatticePoints == (TrLattice \X PrLadder) \cup HYCorner \cup {<<Q(125, 100), pr>> : pr \in PrLadder}
LatticeCases  == {[kind |-> "lattice", tr |-> tp[1], pr |-> tp[2]] : tp \in LatticePoints}

\* representative magnitudes around a threshold t: 0, t, t+1, saturated
Around(t) == {0, t, t + 1, GSat}
ZObs  == [root_pub : Around(RootTolE15), root_var : Around(RootTolE15)]
HYObs == [root_pub : Around(RootTolE15), root_var : Around(RootTolE15), done : BOOLEAN,
          hy_code : Around(HYTolPpm), hy_pub : Around(HYTolPpm)]
CgObs == [cg_dlnrho : Around(CgTolE11), cgvar_dlnrho : Around(CgTolE11), dlnrho_err : Around(DerivErrE11),
          cg_formula : Around(CgFormulaE15)]
ObsCases == {[kind |-> "z", o |-> o] : o \in ZObs} \cup {[kind |-> "hy", o |-> o] : o \in HYObs}
            \cup {[kind |-> "cg", o |-> o] : o \in CgObs}

Salinities == 0..25
WaterCases == {[kind |-> "water", s |-> s] : s \in Salinities}
OilApis  == {R(15), Q(45, 2), R(35), R(50)}
OilGases == {Q(3, 5), Q(4, 5), R(1), Q(6, 5)}
OilGors  == {R(50), R(300), R(650), R(2000)}
OilCases == {[kind |-> "oil", api |-> a, gg |-> g, rs |-> r] : a \in OilApis, g \in OilGases, r \in OilGors}
ConstCases == {[kind |-> "consts"]}

Cases == LatticeCases \cup ObsCases \cup WaterCases \cup OilCases \cup ConstCases

Init == c \in Cases
Next == FALSE /\ c' = c
Spec == Init /\ [][Next]_vars

\* ---- the explanation table under test (deviations replace one rule) ---------------------------------------
ExplainT(kind, cl, o) ==
    CASE Deviation = "none" -> Explain(kind, cl, o)
      [] Deviation = "ExplainAnyRootFailure" ->
            IF kind = "z" /\ cl = ClRoot /\ ~IsPublishedRoot(o) THEN KeyD6 ELSE Explain(kind, cl, o)
      [] Deviation = "ExplainCgByFormulaOnly" ->
            IF kind = "cg" /\ cl = ClCg /\ o.cg_formula <= CgFormulaE15 THEN KeyD6 ELSE Explain(kind, cl, o)

IsObs == c.kind \in {"z", "hy", "cg"}
Explained(cl) == ExplainT(c.kind, cl, c.o) # NoKey

\* ---- invariants -------------------------------------------------------------------------------------------
TypeOK == c \in Cases

\* the design lattice lies in the property's quantifier domain; the pinned corner lies in the common range
LatticeInDomain == c.kind = "lattice" => InValidity(c.tr, c.pr)
CornerInCommon  == (c.kind = "lattice" /\ <<c.tr, c.pr>> \in HYCorner) => InHYCommon(c.tr, c.pr)
\* the Hall-Yarbrough common range is inside the validity rectangle, the ToOne region is outside the common range
CommonInsideValidity == c.kind = "lattice" => (InHYCommon(c.tr, c.pr) => InValidity(c.tr, c.pr))
ToOneOutsideCommon   == c.kind = "lattice" => ~(ToOneApplies(c.pr) /\ InHYCommon(c.tr, c.pr))

\* only the named clause of each kind can ever be explained
OnlyNamedClauses ==
    IsObs => \A cl \in ClausesOf(c.kind) :
                Explained(cl) => cl = (CASE c.kind = "z" -> ClRoot [] c.kind = "hy" -> ClHY [] c.kind = "cg" -> ClCg)
\* a Z that is a root of neither equation is never explained; an explained Z is a root of the variant only
RootOfNeitherIsViolation ==
    (c.kind \in {"z", "hy"}) => \A cl \in ClausesOf(c.kind) :
                Explained(cl) => (IsVariantRoot(c.o) /\ ~IsPublishedRoot(c.o))
\* Hall-Yarbrough disagreement is explained only if HY finished, really disagrees with the code and agrees with the
\* published root
HYExplainedOnlyNearPublished ==
    c.kind = "hy" => (Explained(ClHY) => (c.o.done /\ c.o.hy_code > HYTolPpm /\ c.o.hy_pub <= HYTolPpm))
\* c_g: explained only if the clause really failed, the derivative is trustworthy, c_g is the published-coefficient
\* formula and the variant formula is what the library's density obeys
CgExplainedOnlyStructurally ==
    c.kind = "cg" => (Explained(ClCg) => /\ c.o.cg_dlnrho > CgTolE11 /\ c.o.dlnrho_err <= DerivErrE11
                                         /\ c.o.cg_formula <= CgFormulaE15 /\ c.o.cgvar_dlnrho <= CgTolE11)
\* and the table is not empty: the D6 signature *is* explained (non-vacuity of the rule itself)
D6SignatureExplained ==
    /\ (c.kind = "z" /\ c.o.root_pub = GSat /\ c.o.root_var = 0) => Explained(ClRoot)
    /\ (c.kind = "hy" /\ c.o.root_pub = GSat /\ c.o.root_var = 0 /\ c.o.done /\ c.o.hy_code = GSat /\ c.o.hy_pub = 0)
          => Explained(ClHY)
    /\ (c.kind = "cg" /\ c.o.cg_dlnrho = GSat /\ c.o.cgvar_dlnrho = 0 /\ c.o.dlnrho_err = 0 /\ c.o.cg_formula = 0)
          => Explained(ClCg)

\* C07 exact cases: fresh water is 62.368 lb/ft^3; each salinity term rises with salinity; a heavier or
\* gassier oil carries more mass per stock-tank barrel
WaterSane == c.kind = "water" => /\ (c.s = 0 => BrineStdTerms(R(c.s)) = <<BrineW0, Zero, Zero>>)
                                 /\ \A i \in 2..3 : Lt(BrineStdTerms(R(c.s))[i], BrineStdTerms(R(c.s + 1))[i])
OilSane   == c.kind = "oil" => /\ Lt(Zero, OilMassTerms(c.api, c.gg, c.rs)[2])
                               /\ Lt(OilMassTerms(c.api, c.gg, c.rs)[2], OilMassTerms(c.api, c.gg, Add(c.rs, R(1)))[2])
                               /\ Lt(OilMassTerms(Add(c.api, R(1)), c.gg, c.rs)[1], OilMassTerms(c.api, c.gg, c.rs)[1])
                               /\ Lt(OilGravity(c.api), One) = Lt(R(10), c.api)   \* lighter than water above 10 API

\* ---- export -------------------------------------------------------------------------------------------------
Rec ==
    CASE c.kind = "lattice" -> [tag |-> "CASE", kind |-> "lattice", tr |-> c.tr, pr |-> c.pr,
                                toone |-> ToOneApplies(c.pr), hy |-> InHYCommon(c.tr, c.pr),
                                corner |-> (<<c.tr, c.pr>> \in HYCorner), ladder |-> (c.tr \in TrLattice)]
      [] c.kind = "water"   -> [tag |-> "CASE", kind |-> "water", s |-> c.s, terms |-> BrineStdTerms(R(c.s))]
      [] c.kind = "oil"     -> [tag |-> "CASE", kind |-> "oil", api |-> c.api, gg |-> c.gg, rs |-> c.rs,
                                terms |-> OilMassTerms(c.api, c.gg, c.rs)]
      [] c.kind = "consts"  -> [tag |-> "CASE", kind |-> "consts",
                                trmin |-> TrMin, trmax |-> TrMax, prmax |-> PrMax, tooneprmax |-> ToOnePrMax,
                                hytrmin |-> HYTrMin, hytrmax |-> HYTrMax, hyprmin |-> HYPrMin, hyprmax |-> HYPrMax,
                                mair |-> MolWeightAir, rgas |-> GasConstant, rankine |-> RankineOfF, tstd |-> TStdF,
                                pstd |-> PStd, ft3bbl |-> Ft3PerBbl, oilwater |-> OilWater, oilgas |-> OilGasTerm,
                                apinum |-> ApiNum, apiden |-> ApiDen, w0 |-> BrineW0, w1 |-> BrineW1, w2 |-> BrineW2]
      [] OTHER -> [tag |-> "SKIP"]
ExportCase == (Export /\ ~IsObs) => PrintT(ToJson(Rec))
=============================================================================
