SPECIFICATION Spec
CONSTANT Prop = "C15"
CONSTANT Tier = "quick"
CONSTANT Deviation = "Transposed"
CONSTANT Export = FALSE
INVARIANT C15_StrictlyIncreasing
CHECK_DEADLOCK FALSE
