SPECIFICATION Spec
CONSTANT Lattice = "small"
CONSTANT Deviation = "none"
CONSTANT Export = FALSE
INVARIANT TypeOK
INVARIANT AdmissibleAccepted
INVARIANT InvalidRejected
INVARIANT Finite
INVARIANT InRange
INVARIANT ZeroAtResidual
INVARIANT FullAtOne
INVARIANT ExactForIntegers
INVARIANT TwoAcceptance
INVARIANT TwoRowsOnSimplex
INVARIANT TwoEndsAtPureGasAndOil
INVARIANT TwoWaterImmobile
PROPERTY Monotone
CHECK_DEADLOCK FALSE
