------------------------------- MODULE FlowPropsMP -------------------------------
(* Multiphase flow properties of bluebonnet (flow/flowproperties.py) over exact rationals:               *)
(*   Lambda            total mass mobility, the documented sum over components (docs/background.md,      *)
(*                     "Simplified two-phase flow"), *defined by the term list LambdaTerms*               *)
(*   PseudopressureMP  cumulative trapezoid of Lambda over the table pressures (first entry 0)           *)
(*   Storage           stored mass per unit volume, documented sum, *defined by StorageTerms*             *)
(*                     (gas term S_g/b_g as in the three-phase section of the page and in the code; the   *)
(*                     two-phase section prints S_g/b_o, a typo)                                          *)
(*   Compressibility   Storage(p+1/2) - Storage(p-1/2) at fixed saturation on the linearly *extrapolated* *)
(*                     tables (the code builds interp1d(..., fill_value="extrapolate"))                   *)
(*   Alpha             Lambda / Compressibility                                                           *)
(*   FromTable         substitution into the user-alpha branch of FlowProperties: factor 1/m(p_i),        *)
(*                     m-scaled column, m_i, m_scaled_func(p_f)                                           *)
(* A state is one *case* (tables + scalars) chosen by Init from a small finite domain, together with the  *)
(* results computed from it.  TLC checks the invariants (properties C15, C16) on every case and exports   *)
(* every case with its exact expected results for replay into the real functions.                        *)
(* Named deviations reproduce the as-shipped defects: "Transposed" (D9: cumulative_trapezoid(pressure,    *)
(* integrand)) and "SumNotDiff" (D10: two storage terms add the p-1/2 evaluation).  Their configs must be *)
(* refuted.  The term lists are exported (tag TERMS) and drive the harness oracle at realistic magnitude. *)
EXTENDS PWL, TLC, Json, FiniteSets

CONSTANTS Prop,        \* "C15" | "C16": which results are computed / which domain is enumerated
          Tier,        \* "quick" | "thorough": size of the domain
          Deviation,   \* "none" | "Transposed" | "SumNotDiff"
          Export       \* TRUE: print every case with its expected results

VARIABLES ch, ph, c, r
vars == <<ch, ph, c, r>>

Half == Q(1, 2)

\* ---- the documented sums as data ------------------------------------------------------------------------
\* a term is  rho * prod(num) / prod(den); factor names: PVT columns (functions of p), rel perms (functions
\* of So), saturations
T(rho, num, den) == [rho |-> rho, num |-> num, den |-> den]
LambdaTerms  == << T("rho_o0", <<"Rv", "krg">>, <<"mu_g", "Bg">>),
                   T("rho_o0", <<"kro">>,       <<"mu_o", "Bo">>),
                   T("rho_g0", <<"Rs", "kro">>, <<"mu_o", "Bo">>),
                   T("rho_g0", <<"krg">>,       <<"mu_g", "Bg">>),
                   T("rho_w0", <<"krw">>,       <<"mu_w", "Bw">>) >>
StorageTerms == << T("rho_o0", <<"Rv", "Sg">>, <<"Bg">>),
                   T("rho_o0", <<"So">>,       <<"Bo">>),
                   T("rho_g0", <<"Rs", "So">>, <<"Bo">>),
                   T("rho_g0", <<"Sg">>,       <<"Bg">>),
                   T("rho_w0", <<"Sw">>,       <<"Bw">>) >>
\* as-shipped D10: these storage terms were summed over p+1/2, p-1/2 instead of differenced
SumNotDiffTerms == {2, 4}

PvtNames == {"Bo", "Bg", "Bw", "Rs", "Rv", "mu_o", "mu_g", "mu_w"}
KrNames  == {"kro", "krg", "krw"}

\* ---- evaluation -------------------------------------------------------------------------------------------
\* value of a factor at pressure p and oil saturation s (water saturation cs.Sw is a constant of the case).
\* PVT columns are linearly interpolated *and extrapolated*; rel perms are interpolated inside their table.
\* (At a table node the interpolant is the node value: NodeIndex is only a shortcut, see InterpAtNodes.)
NodeIndex(xs, q) == IF \E i \in 1..Len(xs) : xs[i] = q THEN CHOOSE i \in 1..Len(xs) : xs[i] = q ELSE 0
Lookup(xs, ys, q, extrap) == LET i == NodeIndex(xs, q)
                             IN  IF i # 0 THEN ys[i]
                                 ELSE IF extrap THEN InterpExtrap(xs, ys, q) ELSE InterpStrict(xs, ys, q)
Val(cs, name, p, s) ==
    IF name \in PvtNames THEN Lookup(cs.P, cs.cols[name], p, TRUE)
    ELSE IF name \in KrNames THEN Lookup(cs.krS, cs.kr[name], s, FALSE)
    ELSE CASE name = "So" -> s
           [] name = "Sg" -> Sub(Sub(One, s), cs.Sw)
           [] name = "Sw" -> cs.Sw

RECURSIVE Prod(_, _, _, _)
Prod(cs, names, p, s) == IF names = <<>> THEN One ELSE Mul(Val(cs, Head(names), p, s), Prod(cs, Tail(names), p, s))

\* a term without its density, and the vector of all terms of a sum at (p, s)
TermVal(cs, t, p, s)    == Div(Prod(cs, t.num, p, s), Prod(cs, t.den, p, s))
TermVec(cs, terms, p, s) == TLCEval([i \in 1..Len(terms) |-> TermVal(cs, terms[i], p, s)])
\* density-weighted sum of a term vector
Weighted(rho, terms, tv) == SumSeq([i \in 1..Len(terms) |-> Mul(rho[terms[i].rho], tv[i])])

Lambda(cs, p, s)       == Weighted(cs.rho, LambdaTerms, TermVec(cs, LambdaTerms, p, s))
Storage(cs, p, s, phi) == Mul(phi, Weighted(cs.rho, StorageTerms, TermVec(cs, StorageTerms, p, s)))

\* the table columns from_table works with: row i is (P[i], So[i])
LambdaVecs(cs)      == TLCEval([i \in 1..Len(cs.P) |-> TermVec(cs, LambdaTerms, cs.P[i], cs.So[i])])
LambdaColOf(rho, tvs) == TLCEval([i \in 1..Len(tvs) |-> Weighted(rho, LambdaTerms, tvs[i])])
LambdaCol(cs)       == LambdaColOf(cs.rho, LambdaVecs(cs))

PseudoOf(lam, P)     == TLCEval(IF Deviation = "Transposed" THEN CumTrap(P, lam) ELSE CumTrap(lam, P))
PseudopressureMP(cs) == PseudoOf(LambdaCol(cs), cs.P)

\* central difference over +-1/2 at fixed saturation, from the term vectors at p+1/2 (up) and p-1/2 (dn)
CompOf(rho, up, dn, phi) ==
    IF Deviation = "SumNotDiff"
    THEN Mul(phi, SumSeq([i \in 1..Len(StorageTerms) |->
             Mul(rho[StorageTerms[i].rho], IF i \in SumNotDiffTerms THEN Add(up[i], dn[i]) ELSE Sub(up[i], dn[i]))]))
    ELSE Sub(Mul(phi, Weighted(rho, StorageTerms, up)), Mul(phi, Weighted(rho, StorageTerms, dn)))
Compressibility(cs, p, s, phi) == CompOf(cs.rho, TermVec(cs, StorageTerms, Add(p, Half), s),
                                         TermVec(cs, StorageTerms, Sub(p, Half), s), phi)
\* magnitude the difference is formed from (all terms are non-negative): scale of its rounding error
ScaleOf(rho, up, dn, phi) == Add(Mul(phi, Weighted(rho, StorageTerms, up)), Mul(phi, Weighted(rho, StorageTerms, dn)))

NoValue == <<0, 0>>            \* "no finite value" (division by a vanishing compressibility)
Alpha(cs, p, s, phi) == LET cp == Compressibility(cs, p, s, phi)
                        IN  IF cp[1] = 0 THEN NoValue ELSE Div(Lambda(cs, p, s), cp)

ScaleRhoFn(rho, a) == [k \in DOMAIN rho |-> Mul(a, rho[k])]
ScaleRho(cs, a)    == [cs EXCEPT !.rho = ScaleRhoFn(cs.rho, a)]

\* ---- from_table: substitution into the user-alpha branch of FlowProperties ------------------------------
\* p_i = P[k], a table node with k >= 2 (m(P[1]) = 0 cannot be scaled to 1; between nodes the wrapper interpolates
\* 1/m, which is property C09's business).  factor = interp(P, 1/m)(p_i) = 1/m[k]; tables whose pseudopressure
\* vanishes at a later node as well (no mobile phase there) are not substituted.
MScaled(m, k)       == TLCEval([i \in 1..Len(m) |-> Div(m[i], m[k])])
\* frac-face pressures tried: every node below p_i and every midpoint below p_i
PfSet(cs, k) == {cs.P[i] : i \in 1..(k - 1)} \cup {Mul(Half, Add(cs.P[i], cs.P[i + 1])) : i \in 1..(k - 1)}

\* ---- the finite domain ------------------------------------------------------------------------------------
\* column shapes as functions of pressure (evaluated on the grid): const a | lin a+b*p |
\* kink a+b*min(p,pb)+b2*max(0,p-pb) (bubble point pb) | inv 1/(a+b*p) (1/B linear in p, slope b)
Sh(k, a, b, pb, b2) == [k |-> k, a |-> a, b |-> b, pb |-> pb, b2 |-> b2]
Const(a)            == Sh("const", a, Zero, Zero, Zero)
Lin(a, b)           == Sh("lin", a, b, Zero, Zero)
Kink(a, b, pb, b2)  == Sh("kink", a, b, pb, b2)
InvLin(a, b)        == Sh("inv", a, b, Zero, Zero)

EvalShape(sh, p) ==
    CASE sh.k = "const" -> sh.a
      [] sh.k = "lin"   -> Add(sh.a, Mul(sh.b, p))
      [] sh.k = "kink"  -> Add(Add(sh.a, Mul(sh.b, RMin(p, sh.pb))), Mul(sh.b2, RMax(Zero, Sub(p, sh.pb))))
      [] sh.k = "inv"   -> Inv(Add(sh.a, Mul(sh.b, p)))
Column(sh, P) == TLCEval([i \in 1..Len(P) |-> EvalShape(sh, P[i])])
\* slope of 1/B in p where it is exactly linear on the table nodes
HasInvSlope(sh) == sh.k \in {"const", "inv"}
InvSlope(sh)    == IF sh.k = "inv" THEN sh.b ELSE Zero
IsConst(sh)     == sh.k = "const"

RSeq(s) == [i \in 1..Len(s) |-> R(s[i])]
Grids == IF Tier = "quick" THEN {RSeq(<<1, 2, 3, 4>>), RSeq(<<1, 2, 4, 7>>)}
         ELSE {RSeq(<<1, 2, 3, 4>>), RSeq(<<1, 2, 4, 7>>), RSeq(<<2, 4, 5>>)}

BoShapes == {Const(R(1)), Kink(R(1), Q(1, 2), R(2), Q(-1, 8)), InvLin(Zero, Q(1, 4))}
             \cup (IF Tier = "quick" THEN {} ELSE {Lin(Q(1, 2), Q(1, 2))})
BgShapes == {Const(R(2)), Lin(R(4), Q(-1, 2)), InvLin(Zero, Q(1, 2))}
             \cup (IF Tier = "quick" THEN {} ELSE {Kink(R(3), R(-1), R(2), Q(-1, 8))})
BwShapes == {InvLin(R(1), Q(1, 8))} \cup (IF Prop = "C15" /\ Tier = "quick" THEN {} ELSE {Const(R(1))})
RsShapes == {Const(Zero), Const(R(1)), Kink(R(-1), R(1), R(3), Zero)}      \* 0 | 1 | rising 0,1,2 then flat
RvShapes == {Const(Zero), Const(Q(1, 4))}
\* viscosities (mu_o, mu_g, mu_w)
MuSets   == {<<Const(R(2)), Const(Q(1, 2)), Const(R(1))>>}
             \cup (IF Prop = "C16" /\ Tier = "quick" THEN {} ELSE {<<Lin(R(3), Q(-1, 4)), Lin(Q(1, 2), Q(1, 4)), Const(R(2))>>})
             \cup (IF Tier = "quick" THEN {} ELSE {<<Const(R(1)), Const(R(1)), Const(R(1))>>})
\* reference densities (oil, gas, water)
RhoSets  == {<<R(1), R(1), R(1)>>, <<Q(4, 5), Q(1, 10), R(1)>>}
\* oil saturation along the table as a fraction of 1 - Sw (by row)
SoPaths  == {<<Q(1, 2), Q(1, 2), Q(1, 2), Q(1, 2)>>, <<Q(1, 4), Q(1, 2), Q(3, 4), R(1)>>}
             \cup (IF Tier = "quick" THEN {} ELSE {<<R(1), Q(3, 4), Q(1, 4), Zero>>})
\* rel-perm tables on the nodes 0, (1-Sw)/2, 1-Sw: Corey with exponent n (values 0, 2^-n, 1), water constant;
\* "dead": no phase moves at or below the middle node (exercises "increasing *where mobility is positive*")
KrKinds  == IF Prop = "C15" THEN {[n |-> 1, krw |-> Zero, dead |-> FALSE], [n |-> 2, krw |-> Q(1, 4), dead |-> FALSE],
                                  [n |-> 1, krw |-> Zero, dead |-> TRUE]}
                                 \cup (IF Tier = "quick" THEN {} ELSE {[n |-> 1, krw |-> Q(1, 4), dead |-> FALSE]})
            ELSE {[n |-> 1, krw |-> Q(1, 4), dead |-> FALSE]}
                 \cup (IF Tier = "quick" THEN {} ELSE {[n |-> 2, krw |-> Zero, dead |-> FALSE]})
Phis     == IF Prop = "C16" THEN {Q(1, 10), Q(1, 5)} ELSE {Q(1, 10)}
Sws      == IF Prop = "C16" THEN {Zero, Q(1, 10)} ELSE {Q(1, 10)}

KrTable(kk, Sw) ==
    LET top == Sub(One, Sw)
        mid == PowN(Half, kk.n)
    IN  [krS |-> <<Zero, Mul(Half, top), top>>,
         kr  |-> [kro |-> IF kk.dead THEN <<Zero, Zero, One>> ELSE <<Zero, mid, One>>,
                  krg |-> IF kk.dead THEN <<Zero, Zero, Zero>> ELSE <<One, mid, Zero>>,
                  krw |-> IF kk.dead THEN <<Zero, Zero, kk.krw>> ELSE <<kk.krw, kk.krw, kk.krw>>]]

Build(P, bo, bg, bw, rs, rv, mu, rho, sop, kk, phi, Sw) ==
    LET n   == Len(P)
        krt == KrTable(kk, Sw)
    IN  [P    |-> P,
         cols |-> [Bo |-> Column(bo, P), Bg |-> Column(bg, P), Bw |-> Column(bw, P), Rs |-> Column(rs, P),
                   Rv |-> Column(rv, P), mu_o |-> Column(mu[1], P), mu_g |-> Column(mu[2], P), mu_w |-> Column(mu[3], P)],
         So   |-> [i \in 1..n |-> Mul(sop[i], Sub(One, Sw))],
         krS  |-> krt.krS, kr |-> krt.kr,
         rho  |-> [rho_o0 |-> rho[1], rho_g0 |-> rho[2], rho_w0 |-> rho[3]],
         phi  |-> phi, Sw |-> Sw,
         \* what the family is (used by the family-specific invariants only)
         fvfConst |-> IsConst(bo) /\ IsConst(bg) /\ IsConst(bw) /\ IsConst(rs) /\ IsConst(rv),
         hasSlope |-> HasInvSlope(bo) /\ HasInvSlope(bg) /\ HasInvSlope(bw) /\ IsConst(rs) /\ IsConst(rv),
         slope    |-> [Bo |-> InvSlope(bo), Bg |-> InvSlope(bg), Bw |-> InvSlope(bw)],
         dead     |-> kk.dead]

\* ---- results ------------------------------------------------------------------------------------------------
HomogFactors == <<R(2), Q(1, 2)>>

\* C16 queries <<p, So>>: every node with its table saturation (what from_table evaluates), every half-point
\* above a node (p +- 1/2 are then nodes on unit-step grids), and the extreme saturations at the second node
Queries(cs) ==
    LET n == Len(cs.P)
    IN  [i \in 1..n |-> <<cs.P[i], cs.So[i]>>]
        \o [i \in 1..(n - 1) |-> <<Add(cs.P[i], Half), cs.So[i]>>]
        \o << <<cs.P[2], Zero>>, <<cs.P[2], Sub(One, cs.Sw)>> >>

IsNode(cs, p) == \E i \in 1..Len(cs.P) : cs.P[i] = p

Results15(cs) ==
    LET n   == Len(cs.P)
        tvs == LambdaVecs(cs)
        lam == LambdaColOf(cs.rho, tvs)
        m   == PseudoOf(lam, cs.P)
    IN  [lam   |-> lam,
         m     |-> m,
         \* all reference densities times a  (= mobility times a)
         homog |-> [j \in 1..Len(HomogFactors) |->
                      [a |-> HomogFactors[j], m |-> PseudoOf(LambdaColOf(ScaleRhoFn(cs.rho, HomogFactors[j]), tvs), cs.P)]],
         \* substitution into the wrapper for every admissible initial pressure P[k]
         scaled |-> [k \in (IF \A j \in 2..n : m[j][1] # 0 THEN 2..n ELSE {}) |->
                        LET ms == MScaled(m, k)
                        IN  [ms |-> ms,
                             mi |-> InterpStrict(cs.P, ms, cs.P[k]),
                             pf |-> {<<p, InterpStrict(cs.P, ms, p)>> : p \in PfSet(cs, k)}]]]

Results16(cs) ==
    LET qs == TLCEval(Queries(cs))
    IN  [q |-> [j \in 1..Len(qs) |->
                  LET p  == qs[j][1]   s == qs[j][2]
                      up == TermVec(cs, StorageTerms, Add(p, Half), s)
                      dn == TermVec(cs, StorageTerms, Sub(p, Half), s)
                      lv == TermVec(cs, LambdaTerms, p, s)
                      cp == TLCEval(CompOf(cs.rho, up, dn, cs.phi))
                      lm == TLCEval(Weighted(cs.rho, LambdaTerms, lv))
                  IN  [p |-> p, So |-> s,
                       lam   |-> lm,
                       lam2  |-> Weighted(ScaleRhoFn(cs.rho, R(2)), LambdaTerms, lv),
                       c     |-> cp,
                       c2    |-> CompOf(cs.rho, up, dn, Mul(R(2), cs.phi)),
                       scale |-> ScaleOf(cs.rho, up, dn, cs.phi),
                       alpha |-> IF cp[1] = 0 THEN NoValue ELSE Div(lm, cp),
                       onNodes |-> IsNode(cs, Add(p, Half)) /\ IsNode(cs, Sub(p, Half))]]]

Results(cs) == IF Prop = "C15" THEN Results15(cs) ELSE Results16(cs)

\* ---- the state machine: Init picks a case (cheap, sequential in TLC), the single step evaluates it -----------
\* (successor computation is what TLC distributes over its workers)
\* C16 evaluates between nodes (p +- 1/2), where reciprocals of interpolated FVFs bring in new primes: to stay
\* inside 32-bit rationals at most MaxVarying of the three FVF columns vary with pressure in one case
Varying(h)  == Cardinality({j \in 2..4 : ~IsConst(h[j])})
MaxVarying  == IF Prop = "C16" THEN 1 ELSE 3
Product == Grids \X BoShapes \X BgShapes \X BwShapes \X RsShapes \X RvShapes \X MuSets \X RhoSets \X SoPaths
           \X KrKinds \X Phis \X Sws
Choices == IF Prop = "TERMS" THEN {<<>>} ELSE {h \in Product : Varying(h) <= MaxVarying}
CaseOf(h) == Build(h[1], h[2], h[3], h[4], h[5], h[6], h[7], h[8], SubSeq(h[9], 1, Len(h[1])), h[10], h[11], h[12])

Init == ch \in Choices /\ ph = "pick" /\ c = <<>> /\ r = <<>>
Evaluate == /\ ph = "pick" /\ Prop # "TERMS"
            /\ LET cs == CaseOf(ch) IN c' = cs /\ r' = Results(cs)
            /\ ph' = "done" /\ ch' = <<>>
Next == Evaluate
Spec == Init /\ [][Next]_vars
Done == ph = "done"

\* ---- C15 ------------------------------------------------------------------------------------------------------
Pos(x) == x[1] > 0
N == Len(c.P)
\* admissible input: positive FVFs and viscosities, increasing pressure, saturations inside the rel-perm table
Admissible == Done =>
              /\ StrictlyIncreasing(c.P)
              /\ \A nm \in {"Bo", "Bg", "Bw", "mu_o", "mu_g", "mu_w"} : \A i \in 1..N : Pos(c.cols[nm][i])
              /\ \A i \in 1..N : Leq(Zero, c.So[i]) /\ Leq(c.So[i], Sub(One, c.Sw))
MobilityNonNeg == (Done /\ Prop = "C15") => \A i \in 1..N : Leq(Zero, r.lam[i])
MobilityPositive == \A i \in 1..N : Pos(r.lam[i])

C15_ZeroAtFirst == (Done /\ Prop = "C15") => r.m[1] = Zero
\* strictly increasing wherever mobility is positive: a step rises iff mobility is positive at one of its ends,
\* and never falls
C15_StrictlyIncreasing ==
    (Done /\ Prop = "C15") => \A i \in 1..(N - 1) :
        IF Pos(r.lam[i]) \/ Pos(r.lam[i + 1]) THEN Lt(r.m[i], r.m[i + 1]) ELSE r.m[i] = r.m[i + 1]
\* it is the integral of the mobility: every increment lies between the rectangle bounds of the integrand
C15_IntegralBounds ==
    (Done /\ Prop = "C15") => \A i \in 1..(N - 1) :
        LET dp == Sub(c.P[i + 1], c.P[i])
            dm == Sub(r.m[i + 1], r.m[i])
        IN  /\ Leq(Mul(RMin(r.lam[i], r.lam[i + 1]), dp), dm)
            /\ Leq(dm, Mul(RMax(r.lam[i], r.lam[i + 1]), dp))
\* scaling mobility by a constant (all reference densities times a) scales the result by a
C15_Homogeneous == (Done /\ Prop = "C15") => \A j \in DOMAIN r.homog : \A i \in 1..N : r.homog[j].m[i] = Mul(r.homog[j].a, r.m[i])
\* consequences through from_table (mobility positive)
C15_ScaledIncreasing == (Done /\ Prop = "C15" /\ MobilityPositive) => \A k \in DOMAIN r.scaled : StrictlyIncreasing(r.scaled[k].ms)
C15_MiIsOne          == (Done /\ Prop = "C15" /\ MobilityPositive) => /\ DOMAIN r.scaled = 2..N
                                                              /\ \A k \in DOMAIN r.scaled : r.scaled[k].mi = One
C15_FracfaceInUnit   == (Done /\ Prop = "C15" /\ MobilityPositive) =>
                            \A k \in DOMAIN r.scaled : \A x \in r.scaled[k].pf : Leq(Zero, x[2]) /\ Lt(x[2], One)

\* the node shortcut of Lookup is the interpolant itself
InterpAtNodes == Done => \A nm \in PvtNames : \A i \in 1..N :
                    /\ InterpExtrap(c.P, c.cols[nm], c.P[i]) = c.cols[nm][i]
                    /\ \A j \in 1..Len(c.krS) : \A k \in KrNames : InterpStrict(c.krS, c.kr[k], c.krS[j]) = c.kr[k][j]

\* ---- C16 ------------------------------------------------------------------------------------------------------
NQ == Len(r.q)
C16_ZeroForConstantTables == (Done /\ Prop = "C16" /\ c.fvfConst) => \A j \in 1..NQ : r.q[j].c = Zero
C16_LinearInPhi == (Done /\ Prop = "C16") => \A j \in 1..NQ : r.q[j].c2 = Mul(R(2), r.q[j].c)
\* 1/B linear in p on the nodes, Rs and Rv constant: where p +- 1/2 are nodes the value is the analytic slope
AnalyticSlope(cs, s) ==
    LET Sg == Sub(Sub(One, s), cs.Sw)
        rs == cs.cols["Rs"][1]   rv == cs.cols["Rv"][1]
    IN  Mul(cs.phi, Add(Add(Mul(cs.rho["rho_o0"], Add(Mul(Mul(rv, Sg), cs.slope["Bg"]), Mul(s, cs.slope["Bo"]))),
                            Mul(cs.rho["rho_g0"], Add(Mul(Mul(rs, s), cs.slope["Bo"]), Mul(Sg, cs.slope["Bg"])))),
                        Mul(cs.rho["rho_w0"], Mul(cs.Sw, cs.slope["Bw"]))))
C16_MatchesSlope == (Done /\ Prop = "C16" /\ c.hasSlope) =>
                        \A j \in 1..NQ : r.q[j].onNodes => r.q[j].c = AnalyticSlope(c, r.q[j].So)
C16_AlphaIsRatio == (Done /\ Prop = "C16") => \A j \in 1..NQ :
                        IF r.q[j].c[1] = 0 THEN r.q[j].alpha = NoValue
                        ELSE Mul(r.q[j].alpha, r.q[j].c) = r.q[j].lam
\* mobility is the documented sum: non-negative, and homogeneous of degree one in the reference densities
C16_LambdaIsSum == (Done /\ Prop = "C16") => \A j \in 1..NQ :
                        /\ Leq(Zero, r.q[j].lam)
                        /\ r.q[j].lam2 = Mul(R(2), r.q[j].lam)

\* ---- export ------------------------------------------------------------------------------------------------------
Exported == (Export /\ Done) => PrintT(ToJson([tag |-> "CASE", c |-> c, r |-> r]))
ExportTerms == Prop = "TERMS" => PrintT(ToJson([tag |-> "TERMS", lambda |-> LambdaTerms, storage |-> StorageTerms]))
=============================================================================
