------------------------------- MODULE SweepC13 -------------------------------
(* C13, code -> spec: every hand-coded derivative of bluebonnet.fluids is compared, along sweeps of the     *)
(* differentiated input, with the derivative of *its own parent function* obtained by forward-mode         *)
(* automatic differentiation of the parent's code (bbv/oracle/dual.py), and the all-pressure oil           *)
(* compressibility with what the property says it is built from.  All agreement magnitudes are             *)
(* E15 = ceil(|a - b| / max(|a|, |b|) * 10^15)  (0 iff a and b are the same float), capped at 2*10^9.      *)
(*                                                                                                          *)
(* profile "oil":   pressure sweep across the bubble point of one oil (T, API, gas gravity, GOR_i);         *)
(*                  side = below | at | above relative to pressure_bubblepoint_Standing                     *)
(*    dgor_ad      dgor_dpressure_Standing      vs  d/dp solution_gor_Standing (AD)     strictly below p_b  *)
(*    dgor_zero    dgor_dpressure_Standing      vs  0.0 (exactly)                       at and above p_b    *)
(*    dgor_ad_zero d/dp solution_gor_Standing (AD) vs 0.0 (the parent is constant)      at and above p_b    *)
(*    dbo_ad       db_o_dgor_Standing(R_s(p))   vs  d/dR b_o_bubblepoint_Standing (AD)  everywhere          *)
(*    co_undersat  oil_compressibility_Standing vs  oil_compressibility_undersat_Spivey at and above p_b    *)
(*                                                   (bitwise: max 0)                                       *)
(*    co_assembly  oil_compressibility_Standing vs  (Bg - dBo/dRs(R_s(p))) * dRs/dp(p) / Bo_b(GOR_i)        *)
(*                  assembled from the public b_factor_DAK, db_o_dgor_Standing, solution_gor_Standing,      *)
(*                  dgor_dpressure_Standing, b_o_bubblepoint_Standing               strictly below p_b      *)
(* profile "bob":   GOR sweep of b_o_bubblepoint_Standing / db_o_dgor_Standing at fixed (T, API, gravity)   *)
(* profile "water": pressure sweep of b_water_McCain / b_water_McCain_dp at fixed temperature               *)
(* Rounding level: 10^-12 relative (1000 units), > 1000 x the 1-2 ulp observed and < 10^-4 x the smallest    *)
(* coefficient or exponent slip that survives the repository's own point tests (~10^-7).                    *)
EXTENDS TraceLib, Quant
VARIABLES l, h

Rounding == 1000        \* 10^-12 relative, in units of 10^-15
Exact    == 0

NoMono == [x \in {} |-> [dir |-> "const", tol |-> Units(0), where |-> "all"]]

C13Rules ==
  [oil   |-> [mono     |-> NoMono,
              agreeMax |-> [dgor_ad      |-> [max |-> Rounding, where |-> "strictbelow"],
                            dgor_zero    |-> [max |-> Exact,    where |-> "above"],
                            dgor_ad_zero |-> [max |-> Exact,    where |-> "above"],
                            dbo_ad       |-> [max |-> Rounding, where |-> "all"],
                            co_undersat  |-> [max |-> Exact,    where |-> "above"],
                            co_assembly  |-> [max |-> Rounding, where |-> "strictbelow"]],
              mustTrue |-> {"finite"},
              need     |-> {"below", "at", "above"}, minPoints |-> 7],
   bob   |-> [mono     |-> NoMono,
              agreeMax |-> [dbo_ad |-> [max |-> Rounding, where |-> "all"]],
              mustTrue |-> {"finite"},
              need     |-> {"none"}, minPoints |-> 5],
   water |-> [mono     |-> NoMono,
              agreeMax |-> [bw_ad |-> [max |-> Rounding, where |-> "all"]],
              mustTrue |-> {"finite"},
              need     |-> {"none"}, minPoints |-> 5]]

INSTANCE SweepCore WITH Rules <- C13Rules
=============================================================================
