------------------------------- MODULE Scheme -------------------------------
(* The implicit finite-difference scheme of flow/reservoir.py as exact rational arithmetic on tiny     *)
(* grids: ONE backward-Euler step from an arbitrary previous profile (two exact steps do not fit       *)
(* 32-bit integers, and all right-hand sides - not only reachable ones - is the stronger statement     *)
(* for a maximum principle anyway).                                                                     *)
(*                                                                                                      *)
(*   row j of N (1-indexed):  -k_j u[j-1] + (1 + d_j k_j) u[j] - k_j u[j+1] = b[j]                        *)
(*   d_j = 2 for j < N, 1 for the no-flow outer node j = N; k_j = r * alphaScaled(b_j), r = dt/dx^2      *)
(* Closures of the frac-face row (j = 1):                                                               *)
(*   "ghost0"    ideal reservoir: same stencil, ghost value 0, k == r, b = prev                          *)
(*   "dirichlet" single phase (as repaired): b[1] = mf, k[1] = 0  => u'[1] = mf                          *)
(*   "asShipped" deviation D1: b[1] = mf + r*alpha(mf)*mf, k[1] from the clipped lookup at that b[1]      *)
(*   "sameK"     rejected repair: b[1] = mf*(1 + k1) with k1 = r*alpha(mf)                                *)
(* A state is one case: parameters + the step's result, so every invariant is evaluated on every case.  *)
EXTENDS PWL, TLC, Json

CONSTANTS N,          \* nodes (3 or 4)
          Closure,    \* see above
          PrevVals,   \* set of rationals a previous-profile node may take (mi = 1)
          MfVals,     \* set of frac-face values (ignored for ghost0: 0)
          RVals,      \* set of mesh ratios r
          AlphaTabs,  \* set of diffusivity tables: sequences of 3 positive rationals at nodes 0, 1/2, 1
          InitialOnly,\* TRUE: previous profile is the initial profile only (the cases replayable by API)
          Export

VARIABLES case, u      \* case: [prev, mf, r, atab]; u: resulting profile (or "none" before the step)

Mi == One
ANodes == <<Zero, Q(1, 2), One>>

\* the library's clipped diffusivity lookup and its scaling by the value at the initial state
AlphaAt(atab, m)     == InterpFill(ANodes, atab, m, SeqMin(atab), SeqMax(atab))
AlphaScaled(atab, m) == Div(AlphaAt(atab, m), AlphaAt(atab, Mi))

\* ---- the linear system and its exact solution (Thomas algorithm) ---------------------------------------
Diag(k, j)  == IF j = N THEN Add(One, k[j]) ELSE Add(One, Mul(R(2), k[j]))
Lower(k, j) == Neg(k[j])       \* coefficient of u[j-1] in row j (j > 1)
Upper(k, j) == Neg(k[j])       \* coefficient of u[j+1] in row j (j < N)

RECURSIVE Fwd(_, _, _, _, _)
Fwd(k, b, j, cs, ds) ==          \* forward elimination: cs, ds accumulate the modified coefficients
    IF j > N THEN <<cs, ds>>
    ELSE LET den == IF j = 1 THEN Diag(k, 1) ELSE Sub(Diag(k, j), Mul(Lower(k, j), cs[j - 1]))
             c   == Div(Upper(k, j), den)
             d   == IF j = 1 THEN Div(b[1], den) ELSE Div(Sub(b[j], Mul(Lower(k, j), ds[j - 1])), den)
         IN  Fwd(k, b, j + 1, Append(cs, c), Append(ds, d))
RECURSIVE Back(_, _, _, _)
Back(cs, ds, j, acc) ==          \* back substitution: acc holds x[j+1 .. N]
    IF j = 0 THEN acc
    ELSE LET x == IF j = N THEN ds[N] ELSE Sub(ds[j], Mul(cs[j], Head(acc)))
         IN  Back(cs, ds, j - 1, <<x>> \o acc)
Thomas(k, b) == LET f == Fwd(k, b, 1, <<>>, <<>>) IN Back(f[1], f[2], N, <<>>)

\* residual of row j for a candidate profile v (used by the conformance oracle's self-test too)
RowResidual(k, b, v, j) ==
    Sub(Add(Add(IF j > 1 THEN Mul(Lower(k, j), v[j - 1]) ELSE Zero, Mul(Diag(k, j), v[j])),
            IF j < N THEN Mul(Upper(k, j), v[j + 1]) ELSE Zero), b[j])

\* ---- one step -----------------------------------------------------------------------------------------
Rhs(c) ==
    CASE Closure = "ghost0"    -> c.prev
      [] Closure = "dirichlet" -> [j \in 1..N |-> IF j = 1 THEN c.mf ELSE RMin(c.prev[j], Mi)]
      [] Closure = "asShipped" -> [j \in 1..N |-> IF j = 1
                                     THEN Add(c.mf, Mul(Mul(AlphaScaled(c.atab, c.mf), c.mf), c.r))
                                     ELSE RMin(c.prev[j], Mi)]
      [] Closure = "sameK"     -> [j \in 1..N |-> IF j = 1
                                     THEN Mul(c.mf, Add(One, Mul(c.r, AlphaScaled(c.atab, c.mf))))
                                     ELSE RMin(c.prev[j], Mi)]

Kvec(c, b) ==
    CASE Closure = "ghost0"    -> [j \in 1..N |-> c.r]
      [] Closure = "dirichlet" -> [j \in 1..N |-> IF j = 1 THEN Zero ELSE Mul(c.r, AlphaScaled(c.atab, b[j]))]
      [] Closure = "asShipped" -> [j \in 1..N |-> Mul(c.r, AlphaScaled(c.atab, b[j]))]
      [] Closure = "sameK"     -> [j \in 1..N |-> IF j = 1 THEN Mul(c.r, AlphaScaled(c.atab, c.mf))
                                                  ELSE Mul(c.r, AlphaScaled(c.atab, b[j]))]

Step(c) == LET b == Rhs(c) IN Thomas(Kvec(c, b), b)

\* ---- cases --------------------------------------------------------------------------------------------
FaceVal(c) == IF Closure = "ghost0" THEN Zero ELSE c.mf
InitialProfile(mf) == IF Closure = "ghost0" THEN [j \in 1..N |-> One]
                      ELSE [j \in 1..N |-> IF j = 1 THEN mf ELSE One]
Profiles(mf) == IF InitialOnly THEN {InitialProfile(mf)} ELSE [1..N -> PrevVals]
Cases == UNION {{[prev |-> p, mf |-> mf, r |-> r, atab |-> a] : r \in RVals, a \in AlphaTabs, p \in Profiles(mf)} :
                   mf \in (IF Closure = "ghost0" THEN {Zero} ELSE MfVals)}

\* ---- domains named by the configs ------------------------------------------------------------------------
D_Prev5 == {Zero, Q(1, 4), Q(1, 2), One, Q(5, 4)}     \* 5/4 > m_i exercises the clip
D_Prev4 == {Zero, Q(1, 4), Q(1, 2), One}
D_Prev3 == {Zero, Q(1, 2), One}
D_Mf    == {Q(1, 4), Q(1, 2), Q(9, 10)}
D_R     == {Q(1, 4), Q(1, 2), One, R(3), R(10)}
D_RBig  == {R(100), R(1000)}
D_R100  == {R(30), R(100)}
D_RSmall == {Q(1, 2), One, R(3)}
D_ATabs == {<<One, One, One>>, <<Q(1, 2), One, R(2)>>, <<R(2), One, Q(1, 2)>>, <<One, R(2), One>>}
D_AConst == {<<One, One, One>>}

Init == case \in Cases /\ u = <<>>
Next == u = <<>> /\ u' = Step(case) /\ UNCHANGED case
Spec == Init /\ [][Next]_<<case, u>>

Done == u # <<>>

\* ---- properties (C01, C03, C04 at design level) ----------------------------------------------------------
RECURSIVE MinOver(_, _)
MinOver(s, j) == IF j = 1 THEN s[1] ELSE RMin(s[j], MinOver(s, j - 1))
LowBound(c)  == RMin(FaceVal(c), MinOver(c.prev, N))
PrevClipped(c) == [j \in 1..N |-> RMin(c.prev[j], Mi)]

\* C01 discrete maximum principle: new values between the lowest of (face value, previous values) and m_i
C01_Bounds == Done => \A j \in 1..N : Leq(LowBound(case), u[j]) /\ Leq(u[j], Mi)
\* C01 the frac-face node holds the frac-face value (single phase)
C01_FaceValue == (Done /\ Closure # "ghost0") => u[1] = case.mf
\* C01 a profile that is non-decreasing away from the fracture (and not below the face value) stays so
MonotonePrev(c) == /\ \A j \in 1..(N - 1) : Leq(c.prev[j], c.prev[j + 1])
                   /\ Leq(FaceVal(c), c.prev[1])
                   /\ (Closure # "ghost0" => c.prev[1] = c.mf)
C01_MonoX == (Done /\ MonotonePrev(case)) => \A j \in 1..(N - 1) : Leq(u[j], u[j + 1])
\* C01 first step from the initial profile: nothing rises (beyond the node next to the fracture)
C01_MonoT_First == (Done /\ case.prev = InitialProfile(case.mf)) => \A j \in 2..N : Leq(u[j], case.prev[j])
\* C01 relaxation: one step of mesh ratio r leaves |u - face| <= range * RelaxC / (r * minimal scaled diffusivity)
MinScaled(c) == Div(SeqMin(c.atab), AlphaAt(c.atab, Mi))
Free   == IF Closure = "ghost0" THEN N ELSE N - 1       \* unknowns not pinned to the face value
RelaxC == CASE Free = 2 -> R(4) [] Free = 3 -> R(9) [] Free = 4 -> R(17)
          \* >= sqrt(Free) / smallest eigenvalue of the Free-node Dirichlet-Neumann stencil (0.382, 0.198, 0.1206)
C01_Relaxes == (Done /\ Closure # "asShipped" /\ \A j \in 1..N : Leq(case.prev[j], Mi)) =>
                  \A j \in 1..N : Leq(Mul(RAbs(Sub(u[j], FaceVal(case))), Mul(case.r, MinScaled(case))),
                                      Mul(RelaxC, Sub(Mi, LowBound(case))))
\* C04 the step *is* the solution of the stencil: all rows have zero residual
C04_Residual == Done => LET b == Rhs(case) k == Kvec(case, b)
                        IN  \A j \in 1..N : RowResidual(k, b, u, j) = Zero
\* C03 discrete conservation for constant diffusivity: what the interior loses is the flux through the face
ConstAlpha(c) == c.atab[1] = c.atab[2] /\ c.atab[2] = c.atab[3]
C03_Conserve == (Done /\ Closure = "dirichlet" /\ ConstAlpha(case)) =>
                   LET b == Rhs(case)
                   IN  SumSeq([j \in 1..(N - 1) |-> Sub(u[j + 1], b[j + 1])]) = Mul(case.r, Sub(u[1], u[2]))
C03_ConserveIdeal == (Done /\ Closure = "ghost0") =>
                   SumSeq([j \in 1..N |-> Sub(u[j], case.prev[j])]) = Neg(Mul(case.r, u[1]))   \* ghost value 0
\* M-matrix facts: non-positive off-diagonals, strictly dominant positive diagonal (k >= 0)
C01_MMatrix == Done => LET b == Rhs(case) k == Kvec(case, b)
                       IN  \A j \in 1..N : /\ Leq(Zero, k[j])
                                           /\ Leq(One, Diag(k, j))
\* the rows in the form of MaxPrincipleProof.tla (Stencil / StencilIdeal): checking it on every case ties the TLAPS theorems
\* (every N, every non-negative k) to this model; the code is tied to the model by the residual clause of the traces (C04)
ProofRow(k, b, v, j) ==
    LET left  == IF j > 1 THEN v[j - 1] ELSE Zero      \* ghost value 0 of the ideal class
        right == IF j < N THEN v[j + 1] ELSE v[j]
        kr    == IF j < N THEN k[j] ELSE Zero
    IN  Add(v[j], Add(Mul(k[j], Sub(v[j], left)), Mul(kr, Sub(v[j], right)))) = b[j]
C01_ProofForm == (Done /\ Closure \in {"dirichlet", "ghost0"}) =>
                    LET b == Rhs(case) k == Kvec(case, b)
                    IN  /\ \A j \in 1..N : Leq(Zero, k[j])
                        /\ Closure = "dirichlet" => u[1] = b[1]
                        /\ \A j \in (IF Closure = "dirichlet" THEN 2 ELSE 1)..N : ProofRow(k, b, u, j)
\* C17: only the increment enters a step: the same increment at another time origin gives the same step
StepAt(c, t0, t1, h2) == LET c2 == [c EXCEPT !.r = Div(Sub(t1, t0), h2)] IN Step(c2)
C17_ShiftInvariant == Done => \A s \in {R(-3), Q(1, 2), R(1000)} :
                          StepAt(case, Add(R(1), s), Add(Add(R(1), case.r), s), One) = u

ExportCase == (Export /\ Done) => PrintT(ToJson([tag |-> "CASE", closure |-> Closure, n |-> N, prev |-> case.prev,
                                                 mf |-> case.mf, r |-> case.r, atab |-> case.atab, u |-> u,
                                                 k |-> Kvec(case, Rhs(case)), b |-> Rhs(case)]))
=============================================================================
