------------------------------- MODULE Rat -------------------------------
(* Exact rational arithmetic for the small-domain (X-type) models.                          *)
(* A rational is <<n, d>> with d > 0 and gcd(|n|, d) = 1.  TLC integers are 32-bit: every   *)
(* operation reduces by gcds first, and an overflow is a TLC error (loud), never a wrap.    *)
EXTENDS Integers, Sequences

Abs(x) == IF x < 0 THEN -x ELSE x
RECURSIVE GCD(_, _)
GCD(a, b) == IF b = 0 THEN a ELSE GCD(b, a % b)
Max(a, b) == IF a >= b THEN a ELSE b
Min(a, b) == IF a <= b THEN a ELSE b

Norm(n, d) == LET g == Max(1, GCD(Abs(n), Abs(d)))
                  s == IF d < 0 THEN -1 ELSE 1
              IN  <<s * (n \div g), s * (d \div g)>>

R(n)      == <<n, 1>>            \* integer -> rational
Q(n, d)   == Norm(n, d)          \* fraction -> rational
Zero      == <<0, 1>>
One       == <<1, 1>>

Add(x, y) == LET g == GCD(x[2], y[2])
                 a == x[2] \div g
                 b == y[2] \div g
             IN  Norm(x[1] * b + y[1] * a, a * y[2])
Neg(x)    == <<-x[1], x[2]>>
Sub(x, y) == Add(x, Neg(y))
Mul(x, y) == LET g1 == Max(1, GCD(Abs(x[1]), y[2]))
                 g2 == Max(1, GCD(Abs(y[1]), x[2]))
             IN  Norm((x[1] \div g1) * (y[1] \div g2), (x[2] \div g2) * (y[2] \div g1))
Inv(x)    == IF x[1] < 0 THEN <<-x[2], -x[1]>> ELSE <<x[2], x[1]>>
Div(x, y) == Mul(x, Inv(y))

Sign(x)   == IF x[1] > 0 THEN 1 ELSE IF x[1] < 0 THEN -1 ELSE 0
Leq(x, y) == Sub(x, y)[1] <= 0
Lt(x, y)  == Sub(x, y)[1] < 0
Eq(x, y)  == x = y               \* normal forms are unique
RMin(x, y) == IF Leq(x, y) THEN x ELSE y
RMax(x, y) == IF Leq(x, y) THEN y ELSE x
RAbs(x)   == <<Abs(x[1]), x[2]>>
Clamp01(x) == RMax(Zero, RMin(One, x))

RECURSIVE PowN(_, _)
PowN(x, n) == IF n = 0 THEN One ELSE Mul(x, PowN(x, n - 1))

RECURSIVE SumSeq(_)
SumSeq(s) == IF s = <<>> THEN Zero ELSE Add(Head(s), SumSeq(Tail(s)))

IsRat(x) == x \in Seq(Int) /\ Len(x) = 2 /\ x[2] > 0 /\ (x[1] = 0 \/ GCD(Abs(x[1]), x[2]) = 1)
=============================================================================
