SPECIFICATION Spec
CONSTANT MaxLen = 3
CONSTANT Deviation = "none"
CONSTANT Export = TRUE
INVARIANT TypeOK
INVARIANT C11_Elementwise
INVARIANT C11_Shape
INVARIANT C11_Floating
INVARIANT C11_InputUnchanged
INVARIANT C11_Returns
INVARIANT MasksPartition
INVARIANT ExportCase
CHECK_DEADLOCK FALSE
