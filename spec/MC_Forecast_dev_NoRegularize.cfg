SPECIFICATION Spec
CONSTANT Part = "guess"
CONSTANT Deviation = "NoRegularize"
CONSTANT MaxDepth = 3
CONSTANT Rebounds = FALSE
CONSTANT Export = FALSE
INVARIANT C05_GuessInside
CHECK_DEADLOCK FALSE
