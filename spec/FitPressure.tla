------------------------------- MODULE FitPressure -------------------------------
(* Property C18: the pressure-history fit (bluebonnet.forecast.forecast_pressure.fit_production_pressure    *)
(* and its objective _obj_function) uses the library's own forward model and honours its limits.            *)
(*                                                                                                          *)
(* The data pipeline is exact and discrete, so it is defined here on small integer production tables and    *)
(* TLC evaluates it on every table of the domain:                                                           *)
(*   row = [gas |-> 0..2, pres |-> 0..3]   (pres = 0: the pressure is missing, NaN in the data frame)        *)
(*   table = Repeat(pattern, k): the pattern of 2..MaxRows rows repeated k times (the default limits need    *)
(*           more than 16 productive rows, so the limit rules are exercised with k = Reps)                   *)
(* Code-shaped operators (Kept, PfOf, CumOf, LimitsOf) say what the code does; property-shaped invariants    *)
(* (named C18_...) say what the property demands; named deviations must be refuted by TLC.                   *)
(* The objective is the library's own simulation and cannot be evaluated by TLC: RefModel states with which  *)
(* arguments the public classes must be called; the harness builds the reference from this record.          *)
EXTENDS Integers, Sequences, FiniteSets, TLC, Json

CONSTANTS MaxRows,    \* longest pattern
          Reps,       \* repetition count that makes tables long enough for the default limits
          Deviation,  \* "none" | "Unfiltered" | "KeepsMissingPressure" | "CumOfAllRows" | "Window1Smooths"
                      \*        | "MminIsLast" | "PLimitsSwapped" | "TauMaxIsN"
          Export

VARIABLES c

\* ---- units of the abstract tables -------------------------------------------------------------------------
InplaceMax == 1000      \* inplace_max, in gas units
PImax      == 4         \* pressure_imax, in pressure units (pressures are 1..3)
TauMin     == 30        \* days

Missing == 0
Rows == [gas : 0..2, pres : 0..3]

RECURSIVE SeqsOf(_, _)
SeqsOf(S, n) == IF n = 0 THEN {<<>>} ELSE {Append(s, x) : s \in SeqsOf(S, n - 1), x \in S}
Patterns == UNION {SeqsOf(Rows, n) : n \in 2..MaxRows}

RECURSIVE Repeat(_, _)
Repeat(p, k) == IF k = 0 THEN <<>> ELSE p \o Repeat(p, k - 1)

\* ---- code-shaped pipeline -------------------------------------------------------------------------------------
Productive(r) == r.gas > 0 /\ r.pres # Missing
KeepCode(r, filter) == CASE Deviation = "Unfiltered" -> TRUE
                         [] Deviation = "KeepsMissingPressure" -> (~filter \/ r.gas > 0)
                         [] OTHER -> (~filter \/ Productive(r))
Kept(tab, filter) == SelectSeq(tab, LAMBDA r : KeepCode(r, filter))

\* uniform_filter1d(x, size=3) with reflecting edges, integer part (only used by the deviation)
Box3(x) == [i \in 1..Len(x) |-> (x[IF i = 1 THEN 1 ELSE i - 1] + x[i] + x[IF i = Len(x) THEN i ELSE i + 1]) \div 3]
\* window: 0 = no smoothing requested, 1 = a window of one sample
PfOf(kept, window) == LET raw == [i \in 1..Len(kept) |-> kept[i].pres]
                      IN  IF window = 1 /\ Deviation = "Window1Smooths" THEN Box3(raw) ELSE raw

\* numpy.cumsum of the Gas column
RECURSIVE CumSum(_)
CumSum(g) == IF g = <<>> THEN <<>>
             ELSE LET front == CumSum(SubSeq(g, 1, Len(g) - 1))
                  IN  Append(front, (IF front = <<>> THEN 0 ELSE front[Len(front)]) + g[Len(g)])
CumOf(tab, kept) == LET src == IF Deviation = "CumOfAllRows" THEN tab ELSE kept
                    IN  CumSum([i \in 1..Len(src) |-> src[i].gas])

SeqMaxI(s) == CHOOSE m \in {s[i] : i \in 1..Len(s)} : \A i \in 1..Len(s) : s[i] <= m

\* default parameter limits (params = None)
TauLimits(n) == [min |-> TauMin, max |-> IF Deviation = "TauMaxIsN" THEN n ELSE 2 * (n - 1)]
LimitsOf(n, cum, pf) ==
    [tau |-> TauLimits(n),
     M   |-> [min |-> IF Deviation = "MminIsLast" THEN cum[Len(cum)] ELSE cum[Len(cum) - 1], max |-> InplaceMax],
     p   |-> IF Deviation = "PLimitsSwapped" THEN [min |-> PImax, max |-> SeqMaxI(pf)]
             ELSE [min |-> SeqMaxI(pf), max |-> PImax]]

\* the declared limits are meaningful when every interval has an interior and no pressure is missing
LimitsMeaningful(n, cum, pf) == /\ n >= 2 /\ Len(cum) >= 2
                                /\ \A i \in 1..Len(pf) : pf[i] # Missing
                                /\ TauMin < 2 * (n - 1)
                                /\ cum[Len(cum) - 1] < InplaceMax
                                /\ SeqMaxI(pf) < PImax

Pipeline(pattern, k, filter, window) ==
    LET tab  == Repeat(pattern, k)
        kept == Kept(tab, filter)
        n    == Len(kept)
        pf   == PfOf(kept, window)
        cum  == CumOf(tab, kept)
        ok   == n >= 2 /\ Len(cum) = n /\ LimitsMeaningful(n, cum, pf)
    IN  [n |-> n, time |-> [i \in 1..n |-> i - 1], pf |-> pf, cum |-> cum, defaults |-> ok,
         \* a missing pressure that is not filtered out reaches the smoother and the simulator as NaN: what
         \* happens to the pressures then is outside the property (pfDefined = FALSE: no demand on pf)
         pfDefined |-> (\A i \in 1..Len(pf) : pf[i] # Missing),
         limits |-> IF ok THEN LimitsOf(n, cum, pf) ELSE [none |-> TRUE]]

\* repetition count per pattern length: 1 (the pipeline alone) and, for short patterns, enough for more than
\* 16 rows to survive the filter even when only one row of the pattern is productive
RepsFor(len) == IF len <= 3 THEN {1, Reps} ELSE {1}
Cases == {[pattern |-> p, k |-> k, filter |-> f, window |-> w, out |-> Pipeline(p, k, f, w)] :
             <<p, k>> \in UNION {{<<q, j>> : j \in RepsFor(Len(q))} : q \in Patterns}, f \in BOOLEAN, w \in {0, 1}}

\* ---- property-shaped statements ---------------------------------------------------------------------------------
\* the rows the property lets through, stated on indices (not with the code's row selection): idx[j] is the
\* position in the table of the j-th row that has production and a pressure (all rows when not filtering)
Through(tab, filter) == SelectSeq([i \in 1..Len(tab) |-> i], LAMBDA i : ~filter \/ Productive(tab[i]))

C18_FilterExcludes ==
    LET tab == Repeat(c.pattern, c.k)
        idx == Through(tab, c.filter)
        o   == c.out
    IN  /\ o.n = Len(idx) /\ Len(o.cum) = o.n
        /\ c.filter => \A j \in 1..Len(idx) : tab[idx[j]].gas > 0 /\ tab[idx[j]].pres # Missing
        /\ \A j \in 1..Len(idx) : o.cum[j] = (IF j = 1 THEN 0 ELSE o.cum[j - 1]) + tab[idx[j]].gas
C18_Window1Identity ==
    LET tab == Repeat(c.pattern, c.k)
        idx == Through(tab, c.filter)
        o   == c.out
    IN  (c.window \in {0, 1} /\ o.pfDefined) => (o.n = Len(idx) /\ Len(o.pf) = o.n /\ \A j \in 1..Len(idx) : o.pf[j] = tab[idx[j]].pres)
C18_TimeReindexed == LET o == c.out
                     IN  /\ Len(o.time) = o.n /\ Len(o.pf) = o.n /\ Len(o.cum) = o.n
                         /\ \A i \in 1..o.n : o.time[i] = i - 1
C18_Limits ==
    c.out.defaults =>
        LET L == c.out.limits  n == c.out.n  o == c.out
        IN  /\ L.tau.min = 30 /\ L.tau.max = 2 * (n - 1) /\ L.tau.min < L.tau.max
            /\ L.M.min = o.cum[n - 1] /\ L.M.max = InplaceMax /\ L.M.min < L.M.max
            /\ L.M.min <= o.cum[n]                                     \* the initial value cum[n] is admissible
            /\ \A i \in 1..n : o.pf[i] <= L.p.min                      \* at least the highest frac-face pressure
            /\ L.p.min \in {o.pf[i] : i \in 1..n}
            /\ L.p.max = PImax /\ L.p.min < L.p.max
\* non-vacuity of C18_Limits: the repeated tables are long enough for the default limits
ASSUME \E p \in SeqsOf(Rows, 2) : Pipeline(p, Reps, TRUE, 0).defaults

\* ---- the objective: which library call defines it -------------------------------------------------------------------
\* objective(tau, M, p_initial) = M * RF - cumulative production, where RF is
\*   SinglePhaseReservoir(nx, pressure_fracface = p_initial, pressure_initial = p_initial,
\*                        FlowProperties(pvt_table, p_initial)).simulate(days / tau, pressure_fracface = schedule)
\*   .recovery_factor()
\* ctor_fracface: the scalar setting of the reference reservoir is the first entry of the history, not p_initial as in the code under
\* test: the recovery of "the variable-pressure simulation for that pressure history" does not depend on the scalar the object was
\* built with (a schedule replaces it, C17), so a forward model that leaks the constructor's scalar is seen here
RefModel == [nx |-> 80, ctor_fracface |-> "schedule[0]", ctor_initial |-> "p_initial", fluid_at |-> "p_initial",
             time |-> "days/tau", schedule |-> "pressure_fracface", recovery |-> "flux"]

\* ---- specification ---------------------------------------------------------------------------------------------------
Init == c \in Cases
Next == FALSE
Spec == Init /\ [][Next]_c

ExportCase == Export => PrintT(ToJson([tag |-> "CASE", case |-> c]))
ASSUME Export => PrintT(ToJson([tag |-> "CONST", inplace_max |-> InplaceMax, pimax |-> PImax, ref |-> RefModel]))
=============================================================================
