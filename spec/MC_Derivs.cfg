SPECIFICATION Spec
CONSTANT Deviation = "none"
CONSTANT Export = TRUE
INVARIANT WaterDerivativeIsFormal
INVARIANT WaterSameTFactor
INVARIANT PowerRuleHolds
INVARIANT BranchTable
INVARIANT ExportModel
CHECK_DEADLOCK FALSE
