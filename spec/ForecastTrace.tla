------------------------------- MODULE ForecastTrace -------------------------------
(* Code -> spec for C05: call logs recorded from real ForecasterOnePhase objects (real least-squares fits  *)
(* on recovery curves of real reservoir runs) are replayed through the actions of Forecast.tla.            *)
(* The fitted values arrive as two-limb quantised positions relative to the configured bounds; AbsVal      *)
(* maps them onto the abstract value grid of the machine (0 below lo, 1 = lo, 2 inside, 3 = hi, 4 above),  *)
(* so "the result lies in the set the specification allows" is literally Forecast!FitResultOK.             *)
(* Events:  New [mstyle, tstyle]                          a new forecaster with bounds of these shapes      *)
(*          Fit [given, sq, outcome, mq, tq, tau_same, gen_inside, rt_m, rt_tau, opt_e15, eq_e15]           *)
(*          Cum [M, tau, outcome, agree_e15, lin_e15, resc_e15]                                             *)
(*          Rebound [mstyle, tstyle, outcome]             the caller assigned other bounds to the object     *)
EXTENDS Forecast, TraceLib, Quant

VARIABLES l

tvars == <<vars, l>>

\* ---- thresholds (all of C05's tolerances live here) ------------------------------------------------------------
RoundTripTolE9 == 1000000       \* 1e-3 relative, in units of 1e-9
OptTolE15      == 1000000000    \* 1e-6 relative: curve_fit iterates towards the closed-form optimum
OptActiveTolE9 == 100000        \* 1e-4 relative when the optimum is a bound (the unconstrained optimum lies outside): the
                                \* trust-region reflective method approaches an active bound from the interior (observed 3.5e-6)
EquivTolE15    == 1000000000    \* 1e-6 relative: the same data in other units
LawTolE15      == 1000          \* 1e-12 of the largest value: rounding level

\* quantised position -> abstract value of the machine
AbsVal(style, q) == IF IsNaN(q) THEN NaN
                    ELSE IF QLt(q, QS) THEN R(0)
                    ELSE IF q = QS THEN R(1)
                    ELSE IF style = "lower" THEN R(2)
                    ELSE IF QLt(q, Q2S) THEN R(2)
                    ELSE IF q = Q2S THEN R(3)
                    ELSE R(4)

TInit == /\ c = [part |-> "machine"] /\ bnd = [M |-> "lower", tau |-> "lower"]
         /\ fitted = "none" /\ M_ = Unset /\ tau_ = Unset
         /\ hist = <<>> /\ obs = [kind |-> "none"] /\ exp = <<>>
         /\ l = 1

StepNew(e) == /\ bnd' = [M |-> e.mstyle, tau |-> e.tstyle]
              /\ fitted' = "none" /\ M_' = Unset /\ tau_' = Unset
              /\ hist' = <<>> /\ obs' = [kind |-> "none"] /\ exp' = <<>>
              /\ UNCHANGED c

\* the caller assigned another Bounds object of these shapes to the `bounds` field
StepRebound(e) == /\ Rebound([op |-> "rebound", M |-> e.mstyle, tau |-> e.tstyle])
                  /\ Report(e, IF e.outcome = "ok" THEN {} ELSE {"Outcome"})

StepFit(e) ==
    LET cl == [op |-> "fit", tau |-> IF e.given THEN AbsVal(bnd.tau, e.sq) ELSE NoTau]
        mv == AbsVal(bnd.M, e.mq)
        tv == AbsVal(bnd.tau, e.tq)
    IN  IF e.outcome # "ok"
        THEN UNCHANGED vars /\ Report(e, {"Outcome"})
        ELSE /\ IF e.given THEN FitFixed(cl, mv, tv) ELSE FitFree(cl, mv, tv)
             /\ Report(e,
                   (IF mv \in InB(AB(bnd.M)) THEN {} ELSE {"MInBounds"})
                   \cup (IF e.given \/ tv \in InB(AB(bnd.tau)) THEN {} ELSE {"TauInBounds"})
                   \cup (IF e.given /\ (tv # cl.tau \/ e.tau_same # 0) THEN {"FixedTauUnchanged"} ELSE {})
                   \cup (IF FitResultOK(cl, mv, tv) THEN {} ELSE {"FitResult"})
                   \cup (IF ~e.given /\ e.gen_inside /\ (e.rt_m > RoundTripTolE9 \/ e.rt_tau > RoundTripTolE9)
                         THEN {"RoundTrip"} ELSE {})
                   \cup (IF e.given /\ ~e.opt_active /\ e.opt_e15 > OptTolE15 THEN {"FixedTauOptimal"} ELSE {})
                   \cup (IF e.given /\ e.opt_active /\ e.opt_e9 > OptActiveTolE9 THEN {"FixedTauOptimal"} ELSE {})
                   \cup (IF e.eq_e15 > EquivTolE15 THEN {"Equivariant"} ELSE {}))

StepCum(e) ==
    /\ Forecast([op |-> "forecast", M |-> e.M, tau |-> e.tau])
    /\ LET o == obs'
       IN  Report(e,
              IF o.kind = "AttributeError"
              THEN (IF e.outcome # "ok" THEN {} ELSE {"Outcome"})       \* nothing fitted, nothing supplied: must fail
              ELSE IF e.outcome # "ok" THEN {"Outcome"}
              ELSE (IF e.agree_e15 > LawTolE15 THEN {"ScalingLaw"} ELSE {})
                   \cup (IF e.lin_e15 > LawTolE15 THEN {"Linear"} ELSE {})
                   \cup (IF e.resc_e15 > LawTolE15 THEN {"Rescale"} ELSE {}))

TNext == /\ l <= Len(Trace)
         /\ LET e == Trace[l]
            IN  CASE e.ev = "New" -> StepNew(e)
                  [] e.ev = "Fit" -> StepFit(e)
                  [] e.ev = "Cum" -> StepCum(e)
                  [] e.ev = "Rebound" -> StepRebound(e)
         /\ l' = l + 1

TraceSpec == TInit /\ [][TNext]_tvars
TraceAccepted == TLCGet("stats").diameter = Len(Trace) + 1
=============================================================================
