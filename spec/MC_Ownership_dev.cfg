SPECIFICATION Spec
CONSTANT MaxOps = 3
CONSTANT Deviation = "SimulateClampsInPlace"
INVARIANT NoWrite
INVARIANT KeptWasRead
INVARIANT ReadsKnown
CHECK_DEADLOCK FALSE
