SPECIFICATION Spec
CONSTANT N = 3
CONSTANT Closure = "ghost0"
CONSTANT InitialOnly = TRUE
CONSTANT PrevVals <- D_Prev4
CONSTANT MfVals <- D_Mf
CONSTANT RVals <- D_R100
CONSTANT AlphaTabs <- D_AConst
CONSTANT Export = FALSE
INVARIANT C01_Bounds
INVARIANT C01_Relaxes
INVARIANT C01_MonoX
INVARIANT C01_MonoT_First
CHECK_DEADLOCK FALSE
