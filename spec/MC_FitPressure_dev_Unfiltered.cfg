SPECIFICATION Spec
CONSTANT MaxRows = 2
CONSTANT Reps = 18
CONSTANT Deviation = "Unfiltered"
CONSTANT Export = FALSE
INVARIANT C18_FilterExcludes
CHECK_DEADLOCK FALSE
