------------------------------- MODULE RelPerm -------------------------------
(* Brooks-Corey relative permeabilities (property C14): relative_permeabilities(saturations, params) *)
(* and relative_permeabilities_twophase(params, Sw) of bluebonnet.flow.flowproperties.               *)
(*                                                                                                    *)
(* A state is one call (`c`) together with what the call must return (`out`).  Three kinds of call:   *)
(*   "kr"   admissible parameters, one saturation record on the simplex.  TLC starts in the pure-oil   *)
(*          corner and walks the tenth-simplex by moving 1/10 of saturation from one phase to another  *)
(*          (action Move), so the action property Monotone compares neighbouring records.              *)
(*   "rej"  exactly one parameter outside its individual range, or saturations not summing to one.     *)
(*   "two"  the two-phase table helper for a water saturation at / below / above the residual.         *)
(* The model is exact over rationals (Rat.tla).  For an integer Corey exponent the value is exact      *)
(* (lo = hi); for a fractional exponent n TLC cannot take the power and the value is the bracket       *)
(* kmax*s^ceil(n) <= kr <= kmax*s^floor(n), valid for the clamped s in [0,1], plus the discrete facts  *)
(* (zero at/below residual, kmax at s >= 1).                                                           *)
(* Deviation "Corey_Unclamped" is what the shipped tree did (defect D8): no clamp of the normalised    *)
(* saturation, negative results set to zero afterwards; a negative base under a fractional power is    *)
(* NaN, modelled as a distinguished value.  Its configs must be refuted by TLC.                        *)
EXTENDS Rat, FiniteSets, TLC, Json

CONSTANTS Lattice,    \* "small" | "full": which parameter lattice is enumerated
          Deviation,  \* "none" | "Corey_Unclamped"
          Export      \* TRUE: print every case with its expected outcome

VARIABLES c, out
vars == <<c, out>>

Phases == {"o", "w", "g"}
P3(a, b, d) == [o |-> a, w |-> b, g |-> d]

\* ---- the validation ranges (also used by RelPermTrace.tla) ----------------------------------------------
NMin == R(1)          NMax == R(6)          \* Corey exponents
SrMin == Zero         SrMax == One          \* residual saturations
KmMin == Zero         KmMax == One          \* end-point relative permeabilities
SumTol == Q(1, 1000)                        \* |So + Sw + Sg - 1| beyond this is "does not sum to one"
TwoPhaseRows == 50

SatSum(S) == Add(Add(S.o, S.w), S.g)
ResSum(p) == Add(Add(p.sr.o, p.sr.w), p.sr.g)

\* ordered rule list: the first rule that fires names the error
RuleOrder == <<"SatSum", "ExpHigh", "ExpLow", "ResLow", "ResHigh", "KmLow", "KmHigh">>
Fires(rule, p, S) ==
    CASE rule = "SatSum"  -> Lt(SumTol, RAbs(Sub(SatSum(S), One)))
      [] rule = "ExpHigh" -> \E ph \in Phases : Lt(NMax, p.n[ph])
      [] rule = "ExpLow"  -> \E ph \in Phases : Lt(p.n[ph], NMin)
      [] rule = "ResLow"  -> \E ph \in Phases : Lt(p.sr[ph], SrMin)
      [] rule = "ResHigh" -> \E ph \in Phases : Lt(SrMax, p.sr[ph])
      [] rule = "KmLow"   -> \E ph \in Phases : Lt(p.km[ph], KmMin)
      [] rule = "KmHigh"  -> \E ph \in Phases : Lt(KmMax, p.km[ph])
FirstError(p, S) ==
    LET fired == {i \in DOMAIN RuleOrder : Fires(RuleOrder[i], p, S)}
    IN  IF fired = {} THEN "none" ELSE RuleOrder[CHOOSE i \in fired : \A j \in fired : i <= j]

\* the domain on which the property promises values
Admissible(p) == /\ \A ph \in Phases : /\ Leq(NMin, p.n[ph]) /\ Leq(p.n[ph], NMax)
                                       /\ Leq(SrMin, p.sr[ph]) /\ Leq(p.sr[ph], SrMax)
                                       /\ Leq(KmMin, p.km[ph]) /\ Leq(p.km[ph], KmMax)
                 /\ Lt(ResSum(p), One)
OnSimplex(S) == SatSum(S) = One /\ \A ph \in Phases : Leq(Zero, S[ph])

\* ---- Brooks-Corey -----------------------------------------------------------------------------------------
IsInt(x) == x[2] = 1
Floor(x) == x[1] \div x[2]
Ceil(x)  == IF IsInt(x) THEN x[1] ELSE Floor(x) + 1

SRaw(p, S, ph) == Div(Sub(S[ph], p.sr[ph]), Sub(One, ResSum(p)))       \* normalised saturation

NaNVal == [nan |-> TRUE, lo |-> Zero, hi |-> Zero]
Val(lo, hi) == [nan |-> FALSE, lo |-> lo, hi |-> hi]

KrClamped(p, S, ph) ==
    LET s == Clamp01(SRaw(p, S, ph))
    IN  Val(Mul(p.km[ph], PowN(s, Ceil(p.n[ph]))), Mul(p.km[ph], PowN(s, Floor(p.n[ph]))))

\* as shipped: power of the raw normalised saturation, then "negative permeability seems bad" -> 0
KrUnclamped(p, S, ph) ==
    LET s == SRaw(p, S, ph)
        n == p.n[ph]
        k == p.km[ph]
        a == RMax(Zero, Mul(k, PowN(s, Floor(n))))
        b == RMax(Zero, Mul(k, PowN(s, Ceil(n))))
    IN  IF IsInt(n) THEN Val(a, a)
        ELSE IF Lt(s, Zero) THEN NaNVal
        ELSE Val(RMin(a, b), RMax(a, b))

Kr(p, S, ph) == IF Deviation = "Corey_Unclamped" THEN KrUnclamped(p, S, ph) ELSE KrClamped(p, S, ph)

Eval(p, S) ==
    LET e == FirstError(p, S)
    IN  IF e # "none" THEN [kind |-> "error", rule |-> e]
        ELSE [kind |-> "ok", kr |-> [ph \in Phases |-> Kr(p, S, ph)],
              zero |-> [ph \in Phases |-> Leq(S[ph], p.sr[ph])],
              full |-> [ph \in Phases |-> Leq(One, SRaw(p, S, ph))]]

\* ---- two-phase helper: So from 0 to 1-Sw, Sg the other way, Sw constant --------------------------------------
TwoRow(sw, i) == P3(Mul(Sub(One, sw), Q(i, TwoPhaseRows - 1)), sw,
                    Mul(Sub(One, sw), Q(TwoPhaseRows - 1 - i, TwoPhaseRows - 1)))
TwoPhase(p, sw) == IF Lt(p.sr.w, sw) THEN [kind |-> "error", rule |-> "WaterMobile"]
                   ELSE [kind |-> "ok", nrows |-> TwoPhaseRows, sw |-> sw]

Outcome(x) == IF x.kind = "two" THEN TwoPhase(x.par, x.sw) ELSE Eval(x.par, x.sat)

\* ---- what TLC enumerates ---------------------------------------------------------------------------------------
Tenth == Q(1, 10)
ResVals == {Zero, Q(1, 10), Q(3, 10), One}
ResTriples == {t \in {P3(a, b, d) : a \in ResVals, b \in ResVals, d \in ResVals} :
                  Lt(Add(Add(t.o, t.w), t.g), One)}
H == Q(1, 2)
F == Q(3, 2)
Rot(a, b, d) == {P3(a, b, d), P3(b, d, a), P3(d, a, b)}
ExpProfiles ==   \* every phase meets every exponent of {1, 3/2, 2, 6}
    IF Lattice = "small" THEN {P3(R(1), R(1), R(1))} \cup Rot(F, R(2), R(6))
    ELSE {P3(R(1), R(1), R(1)), P3(F, F, F), P3(R(2), R(2), R(2)), P3(R(6), R(6), R(6))}
         \cup Rot(F, R(2), R(6)) \cup Rot(R(1), F, R(6)) \cup Rot(R(2), R(1), F) \cup Rot(R(6), R(1), R(2))
KmProfiles ==    \* every phase meets every end-point of {0, 1/2, 1}
    IF Lattice = "small" THEN Rot(H, One, Zero)
    ELSE {P3(One, One, One), P3(H, H, H)} \cup Rot(H, One, Zero)
ParamSets == {[n |-> e, sr |-> r, km |-> k] : e \in ExpProfiles, r \in ResTriples, k \in KmProfiles}

Corner == P3(One, Zero, Zero)
KrStart == {[kind |-> "kr", par |-> p, sat |-> Corner] : p \in ParamSets}

\* rejections: one field of an admissible base set replaced by an out-of-range value
BasePars == {[n |-> P3(R(1), R(1), R(1)), sr |-> P3(Zero, Q(1, 10), Zero), km |-> P3(One, One, One)],
             [n |-> P3(F, R(2), R(6)), sr |-> P3(Q(1, 10), Q(1, 10), Q(3, 10)), km |-> P3(H, One, Zero)]}
BadN  == {R(-1), Zero, Q(1, 2), Q(9, 10), Q(61, 10), Q(13, 2), R(7)}
BadSr == {R(-1), Q(-1, 10), Q(11, 10), R(2)}
BadKm == {R(-1), Q(-1, 10), Q(11, 10), R(2)}
BadPars == UNION {
      {[b EXCEPT !.n[ph]  = v] : v \in BadN}
 \cup {[b EXCEPT !.sr[ph] = v] : v \in BadSr}
 \cup {[b EXCEPT !.km[ph] = v] : v \in BadKm} : b \in BasePars, ph \in Phases}
GoodSats == {Corner, P3(Q(3, 10), Q(3, 10), Q(2, 5)), P3(Zero, Q(1, 10), Q(9, 10))}
BadTotals == {Zero, Q(9, 10), Q(99, 100), Q(101, 100), Q(11, 10), R(2)}
BadSats == {P3(a, b, Sub(Sub(t, a), b)) : a \in {Zero, Q(3, 10)}, b \in {Zero, Q(1, 10)}, t \in BadTotals}
RejCases == {[kind |-> "rej", par |-> p, sat |-> S] : p \in BadPars, S \in GoodSats}
       \cup {[kind |-> "rej", par |-> p, sat |-> S] : p \in BasePars, S \in BadSats}

TwoPars == {[n |-> e, sr |-> r, km |-> P3(One, H, H)] : e \in {P3(R(1), R(1), R(1)), P3(F, R(2), R(6))}, r \in ResTriples}
TwoSw == {Zero, Q(1, 20), Q(1, 10), Q(1, 5), Q(3, 10), Q(1, 2)}
TwoCases == {[kind |-> "two", par |-> p, sw |-> w] : p \in TwoPars, w \in TwoSw}

Init == /\ c \in KrStart \cup RejCases \cup TwoCases
        /\ out = Outcome(c)

Move(a, b) == /\ c.kind = "kr" /\ a # b /\ Leq(Tenth, c.sat[a])
              /\ c' = [c EXCEPT !.sat[a] = Sub(@, Tenth), !.sat[b] = Add(@, Tenth)]
              /\ out' = Outcome(c')
Next == \E a \in Phases, b \in Phases : Move(a, b)
Spec == Init /\ [][Next]_vars

\* ---- properties ---------------------------------------------------------------------------------------------------
TypeOK == /\ c.kind \in {"kr", "rej", "two"}
          /\ out.kind \in {"ok", "error"}
          /\ c.kind = "kr" => (Admissible(c.par) /\ OnSimplex(c.sat))
          /\ c.kind = "two" => Admissible(c.par)

IsKr == c.kind = "kr" /\ out.kind = "ok"

AdmissibleAccepted == c.kind = "kr" => out.kind = "ok"
InvalidRejected    == c.kind = "rej" => out.kind = "error"

Finite == IsKr => \A ph \in Phases : ~out.kr[ph].nan
InRange == IsKr => \A ph \in Phases : out.kr[ph].nan \/ (/\ Leq(Zero, out.kr[ph].lo)
                                                          /\ Leq(out.kr[ph].lo, out.kr[ph].hi)
                                                          /\ Leq(out.kr[ph].hi, c.par.km[ph]))
ZeroAtResidual == IsKr => \A ph \in Phases :
                     Leq(c.sat[ph], c.par.sr[ph]) => (out.kr[ph].nan \/ (out.kr[ph].lo = Zero /\ out.kr[ph].hi = Zero))
FullAtOne == IsKr => \A ph \in Phases :
                Leq(One, SRaw(c.par, c.sat, ph)) => (out.kr[ph].lo = c.par.km[ph] /\ out.kr[ph].hi = c.par.km[ph])
ExactForIntegers == IsKr => \A ph \in Phases : IsInt(c.par.n[ph]) => out.kr[ph].lo = out.kr[ph].hi

\* non-decreasing in the phase's own saturation: neighbouring records of the walk
KrLeq(a, b) == ~a.nan /\ ~b.nan /\ Leq(a.lo, b.lo) /\ Leq(a.hi, b.hi)
MonotoneStep == (c.kind = "kr" /\ out.kind = "ok" /\ out'.kind = "ok") =>
                   \A ph \in Phases : /\ Leq(c.sat[ph], c'.sat[ph]) => KrLeq(out.kr[ph], out'.kr[ph])
                                      /\ Leq(c'.sat[ph], c.sat[ph]) => KrLeq(out'.kr[ph], out.kr[ph])
Monotone == [][MonotoneStep]_vars

\* two-phase helper: accepted iff water is at or below its residual; rows sum to one; water immobile
TwoAcceptance == c.kind = "two" => (out.kind = "ok" <=> Leq(c.sw, c.par.sr.w))
TwoRowsOnSimplex == (c.kind = "two" /\ out.kind = "ok") =>
                       \A i \in 0..(TwoPhaseRows - 1) : OnSimplex(TwoRow(c.sw, i)) /\ TwoRow(c.sw, i).w = c.sw
TwoEndsAtPureGasAndOil == (c.kind = "two" /\ out.kind = "ok") =>
                       /\ TwoRow(c.sw, 0).o = Zero
                       /\ TwoRow(c.sw, TwoPhaseRows - 1).g = Zero
TwoWaterImmobile == (c.kind = "two" /\ out.kind = "ok") =>
                       \A i \in 0..(TwoPhaseRows - 1) :
                           LET v == Kr(c.par, TwoRow(c.sw, i), "w") IN ~v.nan /\ v.lo = Zero /\ v.hi = Zero

\* ---- export for the spec -> code replay -------------------------------------------------------------------------------
ExportCase == Export => PrintT(ToJson([tag |-> "CASE", c |-> c, out |-> out]))
=============================================================================
