SPECIFICATION Spec
CONSTANT N = 3
CONSTANT Closure = "asShipped"
CONSTANT InitialOnly = FALSE
CONSTANT PrevVals <- D_Prev4
CONSTANT MfVals <- D_Mf
CONSTANT RVals <- D_R
CONSTANT AlphaTabs <- D_ATabs
CONSTANT Export = FALSE
INVARIANT C01_Bounds
CHECK_DEADLOCK FALSE
