SPECIFICATION Spec
CONSTANT Prop = "TERMS"
CONSTANT Tier = "quick"
CONSTANT Deviation = "none"
CONSTANT Export = FALSE
INVARIANT ExportTerms
CHECK_DEADLOCK FALSE
