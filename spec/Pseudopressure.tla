------------------------------- MODULE Pseudopressure -------------------------------
(* C08, exact part: the table routes of the Al-Hussainy pseudopressure.                                    *)
(*   fluids.pseudopressure(p, mu, z)            = cumulative_trapezoid(2 p / (mu z), p, initial = 0)        *)
(*   build_pvt_gas(...)["pseudopressure"]       = 2 * cumulative_trapezoid(p / (mu z), p, initial = 0)      *)
(* PWL!CumTrap *is* the semantics of cumulative_trapezoid over exact rationals.  Every state is one 4-row  *)
(* table: a pressure grid from Grids and viscosity / z-factor columns over {1, 2, 1/2}.  On every table TLC *)
(* evaluates the transform exactly and checks                                                              *)
(*   ZeroAtFirst        m = 0 at the table's first (reference) pressure                                     *)
(*   Increasing         m strictly increasing along the table (all entries positive)                        *)
(*   Additive           m[a->c] = m[a->b] + m[b->c], the transform re-based at row a / row b                 *)
(*   ExactOnLinear      where mu z is one constant c the integrand is linear and the trapezoid rule exact:  *)
(*                      m_i = (p_i^2 - p_1^2) / c      (anchors the factor 2 and the orientation)           *)
(*   RoutesAgree        the two codings (2 * trapz(f) and trapz(2 f)) are the same function                 *)
(* and exports the table with its exact transform; the real fluids.pseudopressure must reproduce every     *)
(* exported value (bbv/props/c08.py).  Named deviations (their configs must be refuted):                   *)
(*   NoFactor2 (integrand p/(mu z)), Transposed (cumulative_trapezoid(p, integrand)), MuZInverted,         *)
(*   InitialOffset (initial = first pressure instead of 0).                                                 *)
EXTENDS PWL, FiniteSets, TLC, Json

CONSTANTS NGrids,     \* how many of the pressure grids below are enumerated
          Deviation,  \* "none" | "NoFactor2" | "Transposed" | "MuZInverted" | "InitialOffset"
          Export

VARIABLES grid, mu, z
vars == <<grid, mu, z>>

AllGrids == << <<1, 2, 4, 8>>, <<1, 2, 3, 4>>, <<2, 3, 5, 10>> >>
Grids    == {AllGrids[i] : i \in 1..NGrids}
Vals     == {Q(1, 1), Q(2, 1), Q(1, 2)}
N        == 4

Two == R(2)
RatSeq(g) == [i \in 1..Len(g) |-> R(g[i])]
Scale(c, s) == [i \in 1..Len(s) |-> Mul(c, s[i])]
Shift(c, s) == [i \in 1..Len(s) |-> Add(c, s[i])]

\* integrand 2 p / (mu z) of Al-Hussainy's transform, row by row
MuZ(m, zz, i)  == Mul(m[i], zz[i])
\* (TLC function constructors are lazy: SubSeq forces a table into a tuple so each entry is computed once)
Eager(s) == SubSeq(s, 1, Len(s))
Integrand(p, m, zz) == Eager([i \in 1..Len(p) |-> Div(Mul(Two, p[i]), MuZ(m, zz, i))])
HalfIntegrand(p, m, zz) == Eager([i \in 1..Len(p) |-> Div(p[i], MuZ(m, zz, i))])

\* implementation-shaped: the stand-alone transform, with the named slips
Transform(p, m, zz) ==
    CASE Deviation = "NoFactor2"     -> CumTrap(HalfIntegrand(p, m, zz), p)
      [] Deviation = "Transposed"    -> CumTrap(p, Integrand(p, m, zz))
      [] Deviation = "MuZInverted"   -> CumTrap(Eager([i \in 1..Len(p) |-> Mul(Mul(Two, p[i]), MuZ(m, zz, i))]), p)
      [] Deviation = "InitialOffset" -> Shift(p[1], CumTrap(Integrand(p, m, zz), p))
      [] OTHER                       -> CumTrap(Integrand(p, m, zz), p)
\* implementation-shaped: the column build_pvt_gas computes
TableColumn(p, m, zz) == Scale(Two, CumTrap(HalfIntegrand(p, m, zz), p))

P  == RatSeq(grid)
M  == Transform(P, mu, z)
\* the transform of the sub-table that starts at row a (re-based: its own reference is row a)
From(a) == Transform(SubSeq(P, a, N), SubSeq(mu, a, N), SubSeq(z, a, N))
Delta(a, c) == From(a)[c - a + 1]                    \* m[a -> c], a <= c

\* two levels (grid and viscosity column first, then the z column) so that TLC's workers share the tables
Chosen == z # <<>>
Init == grid \in Grids /\ mu \in [1..N -> Vals] /\ z = <<>>
Next == ~Chosen /\ z' \in [1..N -> Vals] /\ UNCHANGED <<grid, mu>>
Spec == Init /\ [][Next]_vars

\* (LET-bound tables are evaluated once per state and invariant)
Froms == <<Eager(From(1)), Eager(From(2)), Eager(From(3)), Eager(From(4))>>
ZeroAtFirst == Chosen => LET F == Froms IN \A a \in 1..N : F[a][1] = Zero
Increasing  == Chosen => LET m == Eager(M) IN StrictlyIncreasing(m)
Additive    == Chosen => LET F == Froms
               IN  \A a \in 1..N : \A b \in a..N : \A c \in b..N :
                      F[a][c - a + 1] = Add(F[a][b - a + 1], F[b][c - b + 1])
ConstMuZ    == \A i \in 1..N : MuZ(mu, z, i) = MuZ(mu, z, 1)
ExactOnLinear == (Chosen /\ ConstMuZ) => LET m == Eager(M)
                             IN  \A i \in 1..N : m[i] = Div(Sub(Mul(P[i], P[i]), Mul(P[1], P[1])), MuZ(mu, z, 1))
RoutesAgree == Chosen => Eager(TableColumn(P, mu, z)) = Eager(CumTrap(Integrand(P, mu, z), P))

ExportCase == (Export /\ Chosen) =>
    LET F == Froms
    IN  PrintT(ToJson([tag |-> "PP", p |-> grid, mu |-> mu, z |-> z, m |-> F[1], from2 |-> F[2], from3 |-> F[3]]))
=============================================================================
