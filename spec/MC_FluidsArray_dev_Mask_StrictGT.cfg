SPECIFICATION Spec
CONSTANT MaxLen = 2
CONSTANT Deviation = "Mask_StrictGT"
CONSTANT Export = FALSE
INVARIANT C11_Elementwise
CHECK_DEADLOCK FALSE
