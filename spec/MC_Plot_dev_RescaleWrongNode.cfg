SPECIFICATION Spec
CONSTANT Deviation = "RescaleWrongNode"
CONSTANT Export = FALSE
CONSTANT MaxNt = 4
CONSTANT MaxEvery = 3
CONSTANT MaxN = 10
CONSTANT Depth = 3
INVARIANT RescaleRule
CHECK_DEADLOCK FALSE
