------------------------------- MODULE Derivs -------------------------------
(* C13, exact design-level part: the hand-coded derivative functions of bluebonnet.fluids as *symbolic   *)
(* terms*, and the rules of differentiation they have to be instances of.                                 *)
(*                                                                                                        *)
(*  A. water.b_water_McCain(T, p) = P(p, T) * F(T): P a polynomial in p and T, F one in T.                *)
(*     water.b_water_McCain_dp(T, p) = DP(p, T) * DF(T).  Coefficients are the decimal literals of the    *)
(*     code, carried exactly as scaled integers  m * 10^e  (TLC integers are 32-bit: no 10^14             *)
(*     denominators).  Checked coefficient by coefficient: DP = formal d/dp of P, DF = F.                 *)
(*  B. oil.solution_gor_Standing below the bubble point and oil.b_o_bubblepoint_Standing are power laws   *)
(*     add + num * sym * (slope * x + shift) ^ exp  with rational numbers and symbolic (input-dependent)  *)
(*     factors; dgor_dpressure_Standing and db_o_dgor_Standing must be PowerRule of them (exact           *)
(*     rationals: 1/(0.83*18.2) = (1/0.83)*(1/18.2), 1/0.83 - 1, 1.2*1.2e-4, 1.2 - 1 = 0.2 ...).          *)
(*  C. the branch table at the bubble point: parent constant at and above p_b  =>  derivative exactly 0   *)
(*     at and above p_b; all-pressure oil compressibility = undersaturated correlation at and above.      *)
(*                                                                                                        *)
(* Each state is one case (a monomial, a power law, a side of the bubble point).  Named deviations        *)
(* reproduce the realistic slips; their configs must be refuted by TLC (non-vacuity).                     *)
(* Binding to the code: the coefficient lists are exported and compared with the coefficients read off    *)
(* the real functions (bbv/props/c13.py evaluates them on a polynomial object); the coefficient lists     *)
(* read off the real functions are themselves judged by DerivsTrace.tla with the rule CoefIsDerivative     *)
(* defined here; the sweep SweepC13.tla judges the values of the real functions against forward-mode AD.  *)
EXTENDS Rat, FiniteSets, TLC, Json

CONSTANTS Deviation,  \* "none" | "WaterForgetsFactor2" | "WaterKeepsConstantTerm" | "WaterOtherTFactor"
                      \* | "PowerKeepsExponent" | "PowerForgetsInnerSlope" | "GtInsteadOfGe"
          Export      \* TRUE: print the coefficient lists (for comparison with the real functions)

VARIABLE case
vars == <<case>>

\* ---- scaled decimals -----------------------------------------------------------------------------------
Dec(m, e) == [m |-> m, e |-> e]                     \* m * 10^e
DZero == Dec(0, 0)
RECURSIVE Canon(_)
Canon(d) == IF d.m = 0 THEN DZero
            ELSE IF d.m % 10 = 0 THEN Canon(Dec(d.m \div 10, d.e + 1)) ELSE d
DScale(k, d) == Canon(Dec(k * d.m, d.e))            \* integer multiple
DSame(a, b)  == Canon(a) = Canon(b)

\* ---- A. the water formation-volume-factor polynomial --------------------------------------------------
\* b_water_McCain:  (1 + dV_dp) * (1 + dV_dt)
\*   dV_dp = -1.95301e-9 p T - 1.72834e-13 p^2 T - 3.58922e-7 p - 2.25341e-10 p^2
\*   dV_dt = -1.0001e-2 + 1.33391e-4 T + 5.50654e-7 T^2
\* a polynomial in (p, T) is a function  <<i, j>> -> coefficient of p^i T^j  on the monomials it mentions
WaterP == (<<0, 0>> :> Dec(1, 0)) @@ (<<1, 1>> :> Dec(-195301, -14)) @@ (<<2, 1>> :> Dec(-172834, -18))
          @@ (<<1, 0>> :> Dec(-358922, -12)) @@ (<<2, 0>> :> Dec(-225341, -15))
WaterF == (<<0>> :> Dec(1000000 - 10001, -6)) @@ (<<1>> :> Dec(133391, -9)) @@ (<<2>> :> Dec(550654, -12))

\* b_water_McCain_dp:  d2V_dp2 * (1 + dV_dt)
\*   d2V_dp2 = -1.95301e-9 T - 2 * 1.72834e-13 p T - 3.58922e-7 - 2 * 2.25341e-10 p
WaterDP == LET two == IF Deviation = "WaterForgetsFactor2" THEN 1 ELSE 2
           IN  (<<0, 1>> :> Dec(-195301, -14)) @@ (<<1, 1>> :> Dec(two * (-172834), -18))
               @@ (<<0, 0>> :> Dec(-358922, -12)) @@ (<<1, 0>> :> Dec(2 * (-225341), -15))
               @@ (IF Deviation = "WaterKeepsConstantTerm" THEN (<<2, 0>> :> Dec(1, 0)) ELSE <<>>)
WaterDF == IF Deviation = "WaterOtherTFactor"
           THEN (<<0>> :> Dec(1000000 - 10001, -6)) @@ (<<1>> :> Dec(133391, -9)) @@ (<<2>> :> Dec(550645, -12))
           ELSE WaterF

Coef(poly, mono) == IF mono \in DOMAIN poly THEN poly[mono] ELSE DZero

\* the rule, coefficient by coefficient: [p^(i-1) T^j] dP/dp = i * [p^i T^j] P
FormalDpCoef(poly, i, j) == DScale(i + 1, Coef(poly, <<i + 1, j>>))      \* coefficient of p^i T^j in d/dp poly

PDeg == 3       \* monomials p^i T^j examined: i in 0..PDeg, j in 0..TDeg (beyond every degree that occurs)
TDeg == 2
WaterMonos   == {<<i, j>> : i \in 0..PDeg, j \in 0..TDeg}
TFactorMonos == {<<j>> : j \in 0..TDeg}

WaterCoefOK(mono)   == DSame(Coef(WaterDP, mono), FormalDpCoef(WaterP, mono[1], mono[2]))
TFactorCoefOK(mono) == DSame(Coef(WaterDF, mono), Coef(WaterF, mono))

\* the same rule on coefficient lists *read off the real functions* (scaled integers on a common grid,
\* each rounded to nearest): used by DerivsTrace.tla.  cp: [x^i] parent, cd: [x^(i-1)] derivative function.
CoefIsDerivative(i, cp, cd) == Abs(i * cp - cd) <= i + 1

\* ---- B. power laws -------------------------------------------------------------------------------------
\* add + num * PROD sym[s]^.. * (slope.num * PROD slope.sym * x + shift) ^ exp ; shift may be symbolic
Syms == {"gas_gravity", "ten_pow_k", "sqrt_gravity_ratio"}      \* k = 0.0125 API - 0.00091 T
NoSym == [s \in Syms |-> Zero]
Sym1(s, x) == [NoSym EXCEPT ![s] = x]

InvDec(n, d) == Div(One, Q(n, d))                  \* 1 / (n/d), as the code writes 1 / 0.83

\* solution_gor_Standing below p_b:  gas_gravity * ((p / 18.2 + 1.4) * 10**k) ** (1 / 0.83)
RsParent == [add |-> Zero, num |-> One,
             sym |-> [NoSym EXCEPT !["gas_gravity"] = One, !["ten_pow_k"] = InvDec(83, 100)],
             slope |-> [num |-> InvDec(182, 10), sym |-> NoSym], shift |-> "1.4", exp |-> InvDec(83, 100)]
\* dgor_dpressure_Standing below p_b:
\*   gas_gravity / (0.83 * 18.2) * (p / 18.2 + 1.4) ** (1 / 0.83 - 1) * 10 ** (k / 0.83)
RsCoded  == [add |-> Zero, num |-> Div(One, Mul(Q(83, 100), Q(182, 10))),
             sym |-> [NoSym EXCEPT !["gas_gravity"] = One, !["ten_pow_k"] = InvDec(83, 100)],
             slope |-> [num |-> InvDec(182, 10), sym |-> NoSym], shift |-> "1.4",
             exp |-> IF Deviation = "PowerKeepsExponent" THEN InvDec(83, 100) ELSE Sub(InvDec(83, 100), One)]

\* b_o_bubblepoint_Standing:  0.9759 + 0.00012 * (R * sqrt_gravity_ratio + 1.25 T) ** 1.2
BobParent == [add |-> Q(9759, 10000), num |-> Q(12, 100000), sym |-> NoSym,
              slope |-> [num |-> One, sym |-> Sym1("sqrt_gravity_ratio", One)], shift |-> "1.25 T",
              exp |-> Q(12, 10)]
\* db_o_dgor_Standing:  1.2 * 1.2e-4 * (R * sqrt_gravity_ratio + 1.25 T) ** 0.2 * sqrt_gravity_ratio
BobCoded  == [add |-> Zero, num |-> Mul(Q(12, 10), Q(12, 100000)),
              sym |-> IF Deviation = "PowerForgetsInnerSlope" THEN NoSym ELSE Sym1("sqrt_gravity_ratio", One),
              slope |-> [num |-> One, sym |-> Sym1("sqrt_gravity_ratio", One)], shift |-> "1.25 T",
              exp |-> Q(2, 10)]

\* d/dx [add + c (a x + b)^n] = c n a (a x + b)^(n-1)
PowerRule(f) == [add |-> Zero,
                 num |-> Mul(Mul(f.num, f.exp), f.slope.num),
                 sym |-> [s \in Syms |-> Add(f.sym[s], f.slope.sym[s])],
                 slope |-> f.slope, shift |-> f.shift,
                 exp |-> Sub(f.exp, One)]

PowerLaws == [Rs |-> [parent |-> RsParent, coded |-> RsCoded], Bob |-> [parent |-> BobParent, coded |-> BobCoded]]
PowerOK(name) == PowerRule(PowerLaws[name].parent) = PowerLaws[name].coded

\* ---- C. the branch table at the bubble point -----------------------------------------------------------
Sides == {"below", "at", "above"}
\* solution_gor_Standing (scalar branch): `if pressure >= pressure_bubblepoint: solution_gor_initial`
RsBranch(side)   == IF side \in {"at", "above"} THEN "constant" ELSE "powerlaw"
\* dgor_dpressure_Standing: `if pressure >= pressure_bubblepoint: 0.0`
DRsBranch(side)  == IF Deviation = "GtInsteadOfGe"
                    THEN (IF side = "above" THEN "zero" ELSE "powerrule")
                    ELSE (IF side \in {"at", "above"} THEN "zero" ELSE "powerrule")
DerivOfBranch(b) == IF b = "constant" THEN "zero" ELSE "powerrule"
\* oil_compressibility_Standing: `if pressure >= pressure_bp: undersaturated (Spivey)` else the saturated assembly
CoBranch(side)   == IF Deviation = "GtInsteadOfGe"
                    THEN (IF side = "above" THEN "undersat" ELSE "assembly")
                    ELSE (IF side \in {"at", "above"} THEN "undersat" ELSE "assembly")
\* property C13: undersaturated correlation at and above the bubble point, the defining combination below it
CoRequired(side) == IF side = "below" THEN "assembly" ELSE "undersat"
BranchOK(side)   == DerivOfBranch(RsBranch(side)) = DRsBranch(side) /\ CoBranch(side) = CoRequired(side)

\* ---- cases ---------------------------------------------------------------------------------------------
Cases == {[kind |-> "water", mono |-> m] : m \in WaterMonos}
         \cup {[kind |-> "tfactor", mono |-> m] : m \in TFactorMonos}
         \cup {[kind |-> "power", name |-> n] : n \in DOMAIN PowerLaws}
         \cup {[kind |-> "branch", side |-> s] : s \in Sides}

Init == case \in Cases
Next == UNCHANGED case
Spec == Init /\ [][Next]_vars

WaterDerivativeIsFormal == case.kind = "water"   => WaterCoefOK(case.mono)
WaterSameTFactor        == case.kind = "tfactor" => TFactorCoefOK(case.mono)
PowerRuleHolds          == case.kind = "power"   => PowerOK(case.name)
BranchTable             == case.kind = "branch"  => BranchOK(case.side)

\* ---- export --------------------------------------------------------------------------------------------
AsList(poly) == {[mono |-> k, m |-> poly[k].m, e |-> poly[k].e] : k \in DOMAIN poly}
ExportModel ==
    (Export /\ case = [kind |-> "branch", side |-> "at"]) =>
        PrintT(ToJson([tag |-> "WATER", P |-> AsList(WaterP), F |-> AsList(WaterF),
                       DP |-> AsList(WaterDP), DF |-> AsList(WaterDF)]))
=============================================================================
