SPECIFICATION Spec
CONSTANT Lattice = "small"
CONSTANT Deviation = "NoCopy"
CONSTANT Export = FALSE
INVARIANT NoMutation
CHECK_DEADLOCK FALSE
