SPECIFICATION Spec
CONSTANT Part = "bounds"
CONSTANT Deviation = "AcceptsEqual"
CONSTANT MaxDepth = 3
CONSTANT Rebounds = FALSE
CONSTANT Export = FALSE
INVARIANT C05_MalformedRejected
CHECK_DEADLOCK FALSE
