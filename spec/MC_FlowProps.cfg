SPECIFICATION Spec
CONSTANT Lattice = "small"
CONSTANT Deviation = "none"
CONSTANT Export = FALSE
INVARIANT TypeOK
INVARIANT NoMutation
INVARIANT OwnTable
INVARIANT ErrorBranches
INVARIANT NoKeyError
INVARIANT Increasing
INVARIANT MiIsValueAtPi
INVARIANT UserAlphaMi
INVARIANT AlphaAtNodes
INVARIANT AlphaPositive
INVARIANT LookupInRange
INVARIANT LookupAtNodes
INVARIANT RescaleEndpoints
CHECK_DEADLOCK FALSE
