------------------------------- MODULE RelPermTrace -------------------------------
(* Code -> spec for C14: calls of the real relative_permeabilities / relative_permeabilities_twophase  *)
(* over the continuous parameter box (fractional exponents, non-zero residuals, saturation records on  *)
(* the simplex including phases below residual), logged as quantised values and judged here.           *)
(* The ranges and the row count are the definitions of RelPerm.tla.                                     *)
(* Events (tid = one parameter set, seq = position):                                                    *)
(*   Par  [n, sr, km, ressum]       parameters; n quantised on the window [0,8], the rest on [0,1]       *)
(*   Rec  [S, sum, outcome, kr, below, zero]                                                            *)
(*                                  one saturation record and what the function returned for it;        *)
(*                                  below[ph] = (S_ph <= S_r,ph) and zero[ph] = (kr_ph == 0.0) are exact  *)
(*                                  float comparisons projected by the harness; consecutive Rec events   *)
(*                                  of one tid are judged for monotonicity                               *)
(*   Two  [sw, above, outcome, nrows]   a call of the two-phase helper; above = (Sw > S_wc) exactly      *)
(*   Row  [... as Rec ...]          one row of the table it returned                                     *)
(*   TwoEnd []                                                                                          *)
EXTENDS RelPerm, TraceLib, Quant

VARIABLES l, par, prev, two
tvars == <<vars, l, par, prev, two>>

\* rational -> limbs on a window [0, span]; the constants used here divide exactly
QDiff(x, span)  == <<(x[1] * 100000000) \div (x[2] * span), 0>>
QPoint(x, span) == <<100000000 + (x[1] * 100000000) \div (x[2] * span), 0>>
ExpSpan == 8
ASSUME \A x \in {NMin, NMax} : (x[1] * 100000000) % (x[2] * ExpSpan) = 0
ASSUME \A x \in {SrMin, SrMax, KmMin, KmMax, SumTol} : (x[1] * 100000000) % x[2] = 0

\* thresholds (units of 10^-17)
RangeTol  == Units(1000)        \* kr <= kmax up to 1e-14
MonoTol   == Units(1000)        \* rounding slack of the power function in a monotone sweep
SumOneTol == Units(100000)      \* a record "sums to one" when within 1e-12

NoPar == [ev |-> "none"]
NoRec == [ev |-> "none"]
NoTwo == [active |-> FALSE, nrows |-> 0, count |-> 0, sw |-> QS]

TInit == /\ c = [kind |-> "trace"] /\ out = [kind |-> "none"]
         /\ l = 1 /\ par = NoPar /\ prev = NoRec /\ two = NoTwo

OutOfRange(p) == \E ph \in Phases :
    \/ QLt(p.n[ph], QPoint(NMin, ExpSpan)) \/ QLt(QPoint(NMax, ExpSpan), p.n[ph])
    \/ QLt(p.sr[ph], QPoint(SrMin, 1)) \/ QLt(QPoint(SrMax, 1), p.sr[ph])
    \/ QLt(p.km[ph], QPoint(KmMin, 1)) \/ QLt(QPoint(KmMax, 1), p.km[ph])
ResidualsLeaveRoom(p) == QLt(p.ressum, Q2S)

SumIsOne(e)  == QWithin(e.sum, Q2S, SumOneTol)
SumIsOff(e)  == ~QWithin(e.sum, Q2S, QDiff(SumTol, 1))

PhaseBad(e, ph) ==
    LET k == e.kr[ph]
    IN  IF IsNaN(k) THEN {"Finite"}
        ELSE (IF QLe(QS, k) /\ QLeTol(k, par.km[ph], RangeTol) THEN {} ELSE {"InRange"})
             \cup (IF e.below[ph] /\ ~e.zero[ph] THEN {"ZeroAtResidual"} ELSE {})
             \cup (IF prev.ev = "none" \/ IsNaN(prev.kr[ph]) THEN {}
                   ELSE (IF QLt(prev.S[ph], e.S[ph]) /\ ~QLeTol(prev.kr[ph], k, MonoTol) THEN {"Monotone"} ELSE {})
                        \cup (IF QLt(e.S[ph], prev.S[ph]) /\ ~QLeTol(k, prev.kr[ph], MonoTol) THEN {"Monotone"} ELSE {}))

\* clauses violated by one record; sets prev' through the caller
RecBad(e) ==
    IF par.ev = "none" THEN {"Machinery:NoPar"}
    ELSE IF OutOfRange(par) \/ SumIsOff(e) THEN (IF e.outcome = "error" THEN {} ELSE {"Rejects"})
    ELSE IF ~SumIsOne(e) \/ ~ResidualsLeaveRoom(par) THEN {"Machinery:Domain"}
    ELSE IF e.outcome # "ok" THEN {"Accepts"}
    ELSE UNION {PhaseBad(e, ph) : ph \in Phases}
Judged(e) == par.ev # "none" /\ ~OutOfRange(par) /\ SumIsOne(e) /\ e.outcome = "ok"

StepPar(e) == par' = e /\ prev' = NoRec /\ two' = NoTwo

StepRec(e) == /\ Report(e, RecBad(e))
              /\ prev' = IF Judged(e) THEN e ELSE NoRec
              /\ UNCHANGED <<par, two>>

StepTwo(e) ==
    LET bad == IF par.ev = "none" THEN {"Machinery:NoPar"}
               ELSE IF OutOfRange(par) THEN (IF e.outcome = "error" THEN {} ELSE {"TwoRejects"})   \* inadmissible parameters: any Sw
               ELSE IF ~ResidualsLeaveRoom(par) THEN {"Machinery:Domain"}
               ELSE IF e.above THEN (IF e.outcome = "error" THEN {} ELSE {"TwoRejects"})
               ELSE (IF e.outcome = "ok" THEN {} ELSE {"TwoAccepts"})
                    \cup (IF e.outcome = "ok" /\ e.nrows # TwoPhaseRows THEN {"TwoRows"} ELSE {})
    IN  /\ Report(e, bad)
        /\ two' = [active |-> e.outcome = "ok", nrows |-> e.nrows, count |-> 0, sw |-> e.sw]
        /\ prev' = NoRec
        /\ UNCHANGED par

StepRow(e) ==
    LET bad == (IF two.active THEN {} ELSE {"Machinery:RowOutsideTable"})
               \cup (IF SumIsOne(e) THEN {} ELSE {"TwoSumToOne"})
               \cup (IF e.zero.w THEN {} ELSE {"TwoWaterImmobile"})
               \cup (IF e.S.w = two.sw THEN {} ELSE {"TwoSw"})
               \cup (IF SumIsOne(e) THEN RecBad(e) ELSE {})
    IN  /\ Report(e, bad)
        /\ prev' = IF Judged(e) THEN e ELSE NoRec
        /\ two' = [two EXCEPT !.count = @ + 1]
        /\ UNCHANGED par

StepTwoEnd(e) == /\ Report(e, IF two.count = two.nrows THEN {} ELSE {"Machinery:RowCount"})
                 /\ two' = NoTwo /\ prev' = NoRec /\ UNCHANGED par

TNext == /\ l <= Len(Trace)
         /\ LET e == Trace[l]
            IN  CASE e.ev = "Par"    -> StepPar(e)
                  [] e.ev = "Rec"    -> StepRec(e)
                  [] e.ev = "Two"    -> StepTwo(e)
                  [] e.ev = "Row"    -> StepRow(e)
                  [] e.ev = "TwoEnd" -> StepTwoEnd(e)
         /\ l' = l + 1
         /\ UNCHANGED vars

TraceSpec == TInit /\ [][TNext]_tvars
TraceAccepted == TLCGet("stats").diameter = Len(Trace) + 1
=============================================================================
