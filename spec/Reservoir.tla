------------------------------- MODULE Reservoir -------------------------------
(* One reservoir object (IdealReservoir / SinglePhaseReservoir) as a state machine over its public   *)
(* calls: simulate, recovery_factor(density=..), recovery_factor_interpolator.                        *)
(*                                                                                                    *)
(* The state is implementation-shaped (what the object's attributes hold):                            *)
(*   sim      which simulation the stored `time` / `pseudopressure` belong to                         *)
(*   cache    which simulation and mode the `recovery` attribute was computed from (or NoCache)       *)
(*   pfAttr   what the `pressure_fracface` attribute holds ("ctor" = the constructor's value)         *)
(*   tainted  a rejected simulate() has run; until the next successful one the object is unspecified, *)
(*            except that an object that has never been simulated still has no simulation: recovery   *)
(*            and interpolator calls raise (the code: some exception; observation kind "AnyError")    *)
(* The property side is declarative: FreshObs(hist) is what a *fresh* object shows after only the     *)
(* latest successful simulation and the calls made after it (property C10).  C10_Fresh relates both.  *)
(* Named deviations reproduce defects that the shipped tree had (D3, D4): their configs must be       *)
(* refuted by TLC, which shows the invariant is not vacuous.                                          *)
EXTENDS Integers, Sequences, FiniteSets, TLC, Json

CONSTANTS Kind,       \* "ideal" | "single" | "twophase" (= single phase without a schedule argument) | "multiphase" (simulate not implemented)
          MaxDepth,   \* bound on the number of calls in a history
          Deviation,  \* "none" | "KeepsCache" | "ClobbersPf"
          Setters,    \* TRUE (single phase): the caller may also assign another scalar to the `pressure_fracface` attribute between calls
          Export      \* TRUE: print every maximal history with its per-step expectations

VARIABLES sim, cache, pfAttr, tainted, hist, obs, exp

vars == <<sim, cache, pfAttr, tainted, hist, obs, exp>>

\* ---- the alphabet -----------------------------------------------------------------------------------
Grids    == {"A", "B", "C"}                 \* A and B have the same length, C another one
GridLen  == [g \in Grids |-> IF g = "C" THEN 2 ELSE 1]
\* schedules (single-phase only): S varies in time, K is constant at the constructor's pressure;
\* both have the length of grids A and B.  "none" = argument omitted.
\* "O" is a schedule with ONE element (a length no time grid of the alphabet has: always rejected, never broadcast).
\* With Setters: "setpf" assigns the alternative scalar to the attribute, "KA" is the schedule constant at that alternative value.
WithSet  == Setters /\ Kind = "single"
\* "E" (with Setters) is the empty schedule: length 0, which no time grid has either.
Scheds   == IF Kind = "single" THEN {"S", "K", "O"} \cup (IF WithSet THEN {"KA", "E"} ELSE {}) ELSE {}
SchedLen == [s \in {"S", "K", "O", "KA", "E"} |-> IF s = "O" THEN 3 ELSE IF s = "E" THEN 0 ELSE 1]
Modes    == {"flux", "density"}

NoSim   == [grid |-> "none", sched |-> "none"]
NoCache == [sim |-> NoSim, mode |-> "none"]

\* a schedule that is constant at the constructor's pressure *is* the scalar setting (C17)
Canon(s) == IF s = "K" THEN "ctor" ELSE IF s = "KA" THEN "alt" ELSE s

SimCalls == {[op |-> "simulate", grid |-> g, sched |-> s] : g \in Grids, s \in {"none"} \cup Scheds}
Calls    == SimCalls \cup {[op |-> "rf", mode |-> m] : m \in Modes} \cup {[op |-> "interp"]}
            \cup (IF WithSet THEN {[op |-> "setpf"]} ELSE {})

Rejected(c) == c.op = "simulate" /\ c.sched # "none" /\ SchedLen[c.sched] # GridLen[c.grid]

\* ---- declarative side: the fresh-object oracle ---------------------------------------------------------
NotImplemented(c) == Kind = "multiphase" /\ c.op = "simulate"     \* MultiPhaseReservoir.simulate always raises, changes nothing
IsGoodSim(c) == c.op = "simulate" /\ ~Rejected(c) /\ ~NotImplemented(c)

\* index of the latest successful simulate in h (0 if none)
LastSim(h) == IF \E i \in 1..Len(h) : IsGoodSim(h[i])
              THEN CHOOSE i \in 1..Len(h) : IsGoodSim(h[i]) /\ \A j \in (i + 1)..Len(h) : ~IsGoodSim(h[j])
              ELSE 0
\* a rejected simulate after the latest successful one leaves the object unspecified
Unspecified(h) == \E j \in (LastSim(h) + 1)..Len(h) : h[j].op = "simulate" /\ ~NotImplemented(h[j])

\* the scalar setting in force at call i of h: the alternative value once the caller has assigned it
AttrAt(h, i) == IF \E j \in 1..(i - 1) : h[j].op = "setpf" THEN "alt" ELSE "ctor"
FreshSim(h, i) == [grid |-> h[i].grid, sched |-> IF h[i].sched = "none" THEN AttrAt(h, i) ELSE Canon(h[i].sched)]

\* mode the interpolator of a fresh object sees after the calls h[k+1 .. n-1]: the mode of the last
\* recovery call, or flux when the interpolator has to compute recovery itself
RECURSIVE ModeAfter(_, _, _)
ModeAfter(h, k, n) == IF n <= k THEN "flux"
                      ELSE IF h[n].op = "rf" THEN h[n].mode
                      ELSE IF h[n].op \in {"interp", "setpf"} THEN ModeAfter(h, k, n - 1)   \* interp caches what it used
                      ELSE "flux"

FreshObs(h) ==
    LET n == Len(h)
        c == h[n]
        k == LastSim(h)
    IN  IF c.op = "setpf" THEN [kind |-> "set"]
        ELSE IF NotImplemented(c) THEN [kind |-> "NotImplementedError"]
        ELSE IF Rejected(c) THEN [kind |-> "ValueError"]
        ELSE IF Unspecified(h) /\ k = 0 THEN [kind |-> "AnyError"]   \* never simulated successfully: nothing to report on
        ELSE IF Unspecified(h) THEN [kind |-> "unspecified"]
        ELSE IF k = 0 THEN [kind |-> "RuntimeError"]
        ELSE IF c.op = "simulate" THEN [kind |-> "sim", of |-> FreshSim(h, n)]
        ELSE IF c.op = "rf" THEN [kind |-> "rf", of |-> FreshSim(h, k), mode |-> c.mode]
        ELSE [kind |-> "interp", of |-> FreshSim(h, k), mode |-> ModeAfter(h, k, n - 1)]

\* ---- implementation-shaped actions ---------------------------------------------------------------------
Record(c, o) ==
    /\ hist' = Append(hist, c)
    /\ obs' = o
    /\ exp' = Append(exp, [call |-> c, obs |-> o,
                            idem |-> (Len(hist) > 0 /\ hist[Len(hist)] = c /\ o.kind # "unspecified"
                                      /\ obs.kind # "unspecified")])

SimulateReject(c) ==
    /\ Rejected(c)
    /\ tainted' = TRUE                       \* the code has already replaced `time`: object unspecified
    /\ UNCHANGED <<sim, cache, pfAttr>>
    /\ Record(c, [kind |-> "ValueError"])

SimulateNotImplemented(c) ==
    /\ NotImplemented(c)
    /\ UNCHANGED <<sim, cache, pfAttr, tainted>>
    /\ Record(c, [kind |-> "NotImplementedError"])

Simulate(c) ==
    /\ c \in SimCalls /\ ~Rejected(c) /\ ~NotImplemented(c)
    /\ LET eff == IF c.sched = "none" THEN pfAttr ELSE Canon(c.sched)      \* schedule actually used
           s   == [grid |-> c.grid, sched |-> eff]
       IN  /\ sim' = s
           /\ cache' = IF Deviation = "KeepsCache" THEN cache ELSE NoCache
           /\ pfAttr' = IF Deviation = "ClobbersPf" /\ c.sched # "none" THEN Canon(c.sched) ELSE pfAttr
           /\ tainted' = FALSE
           /\ Record(c, [kind |-> "sim", of |-> s])

RF(c) ==
    /\ c.op = "rf"
    /\ IF tainted /\ sim = NoSim THEN UNCHANGED <<sim, cache, pfAttr, tainted>> /\ Record(c, [kind |-> "AnyError"])
       ELSE IF tainted THEN UNCHANGED <<sim, cache, pfAttr, tainted>> /\ Record(c, [kind |-> "unspecified"])
       ELSE IF sim = NoSim THEN UNCHANGED <<sim, cache, pfAttr, tainted>> /\ Record(c, [kind |-> "RuntimeError"])
       ELSE /\ cache' = [sim |-> sim, mode |-> c.mode]
            /\ UNCHANGED <<sim, pfAttr, tainted>>
            /\ Record(c, [kind |-> "rf", of |-> sim, mode |-> c.mode])

Interp(c) ==
    /\ c.op = "interp"
    /\ IF tainted /\ sim = NoSim THEN UNCHANGED <<sim, cache, pfAttr, tainted>> /\ Record(c, [kind |-> "AnyError"])
       ELSE IF tainted THEN UNCHANGED <<sim, cache, pfAttr, tainted>> /\ Record(c, [kind |-> "unspecified"])
       ELSE IF sim = NoSim THEN UNCHANGED <<sim, cache, pfAttr, tainted>> /\ Record(c, [kind |-> "RuntimeError"])
       ELSE LET used == IF cache = NoCache THEN [sim |-> sim, mode |-> "flux"] ELSE cache
            IN  /\ cache' = used
                /\ UNCHANGED <<sim, pfAttr, tainted>>
                /\ Record(c, [kind |-> "interp", of |-> used.sim, mode |-> used.mode])

\* the caller assigns another scalar to the attribute: nothing stored changes; the next simulate without a schedule uses it
SetPf(c) ==
    /\ c.op = "setpf"
    /\ pfAttr' = "alt"
    /\ UNCHANGED <<sim, cache, tainted>>
    /\ Record(c, [kind |-> "set"])

Do(c) == SimulateNotImplemented(c) \/ SimulateReject(c) \/ Simulate(c) \/ RF(c) \/ Interp(c) \/ SetPf(c)

Init == /\ sim = NoSim /\ cache = NoCache /\ pfAttr = "ctor" /\ tainted = FALSE
        /\ hist = <<>> /\ obs = [kind |-> "none"] /\ exp = <<>>

\* MaxDepth < 0: no bound on the history (used with VIEW AbstractView, under which the state space is finite)
Next == (MaxDepth < 0 \/ Len(hist) < MaxDepth) /\ \E c \in Calls : Do(c)

Spec == Init /\ [][Next]_vars

\* ---- properties ------------------------------------------------------------------------------------
TypeOK == /\ sim \in {NoSim} \cup [grid : Grids, sched : {"ctor", "S", "alt"}]
          /\ cache \in {NoCache} \cup [sim : [grid : Grids, sched : {"ctor", "S", "alt"}], mode : Modes]
          /\ pfAttr \in {"ctor", "S", "alt"}
          /\ tainted \in BOOLEAN

\* C10: what the object shows is what a fresh object shows
C10_Fresh == hist # <<>> => obs = FreshObs(hist)

\* C10: repeating a call returns the same thing (stated on the declarative side; replay checks the code)
C10_Idempotent == \A i \in 2..Len(hist) :
                     (hist[i] = hist[i - 1] /\ ~Unspecified(SubSeq(hist, 1, i)))
                        => FreshObs(SubSeq(hist, 1, i)) = FreshObs(SubSeq(hist, 1, i - 1))

\* C17: constant schedule == scalar setting; errors before any simulation; mismatch rejected
C17_ConstIsScalar == \A g \in Grids : (Kind = "single" /\ ~Rejected([op |-> "simulate", grid |-> g, sched |-> "K"]))
                        => /\ FreshSim(<<[op |-> "simulate", grid |-> g, sched |-> "K"]>>, 1)
                              = FreshSim(<<[op |-> "simulate", grid |-> g, sched |-> "none"]>>, 1)
                           /\ WithSet => FreshSim(<<[op |-> "setpf"], [op |-> "simulate", grid |-> g, sched |-> "KA"]>>, 2)
                                         = FreshSim(<<[op |-> "setpf"], [op |-> "simulate", grid |-> g, sched |-> "none"]>>, 2)
C17_ErrorsBeforeSim == (hist # <<>> /\ LastSim(hist) = 0 /\ hist[Len(hist)].op \in {"rf", "interp"})
                          => obs.kind \in {"RuntimeError", "AnyError"}
C17_MismatchRejected == (hist # <<>> /\ Rejected(hist[Len(hist)])) => obs.kind = "ValueError"

\* the cache never survives a simulation (the mechanism behind C10_Fresh)
CacheIsCurrent == (cache # NoCache /\ ~tainted) => cache.sim = sim

\* state-based form of C10 for histories of ANY length (checked with MaxDepth = Unbounded and VIEW AbstractView): what a call
\* shows belongs to the simulation the object currently holds, and the interpolator shows the cached mode
ObsCurrent == /\ obs.kind \in {"sim", "rf", "interp"} => obs.of = sim
              /\ obs.kind = "interp" => (cache # NoCache /\ cache.sim = sim /\ obs.mode = cache.mode)
              /\ obs.kind = "rf" => (cache = [sim |-> sim, mode |-> obs.mode])
AbstractView == <<sim, cache, pfAttr, tainted, obs>>
Unbounded == -1

\* ---- export of behaviours for replay into the code (spec -> code) ----------------------------------------
ExportLeaf == (Export /\ Len(hist) = MaxDepth) => PrintT(ToJson([tag |-> "BEH", kind |-> Kind, steps |-> exp]))
=============================================================================
