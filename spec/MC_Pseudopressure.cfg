SPECIFICATION Spec
CONSTANT NGrids = 1
CONSTANT Deviation = "none"
CONSTANT Export = TRUE
INVARIANT ZeroAtFirst
INVARIANT Increasing
INVARIANT Additive
INVARIANT ExactOnLinear
INVARIANT RoutesAgree
INVARIANT ExportCase
CHECK_DEADLOCK FALSE
