------------------------------- MODULE Plot -------------------------------
(* C20: the plotting helpers carry exactly the simulated data; the square-root axis is a true bijection. *)
(*                                                                                                        *)
(* What a helper draws is a list of artists, each an <<x, y>> pair of equally long sequences.  The module *)
(* states, over exact rationals on tiny reservoirs, which artists each helper produces:                   *)
(*   pseudo   plot_pseudopressure as the loop it is: levels 0..nt-1 are visited in order, level i is      *)
(*            drawn iff i % every = 0, against the node positions j/nx, j = 1..nx; rescaled on request to  *)
(*            (p - p[first node]) / (p_init - p[first node]), p_init = last node of level 0.               *)
(*   rf       plot_recovery_factor: one artist <<time, RF>>, x-scale "squareroot", same for both tick      *)
(*            settings.                                                                                    *)
(*   rate     plot_recovery_rate: one artist <<time, Gradient(RF, time)>> (numpy's second-order rule).     *)
(*   cmp      plot_production_comparison: the row filter / day re-indexing / cumulative sum pipeline and    *)
(*            the three artists <<t/tau, RF_lib>>, <<t/tau, cum/M>> (first axes), <<t/tau, pf>> (second).   *)
(*   transform  the transform pair as a two-state machine: kind in {sqrt, square}; Invert toggles;         *)
(*            Apply takes n*n to n (sqrt) and n to n*n (square).                                           *)
(* Every terminal state is exported with its expected artists and replayed into the real helpers.         *)
(* Named deviations (each refuted by TLC in its own config) are the mutants the property is about.        *)
EXTENDS PWL, FiniteSets, TLC, Json

CONSTANTS Deviation,  \* "none" | "OffByOne" | "WrongNodes" | "RescaleWrongNode" | "RateWithoutTime"
                      \* | "DividesByTau" | "InvertedSameDirection" | "InverseNotInverse"
          Export,     \* TRUE: print every terminal state with its expected artists
          MaxNt,      \* levels: nt in 1..MaxNt
          MaxEvery,   \* stride: every in 1..MaxEvery
          MaxN,       \* transform machine starts from n*n, n in 0..MaxN
          Depth       \* operations on the transform machine

VARIABLES c,      \* the case (constant along a behaviour)
          i,      \* loop counter (pseudo) / number of operations done (transform)
          out,    \* indices of the levels drawn so far (pseudo) / operations done (transform)
          kind,   \* transform machine: which transform the current object is
          vals    \* transform machine: the value before any operation and after each one
vars == <<c, i, out, kind, vals>>

Range(s) == {s[k] : k \in DOMAIN s}
RECURSIVE Pow2(_)
Pow2(n) == IF n = 0 THEN 1 ELSE 2 * Pow2(n - 1)

\* ---- tiny exact reservoirs ------------------------------------------------------------------------------------
\* dyadic values, so the floats the harness builds from them are exact.  Node 1 is the fracture face.
\* shape "A": constant frac-face value; shape "B": the frac-face value changes from level to level.
PInit == Q(47, 4)
Face(shape, lv) == IF shape = "A" THEN Q(3, 2) ELSE Sub(Q(3, 2), Q(lv, 8))
Level(shape, lv, j) ==
    IF j = 1 THEN Face(shape, lv)
    ELSE IF lv = 0 THEN PInit
    ELSE Add(Face(shape, lv), Mul(Sub(PInit, Face(shape, lv)), Q(Min(j - 1, Pow2(lv)), Pow2(lv))))
Levels(cs) == [lv \in 1..cs.nt |-> [j \in 1..cs.nx |-> Level(cs.shape, lv - 1, j)]]    \* 1-based: Levels[lv+1]

\* node positions (the code: numpy.linspace(1/nx, 1, nx))
X(nx) == [j \in 1..nx |-> IF Deviation = "WrongNodes" THEN Q(j - 1, nx - 1) ELSE Q(j, nx)]

\* what is drawn for level lv (0-based)
PInitOf(cs) == Level(cs.shape, 0, cs.nx)
RescaleRef(cs, lv) == IF Deviation = "RescaleWrongNode" THEN Level(cs.shape, 0, 1) ELSE Level(cs.shape, lv, 1)
Y(cs, lv) == [j \in 1..cs.nx |->
                IF cs.rescale
                THEN Div(Sub(Level(cs.shape, lv, j), RescaleRef(cs, lv)), Sub(PInitOf(cs), RescaleRef(cs, lv)))
                ELSE Level(cs.shape, lv, j)]

Selected(lv, every) == IF Deviation = "OffByOne" THEN lv % every = 1 ELSE lv % every = 0
\* declarative: the levels a finished plot shows, in order
DrawnSeq(nt, every) == [k \in 1..((nt + every - 1) \div every) |-> (k - 1) * every]

PseudoCases == {[part |-> "pseudo", nt |-> nt, nx |-> nx, every |-> ev, rescale |-> rs, shape |-> sh]
                  : nt \in 1..MaxNt, nx \in {2, 3, 5}, ev \in 1..MaxEvery, rs \in BOOLEAN, sh \in {"A", "B"}}

\* ---- recovery factor / recovery rate --------------------------------------------------------------------------
TimeGrid(g, nt) == [k \in 1..nt |->
                      CASE g = "quad" -> Q((k - 1) * (k - 1), 4)
                        [] g = "unif" -> Q(k - 1, 4)
                        [] g = "jump" -> <<Zero, Q(1, 8), Q(1, 2), Q(5, 8), R(2), Q(9, 4), R(4)>>[k]]
RFOf(s, t) == CASE s = "lin" -> Div(t, R(8))
                [] s = "sq" -> Div(Mul(t, t), R(32))
                [] s = "sat" -> Div(t, Add(t, One))
RFSeq(cs) == [k \in 1..cs.nt |-> RFOf(cs.rf, TimeGrid(cs.grid, cs.nt)[k])]
Index(n) == [k \in 1..n |-> R(k - 1)]
RateSeq(cs) == IF Deviation = "RateWithoutTime" THEN Gradient(RFSeq(cs), Index(cs.nt))
               ELSE Gradient(RFSeq(cs), TimeGrid(cs.grid, cs.nt))

Artist(x, y) == [x |-> x, y |-> y]
RFArtists(cs)   == <<Artist(TimeGrid(cs.grid, cs.nt), RFSeq(cs))>>
RateArtists(cs) == <<Artist(TimeGrid(cs.grid, cs.nt), RateSeq(cs))>>
RFScale   == [x |-> "squareroot", y |-> "linear"]
RateScale == [x |-> "log", y |-> "log"]

CurveCases(p, lo) == {[part |-> p, nt |-> nt, grid |-> g, rf |-> s, ticks |-> tk]
                        : nt \in lo..MaxNt, g \in {"quad", "unif", "jump"}, s \in {"lin", "sq", "sat"}, tk \in BOOLEAN}

\* ---- production comparison ------------------------------------------------------------------------------------
NaN == <<"nan">>
IsNaN(v) == Len(v) = 1
Row(d, g, p) == [d |-> d, g |-> g, p |-> p]
Data == [D1 |-> <<Row(R(0), Q(1, 2), R(500)), Row(R(1), R(1), R(500)), Row(R(2), Zero, R(500)),
                  Row(R(3), Q(3, 4), R(250)), Row(R(4), Q(1, 4), NaN), Row(R(5), R(1), R(125))>>,
         D2 |-> <<Row(R(0), R(1), R(500)), Row(R(1), Q(1, 2), R(500)), Row(R(2), Q(1, 4), R(250)),
                  Row(R(3), Q(1, 8), R(250))>>,
         D3 |-> <<Row(R(0), Q(3, 8), R(750)), Row(Q(3, 2), Zero, R(750)), Row(R(3), Q(5, 8), R(375)),
                  Row(Q(9, 2), Q(1, 8), R(375)), Row(R(6), Q(7, 8), R(125))>>]
Kept(r) == Lt(Zero, r.g) /\ ~IsNaN(r.p)
RECURSIVE FilterRows(_)
FilterRows(rows) == IF rows = <<>> THEN <<>>
                    ELSE IF Kept(Head(rows)) THEN <<Head(rows)>> \o FilterRows(Tail(rows))
                    ELSE FilterRows(Tail(rows))
UsedRows(cs) == IF cs.filter THEN FilterRows(Data[cs.data]) ELSE Data[cs.data]
\* time axis: the day *index* after filtering, the Days column otherwise
CmpTime(cs) == LET rows == UsedRows(cs)
               IN  [k \in 1..Len(rows) |-> IF cs.filter THEN R(k - 1) ELSE rows[k].d]
RECURSIVE CumSum(_, _)
CumSum(s, k) == IF k = 0 THEN Zero ELSE Add(CumSum(s, k - 1), s[k])
CmpCum(cs) == LET rows == UsedRows(cs) IN [k \in 1..Len(rows) |-> CumSum([m \in 1..Len(rows) |-> rows[m].g], k)]
CmpPf(cs)  == LET rows == UsedRows(cs) IN [k \in 1..Len(rows) |-> rows[k].p]
CmpX(cs)   == [k \in 1..Len(UsedRows(cs)) |-> Div(CmpTime(cs)[k], cs.tau)]
CmpCumScaled(cs) == [k \in 1..Len(UsedRows(cs)) |->
                       Div(CmpCum(cs)[k], IF Deviation = "DividesByTau" THEN cs.tau ELSE cs.M)]
\* the simulated recovery is not computable here: it is named, the harness obtains it from the public classes
RFLib(cs) == [sim |-> "SinglePhaseReservoir(80, pf, p_initial, FlowProperties(pvt, p_initial)).simulate(t/tau, pf).recovery_factor()"]
CmpDomain(cs) == cs.filter \/ \A k \in 1..Len(Data[cs.data]) : ~IsNaN(Data[cs.data][k].p)
CmpCases == {cs \in {[part |-> "cmp", data |-> dn, filter |-> f, window |-> w, M |-> mt[1], tau |-> mt[2]]
                        : dn \in DOMAIN Data, f \in BOOLEAN, w \in {0, 1}, mt \in {<<R(13), R(4)>>, <<Q(5, 2), R(7)>>}}
               : CmpDomain(cs)}

\* ---- transform machine ----------------------------------------------------------------------------------------
Kinds == {"sqrt", "square"}
Invert(k) == IF Deviation = "InvertedSameDirection" THEN k ELSE IF k = "sqrt" THEN "square" ELSE "sqrt"
IsSquare(v) == \E r \in 0..MaxN : r * r = v
Root(v) == CHOOSE r \in 0..MaxN : r * r = v
CanApply(k, v) == IF k = "sqrt" THEN IsSquare(v) ELSE v <= MaxN
Apply(k, v) == IF k = "sqrt" THEN Root(v)
               ELSE IF Deviation = "InverseNotInverse" THEN v ELSE v * v
ClassOf == [sqrt |-> "SquareRootTransform", square |-> "InvertedSquareRootTransform"]
TransformCases == {[part |-> "transform", n |-> n] : n \in 0..MaxN}

\* ---- the model ------------------------------------------------------------------------------------------------
StaticCases == CurveCases("rf", 1) \cup CurveCases("rate", 2) \cup CmpCases
Init == \/ /\ c \in PseudoCases \cup StaticCases
           /\ i = 0 /\ out = <<>> /\ kind = "none" /\ vals = <<>>
        \/ /\ c \in TransformCases
           /\ i = 0 /\ out = <<>> /\ kind = "sqrt" /\ vals = <<c.n * c.n>>

Visit == /\ c.part = "pseudo" /\ i < c.nt
         /\ out' = IF Selected(i, c.every) THEN Append(out, i) ELSE out
         /\ i' = i + 1
         /\ UNCHANGED <<c, kind, vals>>
DoInvert == /\ c.part = "transform" /\ i < Depth
            /\ kind' = Invert(kind)
            /\ out' = Append(out, [op |-> "invert", class |-> ClassOf[Invert(kind)]])
            /\ vals' = Append(vals, vals[Len(vals)])
            /\ i' = i + 1 /\ UNCHANGED c
DoApply == /\ c.part = "transform" /\ i < Depth /\ CanApply(kind, vals[Len(vals)])
           /\ out' = Append(out, [op |-> "apply", class |-> ClassOf[kind]])
           /\ vals' = Append(vals, Apply(kind, vals[Len(vals)]))
           /\ i' = i + 1 /\ UNCHANGED <<c, kind>>
Next == Visit \/ DoInvert \/ DoApply
Spec == Init /\ [][Next]_vars

Terminal == CASE c.part = "pseudo" -> i = c.nt
              [] c.part = "transform" -> i = Depth
              [] OTHER -> TRUE

\* ---- invariants: profile selection ---------------------------------------------------------------------------
IsPs == c.part = "pseudo"
\* at every point of the loop the drawn levels are exactly the multiples of `every` visited so far, in order
DrawnIsEveryKth == IsPs => out = DrawnSeq(i, c.every)
DrawnSetRule    == IsPs => Range(out) = {k \in 0..(i - 1) : k % c.every = 0}
FirstIsInitial  == (IsPs /\ i > 0) => (Len(out) > 0 /\ out[1] = 0)
\* node positions: nx equally spaced nodes ending at 1, none at 0
NodePositions == IsPs => LET x == X(c.nx) IN
                           /\ x[c.nx] = One /\ x[1] = Q(1, c.nx) /\ Lt(Zero, x[1])
                           /\ \A j \in 1..(c.nx - 1) : Sub(x[j + 1], x[j]) = Q(1, c.nx)
\* rescaled profiles run from 0 at the fracture to 1 wherever the level still has the initial value
RescaleRule == (IsPs /\ c.rescale) =>
                  \A k \in 1..Len(out) : LET y == Y(c, out[k]) IN
                      /\ y[1] = Zero
                      /\ \A j \in 1..c.nx : (Level(c.shape, out[k], j) = PInitOf(c) => y[j] = One)
                      /\ \A j \in 1..c.nx : Leq(Zero, y[j]) /\ Leq(y[j], One)
Unrescaled  == (IsPs /\ ~c.rescale) => \A k \in 1..Len(out) : Y(c, out[k]) = Levels(c)[out[k] + 1]

\* ---- invariants: curves ----------------------------------------------------------------------------------------
IsRF   == c.part = "rf"
IsRate == c.part = "rate"
OneArtist == (IsRF => Len(RFArtists(c)) = 1) /\ (IsRate => Len(RateArtists(c)) = 1)
\* the tick setting never changes what is drawn
TicksDoNotMatter == (IsRF => RFArtists(c) = RFArtists([c EXCEPT !.ticks = ~c.ticks]))
                    /\ (IsRate => RateArtists(c) = RateArtists([c EXCEPT !.ticks = ~c.ticks]))
\* the rate is the time derivative: exact for recovery linear or quadratic in time (second-order rule)
RateIsTimeDerivative ==
    IsRate => LET t == TimeGrid(c.grid, c.nt)
                  r == RateSeq(c)
              IN  /\ c.rf = "lin" => \A k \in 1..c.nt : r[k] = Q(1, 8)
                  /\ c.rf = "sq"  => \A k \in 2..(c.nt - 1) : r[k] = Div(t[k], R(16))
RateArtistShape == IsRate => RateArtists(c)[1].x = TimeGrid(c.grid, c.nt) /\ Len(RateArtists(c)[1].y) = c.nt

\* ---- invariants: comparison figure -----------------------------------------------------------------------------
IsCmp == c.part = "cmp"
CmpFilterRule == (IsCmp /\ c.filter) => /\ \A k \in 1..Len(UsedRows(c)) : Kept(UsedRows(c)[k])
                                        /\ Len(UsedRows(c)) = Cardinality({k \in 1..Len(Data[c.data]) : Kept(Data[c.data][k])})
                                        /\ CmpTime(c) = [k \in 1..Len(UsedRows(c)) |-> R(k - 1)]
CmpUnfiltered == (IsCmp /\ ~c.filter) => UsedRows(c) = Data[c.data]
\* cumulative production over M: multiplying back by M gives the running sum of the rows used
CmpCumOverM == IsCmp => \A k \in 1..Len(UsedRows(c)) :
                  /\ Mul(CmpCumScaled(c)[k], c.M) = CmpCum(c)[k]
                  /\ CmpCum(c)[k] = (IF k = 1 THEN UsedRows(c)[1].g ELSE Add(CmpCum(c)[k - 1], UsedRows(c)[k].g))
CmpTimeOverTau == IsCmp => \A k \in 1..Len(UsedRows(c)) : Mul(CmpX(c)[k], c.tau) = CmpTime(c)[k]

\* ---- invariants: transform pair --------------------------------------------------------------------------------
IsTr == c.part = "transform"
NInverts == Cardinality({k \in 1..Len(out) : out[k].op = "invert"})
\* Invert o Invert = id: the object's kind depends only on the parity of inversions
InvertInvolution == IsTr => kind = (IF NInverts % 2 = 0 THEN "sqrt" ELSE "square")
\* the forward transform is the square root: from n*n one application gives n
SqrtIsRoot == IsTr => \A k \in 1..Len(out) :
                 (out[k].op = "apply" /\ out[k].class = ClassOf["sqrt"]) => vals[k + 1] * vals[k + 1] = vals[k]
SquareIsSquare == IsTr => \A k \in 1..Len(out) :
                 (out[k].op = "apply" /\ out[k].class = ClassOf["square"]) => vals[k + 1] = vals[k] * vals[k]
\* Inverse o Apply = id, both ways round
InverseUndoes == IsTr => \A k \in 1..(Len(out) - 2) :
                 (out[k].op = "apply" /\ out[k + 1].op = "invert" /\ out[k + 2].op = "apply") => vals[k + 3] = vals[k]
TypeOK == /\ c.part \in {"pseudo", "rf", "rate", "cmp", "transform"}
          /\ i \in 0..(MaxNt + Depth)
          /\ kind \in Kinds \cup {"none"}

\* ---- export (spec -> code) --------------------------------------------------------------------------------------
ExportTerminal ==
    (Export /\ Terminal) =>
      CASE c.part = "pseudo" ->
             PrintT(ToJson([tag |-> "PSEUDO", nt |-> c.nt, nx |-> c.nx, every |-> c.every, rescale |-> c.rescale,
                            shape |-> c.shape, levels |-> Levels(c), drawn |-> out, x |-> X(c.nx),
                            y |-> [k \in 1..Len(out) |-> Y(c, out[k])]]))
        [] c.part = "rf" ->
             PrintT(ToJson([tag |-> "RF", nt |-> c.nt, grid |-> c.grid, rf |-> c.rf, ticks |-> c.ticks,
                            time |-> TimeGrid(c.grid, c.nt), recovery |-> RFSeq(c), artists |-> RFArtists(c),
                            scale |-> RFScale]))
        [] c.part = "rate" ->
             PrintT(ToJson([tag |-> "RATE", nt |-> c.nt, grid |-> c.grid, rf |-> c.rf, ticks |-> c.ticks,
                            time |-> TimeGrid(c.grid, c.nt), recovery |-> RFSeq(c), artists |-> RateArtists(c),
                            scale |-> RateScale]))
        [] c.part = "cmp" ->
             PrintT(ToJson([tag |-> "CMP", data |-> c.data, rows |-> Data[c.data], filter |-> c.filter,
                            window |-> c.window, M |-> c.M, tau |-> c.tau, n |-> Len(UsedRows(c)),
                            x |-> CmpX(c), cum_over_M |-> CmpCumScaled(c), pf |-> CmpPf(c), rf |-> RFLib(c),
                            scale |-> RFScale.x]))
        [] c.part = "transform" ->
             PrintT(ToJson([tag |-> "TRANSFORM", n |-> c.n, ops |-> out, vals |-> vals, first |-> ClassOf["sqrt"]]))

\* thresholds of the replay and of the trace validation (PlotTrace.tla), exported once
Tol == [x_ulp |-> 4,          \* node positions: ulps from the exact j/nx
        rescale_ulp |-> 4,    \* rescaled profile values: ulps from the exact quotient
        ratio_ulp |-> 4,      \* time over tau, cumulative over M
        rate_e15 |-> 100,     \* recovery rate: 1e-13 of (largest neighbouring recovery / smallest neighbouring step)
        rf_abs_e15 |-> 1000,  \* comparison figure: simulated recovery vs the public classes, absolute 1e-12
        sqrt_ulp |-> 2,       \* transform / inverse on floats, each way
        axes_e15 |-> 1000]    \* data -> display -> data through the Axes' transform pair: 1e-12 of the axis range
ExportRules == (Export /\ c.part = "transform" /\ c.n = 0 /\ i = 0) =>
                  PrintT(ToJson([tag |-> "RULES", tol |-> Tol, scale_name |-> RFScale.x, classes |-> ClassOf]))
=============================================================================
