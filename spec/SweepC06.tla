------------------------------- MODULE SweepC06 -------------------------------
(* C06 -- the returned gas Z-factor is the root of the Dranchuk-Abou-Kassem equation at the corresponding reduced *)
(* density, varies continuously with pressure, tends to 1 as p -> 0, is never a search bound or the starting      *)
(* guess; Hall-Yarbrough terminates and agrees within a few percent on the common range.                          *)
(* Rule tables for SweepCore; every threshold is a constant of GasEOS.tla.  One sweep = one isotherm (fixed T_r,  *)
(* fixed pseudocritical point) walked along increasing reduced pressure x = p_r.                                   *)
(*                                                                                                                 *)
(* Point fields written by bbv/props/c06.py                                                                        *)
(*   vals.z            Z quantised on [0, 5]  (NaN is reported by SweepCore as "NaN:z")                            *)
(*   agree.root_pub    E15 of |F_published(rho)| at rho = 0.27 p_r / (Z T_r)          clause Root                  *)
(*   agree.slope       ppm of |Z - Z_prev| / |p_r - p_r_prev| (absent at the first point)  clause Continuous       *)
(*   agree.toone       ppm of |Z - 1| / p_r, logged where GasEOS!ToOneApplies(p_r)      clause ToOne               *)
(*   flags.not_bound   Z is not 5 or 0.05 (rho not at an end of the search interval)    clause NotBound            *)
(*   flags.not_guess   Z is not 1.0 bitwise (rho_guess not returned unchanged)          clause NotGuess            *)
(*   side              "below" | "at" | "above" the mark p_r = ToOnePrMax                                          *)
(* profile "hy" (points of the common range only, GasEOS!InHYCommon):                                              *)
(*   flags.hy_done     z_factor_hallyarbrough returned within the watchdog time         clause HYDone              *)
(*   agree.hy_code     ppm of |Z_HY / Z - 1| (saturated when Z_HY is not finite)        clause HYAgree             *)
(* A failed root_pub / hy_code is reported as KNOWN-FINDING only when GasEOSTrace.tla has printed the key of open  *)
(* finding D6 for that very point; see GasEOS!ExplainZ, GasEOS!ExplainHY.                                          *)
EXTENDS TraceLib, Quant, GasEOS
VARIABLES l, h

NoMono == [nm \in {} |-> [dir |-> "const", tol |-> Units(0), where |-> "all"]]

ZAgree == [root_pub |-> [max |-> RootTolE15,  where |-> "all"],
           slope    |-> [max |-> SlopeMaxPpm, where |-> "all"],
           toone    |-> [max |-> ToOneMaxPpm, where |-> "below"]]

C06Rules ==
    [ \* isotherm through the whole validity rectangle: must reach down into the ToOne region and up beyond it
      dak   |-> [mono |-> NoMono, agreeMax |-> ZAgree, mustTrue |-> {"not_bound", "not_guess"},
                 need |-> {"below", "above"}, minPoints |-> 8],
      \* isotherm of a table produced by build_pvt_gas (10 psia upwards: never in the ToOne region)
      table |-> [mono |-> NoMono, agreeMax |-> ZAgree, mustTrue |-> {"not_bound", "not_guess"},
                 need |-> {"above"}, minPoints |-> 8],
      \* Hall-Yarbrough on the common range
      hy    |-> [mono |-> NoMono, agreeMax |-> [hy_code |-> [max |-> HYTolPpm, where |-> "all"]],
                 mustTrue |-> {"hy_done"}, need |-> {"none"}, minPoints |-> 3] ]

INSTANCE SweepCore WITH Rules <- C06Rules
=============================================================================
