SPECIFICATION Spec
CONSTANT Deviation = "GtInsteadOfGe"
CONSTANT Export = FALSE
INVARIANT BranchTable
CHECK_DEADLOCK FALSE
