SPECIFICATION Spec
CONSTANT Deviation = "ExplainCgByFormulaOnly"
CONSTANT Export = FALSE
INVARIANT TypeOK
INVARIANT LatticeInDomain
INVARIANT CornerInCommon
INVARIANT CommonInsideValidity
INVARIANT ToOneOutsideCommon
INVARIANT OnlyNamedClauses
INVARIANT RootOfNeitherIsViolation
INVARIANT HYExplainedOnlyNearPublished
INVARIANT CgExplainedOnlyStructurally
INVARIANT D6SignatureExplained
INVARIANT WaterSane
INVARIANT OilSane
CHECK_DEADLOCK FALSE
