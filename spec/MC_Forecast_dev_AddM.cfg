SPECIFICATION Spec
CONSTANT Part = "scale"
CONSTANT Deviation = "AddM"
CONSTANT MaxDepth = 3
CONSTANT Rebounds = FALSE
CONSTANT Export = FALSE
INVARIANT C05_Linear
CHECK_DEADLOCK FALSE
