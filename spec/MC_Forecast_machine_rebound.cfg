SPECIFICATION Spec
CONSTANT Part = "machine"
CONSTANT Deviation = "none"
CONSTANT MaxDepth = 3
CONSTANT Rebounds = TRUE
CONSTANT Export = FALSE
INVARIANT MachineTypeOK
INVARIANT C05_ForecastUses
INVARIANT C05_FitResult
INVARIANT C05_AttrsAreLatestFit
CHECK_DEADLOCK FALSE
