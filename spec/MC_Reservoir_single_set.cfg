SPECIFICATION Spec
CONSTANT Kind = "single"
CONSTANT MaxDepth = 4
CONSTANT Deviation = "none"
CONSTANT Setters = TRUE
CONSTANT Export = FALSE
INVARIANT TypeOK
INVARIANT C10_Fresh
INVARIANT C10_Idempotent
INVARIANT C17_ConstIsScalar
INVARIANT C17_ErrorsBeforeSim
INVARIANT C17_MismatchRejected
INVARIANT CacheIsCurrent
CHECK_DEADLOCK FALSE
