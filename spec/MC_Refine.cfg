SPECIFICATION Spec
INVARIANT Premises
CHECK_DEADLOCK FALSE
