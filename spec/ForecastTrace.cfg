SPECIFICATION TraceSpec
CONSTANT Part = "machine"
CONSTANT Deviation = "none"
CONSTANT MaxDepth = 0
CONSTANT Export = FALSE
POSTCONDITION TraceAccepted
CHECK_DEADLOCK FALSE
