SPECIFICATION TraceSpec
CONSTANT Part = "machine"
CONSTANT Deviation = "none"
CONSTANT MaxDepth = 0
CONSTANT Rebounds = TRUE
CONSTANT Export = FALSE
POSTCONDITION TraceAccepted
CHECK_DEADLOCK FALSE
