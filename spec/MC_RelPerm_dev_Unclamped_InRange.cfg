SPECIFICATION Spec
CONSTANT Lattice = "small"
CONSTANT Deviation = "Corey_Unclamped"
CONSTANT Export = FALSE
INVARIANT InRange
CHECK_DEADLOCK FALSE
