------------------------------- MODULE TraceLib -------------------------------
(* Shared plumbing of the trace specifications (code -> spec direction).                     *)
(* The trace is newline-delimited JSON written by the harness; every event has tid and seq.  *)
EXTENDS Integers, Sequences, FiniteSets, TLC, Json, IOUtils

Trace == ndJsonDeserialize(IOEnv.TRACE_FILE)

\* total reporting: a failed clause is printed, the step is still taken
Report(e, bad) == bad = {} \/ PrintT(ToJson([tag |-> "VERDICT", tid |-> e.tid, seq |-> e.seq, clauses |-> bad]))

Has(e, f) == f \in DOMAIN e
=============================================================================
