SPECIFICATION Spec
CONSTANT Kind = "single"
CONSTANT MaxDepth <- Unbounded
CONSTANT Deviation = "none"
CONSTANT Setters = FALSE
CONSTANT Export = FALSE
VIEW AbstractView
INVARIANT TypeOK
INVARIANT CacheIsCurrent
INVARIANT ObsCurrent
INVARIANT C17_MismatchRejected
CHECK_DEADLOCK FALSE
