SPECIFICATION Spec
CONSTANT Lattice = "small"
CONSTANT Deviation = "Corey_Unclamped"
CONSTANT Export = FALSE
INVARIANT Finite
CHECK_DEADLOCK FALSE
