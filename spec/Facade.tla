------------------------------- MODULE Facade -------------------------------
(* C19: the Fluid facade and the gas PVT-table builder reproduce the stand-alone correlations.        *)
(*                                                                                                    *)
(* Four parts, one case variable `c` (Init picks a case, TLC evaluates every invariant on it and      *)
(* exports the case with its expected outcome; nothing is computed in Python that is decided here):   *)
(*   wiring  which primitive a Fluid method / a table column calls and where every argument comes     *)
(*           from (an attribute of the object, an argument of the call, a key of gas_values, the       *)
(*           Sutton point, the row's pressure).  Stated twice: an explicit table (Delegate, RowRule)   *)
(*           and the by-name rule (a formal parameter of the primitive takes the source of the same    *)
(*           meaning); TLC checks they agree and that, for a parameter set whose values are pairwise   *)
(*           distinct, no other choice / permutation / omission of arguments gives the same abstract   *)
(*           call, so a swapped or wrong argument cannot hide in the replay.  The parameter sets the   *)
(*           repository's tests use (coinciding values) do hide them: deviation config, refuted.       *)
(*   grid    the pressure grid of build_pvt_gas: the numpy.arange length rule against the set          *)
(*           {10k : 10 <= 10k < max}; an inclusive end is a named deviation, refuted.                  *)
(*   pseudo  the pseudopressure column: 2 * cumulative trapezoid of p/(mu z) over p (exact, PWL).      *)
(*   sutton  pseudocritical point: mixing moments, zero-fraction component, hydrocarbon-only case      *)
(*           (exact rationals), rejection of an unknown fluid type.                                    *)
EXTENDS PWL, FiniteSets, TLC, Json

CONSTANTS Deviation,   \* "none" | "CoincidingValues" | "GridInclusive" | "ZeroFractionCounts"
          Export       \* TRUE: print every case with its expected outcome

VARIABLE c
vars == <<c>>

\* ==== wiring ==============================================================================================
Fields == <<"temperature", "api_gravity", "gas_specific_gravity", "solution_gor_initial", "salinity">>

\* a source is <<where, name>>: an attribute of the Fluid object or an argument of the method call
Fld(n) == <<"field", n>>
Arg(n) == <<"arg", n>>

Methods == {"water_FVF", "water_viscosity", "gas_FVF", "gas_viscosity", "oil_FVF", "oil_viscosity",
            "pressure_bubblepoint"}

PcArgs == <<"pressure", "temperature_pseudocritical", "pressure_pseudocritical">>
CallArgs == [water_FVF |-> <<"pressure">>, water_viscosity |-> <<"pressure">>, gas_FVF |-> PcArgs,
             gas_viscosity |-> PcArgs, oil_FVF |-> <<"pressure">>, oil_viscosity |-> <<"pressure">>,
             pressure_bubblepoint |-> <<>>]

\* required formal parameters of the stand-alone correlations (the harness compares them with inspect.signature)
OilFormals == <<"temperature", "pressure", "api_gravity", "gas_specific_gravity", "solution_gor_initial">>
DakFormals == <<"temperature", "pressure", "temperature_pseudocritical", "pressure_pseudocritical">>
Formal == [b_water_McCain |-> <<"temperature", "pressure">>,
           viscosity_water_McCain |-> <<"temperature", "pressure", "salinity">>,
           b_factor_DAK |-> DakFormals,
           viscosity_Sutton |-> DakFormals \o <<"specific_gravity">>,
           b_o_Standing |-> OilFormals,
           viscosity_beggs_robinson |-> OilFormals,
           pressure_bubblepoint_Standing |-> <<"temperature", "api_gravity", "gas_specific_gravity",
                                               "solution_gor_initial">>,
           z_factor_DAK |-> DakFormals,
           density_DAK |-> DakFormals \o <<"specific_gravity">>,
           compressibility_DAK |-> DakFormals]

\* the explicit wiring table of the facade (property C19, first sentence)
T_ == Fld("temperature")
P_ == Arg("pressure")
Delegate ==
    [water_FVF            |-> [prim |-> "b_water_McCain", args |-> <<T_, P_>>],
     water_viscosity      |-> [prim |-> "viscosity_water_McCain", args |-> <<T_, P_, Fld("salinity")>>],
     gas_FVF              |-> [prim |-> "b_factor_DAK",
                               args |-> <<T_, P_, Arg("temperature_pseudocritical"), Arg("pressure_pseudocritical")>>],
     gas_viscosity        |-> [prim |-> "viscosity_Sutton",
                               args |-> <<T_, P_, Arg("temperature_pseudocritical"), Arg("pressure_pseudocritical"),
                                          Fld("gas_specific_gravity")>>],
     oil_FVF              |-> [prim |-> "b_o_Standing",
                               args |-> <<T_, P_, Fld("api_gravity"), Fld("gas_specific_gravity"),
                                          Fld("solution_gor_initial")>>],
     oil_viscosity        |-> [prim |-> "viscosity_beggs_robinson",
                               args |-> <<T_, P_, Fld("api_gravity"), Fld("gas_specific_gravity"),
                                          Fld("solution_gor_initial")>>],
     pressure_bubblepoint |-> [prim |-> "pressure_bubblepoint_Standing",
                               args |-> <<T_, Fld("api_gravity"), Fld("gas_specific_gravity"),
                                          Fld("solution_gor_initial")>>]]

Range(s) == {s[i] : i \in DOMAIN s}

\* the by-name rule: a formal named like an argument of the call takes that argument, any other formal takes
\* the object's attribute of that meaning (the gas gravity for `specific_gravity` of a gas correlation)
BindFacade(m, formal) ==
    IF formal \in Range(CallArgs[m]) THEN Arg(formal)
    ELSE IF formal = "specific_gravity" THEN Fld("gas_specific_gravity")
    ELSE Fld(formal)
ByNameFacade(m) == LET f == Formal[Delegate[m].prim] IN [i \in 1..Len(f) |-> BindFacade(m, f[i])]

SourcesFacade(m) == Fields \o CallArgs[m]                       \* names, in a fixed order
SrcFacade(m) == [i \in 1..Len(SourcesFacade(m)) |->
                    IF i <= Len(Fields) THEN Fld(Fields[i]) ELSE Arg(CallArgs[m][i - Len(Fields)])]

\* ---- table rows (property C19, second sentence) ----------------------------------------------------------
\* sources of a row: gas_values keys, the row's pressure, the Sutton point of the composition
Key(n)  == <<"key", n>>
RowP    == <<"row", "pressure">>
Tpc     == <<"sutton", "temperature_pseudocritical">>
Ppc     == <<"sutton", "pressure_pseudocritical">>
KeyT    == Key("Reservoir Temperature (deg F)")
KeyG    == Key("Gas Specific Gravity")
Columns == {"z-factor", "Density", "viscosity", "compressibility"}
RowRule == ("z-factor"        :> [prim |-> "z_factor_DAK", args |-> <<KeyT, RowP, Tpc, Ppc>>])
        @@ ("Density"         :> [prim |-> "density_DAK", args |-> <<KeyT, RowP, Tpc, Ppc, KeyG>>])
        @@ ("viscosity"       :> [prim |-> "viscosity_Sutton", args |-> <<KeyT, RowP, Tpc, Ppc, KeyG>>])
        @@ ("compressibility" :> [prim |-> "compressibility_DAK", args |-> <<KeyT, RowP, Tpc, Ppc>>])
\* remaining columns are not correlations
PlainColumns == ("temperature" :> KeyT) @@ ("pressure" :> RowP)
PseudoRule == [column |-> "pseudopressure", factor |-> 2, integrand |-> <<"pressure", "viscosity", "z-factor">>,
               over |-> "pressure", initial |-> 0]
\* the Sutton point is that of (gravity, composition in the order N2, H2S, CO2, dryness as given)
SuttonRule == [prim |-> "pseudocritical_point_Sutton",
               args |-> <<KeyG, <<"nonhc", <<Key("N2"), Key("H2S"), Key("CO2")>>>>, <<"arg", "gas_dryness">>>>,
               nonhc |-> [prim |-> "make_nonhydrocarbon_properties",
                          formals |-> <<"nitrogen", "hydrogen_sulfide", "co2">>]]

BindRow(formal) ==
    CASE formal = "temperature" -> KeyT
      [] formal = "pressure" -> RowP
      [] formal = "temperature_pseudocritical" -> Tpc
      [] formal = "pressure_pseudocritical" -> Ppc
      [] formal = "specific_gravity" -> KeyG
ByNameRow(col) == LET f == Formal[RowRule[col].prim] IN [i \in 1..Len(f) |-> BindRow(f[i])]
SrcRow == <<KeyT, KeyG, Key("N2"), Key("H2S"), Key("CO2"), RowP, Tpc, Ppc>>

\* ---- a unit is a facade method or a table column -----------------------------------------------------------
Units == {<<"facade", m>> : m \in Methods} \cup {<<"row", col>> : col \in Columns}
Wired(u) == IF u[1] = "facade" THEN Delegate[u[2]] ELSE RowRule[u[2]]
ByName(u) == IF u[1] = "facade" THEN ByNameFacade(u[2]) ELSE ByNameRow(u[2])
Src(u)    == IF u[1] = "facade" THEN SrcFacade(u[2]) ELSE SrcRow

\* a parameter set, abstractly: which sources carry equal values.  Values are small naturals.
BaseEnv(u) == [s \in Range(Src(u)) |-> CHOOSE i \in 1..Len(Src(u)) : Src(u)[i] = s]
Envs(u) == {BaseEnv(u)} \cup
           {[BaseEnv(u) EXCEPT ![pr[1]] = BaseEnv(u)[pr[2]]] : pr \in Range(Src(u)) \X Range(Src(u))}
Injective(env) == \A s1, s2 \in DOMAIN env : s1 # s2 => env[s1] # env[s2]

\* the abstract call: primitive and the values it receives
Call(prim, args, env) == <<prim, [i \in 1..Len(args) |-> env[args[i]]]>>

\* every other way of filling the primitive's parameters from the available sources.
\* Full: any choice per slot and any shorter tuple of choices (an argument omitted);
\* Near: another source in one or two slots (wrong attribute, swapped pair), any permutation of the wired
\* arguments, one argument dropped.  Full is used for the parameter set with all values different, Near for
\* the sets with a coincidence (57 per unit), which keeps the run at seconds.
FullAlternatives(u) ==
    LET k == Len(Wired(u).args)
    IN  ([1..k -> Range(Src(u))] \cup (IF k > 0 THEN [1..(k - 1) -> Range(Src(u))] ELSE {})) \ {Wired(u).args}
NearAlternatives(u) ==
    LET d == Wired(u).args
        k == Len(d)
        S == Range(Src(u))
    IN  ({[d EXCEPT ![i] = s] : i \in 1..k, s \in S}
         \cup {[d EXCEPT ![ij[1]] = st[1], ![ij[2]] = st[2]] : ij \in {x \in (1..k) \X (1..k) : x[1] < x[2]}, st \in S \X S}
         \cup {[i \in 1..k |-> d[pm[i]]] : pm \in Permutations(1..k)}
         \cup {[i \in 1..(k - 1) |-> IF i < j THEN d[i] ELSE d[i + 1]] : j \in 1..k}) \ {d}
Alternatives(u, env) == IF env = BaseEnv(u) THEN FullAlternatives(u) ELSE NearAlternatives(u)
NoAlternativeHides(u, env) ==
    \A alt \in Alternatives(u, env) : Call(Wired(u).prim, alt, env) # Call(Wired(u).prim, Wired(u).args, env)
\* each value that reaches the primitive is carried by exactly one source
WiredValuesUnique(u, env) ==
    \A i \in 1..Len(Wired(u).args) : \A s \in Range(Src(u)) \ {Wired(u).args[i]} : env[s] # env[Wired(u).args[i]]

\* the parameter sets the repository's tests use: api = gas gravity = gor = 0 for the water methods, salinity 0
TestSuiteEnv(u) == [s \in Range(Src(u)) |->
                       IF s \in {Fld("api_gravity"), Fld("gas_specific_gravity"), Fld("solution_gor_initial"),
                                 Fld("salinity")} THEN 0 ELSE BaseEnv(u)[s]]

WiringCases == IF Deviation = "CoincidingValues"
               THEN {[part |-> "wiring", unit |-> <<"facade", m>>, env |-> TestSuiteEnv(<<"facade", m>>)] : m \in Methods}
               ELSE UNION {{[part |-> "wiring", unit |-> u, env |-> e] : e \in Envs(u)} : u \in Units}

\* ==== grid ================================================================================================
\* declarative: the 10-psi grid from 10 psi up to but excluding the maximum
Ceil(x)  == -((-x[1]) \div x[2])
Floor(x) == x[1] \div x[2]
Grid(max) == {p \in 1..Max(0, Ceil(max)) : p % 10 = 0 /\ p >= 10 /\ Lt(R(p), max)}
\* implementation-shaped: numpy.arange(10, max, 10) has ceil((max - 10) / 10) elements 10 + 10 i
ArangeLen(max) == LET x == Div(Sub(max, R(10)), R(10))
                  IN  IF Deviation = "GridInclusive" THEN Max(0, Floor(x) + 1) ELSE Max(0, Ceil(x))
GridSeq(max) == [k \in 1..ArangeLen(max) |-> 10 + 10 * (k - 1)]
\* an empty grid has no rows: build_pvt_gas may return an empty table or refuse; it never returns rows
GridOutcome(max) == IF Grid(max) = {} THEN "empty" ELSE "table"

MaxSet == {R(5), R(10), R(15), R(20), R(25), R(30), Q(30001, 1000), Q(61, 2), R(200), R(14000)}
GridCases == {[part |-> "grid", max |-> m] : m \in MaxSet}

\* ==== pseudopressure column ===============================================================================
Pseudo(ps, mus, zs) ==
    LET integrand == [j \in 1..Len(ps) |-> Div(ps[j], Mul(mus[j], zs[j]))]
        ct == CumTrap(integrand, ps)
    IN  [j \in 1..Len(ps) |-> Mul(R(PseudoRule.factor), ct[j])]
\* tiny exact tables: pressures from a grid, viscosity and z from small rationals
PsGrids == {<<R(10), R(20)>>, <<R(10), R(20), R(30)>>, <<R(10), R(20), R(30), R(40)>>}
MuVals  == {Q(1, 50), Q(3, 100)}
ZVals   == {Q(9, 10), One, Q(11, 10)}
PseudoCases == {[part |-> "pseudo", p |-> ps, mu |-> [j \in 1..Len(ps) |-> IF j % 2 = 1 THEN m1 ELSE m2],
                 z |-> [j \in 1..Len(ps) |-> IF j = 2 THEN z2 ELSE z1]]
                  : ps \in PsGrids, m1 \in MuVals, m2 \in MuVals, z1 \in ZVals, z2 \in ZVals}

\* ==== Sutton pseudocritical point =========================================================================
MwAir == Q(28964, 1000)
Rankine == Q(45967, 100)
\* non-hydrocarbon components <<fraction, molecular weight, critical temperature (R), critical pressure>>
\* in the order the library fixes: N2, H2S, CO2, then any others
N2Props  == <<Q(2801, 100), Q(22698, 100), Q(49226, 100)>>
H2SProps == <<Q(3408, 100), Q(67235, 100), Q(129997, 100)>>
CO2Props == <<Q(4401, 100), Q(54754, 100), Q(107067, 100)>>
Comp(f, props) == <<f>> \o props
Comps(n2, h2s, co2) == <<Comp(n2, N2Props), Comp(h2s, H2SProps), Comp(co2, CO2Props)>>

\* the four mixing sums the correlation depends on
Moments(comps) ==
    [f  |-> SumSeq([i \in 1..Len(comps) |-> comps[i][1]]),
     mw |-> SumSeq([i \in 1..Len(comps) |-> Mul(comps[i][1], comps[i][2])]),
     tc |-> SumSeq([i \in 1..Len(comps) |-> Mul(comps[i][1], comps[i][3])]),
     pc |-> SumSeq([i \in 1..Len(comps) |-> Mul(comps[i][1], comps[i][4])])]
\* deviation: a component is counted by its presence, not by its fraction
MomentsDev(comps) ==
    [f  |-> SumSeq([i \in 1..Len(comps) |-> comps[i][1]]),
     mw |-> SumSeq([i \in 1..Len(comps) |-> Mul(comps[i][1], comps[i][2])]),
     tc |-> SumSeq([i \in 1..Len(comps) |-> Mul(IF i > 3 THEN Q(1, 100) ELSE comps[i][1], comps[i][3])]),
     pc |-> SumSeq([i \in 1..Len(comps) |-> Mul(comps[i][1], comps[i][4])])]
Mom(comps) == IF Deviation = "ZeroFractionCounts" THEN MomentsDev(comps) ELSE Moments(comps)

\* hydrocarbon correlations: quadratics in the hydrocarbon gravity <<c0, c1, c2>>
Coef == [dry |-> [t |-> <<Q(1201, 10), R(429), Q(-629, 10)>>, p |-> <<Q(6711, 10), R(-14), Q(-343, 10)>>],
         wet |-> [t |-> <<Q(1643, 10), Q(3577, 10), Q(-677, 10)>>, p |-> <<R(744), Q(-1254, 10), Q(59, 10)>>]]
Quad(k, g) == Add(k[1], Add(Mul(k[2], g), Mul(k[3], Mul(g, g))))
KnownDryness == {"dry gas", "wet gas"}
CoefOf(dryness) == IF dryness = "dry gas" THEN Coef.dry ELSE Coef.wet

\* Wichert-Aziz correction: every term is a positive power of A = CO2 + H2S or of B = H2S
EpsTerms == <<[coef |-> 120, base |-> "A", expo |-> Q(9, 10)], [coef |-> -120, base |-> "A", expo |-> Q(8, 5)],
              [coef |-> 15, base |-> "B", expo |-> Q(1, 2)], [coef |-> -15, base |-> "B", expo |-> R(4)]>>
\* ... so it is a rational (0) when both vanish; otherwise TLC cannot evaluate it
Eps(a, b) == IF a = Zero /\ b = Zero /\ \A i \in 1..Len(EpsTerms) : Lt(Zero, EpsTerms[i].expo)
             THEN Zero ELSE <<"transcendental">>

\* the correlation as a function of the gravity, the moments and the correction (all exact)
SuttonOf(g, mom, h2s, eps, dryness) ==
    LET fhc   == Sub(One, mom.f)
        ghc   == Div(Sub(g, Div(mom.mw, MwAir)), fhc)
        tstar == Add(Mul(fhc, Quad(CoefOf(dryness).t, ghc)), mom.tc)
        pstar == Add(Mul(fhc, Quad(CoefOf(dryness).p, ghc)), mom.pc)
        ratio == Div(Sub(tstar, eps), Add(tstar, Mul(Mul(h2s, Sub(One, h2s)), eps)))
    IN  <<Sub(Sub(tstar, eps), Rankine), Mul(pstar, ratio)>>
SuttonOutcome(dryness) == IF dryness \in KnownDryness THEN "value" ELSE "ValueError"
\* the hydrocarbon-only correlation the point must reduce to
HydrocarbonOnly(g, dryness) == <<Sub(Quad(CoefOf(dryness).t, g), Rankine), Quad(CoefOf(dryness).p, g)>>

Gravities == {Q(11, 20), Q(13, 20), Q(7, 10), Q(4, 5), One, Q(6, 5), Q(3, 2)}
Fractions == {Zero, Q(1, 100), Q(1, 20)}
ExtraProps == {<<R(4), Q(94, 10), R(33)>>, <<R(18), R(1165), R(3200)>>, <<R(0), R(0), R(0)>>}
DrynessSet == {"dry gas", "wet gas", "Dry Gas", "dry", "wet", "oil", "gas", "", "wetgas", "black oil"}
SuttonCases ==
    {[part |-> "sutton_hc", g |-> g, dryness |-> d] : g \in Gravities, d \in KnownDryness}
    \cup {[part |-> "sutton_zero", n2 |-> a, h2s |-> b, co2 |-> k, extra |-> x]
             : a \in Fractions, b \in Fractions, k \in Fractions, x \in ExtraProps}
    \cup {[part |-> "dryness", dryness |-> d] : d \in DrynessSet}

\* ==== the model ===========================================================================================
Cases == WiringCases \cup GridCases \cup PseudoCases \cup SuttonCases
Init == c \in Cases
Next == UNCHANGED c
Spec == Init /\ [][Next]_vars

\* ---- invariants: wiring ------------------------------------------------------------------------------------
IsW == c.part = "wiring"
WiringIsByName == IsW => Wired(c.unit).args = ByName(c.unit)
WiringArity    == IsW => /\ Len(Wired(c.unit).args) = Len(Formal[Wired(c.unit).prim])
                         /\ Range(Wired(c.unit).args) \subseteq Range(Src(c.unit))
\* no argument of the call is dropped, and the row's pressure reaches every correlation of a row
CallArgsAllUsed == IsW => IF c.unit[1] = "facade"
                          THEN \A a \in Range(CallArgs[c.unit[2]]) : Arg(a) \in Range(Wired(c.unit).args)
                          ELSE {RowP, Tpc, Ppc, KeyT} \subseteq Range(Wired(c.unit).args)
\* a parameter set with pairwise different values exposes every mis-wiring ...
DistinctValuesExpose == (IsW /\ Injective(c.env)) => NoAlternativeHides(c.unit, c.env)
\* ... and, exactly, a mis-wiring can hide iff a value that reaches the primitive is carried by two sources
HidesIffShared == IsW => (NoAlternativeHides(c.unit, c.env) <=> WiredValuesUnique(c.unit, c.env))
\* refuted under Deviation = "CoincidingValues" (why the repository's tests cannot see a swapped argument)
EveryEnvExposes == IsW => NoAlternativeHides(c.unit, c.env)

\* ---- invariants: grid --------------------------------------------------------------------------------------
IsG == c.part = "grid"
GridIsArange   == IsG => Range(GridSeq(c.max)) = Grid(c.max)
GridExclusive  == IsG => \A k \in 1..ArangeLen(c.max) : Lt(R(GridSeq(c.max)[k]), c.max)
GridStartsAt10 == IsG => (ArangeLen(c.max) > 0 => GridSeq(c.max)[1] = 10)
GridComplete   == IsG => (ArangeLen(c.max) > 0 => Leq(c.max, R(GridSeq(c.max)[ArangeLen(c.max)] + 10)))
GridEmptyBelow == IsG => (Leq(c.max, R(10)) <=> GridOutcome(c.max) = "empty")

\* ---- invariants: pseudopressure ----------------------------------------------------------------------------
IsP == c.part = "pseudo"
PseudoStartsAt0 == IsP => Pseudo(c.p, c.mu, c.z)[1] = Zero
PseudoIncreasing == IsP => StrictlyIncreasing(Pseudo(c.p, c.mu, c.z))
\* the factor may sit inside or outside the integral (fluid.pseudopressure puts it inside)
PseudoFactorInside == IsP => Pseudo(c.p, c.mu, c.z)
                               = CumTrap([j \in 1..Len(c.p) |-> Div(Mul(R(2), c.p[j]), Mul(c.mu[j], c.z[j]))], c.p)

\* ---- invariants: Sutton ------------------------------------------------------------------------------------
IsHC == c.part = "sutton_hc"
IsZ  == c.part = "sutton_zero"
NoContaminants == Comps(Zero, Zero, Zero)
\* no contaminants: moments vanish, the correction vanishes, the point is the hydrocarbon-only correlation
ReducesToHydrocarbon ==
    IsHC => /\ Moments(NoContaminants) = [f |-> Zero, mw |-> Zero, tc |-> Zero, pc |-> Zero]
            /\ Eps(Zero, Zero) = Zero
            /\ SuttonOf(c.g, Moments(NoContaminants), Zero, Eps(Zero, Zero), c.dryness) = HydrocarbonOnly(c.g, c.dryness)
\* a zero-fraction extra component changes none of the quantities the point depends on
ZeroFractionInert ==
    IsZ => LET base == Comps(c.n2, c.h2s, c.co2)
               more == Append(base, Comp(Zero, c.extra))
           IN  /\ Mom(more) = Mom(base)
               /\ more[2][1] = base[2][1] /\ more[3][1] = base[3][1]     \* H2S and CO2 keep their places
\* and where TLC can evaluate the whole point (no acid gases, no N2 either) it is literally unchanged
ZeroFractionSamePoint ==
    (IsZ /\ c.n2 = Zero /\ c.h2s = Zero /\ c.co2 = Zero) =>
        \A g \in Gravities, d \in KnownDryness :
            SuttonOf(g, Mom(Append(Comps(Zero, Zero, Zero), Comp(Zero, c.extra))), Zero, Zero, d) = HydrocarbonOnly(g, d)
DrynessRule == c.part = "dryness" => (SuttonOutcome(c.dryness) = "value" <=> c.dryness \in {"dry gas", "wet gas"})

\* ---- export (spec -> code) ----------------------------------------------------------------------------------
ExportCase ==
    Export =>
      CASE c.part = "wiring" ->
             (c.env # BaseEnv(c.unit)) \/
             PrintT(ToJson([tag |-> "WIRING", unit |-> c.unit, prim |-> Wired(c.unit).prim,
                            args |-> Wired(c.unit).args, formals |-> Formal[Wired(c.unit).prim],
                            sources |-> Src(c.unit), alternatives |-> Cardinality(FullAlternatives(c.unit))]))
        [] c.part = "grid" ->
             PrintT(ToJson([tag |-> "GRID", max |-> c.max, n |-> ArangeLen(c.max), outcome |-> GridOutcome(c.max),
                            first |-> IF ArangeLen(c.max) > 0 THEN GridSeq(c.max)[1] ELSE 0,
                            last |-> IF ArangeLen(c.max) > 0 THEN GridSeq(c.max)[ArangeLen(c.max)] ELSE 0,
                            step |-> 10]))
        [] c.part = "pseudo" ->
             PrintT(ToJson([tag |-> "PSEUDO", p |-> c.p, mu |-> c.mu, z |-> c.z, expect |-> Pseudo(c.p, c.mu, c.z)]))
        [] c.part = "sutton_hc" ->
             PrintT(ToJson([tag |-> "SUTTON_HC", g |-> c.g, dryness |-> c.dryness,
                            expect |-> HydrocarbonOnly(c.g, c.dryness)]))
        [] c.part = "sutton_zero" ->
             PrintT(ToJson([tag |-> "SUTTON_ZERO", n2 |-> c.n2, h2s |-> c.h2s, co2 |-> c.co2, extra |-> c.extra]))
        [] c.part = "dryness" ->
             PrintT(ToJson([tag |-> "DRYNESS", dryness |-> c.dryness, outcome |-> SuttonOutcome(c.dryness)]))

\* rule tables the harness needs once (exported from an ASSUME-free operator evaluated on the first grid case)
ExportRules ==
    (Export /\ c.part = "grid" /\ c.max = R(10)) =>
        PrintT(ToJson([tag |-> "RULES", plain |-> PlainColumns, pseudo |-> PseudoRule, sutton |-> SuttonRule,
                       coef |-> Coef, rankine |-> Rankine, known_dryness |-> KnownDryness,
                       columns |-> Columns \cup DOMAIN PlainColumns \cup {PseudoRule.column},
                       ulp_max |-> 4, pseudo_rel_e15 |-> 1000, sutton_rel_e15 |-> 1000]))
=============================================================================
