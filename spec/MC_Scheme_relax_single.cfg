SPECIFICATION Spec
CONSTANT N = 3
CONSTANT Closure = "dirichlet"
CONSTANT InitialOnly = TRUE
CONSTANT PrevVals <- D_Prev4
CONSTANT MfVals <- D_Mf
CONSTANT RVals <- D_RBig
CONSTANT AlphaTabs <- D_ATabs
CONSTANT Export = FALSE
INVARIANT C01_Bounds
INVARIANT C01_FaceValue
INVARIANT C01_Relaxes
INVARIANT C01_MonoX
INVARIANT C01_MonoT_First
CHECK_DEADLOCK FALSE
