SPECIFICATION Spec
CONSTANT Deviation = "GridInclusive"
CONSTANT Export = FALSE
INVARIANT GridExclusive
CHECK_DEADLOCK FALSE
