------------------------------- MODULE SweepC08 -------------------------------
(* C08, code -> spec: the three routes to the Al-Hussainy gas pseudopressure, judged along pressure sweeps.   *)
(*   quadrature      gas.pseudopressure_Hussainy(T, p, Tpc, ppc, gravity[, pressure_standard])  (QUADPACK)     *)
(*   table           build_pvt_gas(composition, dryness, maximum_pressure)["pseudopressure"]  (10-psi table)   *)
(*   stand-alone     fluids.pseudopressure(pressure, viscosity, z_factor) on the columns of that table         *)
(*                                                                                                            *)
(* profile "table": every row of one table, in order.                                                          *)
(*    vals   m_table, m_alone   strictly increasing (quantised in the window [-1e9, 1e10] psi^2/cp)             *)
(*    agree  alone    E15rel(m_table, m_alone) <= 10^-13                                                        *)
(*           rebase   additivity of the table routes: the stand-alone transform of the sub-table that starts   *)
(*                    at an earlier row b (its own reference) against m_table[k] - m_table[b], relative to     *)
(*                    m_table[k]:  m[first -> k] = m[first -> b] + m[b -> k]              <= 10^-12             *)
(*    flags  zero_first_table, zero_first_alone   (both columns are exactly 0 at the table's first pressure)   *)
(* profile "quad":  ~50 rows of the same table (first rows, neighbours, an even spread, the last rows).        *)
(*    vals   m_quad             strictly increasing                                                            *)
(*    agree  quad_pairs   max over every *earlier* sampled row j of                                            *)
(*                          |dm_quad - dm_table| / budget(j, k) * 10^6   (ppm of the budget),                  *)
(*                        budget = h^2/12 (p_k - p_j) max|f''| + 1.49e-8 (|m_quad_j| + |m_quad_k|):             *)
(*                        the composite-trapezoid error bound of the table on [p_j, p_k] (f'' = second          *)
(*                        differences of the tabulated integrand 2p/(mu z), rows j-1 .. k+1) plus QUADPACK's   *)
(*                        default relative tolerance on each integral.  Demanded: error <= 4 budgets            *)
(*                        ("agree on the difference between any two pressures to quadrature accuracy");         *)
(*                        observed <= 1.03.                                                                      *)
(*           additive     E15rel(m(a->c), m(a->b) + m(b->c)) through the pressure_standard argument, (a,b,c)   *)
(*                        three consecutive sampled pressures            <= 10^-7 (QUADPACK epsrel 1.49e-8/integral) *)
(*    flags  zero_at_reference      pseudopressure_Hussainy(T, 14.7, ...) = 0 exactly (default reference)        *)
(*           zero_at_own_reference  pseudopressure_Hussainy(T, p, ..., pressure_standard = p) = 0 exactly       *)
(*           zero_at_zero_reference pseudopressure_Hussainy(T, 0, ..., pressure_standard = 0) = 0 exactly (the   *)
(*                                  textbook base of the integral; a reference of 0 is a reference)              *)
(*    agree  additive_zero  every fourth sampled row: m(0 -> p) = m(0 -> 14.7) + m(14.7 -> p)   <= 10^-7         *)
(* profile "alone": the stand-alone transform on random positive tables (2..64 rows, non-uniform grids).        *)
(*    vals   m_norm  = m / m[last], strictly increasing                                                         *)
(*    agree  exact   E15rel(m, the same trapezoid sum evaluated in exact rational arithmetic) <= 10^-13         *)
(*           rebase  as above                                                                                    *)
(*    flags  zero_first_alone                                                                                    *)
EXTENDS TraceLib, Quant
VARIABLES l, h

Inc == [dir |-> "inc", tol |-> Units(0), where |-> "all"]

C08Rules ==
  [table |-> [mono     |-> [m_table |-> Inc, m_alone |-> Inc],
              agreeMax |-> [alone  |-> [max |-> 100,  where |-> "all"],
                            rebase |-> [max |-> 1000, where |-> "all"]],
              mustTrue |-> {"zero_first_table", "zero_first_alone", "finite"},
              need     |-> {"none"}, minPoints |-> 20],
   quad  |-> [mono     |-> [m_quad |-> Inc],
              agreeMax |-> [quad_pairs |-> [max |-> 4 * 1000000, where |-> "all"],
                            additive   |-> [max |-> 100000000,   where |-> "all"],
                            additive_zero |-> [max |-> 100000000, where |-> "all"]],
              mustTrue |-> {"zero_at_reference", "zero_at_own_reference", "zero_at_zero_reference", "finite"},
              need     |-> {"none"}, minPoints |-> 12],
   alone |-> [mono     |-> [m_norm |-> Inc],
              agreeMax |-> [exact  |-> [max |-> 100,  where |-> "all"],
                            rebase |-> [max |-> 1000, where |-> "all"]],
              mustTrue |-> {"zero_first_alone", "finite"},
              need     |-> {"none"}, minPoints |-> 2]]

INSTANCE SweepCore WITH Rules <- C08Rules
=============================================================================
