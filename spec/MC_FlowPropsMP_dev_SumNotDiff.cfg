SPECIFICATION Spec
CONSTANT Prop = "C16"
CONSTANT Tier = "quick"
CONSTANT Deviation = "SumNotDiff"
CONSTANT Export = FALSE
INVARIANT C16_ZeroForConstantTables
CHECK_DEADLOCK FALSE
