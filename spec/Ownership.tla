------------------------------- MODULE Ownership -------------------------------
(* Cross-cutting contract of the library with caller-owned data (extended behaviour, check X01):        *)
(* every public operation only READS the arrays / tables the caller passes in; some operations KEEP a  *)
(* reference (the object then aliases caller data: a later caller-side write changes later results,    *)
(* which is recorded here as behaviour, not demanded).  The operation table is exported and the harness *)
(* executes every operation on real objects with digests of every caller array taken before and after. *)
(* A "Writes" deviation (an operation bumping a caller version) must be refuted.                        *)
EXTENDS Naturals, Sequences, FiniteSets, TLC, Json

CONSTANTS MaxOps, Deviation      \* Deviation: "none" | "SimulateClampsInPlace"

Arrays == {"time", "schedule", "table", "prod", "pvt", "t_fit", "y_fit", "saturations", "pressure"}

\* name |-> [reads, keeps]   keeps: caller arrays the resulting object still references afterwards
OpTable ==
  [ FlowProperties      |-> [reads |-> {"table"},              keeps |-> {"table"}],      \* shallow copy: columns are shared
    rescale             |-> [reads |-> {"table"},              keeps |-> {}],
    simulate            |-> [reads |-> {"time", "schedule"},   keeps |-> {"time"}],       \* self.time = time
    recovery_factor     |-> [reads |-> {"time"},               keeps |-> {}],
    interpolator        |-> [reads |-> {"time"},               keeps |-> {"time"}],
    fit                 |-> [reads |-> {"t_fit", "y_fit"},     keeps |-> {"t_fit", "y_fit"}],
    forecast_cum        |-> [reads |-> {"t_fit"},              keeps |-> {}],
    fit_pressure        |-> [reads |-> {"prod", "pvt"},        keeps |-> {}],
    relperm             |-> [reads |-> {"saturations"},        keeps |-> {}],
    correlations        |-> [reads |-> {"pressure"},           keeps |-> {}],
    pseudopressure      |-> [reads |-> {"pressure"},           keeps |-> {}] ]
OpNames == DOMAIN OpTable

VARIABLES ver, kept, done
vars == <<ver, kept, done>>

Init == ver = [a \in Arrays |-> 0] /\ kept = {} /\ done = <<>>

Writes(op) == IF Deviation = "SimulateClampsInPlace" /\ op = "simulate" THEN {"time"} ELSE {}

Do(op) == /\ ver' = [a \in Arrays |-> IF a \in Writes(op) THEN ver[a] + 1 ELSE ver[a]]
          /\ kept' = kept \cup OpTable[op].keeps
          /\ done' = Append(done, op)

Next == Len(done) < MaxOps /\ \E op \in OpNames : Do(op)
Spec == Init /\ [][Next]_vars

NoWrite == \A a \in Arrays : ver[a] = 0
KeptWasRead == \A op \in OpNames : OpTable[op].keeps \subseteq OpTable[op].reads
ReadsKnown == \A op \in OpNames : OpTable[op].reads \subseteq Arrays

ExportTable == PrintT(ToJson([tag |-> "OPS", ops |-> [op \in OpNames |-> OpTable[op]]]))
ASSUME ExportTable
=============================================================================
