SPECIFICATION Spec
CONSTANT Deviation = "WaterForgetsFactor2"
CONSTANT Export = FALSE
INVARIANT WaterDerivativeIsFormal
CHECK_DEADLOCK FALSE
