------------------------------- MODULE SweepC12 -------------------------------
(* Property C12: the black-oil correlations are continuous and correctly ordered at the bubble point.        *)
(* One sweep (tid) = one oil (T, API, gas gravity, initial GOR) with p_b > 50 psia, walked along the pressure   *)
(* ladder                                                                                                    *)
(*    15 psia ... p_b(1 - 2^-k) ... nextafter(p_b, -inf), p_b, nextafter(p_b, +inf) ... p_b(1 + 2^-k) ... 2.5 p_b *)
(* with k = 1..50, the scalar (Python float) branches of the library evaluated at every point.  The mark of    *)
(* the sweep is p_b = pressure_bubblepoint_Standing(T, API, gg, GOR_i); side "at" is p_b itself.               *)
(*                                                                                                            *)
(* Logged per point (bbv/props/c12.py; f_b = f(p_b); windows are per sweep):                                    *)
(*   vals  rs, rs_flat   solution_gor_Standing,            window [0, GOR_i]   (1 unit = 1e-17 GOR_i)           *)
(*         bo_up, bo_down b_o_Standing,                    window [0, B_o(p_b)]                                 *)
(*         bo_rise / bo_fall  the same value, logged only at the *coarse* points (k <= 30 and the far points)  *)
(*         rho            density_Standing,                window [0, rho_o(p_b)]                               *)
(*         mu_down        viscosity_beggs_robinson,        window [0, max over the sweep]                       *)
(*   agree jump_f   = ceil(|f(p) - f_b| / |f_b| * 1e17)             at the two nextafter neighbours of p_b      *)
(*         slope_f  = ceil(1000 * (|f(p) - f_b| / |f_b|) / (|p - p_b| / p_b))   at k = 8..44                    *)
(*                    (f in rs, bo, rho, mu; both capped at 2e9)                                                *)
(*         rs_gori  = E15(R_s(p), GOR_i; GOR_i)                     at and above p_b                            *)
(*         rs_inv   = E15(pressure_bubblepoint_Standing(T, API, gg, R_s(p)), p; p)   below p_b                  *)
(*   flags co_pos (oil_compressibility_undersat_Spivey > 0), mu_pos (mu_o > 0)  at and above p_b                *)
(*                                                                                                            *)
(* Clauses (all thresholds here):                                                                              *)
(*   Continuous@mark   a jump J of f at p_b shows as jump_f >= J/|f_b| 1e17 at 1-ulp distance and as            *)
(*                     slope_f >= 1000 J 2^44 / |f_b|.  A continuous f with logarithmic slope <= L moves by at   *)
(*                     most 2 L ulp over one ulp of p_b; measured slopes on the unchanged tree are              *)
(*                     rs 1.21, bo 0.94, rho 0.44, mu 2.2 (bounds 4, 4, 4, 8) and the two sides of the mark are  *)
(*                     *different formulas* that agree only to rounding (p_b is the rounded image of GOR_i and   *)
(*                     R_s below is the rounded inverse: measured 83e-17; bound 400e-17 ~ 18..36 ulp; mu_o has   *)
(*                     logarithmic slope up to 7 in R_s: bound 1000e-17).                                        *)
(*   RsNonDecreasing   rs nondec everywhere; tolerance 400e-17 GOR_i for the rounding of the round trip at the   *)
(*                     mark (measured: R_s(nextafter(p_b,-inf)) exceeds GOR_i by up to 6 ulp)                    *)
(*   RsFlatAbove       rs_flat constant with tolerance 0 from the mark on, and rs_gori = 0: bitwise GOR_i        *)
(*   RsInverts         rs_inv <= 1e-10 relative                                                                 *)
(*   BoRisesThenFalls  bo_up nondec up to and including the mark, bo_down noninc from the mark on (tolerance     *)
(*                     400e-17 B_o(p_b): at 1-ulp spacing B_o moves by less than its own ulp, so strictness is   *)
(*                     not observable there), and strictly increasing / decreasing between consecutive coarse    *)
(*                     points (bo_rise / bo_fall), where the true change exceeds 300 ulp                         *)
(*   MuFallsBelow      mu_down noninc up to and including the mark (tolerance 400e-17 of the sweep's maximum)    *)
(*   PositiveUndersat  co_pos, mu_pos                                                                           *)
(* Coverage: every sweep visits both sides and the mark itself and has at least 100 points.                     *)
EXTENDS TraceLib, Quant
VARIABLES l, h

RoundTrip == Units(400)     \* 4e-15 of the window: rounding of p_b(GOR_i) followed by its inverse

C12Rules ==
  [oil |->
    [mono |-> [rs      |-> [dir |-> "nondec", tol |-> RoundTrip, where |-> "all"],
               rs_flat |-> [dir |-> "const",  tol |-> Units(0),  where |-> "above"],
               bo_up   |-> [dir |-> "nondec", tol |-> RoundTrip, where |-> "below"],
               bo_down |-> [dir |-> "noninc", tol |-> RoundTrip, where |-> "above"],
               bo_rise |-> [dir |-> "inc",    tol |-> Units(0),  where |-> "strictbelow"],
               bo_fall |-> [dir |-> "dec",    tol |-> Units(0),  where |-> "strictabove"],
               mu_down |-> [dir |-> "noninc", tol |-> RoundTrip, where |-> "below"]],
     agreeMax |-> [jump_rs   |-> [max |-> 400,  where |-> "all"],
                   jump_bo   |-> [max |-> 400,  where |-> "all"],
                   jump_rho  |-> [max |-> 400,  where |-> "all"],
                   jump_mu   |-> [max |-> 1000, where |-> "all"],
                   slope_rs  |-> [max |-> 4000, where |-> "all"],
                   slope_bo  |-> [max |-> 4000, where |-> "all"],
                   slope_rho |-> [max |-> 4000, where |-> "all"],
                   slope_mu  |-> [max |-> 8000, where |-> "all"],
                   rs_gori   |-> [max |-> 0,      where |-> "above"],
                   rs_inv    |-> [max |-> 100000, where |-> "strictbelow"]],
     mustTrue |-> {"co_pos", "mu_pos"},
     need |-> {"below", "at", "above"},
     minPoints |-> 100]]

INSTANCE SweepCore WITH Rules <- C12Rules
=============================================================================
