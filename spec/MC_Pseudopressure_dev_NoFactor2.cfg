SPECIFICATION Spec
CONSTANT NGrids = 1
CONSTANT Deviation = "NoFactor2"
CONSTANT Export = FALSE
INVARIANT ZeroAtFirst
INVARIANT Increasing
INVARIANT Additive
INVARIANT ExactOnLinear
INVARIANT RoutesAgree
CHECK_DEADLOCK FALSE
