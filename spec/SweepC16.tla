------------------------------- MODULE SweepC16 -------------------------------
(* C16 at realistic magnitudes: sweeps along the pressure axis (table nodes with the table's saturation     *)
(* and off-node pressures with arbitrary saturations), judged by SweepCore.  No ordering clauses: only      *)
(* agreement magnitudes, in units of 1e-15 of the stated scale (1000 = 1e-12).                              *)
(*    cdiff  E15(compressibility_combined_func, Storage(p+1/2) - Storage(p-1/2)) where Storage is the       *)
(*           documented sum FlowPropsMP!StorageTerms evaluated with the code's own interpolators at fixed   *)
(*           saturation; scale Storage(p+1/2) + Storage(p-1/2) (all terms are non-negative)                 *)
(*    zero   E15(c, 0), same scale: logged for tables in which nothing depends on pressure                  *)
(*    slope  E15(c, analytic slope), same scale: logged for tables with 1/B linear in p on a grid on which  *)
(*           p +- 1/2 are nodes                                                                             *)
(*    phi    E15(c at a * phi, a * c at phi), scale a * storage scale                                       *)
(*    lam    E15(lambda_combined_func, documented sum FlowPropsMP!LambdaTerms), scale the sum                *)
(*    alpha  E15(alpha_multiphase, lambda_combined_func / compressibility_combined_func), scale the ratio    *)
(*    tab    E15(from_table(...).pvt_props["alpha"], the same ratio)   at table nodes                        *)
(*    intso  E15(c with the oil saturation given as an INTEGER 0 / 1 (Python int or integer array), c with the *)
(*           same saturation as a float), same scale: the value of a saturation does not depend on its dtype   *)
(*    objlam, objc  E15 of the same mobility / compressibility evaluated through the accessors the object built by *)
(*           from_table carries (obj.pvt, obj.kr) against the documented sum / the storage difference             *)
(*    kept   E15(mobility through the first object's accessors, documented sum) AFTER the caller's reference-     *)
(*           density dictionary was updated in place and a second object was built from it with another table:   *)
(*           an object keeps the fluid it was built with                                                          *)
(*    batch  E15 of mobility / compressibility of a cell evaluated in the full call against the same cell evaluated     *)
(*           alone (a one-cell call) and as the last cell of the call that holds only the cells up to it: the value    *)
(*           of a cell does not depend on which other cells are in the call                                            *)
EXTENDS TraceLib, Quant
VARIABLES l, h
Tol == 1000
A(w) == [max |-> Tol, where |-> w]
NoMono == [x \in {} |-> 0]
C16Rules ==
  [storage |-> [mono |-> NoMono,
                agreeMax |-> [cdiff |-> A("all"), zero |-> A("all"), slope |-> A("all"), phi |-> A("all"),
                              lam |-> A("all"), alpha |-> A("all"), tab |-> A("all"), intso |-> A("all"),
                              objlam |-> A("all"), objc |-> A("all"), kept |-> A("all"), batch |-> A("all")],
                mustTrue |-> {},
                need |-> {"none"}, minPoints |-> 3]]
INSTANCE SweepCore WITH Rules <- C16Rules
=============================================================================
