SPECIFICATION Spec
CONSTANT Kind = "single"
CONSTANT MaxDepth = 4
CONSTANT Deviation = "ClobbersPf"
CONSTANT Setters = FALSE
CONSTANT Export = FALSE
INVARIANT C10_Fresh
CHECK_DEADLOCK FALSE
