SPECIFICATION Spec
CONSTANT Kind = "single"
CONSTANT MaxDepth <- Unbounded
CONSTANT Deviation = "KeepsCache"
CONSTANT Export = FALSE
VIEW AbstractView
INVARIANT ObsCurrent
CHECK_DEADLOCK FALSE
