---------------------------- MODULE MaxPrincipleProof ----------------------------
(* The discrete maximum principle of the backward-Euler stencil of Scheme.tla, for EVERY number of    *)
(* nodes N and every integer data (rational data reduce to it: the rows are homogeneous in (u, b),    *)
(* so a common denominator of u, b, Lo, Hi cancels, and k[j] / D is an arbitrary non-negative         *)
(* rational mesh ratio times scaled diffusivity).  Checked by tlapm, not by TLC.                      *)
(*                                                                                                    *)
(*   row 1 ("dirichlet", as repaired):  u[1] = b[1]                                                    *)
(*   row j, 1 < j < N:   D u[j] + k[j] (u[j] - u[j-1]) + k[j] (u[j] - u[j+1]) = D b[j]                  *)
(*   row N (no flow):    D u[N] + k[N] (u[N] - u[N-1])                        = D b[N]                  *)
EXTENDS Integers, NaturalsInduction, TLAPS

LEMMA ProdNonNeg == ASSUME NEW a \in Int, NEW d \in Int, a >= 0, d >= 0 PROVE a * d >= 0
  OBVIOUS
LEMMA ProdPos == ASSUME NEW a \in Int, NEW d \in Int, a > 0, d > 0 PROVE a * d > 0
  OBVIOUS
LEMMA Distrib == ASSUME NEW a \in Int, NEW x \in Int, NEW y \in Int PROVE a * (x - y) = a * x - a * y
  OBVIOUS

(* one row at a node where u is at least its neighbours: the new value does not exceed the right-hand side *)
THEOREM RowUpper ==
  ASSUME NEW D \in Int, D > 0,
         NEW a \in Int, a >= 0, NEW b \in Int, b >= 0,
         NEW u \in Int, NEW ul \in Int, NEW ur \in Int, NEW p \in Int,
         u >= ul, u >= ur,
         D*u + a*(u - ul) + b*(u - ur) = D*p
  PROVE u <= p
<1>1. a*(u - ul) >= 0 BY ProdNonNeg
<1>2. b*(u - ur) >= 0 BY ProdNonNeg
<1>3. D*u <= D*p BY <1>1, <1>2
<1>4. SUFFICES ASSUME u > p PROVE FALSE OBVIOUS
<1>5a. u - p \in Int /\ u - p > 0 BY <1>4
<1>5. D*(u - p) > 0 BY <1>5a, ProdPos
<1>6. D*(u - p) = D*u - D*p BY Distrib
<1>7. QED BY <1>3, <1>5, <1>6

THEOREM RowLower ==
  ASSUME NEW D \in Int, D > 0,
         NEW a \in Int, a >= 0, NEW b \in Int, b >= 0,
         NEW u \in Int, NEW ul \in Int, NEW ur \in Int, NEW p \in Int,
         u <= ul, u <= ur,
         D*u + a*(u - ul) + b*(u - ur) = D*p
  PROVE u >= p
<1>1. a*(ul - u) >= 0 BY ProdNonNeg
<1>2. b*(ur - u) >= 0 BY ProdNonNeg
<1>1a. a*(ul - u) = a*ul - a*u /\ a*(u - ul) = a*u - a*ul BY Distrib
<1>2a. b*(ur - u) = b*ur - b*u /\ b*(u - ur) = b*u - b*ur BY Distrib
<1>3. D*u >= D*p BY <1>1, <1>2, <1>1a, <1>2a
<1>4. SUFFICES ASSUME u < p PROVE FALSE OBVIOUS
<1>5a. p - u \in Int /\ p - u > 0 BY <1>4
<1>5. D*(p - u) > 0 BY <1>5a, ProdPos
<1>6. D*(p - u) = D*p - D*u BY Distrib
<1>7. QED BY <1>3, <1>5, <1>6

(* a finite profile has a largest and a smallest node *)
THEOREM ArgMax ==
  ASSUME NEW N \in Nat, N >= 1, NEW u \in [1..N -> Int]
  PROVE \E i \in 1..N : \A j \in 1..N : u[j] <= u[i]
<1> DEFINE P(n) == (n >= 1 /\ n <= N) => \E i \in 1..n : \A j \in 1..n : u[j] <= u[i]
<1>1. P(0) OBVIOUS
<1>2. ASSUME NEW n \in Nat, P(n) PROVE P(n + 1)
  <2>1. CASE n = 0
    BY <2>1
  <2>2. CASE n >= 1 /\ n + 1 <= N
    <3>1. PICK i \in 1..n : \A j \in 1..n : u[j] <= u[i] BY <1>2, <2>2
    <3>2. CASE u[n + 1] <= u[i]
      <4>1. \A j \in 1..(n + 1) : u[j] <= u[i] BY <3>1, <3>2
      <4>2. i \in 1..(n + 1) BY <3>1
      <4>3. QED BY <4>1, <4>2
    <3>3. CASE u[n + 1] > u[i]
      <4>0. u[i] \in Int /\ u[n + 1] \in Int BY <2>2, <3>1
      <4>1. \A j \in 1..(n + 1) : u[j] <= u[n + 1]
        <5>1. TAKE j \in 1..(n + 1)
        <5>2. CASE j = n + 1 BY <5>2, <4>0
        <5>3. CASE j \in 1..n
          <6>1. u[j] \in Int /\ u[j] <= u[i] BY <5>3, <3>1, <2>2
          <6>2. QED BY <6>1, <4>0, <3>3
        <5>4. QED BY <5>2, <5>3
      <4>2. n + 1 \in 1..(n + 1) OBVIOUS
      <4>3. QED BY <4>1, <4>2
    <3>4. QED BY <3>2, <3>3, <2>2, <3>1
  <2>3. CASE n + 1 > N
    BY <2>3
  <2>4. QED BY <2>1, <2>2, <2>3
<1>3. \A n \in Nat : P(n)
  <2> HIDE DEF P
  <2> QED BY <1>1, <1>2, NatInduction, Isa
<1>4. QED BY <1>3

THEOREM ArgMin ==
  ASSUME NEW N \in Nat, N >= 1, NEW u \in [1..N -> Int]
  PROVE \E i \in 1..N : \A j \in 1..N : u[j] >= u[i]
<1> DEFINE P(n) == (n >= 1 /\ n <= N) => \E i \in 1..n : \A j \in 1..n : u[j] >= u[i]
<1>1. P(0) OBVIOUS
<1>2. ASSUME NEW n \in Nat, P(n) PROVE P(n + 1)
  <2>1. CASE n = 0
    BY <2>1
  <2>2. CASE n >= 1 /\ n + 1 <= N
    <3>1. PICK i \in 1..n : \A j \in 1..n : u[j] >= u[i] BY <1>2, <2>2
    <3>2. CASE u[n + 1] >= u[i]
      <4>1. \A j \in 1..(n + 1) : u[j] >= u[i] BY <3>1, <3>2
      <4>2. i \in 1..(n + 1) BY <3>1
      <4>3. QED BY <4>1, <4>2
    <3>3. CASE u[n + 1] < u[i]
      <4>0. u[i] \in Int /\ u[n + 1] \in Int BY <2>2, <3>1
      <4>1. \A j \in 1..(n + 1) : u[j] >= u[n + 1]
        <5>1. TAKE j \in 1..(n + 1)
        <5>2. CASE j = n + 1 BY <5>2, <4>0
        <5>3. CASE j \in 1..n
          <6>1. u[j] \in Int /\ u[j] >= u[i] BY <5>3, <3>1, <2>2
          <6>2. QED BY <6>1, <4>0, <3>3
        <5>4. QED BY <5>2, <5>3
      <4>2. n + 1 \in 1..(n + 1) OBVIOUS
      <4>3. QED BY <4>1, <4>2
    <3>4. QED BY <3>2, <3>3, <2>2, <3>1
  <2>3. CASE n + 1 > N
    BY <2>3
  <2>4. QED BY <2>1, <2>2, <2>3
<1>3. \A n \in Nat : P(n)
  <2> HIDE DEF P
  <2> QED BY <1>1, <1>2, NatInduction, Isa
<1>4. QED BY <1>3

(* ---- the stencil for N nodes -------------------------------------------------------------------------- *)
Stencil(N, D, k, b, u) ==
    /\ u[1] = b[1]
    /\ \A j \in 2..(N - 1) : D*u[j] + k[j]*(u[j] - u[j-1]) + k[j]*(u[j] - u[j+1]) = D*b[j]
    /\ N >= 2 => D*u[N] + k[N]*(u[N] - u[N-1]) + 0*(u[N] - u[N]) = D*b[N]

(* C01, upper half: no new value exceeds the largest right-hand side (previous profile clipped to m_i, and the *)
(* frac-face value): with Hi = m_i this is "pseudopressure never exceeds the initial value", for every N.       *)
THEOREM MaxPrinciple ==
  ASSUME NEW N \in Nat, N >= 1, NEW D \in Int, D > 0,
         NEW k \in [1..N -> Int], \A j \in 1..N : k[j] >= 0,
         NEW b \in [1..N -> Int], NEW u \in [1..N -> Int],
         Stencil(N, D, k, b, u),
         NEW Hi \in Int, \A j \in 1..N : b[j] <= Hi
  PROVE \A j \in 1..N : u[j] <= Hi
<1>1. PICK i \in 1..N : \A j \in 1..N : u[j] <= u[i] BY ArgMax
<1>2. u[i] <= b[i]
  <2>1. CASE i = 1 BY <2>1 DEF Stencil
  <2>2. CASE i \in 2..(N - 1)
    <3>1. D*u[i] + k[i]*(u[i] - u[i-1]) + k[i]*(u[i] - u[i+1]) = D*b[i] BY <2>2 DEF Stencil
    <3>2. /\ u[i] \in Int /\ u[i-1] \in Int /\ u[i+1] \in Int /\ b[i] \in Int /\ k[i] \in Int /\ k[i] >= 0
          /\ u[i] >= u[i-1] /\ u[i] >= u[i+1]
      BY <2>2, <1>1
    <3> DEFINE uu == u[i]  ul == u[i-1]  ur == u[i+1]  p == b[i]  a == k[i]
    <3>3. /\ uu \in Int /\ ul \in Int /\ ur \in Int /\ p \in Int /\ a \in Int /\ a >= 0
          /\ uu >= ul /\ uu >= ur /\ D*uu + a*(uu - ul) + a*(uu - ur) = D*p
      BY <3>1, <3>2
    <3> HIDE DEF uu, ul, ur, p, a
    <3>4. uu <= p BY <3>3, RowUpper
    <3>5. QED BY <3>4 DEF uu, p
  <2>3. CASE i = N /\ N >= 2
    <3>1. D*u[N] + k[N]*(u[N] - u[N-1]) + 0*(u[N] - u[N]) = D*b[N] BY <2>3 DEF Stencil
    <3>2. /\ u[N] \in Int /\ u[N-1] \in Int /\ b[N] \in Int /\ k[N] \in Int /\ k[N] >= 0
          /\ u[N] >= u[N-1] /\ u[N] >= u[N]
      BY <2>3, <1>1
    <3> DEFINE uu == u[N]  ul == u[N-1]  p == b[N]  a == k[N]
    <3>3. /\ uu \in Int /\ ul \in Int /\ p \in Int /\ a \in Int /\ a >= 0 /\ 0 \in Int /\ 0 >= 0
          /\ uu >= ul /\ uu >= uu /\ D*uu + a*(uu - ul) + 0*(uu - uu) = D*p
      BY <3>1, <3>2
    <3> HIDE DEF uu, ul, p, a
    <3>4. uu <= p BY <3>3, RowUpper
    <3>5. QED BY <3>4, <2>3 DEF uu, p
  <2>4. QED BY <2>1, <2>2, <2>3
<1>3. b[i] <= Hi OBVIOUS
<1>4. QED
  <2>1. TAKE j \in 1..N
  <2>2. u[j] \in Int /\ u[i] \in Int /\ b[i] \in Int /\ u[j] <= u[i] BY <1>1
  <2>3. QED BY <2>2, <1>2, <1>3

(* C01, lower half: no new value is below the smallest right-hand side (with Lo = the frac-face value, which is *)
(* the lowest entry of a profile that started at m_i: "never below the frac-face value"), for every N.         *)
THEOREM MinPrinciple ==
  ASSUME NEW N \in Nat, N >= 1, NEW D \in Int, D > 0,
         NEW k \in [1..N -> Int], \A j \in 1..N : k[j] >= 0,
         NEW b \in [1..N -> Int], NEW u \in [1..N -> Int],
         Stencil(N, D, k, b, u),
         NEW Lo \in Int, \A j \in 1..N : b[j] >= Lo
  PROVE \A j \in 1..N : u[j] >= Lo
<1>1. PICK i \in 1..N : \A j \in 1..N : u[j] >= u[i] BY ArgMin
<1>2. u[i] >= b[i]
  <2>1. CASE i = 1 BY <2>1 DEF Stencil
  <2>2. CASE i \in 2..(N - 1)
    <3>1. D*u[i] + k[i]*(u[i] - u[i-1]) + k[i]*(u[i] - u[i+1]) = D*b[i] BY <2>2 DEF Stencil
    <3>2. /\ u[i] \in Int /\ u[i-1] \in Int /\ u[i+1] \in Int /\ b[i] \in Int /\ k[i] \in Int /\ k[i] >= 0
          /\ u[i] <= u[i-1] /\ u[i] <= u[i+1]
      BY <2>2, <1>1
    <3> DEFINE uu == u[i]  ul == u[i-1]  ur == u[i+1]  p == b[i]  a == k[i]
    <3>3. /\ uu \in Int /\ ul \in Int /\ ur \in Int /\ p \in Int /\ a \in Int /\ a >= 0
          /\ uu <= ul /\ uu <= ur /\ D*uu + a*(uu - ul) + a*(uu - ur) = D*p
      BY <3>1, <3>2
    <3> HIDE DEF uu, ul, ur, p, a
    <3>4. uu >= p BY <3>3, RowLower
    <3>5. QED BY <3>4 DEF uu, p
  <2>3. CASE i = N /\ N >= 2
    <3>1. D*u[N] + k[N]*(u[N] - u[N-1]) + 0*(u[N] - u[N]) = D*b[N] BY <2>3 DEF Stencil
    <3>2. /\ u[N] \in Int /\ u[N-1] \in Int /\ b[N] \in Int /\ k[N] \in Int /\ k[N] >= 0
          /\ u[N] <= u[N-1] /\ u[N] <= u[N]
      BY <2>3, <1>1
    <3> DEFINE uu == u[N]  ul == u[N-1]  p == b[N]  a == k[N]
    <3>3. /\ uu \in Int /\ ul \in Int /\ p \in Int /\ a \in Int /\ a >= 0 /\ 0 \in Int /\ 0 >= 0
          /\ uu <= ul /\ uu <= uu /\ D*uu + a*(uu - ul) + 0*(uu - uu) = D*p
      BY <3>1, <3>2
    <3> HIDE DEF uu, ul, p, a
    <3>4. uu >= p BY <3>3, RowLower
    <3>5. QED BY <3>4, <2>3 DEF uu, p
  <2>4. QED BY <2>1, <2>2, <2>3
<1>3. b[i] >= Lo OBVIOUS
<1>4. QED
  <2>1. TAKE j \in 1..N
  <2>2. u[j] \in Int /\ u[i] \in Int /\ b[i] \in Int /\ u[j] >= u[i] BY <1>1
  <2>3. QED BY <2>2, <1>2, <1>3


(* ---- the ideal-gas class: same stencil in row 1 with ghost value 0 ("ghost0" of Scheme.tla), N >= 2 -------- *)
StencilIdeal(N, D, k, b, u) ==
    /\ D*u[1] + k[1]*(u[1] - 0) + k[1]*(u[1] - u[2]) = D*b[1]
    /\ \A j \in 2..(N - 1) : D*u[j] + k[j]*(u[j] - u[j-1]) + k[j]*(u[j] - u[j+1]) = D*b[j]
    /\ D*u[N] + k[N]*(u[N] - u[N-1]) + 0*(u[N] - u[N]) = D*b[N]

THEOREM MaxPrincipleIdeal ==
  ASSUME NEW N \in Nat, N >= 2, NEW D \in Int, D > 0,
         NEW k \in [1..N -> Int], \A j \in 1..N : k[j] >= 0,
         NEW b \in [1..N -> Int], NEW u \in [1..N -> Int],
         StencilIdeal(N, D, k, b, u),
         NEW Hi \in Int, Hi >= 0, \A j \in 1..N : b[j] <= Hi
  PROVE \A j \in 1..N : u[j] <= Hi
<1>1. PICK i \in 1..N : \A j \in 1..N : u[j] <= u[i] BY ArgMax
<1>2. u[i] <= b[i] \/ u[i] <= 0
  <2>1. CASE i = 1 /\ u[1] > 0
    <3>1. D*u[1] + k[1]*(u[1] - 0) + k[1]*(u[1] - u[2]) = D*b[1] BY DEF StencilIdeal
    <3>2. /\ u[1] \in Int /\ u[2] \in Int /\ b[1] \in Int /\ k[1] \in Int /\ k[1] >= 0
          /\ u[1] >= 0 /\ u[1] >= u[2]
      BY <2>1, <1>1
    <3> DEFINE uu == u[1]  ur == u[2]  p == b[1]  a == k[1]
    <3>3. /\ uu \in Int /\ 0 \in Int /\ ur \in Int /\ p \in Int /\ a \in Int /\ a >= 0
          /\ uu >= 0 /\ uu >= ur /\ D*uu + a*(uu - 0) + a*(uu - ur) = D*p
      BY <3>1, <3>2
    <3> HIDE DEF uu, ur, p, a
    <3>4. uu <= p BY <3>3, RowUpper
    <3>5. QED BY <3>4, <2>1 DEF uu, p
  <2>2. CASE i \in 2..(N - 1)
    <3>1. D*u[i] + k[i]*(u[i] - u[i-1]) + k[i]*(u[i] - u[i+1]) = D*b[i] BY <2>2 DEF StencilIdeal
    <3>2. /\ u[i] \in Int /\ u[i-1] \in Int /\ u[i+1] \in Int /\ b[i] \in Int /\ k[i] \in Int /\ k[i] >= 0
          /\ u[i] >= u[i-1] /\ u[i] >= u[i+1]
      BY <2>2, <1>1
    <3> DEFINE uu == u[i]  ul == u[i-1]  ur == u[i+1]  p == b[i]  a == k[i]
    <3>3. /\ uu \in Int /\ ul \in Int /\ ur \in Int /\ p \in Int /\ a \in Int /\ a >= 0
          /\ uu >= ul /\ uu >= ur /\ D*uu + a*(uu - ul) + a*(uu - ur) = D*p
      BY <3>1, <3>2
    <3> HIDE DEF uu, ul, ur, p, a
    <3>4. uu <= p BY <3>3, RowUpper
    <3>5. QED BY <3>4 DEF uu, p
  <2>3. CASE i = N
    <3>1. D*u[N] + k[N]*(u[N] - u[N-1]) + 0*(u[N] - u[N]) = D*b[N] BY DEF StencilIdeal
    <3>2. /\ u[N] \in Int /\ u[N-1] \in Int /\ b[N] \in Int /\ k[N] \in Int /\ k[N] >= 0
          /\ u[N] >= u[N-1] /\ u[N] >= u[N]
      BY <2>3, <1>1
    <3> DEFINE uu == u[N]  ul == u[N-1]  p == b[N]  a == k[N]
    <3>3. /\ uu \in Int /\ ul \in Int /\ p \in Int /\ a \in Int /\ a >= 0 /\ 0 \in Int /\ 0 >= 0
          /\ uu >= ul /\ uu >= uu /\ D*uu + a*(uu - ul) + 0*(uu - uu) = D*p
      BY <3>1, <3>2
    <3> HIDE DEF uu, ul, p, a
    <3>4. uu <= p BY <3>3, RowUpper
    <3>5. QED BY <3>4, <2>3 DEF uu, p
  <2>4. CASE i = 1 /\ u[1] <= 0 BY <2>4
  <2>5. u[1] \in Int OBVIOUS
  <2>6. QED BY <2>1, <2>2, <2>3, <2>4, <2>5
<1>3. b[i] <= Hi OBVIOUS
<1>4. QED
  <2>1. TAKE j \in 1..N
  <2>2. u[j] \in Int /\ u[i] \in Int /\ b[i] \in Int /\ u[j] <= u[i] BY <1>1
  <2>3. QED BY <2>2, <1>2, <1>3

THEOREM MinPrincipleIdeal ==
  ASSUME NEW N \in Nat, N >= 2, NEW D \in Int, D > 0,
         NEW k \in [1..N -> Int], \A j \in 1..N : k[j] >= 0,
         NEW b \in [1..N -> Int], NEW u \in [1..N -> Int],
         StencilIdeal(N, D, k, b, u),
         NEW Lo \in Int, Lo <= 0, \A j \in 1..N : b[j] >= Lo
  PROVE \A j \in 1..N : u[j] >= Lo
<1>1. PICK i \in 1..N : \A j \in 1..N : u[j] >= u[i] BY ArgMin
<1>2. u[i] >= b[i] \/ u[i] >= 0
  <2>1. CASE i = 1 /\ u[1] < 0
    <3>1. D*u[1] + k[1]*(u[1] - 0) + k[1]*(u[1] - u[2]) = D*b[1] BY DEF StencilIdeal
    <3>2. /\ u[1] \in Int /\ u[2] \in Int /\ b[1] \in Int /\ k[1] \in Int /\ k[1] >= 0
          /\ u[1] <= 0 /\ u[1] <= u[2]
      BY <2>1, <1>1
    <3> DEFINE uu == u[1]  ur == u[2]  p == b[1]  a == k[1]
    <3>3. /\ uu \in Int /\ 0 \in Int /\ ur \in Int /\ p \in Int /\ a \in Int /\ a >= 0
          /\ uu <= 0 /\ uu <= ur /\ D*uu + a*(uu - 0) + a*(uu - ur) = D*p
      BY <3>1, <3>2
    <3> HIDE DEF uu, ur, p, a
    <3>4. uu >= p BY <3>3, RowLower
    <3>5. QED BY <3>4, <2>1 DEF uu, p
  <2>2. CASE i \in 2..(N - 1)
    <3>1. D*u[i] + k[i]*(u[i] - u[i-1]) + k[i]*(u[i] - u[i+1]) = D*b[i] BY <2>2 DEF StencilIdeal
    <3>2. /\ u[i] \in Int /\ u[i-1] \in Int /\ u[i+1] \in Int /\ b[i] \in Int /\ k[i] \in Int /\ k[i] >= 0
          /\ u[i] <= u[i-1] /\ u[i] <= u[i+1]
      BY <2>2, <1>1
    <3> DEFINE uu == u[i]  ul == u[i-1]  ur == u[i+1]  p == b[i]  a == k[i]
    <3>3. /\ uu \in Int /\ ul \in Int /\ ur \in Int /\ p \in Int /\ a \in Int /\ a >= 0
          /\ uu <= ul /\ uu <= ur /\ D*uu + a*(uu - ul) + a*(uu - ur) = D*p
      BY <3>1, <3>2
    <3> HIDE DEF uu, ul, ur, p, a
    <3>4. uu >= p BY <3>3, RowLower
    <3>5. QED BY <3>4 DEF uu, p
  <2>3. CASE i = N
    <3>1. D*u[N] + k[N]*(u[N] - u[N-1]) + 0*(u[N] - u[N]) = D*b[N] BY DEF StencilIdeal
    <3>2. /\ u[N] \in Int /\ u[N-1] \in Int /\ b[N] \in Int /\ k[N] \in Int /\ k[N] >= 0
          /\ u[N] <= u[N-1] /\ u[N] <= u[N]
      BY <2>3, <1>1
    <3> DEFINE uu == u[N]  ul == u[N-1]  p == b[N]  a == k[N]
    <3>3. /\ uu \in Int /\ ul \in Int /\ p \in Int /\ a \in Int /\ a >= 0 /\ 0 \in Int /\ 0 >= 0
          /\ uu <= ul /\ uu <= uu /\ D*uu + a*(uu - ul) + 0*(uu - uu) = D*p
      BY <3>1, <3>2
    <3> HIDE DEF uu, ul, p, a
    <3>4. uu >= p BY <3>3, RowLower
    <3>5. QED BY <3>4, <2>3 DEF uu, p
  <2>4. CASE i = 1 /\ u[1] >= 0 BY <2>4
  <2>5. u[1] \in Int OBVIOUS
  <2>6. QED BY <2>1, <2>2, <2>3, <2>4, <2>5
<1>3. b[i] >= Lo OBVIOUS
<1>4. QED
  <2>1. TAKE j \in 1..N
  <2>2. u[j] \in Int /\ u[i] \in Int /\ b[i] \in Int /\ u[j] >= u[i] BY <1>1
  <2>3. QED BY <2>2, <1>2, <1>3


(* ---- monotone profiles stay monotone (C01 MonoX), for every N ----------------------------------------------- *)
(* The differences w[j] = u[j+1] - u[j] satisfy a stencil of the same kind (subtract row j from row j+1):          *)
(*   D w[j] + k[j+1] (w[j] - w[j+1]) + k[j] (w[j] - w[j-1]) = D (b[j+1] - b[j]),                                    *)
(* with k[1] = 0 on the Dirichlet side and ghost difference 0 beyond the no-flow node, so the smallest difference   *)
(* is at least the smallest difference of the right-hand side.                                                      *)
LEMMA DiffInterior ==
  ASSUME NEW D \in Int, D > 0, NEW cL \in Int, cL >= 0, NEW kR \in Int, kR >= 0,
         NEW um \in Int, NEW u0 \in Int, NEW u1 \in Int, NEW u2 \in Int, NEW b0 \in Int, NEW b1 \in Int,
         D*u0 + cL*(u0 - um) + cL*(u0 - u1) = D*b0,
         D*u1 + kR*(u1 - u0) + kR*(u1 - u2) = D*b1,
         u1 - u0 <= u2 - u1, u1 - u0 <= u0 - um, b0 <= b1
  PROVE u1 - u0 >= 0
<1> DEFINE w == u1 - u0  wr == u2 - u1  wl == u0 - um  db == b1 - b0
<1>1. w \in Int /\ wr \in Int /\ wl \in Int /\ db \in Int /\ w <= wr /\ w <= wl /\ db >= 0 OBVIOUS
<1>2. D*w + kR*(w - wr) + cL*(w - wl) = D*db
  <2>1. D*w = D*u1 - D*u0 BY Distrib
  <2>2. kR*(w - wr) = kR*(u1 - u0) + kR*(u1 - u2)
    <3>1. w - wr = (u1 - u0) + (u1 - u2) OBVIOUS
    <3>2. kR*((u1 - u0) + (u1 - u2)) = kR*(u1 - u0) + kR*(u1 - u2) OBVIOUS
    <3>3. QED BY <3>1, <3>2
  <2>3. cL*(w - wl) = 0 - cL*(u0 - u1) - cL*(u0 - um)
    <3>1. w - wl = 0 - (u0 - u1) - (u0 - um) OBVIOUS
    <3>2. cL*(0 - (u0 - u1) - (u0 - um)) = 0 - cL*(u0 - u1) - cL*(u0 - um) OBVIOUS
    <3>3. QED BY <3>1, <3>2
  <2>4. D*db = D*b1 - D*b0 BY Distrib
  <2>5. QED BY <2>1, <2>2, <2>3, <2>4
<1> HIDE DEF w, wr, wl, db
<1>3. w >= db BY ONLY <1>1, <1>2, D \in Int, D > 0, kR \in Int, kR >= 0, cL \in Int, cL >= 0, RowLower
<1>4. QED BY <1>1, <1>3 DEF w

LEMMA DiffLast ==
  ASSUME NEW D \in Int, D > 0, NEW cL \in Int, cL >= 0, NEW kR \in Int, kR >= 0,
         NEW um \in Int, NEW u0 \in Int, NEW u1 \in Int, NEW b0 \in Int, NEW b1 \in Int,
         D*u0 + cL*(u0 - um) + cL*(u0 - u1) = D*b0,
         D*u1 + kR*(u1 - u0) + 0*(u1 - u1) = D*b1,
         u1 - u0 <= u0 - um, b0 <= b1
  PROVE u1 - u0 >= 0
<1> DEFINE w == u1 - u0  wl == u0 - um  db == b1 - b0
<1>0. SUFFICES ASSUME w < 0 PROVE FALSE BY DEF w
<1>1. w \in Int /\ wl \in Int /\ db \in Int /\ 0 \in Int /\ w <= 0 /\ w <= wl /\ db >= 0 BY <1>0
<1>2. D*w + kR*(w - 0) + cL*(w - wl) = D*db
  <2>1. D*w = D*u1 - D*u0 BY Distrib
  <2>2. kR*(w - 0) = kR*(u1 - u0) OBVIOUS
  <2>3. cL*(w - wl) = 0 - cL*(u0 - u1) - cL*(u0 - um)
    <3>1. w - wl = 0 - (u0 - u1) - (u0 - um) OBVIOUS
    <3>2. cL*(0 - (u0 - u1) - (u0 - um)) = 0 - cL*(u0 - u1) - cL*(u0 - um) OBVIOUS
    <3>3. QED BY <3>1, <3>2
  <2>4. D*db = D*b1 - D*b0 BY Distrib
  <2>5. 0*(u1 - u1) = 0 OBVIOUS
  <2>6. QED BY <2>1, <2>2, <2>3, <2>4, <2>5
<1> HIDE DEF w, wl, db
<1>3. w >= db BY ONLY <1>1, <1>2, D \in Int, D > 0, kR \in Int, kR >= 0, cL \in Int, cL >= 0, RowLower
<1>4. QED BY ONLY <1>0, <1>1, <1>3


THEOREM MonoX ==
  ASSUME NEW N \in Nat, N >= 2, NEW D \in Int, D > 0,
         NEW k \in [1..N -> Int], \A j \in 1..N : k[j] >= 0,
         NEW b \in [1..N -> Int], NEW u \in [1..N -> Int],
         Stencil(N, D, k, b, u),
         \A j \in 1..(N - 1) : b[j] <= b[j + 1]
  PROVE \A j \in 1..(N - 1) : u[j] <= u[j + 1]
<1> DEFINE M == N - 1
<1> DEFINE w == [j \in 1..M |-> u[j + 1] - u[j]]
<1>1. M \in Nat /\ M >= 1 /\ w \in [1..M -> Int] OBVIOUS
<1>2. PICK i \in 1..M : \A j \in 1..M : w[j] >= w[i]
  <2> HIDE DEF w, M
  <2> QED BY <1>1, ArgMin
<1>3. i \in 1..(N - 1) /\ i + 1 \in 1..N /\ u[i] \in Int /\ u[i + 1] \in Int /\ b[i] \in Int /\ b[i + 1] \in Int
      /\ b[i] <= b[i + 1] /\ k[i + 1] \in Int /\ k[i + 1] >= 0 /\ w[i] = u[i + 1] - u[i]
  OBVIOUS
<1>4. u[i + 1] - u[i] >= 0
  <2>1. CASE i = 1 /\ i + 1 = N
    <3> DEFINE u0 == u[1]  u1 == u[2]  um == u[1] - (u[2] - u[1])  b0 == b[1]  b1 == b[2]  kR == k[2]
    <3>1. /\ um \in Int /\ u0 \in Int /\ u1 \in Int /\ b0 \in Int /\ b1 \in Int /\ kR \in Int /\ kR >= 0 /\ 0 \in Int /\ 0 >= 0
          /\ D*u0 + 0*(u0 - um) + 0*(u0 - u1) = D*b0
          /\ D*u1 + kR*(u1 - u0) + 0*(u1 - u1) = D*b1
          /\ u1 - u0 <= u0 - um /\ b0 <= b1
      BY <2>1, <1>3 DEF Stencil
    <3> HIDE DEF u0, u1, um, b0, b1, kR
    <3>2. u1 - u0 >= 0 BY ONLY <3>1, D \in Int, D > 0, DiffLast
    <3>3. QED BY <3>2, <2>1 DEF u0, u1
  <2>2. CASE i = 1 /\ i + 1 < N
    <3> DEFINE u0 == u[1]  u1 == u[2]  u2 == u[3]  um == u[1] - (u[2] - u[1])  b0 == b[1]  b1 == b[2]  kR == k[2]
    <3>0. 2 \in 2..(N - 1) /\ 2 \in 1..M /\ w[2] = u[3] - u[2] /\ w[1] = u[2] - u[1] /\ w[2] >= w[1] BY <2>2, <1>2
    <3>1. /\ um \in Int /\ u0 \in Int /\ u1 \in Int /\ u2 \in Int /\ b0 \in Int /\ b1 \in Int /\ kR \in Int /\ kR >= 0 /\ 0 \in Int /\ 0 >= 0
          /\ D*u0 + 0*(u0 - um) + 0*(u0 - u1) = D*b0
          /\ D*u1 + kR*(u1 - u0) + kR*(u1 - u2) = D*b1
          /\ u1 - u0 <= u2 - u1 /\ u1 - u0 <= u0 - um /\ b0 <= b1
      BY <2>2, <1>3, <3>0 DEF Stencil
    <3> HIDE DEF u0, u1, u2, um, b0, b1, kR
    <3>2. u1 - u0 >= 0 BY ONLY <3>1, D \in Int, D > 0, DiffInterior
    <3>3. QED BY <3>2, <2>2 DEF u0, u1
  <2>3. CASE i >= 2 /\ i + 1 = N
    <3> DEFINE u0 == u[i]  u1 == u[i + 1]  um == u[i - 1]  b0 == b[i]  b1 == b[i + 1]  kR == k[i + 1]  cL == k[i]
    <3>0. i \in 2..(N - 1) /\ i - 1 \in 1..M /\ w[i - 1] = u[i] - u[i - 1] /\ w[i - 1] >= w[i] /\ u[i - 1] \in Int
          /\ k[i] \in Int /\ k[i] >= 0
      BY <2>3, <1>2
    <3>1. /\ um \in Int /\ u0 \in Int /\ u1 \in Int /\ b0 \in Int /\ b1 \in Int /\ kR \in Int /\ kR >= 0 /\ cL \in Int /\ cL >= 0
          /\ D*u0 + cL*(u0 - um) + cL*(u0 - u1) = D*b0
          /\ D*u1 + kR*(u1 - u0) + 0*(u1 - u1) = D*b1
          /\ u1 - u0 <= u0 - um /\ b0 <= b1
      BY <2>3, <1>3, <3>0 DEF Stencil
    <3> HIDE DEF u0, u1, um, b0, b1, kR, cL
    <3>2. u1 - u0 >= 0 BY ONLY <3>1, D \in Int, D > 0, DiffLast
    <3>3. QED BY <3>2 DEF u0, u1
  <2>4. CASE i >= 2 /\ i + 1 < N
    <3> DEFINE u0 == u[i]  u1 == u[i + 1]  u2 == u[i + 2]  um == u[i - 1]  b0 == b[i]  b1 == b[i + 1]  kR == k[i + 1]  cL == k[i]
    <3>0. /\ i \in 2..(N - 1) /\ i + 1 \in 2..(N - 1) /\ i - 1 \in 1..M /\ i + 1 \in 1..M
          /\ w[i - 1] = u[i] - u[i - 1] /\ w[i - 1] >= w[i] /\ u[i - 1] \in Int
          /\ w[i + 1] = u[i + 2] - u[i + 1] /\ w[i + 1] >= w[i] /\ u[i + 2] \in Int
          /\ k[i] \in Int /\ k[i] >= 0
      BY <2>4, <1>2
    <3>1. /\ um \in Int /\ u0 \in Int /\ u1 \in Int /\ u2 \in Int /\ b0 \in Int /\ b1 \in Int /\ kR \in Int /\ kR >= 0 /\ cL \in Int /\ cL >= 0
          /\ D*u0 + cL*(u0 - um) + cL*(u0 - u1) = D*b0
          /\ D*u1 + kR*(u1 - u0) + kR*(u1 - u2) = D*b1
          /\ u1 - u0 <= u2 - u1 /\ u1 - u0 <= u0 - um /\ b0 <= b1
      BY <2>4, <1>3, <3>0 DEF Stencil
    <3> HIDE DEF u0, u1, u2, um, b0, b1, kR, cL
    <3>2. u1 - u0 >= 0 BY ONLY <3>1, D \in Int, D > 0, DiffInterior
    <3>3. QED BY <3>2 DEF u0, u1
  <2>5. QED BY <2>1, <2>2, <2>3, <2>4, <1>3
<1>5. QED
  <2>1. TAKE j \in 1..(N - 1)
  <2>2. j \in 1..M /\ w[j] = u[j + 1] - u[j] /\ w[j] >= w[i] /\ u[j] \in Int /\ u[j + 1] \in Int BY <1>2
  <2>3. QED BY <2>2, <1>3, <1>4

==================================================================================
