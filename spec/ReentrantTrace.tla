------------------------------- MODULE ReentrantTrace -------------------------------
(* Code -> spec for the re-entrancy contract of Reentrant.tla.                                             *)
(* One execution (tid) = one batch of real threads calling library functions at the same time.  The       *)
(* harness logs, under one lock and with one sequence counter,                                            *)
(*   call [th, aid]            thread th is about to call task aid (a function with its arguments)         *)
(*   ret  [th, aid, same, err] the call returned; same = the value is bit-identical to the value the same *)
(*                             task returned when it ran alone before the threads were started; err = it  *)
(*                             raised (and the lone run did not, or another exception type)               *)
(* The trace is replayed through the design's Begin and Finish/Return steps; `same = FALSE` is a result   *)
(* that is not F(arg): exactly the state `ReturnsOwn` forbids.  Clauses:                                   *)
(*   Pairing     a thread returns from the call it began, and begins only when idle (harness sanity)       *)
(*   ReturnsOwn  the returned value is the function of the call's own arguments                            *)
(*   NoRaise     a call that succeeds alone does not raise under concurrency                               *)
EXTENDS Reentrant, TraceLib

VARIABLES l, cur
tvars == <<vars, l, cur>>

TInit == Init /\ l = 1 /\ cur = -1

Unless(ok, clause) == IF ok THEN {} ELSE {clause}

Reset == /\ pc' = [t \in Threads |-> "idle"] /\ arg' = [t \in Threads |-> None] /\ local' = [t \in Threads |-> None]
         /\ result' = [t \in Threads |-> None]

TCall(e) ==
    IF e.tid = cur /\ pc[e.th] = "idle"
    THEN Report(e, {}) /\ Begin(e.th, e.aid) /\ cur' = cur
    ELSE /\ Report(e, Unless(e.tid # cur \/ pc[e.th] = "idle", "Pairing")
                      \cup Unless(e.tid = cur \/ \A t \in Threads : pc[t] = "idle", "Unfinished"))
         /\ pc' = [t \in Threads |-> IF t = e.th THEN "filled" ELSE IF e.tid = cur THEN pc[t] ELSE "idle"]
         /\ arg' = [t \in Threads |-> IF t = e.th THEN e.aid ELSE IF e.tid = cur THEN arg[t] ELSE None]
         /\ local' = [t \in Threads |-> IF t = e.th THEN F(e.aid) ELSE IF e.tid = cur THEN local[t] ELSE None]
         /\ cur' = e.tid
         /\ UNCHANGED <<shared, memo, ncalls, result, done>>

\* Finish and Return of the design in one logged step; the value handed back is what the code returned
TRet(e) ==
    LET paired == e.tid = cur /\ pc[e.th] \in {"filled", "iter"} /\ arg[e.th] = e.aid
        value == IF e.same THEN F(e.aid) ELSE None
    IN  /\ Report(e, Unless(paired, "Pairing")
                     \cup Unless(~paired \/ value = ReadBack(e.th), "ReturnsOwn")
                     \cup Unless(~e.err, "NoRaise"))
        /\ result' = [result EXCEPT ![e.th] = value]
        /\ pc' = [pc EXCEPT ![e.th] = "idle"]
        /\ done' = done + 1
        /\ cur' = cur
        /\ UNCHANGED <<arg, local, shared, memo, ncalls>>

TNext == /\ l <= Len(Trace)
         /\ LET e == Trace[l] IN IF e.ev = "call" THEN TCall(e) ELSE TRet(e)
         /\ l' = l + 1

TraceSpec == TInit /\ [][TNext]_tvars
TraceAccepted == TLCGet("stats").diameter = Len(Trace) + 1
=============================================================================
