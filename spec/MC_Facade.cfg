SPECIFICATION Spec
CONSTANT Deviation = "none"
CONSTANT Export = TRUE
INVARIANT WiringIsByName
INVARIANT WiringArity
INVARIANT CallArgsAllUsed
INVARIANT DistinctValuesExpose
INVARIANT HidesIffShared
INVARIANT GridIsArange
INVARIANT GridExclusive
INVARIANT GridStartsAt10
INVARIANT GridComplete
INVARIANT GridEmptyBelow
INVARIANT PseudoStartsAt0
INVARIANT PseudoIncreasing
INVARIANT PseudoFactorInside
INVARIANT ReducesToHydrocarbon
INVARIANT ZeroFractionInert
INVARIANT ZeroFractionSamePoint
INVARIANT DrynessRule
INVARIANT ExportCase
INVARIANT ExportRules
CHECK_DEADLOCK FALSE
