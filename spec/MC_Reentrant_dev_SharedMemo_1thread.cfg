SPECIFICATION Spec
CONSTANT Threads = {1}
CONSTANT Args = {1, 2}
CONSTANT MaxCalls = 4
CONSTANT Deviation = "SharedMemo"
INVARIANT ReturnsOwn
CHECK_DEADLOCK FALSE
