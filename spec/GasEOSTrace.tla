------------------------------- MODULE GasEOSTrace -------------------------------
(* Classification of recorded points of the real code against the explanation table of GasEOS.tla (code -> spec). *)
(* Events: [tid, seq, kind ("z" | "hy" | "cg"), o (the integer observation record of that kind)].  For every event  *)
(* TLC evaluates Explain(kind, clause, o) for every clause of that kind and prints the clauses that open finding   *)
(* D6 explains at this very point, as {"tag":"VERDICT","tid","seq","keys":{clause: key}}.  The harness hands a key  *)
(* to ctx.violation only if this run of TLC printed it for that (tid, seq, clause); the thresholds never leave     *)
(* TLA+.  The spec is total (every line is consumed); acceptance is the usual diameter postcondition.              *)
EXTENDS GasEOS, TraceLib

VARIABLE l
cvars == <<l>>

KeysOf(e) == LET S == {cl \in ClausesOf(e.kind) : Explain(e.kind, cl, e.o) # NoKey}
             IN  [cl \in S |-> Explain(e.kind, cl, e.o)]

CInit == l = 1
CNext == /\ l <= Len(Trace)
         /\ LET e == Trace[l]
                k == KeysOf(e)
            IN  IF DOMAIN k = {} THEN TRUE
                ELSE PrintT(ToJson([tag |-> "VERDICT", tid |-> e.tid, seq |-> e.seq, keys |-> k]))
         /\ l' = l + 1
TraceSpec == CInit /\ [][CNext]_cvars
TraceAccepted == TLCGet("stats").diameter = Len(Trace) + 1
=============================================================================
