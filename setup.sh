#!/bin/sh
# Offline setup: nothing to build; verify the tools and parse every specification.
cd "$(dirname "$0")" || exit 2
set -e
command -v java >/dev/null
test -f /opt/veriftools/tla/tla2tools.jar
/venv/bin/python -c "import sys; sys.path.insert(0,'/repo/src'); import bluebonnet, numpy, scipy, pandas, lmfit, matplotlib, hypothesis, jsonschema; print('python ok', bluebonnet.__file__)"
mkdir -p .work evidence artifacts
fail=0
cd spec
for f in *.tla; do
  out=$(java -cp /opt/veriftools/tla/tla2tools.jar:/opt/veriftools/tla/CommunityModules-deps.jar tla2sany.SANY "$f" 2>&1) || true
  if echo "$out" | grep -q -E "Parse Error|Semantic errors|\*\*\* Errors|Could not"; then echo "SANY rejects $f"; echo "$out" | tail -20; fail=1; fi
done
# the TLAPS proof module needs the proof system's standard library on the path (parsed only when that library is installed)
TLAPSLIB=/opt/veriftools/tlapm/lib/tlapm/stdlib
if [ -d "$TLAPSLIB" ]; then
  out=$(cd tlaps && java -DTLA-Library="$TLAPSLIB" -cp /opt/veriftools/tla/tla2tools.jar:/opt/veriftools/tla/CommunityModules-deps.jar tla2sany.SANY MaxPrincipleProof.tla 2>&1) || true
  if echo "$out" | grep -q -E "Parse Error|Semantic errors|\*\*\* Errors|Could not"; then echo "SANY rejects tlaps/MaxPrincipleProof.tla"; echo "$out" | tail -20; fail=1; fi
fi
cd ..
[ $fail -eq 0 ] && echo "setup ok: all specifications parse"
exit $fail
